package main

import (
	"encoding/json"
	"fmt"
	"go/ast"
	"go/token"
	"go/types"
	"os"
	"path/filepath"
	"sort"
	"strings"
	"time"

	"golang.org/x/tools/go/callgraph"
	"golang.org/x/tools/go/callgraph/cha"
	"golang.org/x/tools/go/callgraph/vta"
	"golang.org/x/tools/go/packages"
	"golang.org/x/tools/go/ssa"
	"golang.org/x/tools/go/ssa/ssautil"
)

const modPath = "github.com/evanw/esbuild"

// Prog is the loaded, type-checked and SSA-built program for one build configuration.
type Prog struct {
	Config    string // e.g. linux/amd64
	Dir       string
	Fset      *token.FileSet
	Pkgs      []*packages.Package
	ByPath    map[string]*packages.Package
	SSA       *ssa.Program
	SSAPkg    map[string]*ssa.Package
	AllFuncs  map[*ssa.Function]bool
	cg        *callgraph.Graph
	funcOf    map[token.Pos]*ssa.Function // FuncDecl/FuncLit pos -> ssa function
	addrTaken map[*ssa.Function]bool
}

func repoDir() string {
	if d := os.Getenv("VERIF_REPO"); d != "" {
		return d
	}
	return "/repo"
}

// Load loads all packages of the module under dir for the given GOOS/GOARCH.
func Load(dir, goos, goarch string) (*Prog, error) {
	env := os.Environ()
	filtered := env[:0:0]
	for _, e := range env {
		if strings.HasPrefix(e, "GOWORK=") || strings.HasPrefix(e, "GOOS=") || strings.HasPrefix(e, "GOARCH=") || strings.HasPrefix(e, "GOFLAGS=") {
			continue
		}
		filtered = append(filtered, e)
	}
	filtered = append(filtered, "GOWORK=off", "GOFLAGS=-mod=mod", "GOPROXY=off", "GOSUMDB=off", "GOTOOLCHAIN=local", "CGO_ENABLED=0")
	if goos != "" {
		filtered = append(filtered, "GOOS="+goos, "GOARCH="+goarch)
	}
	cfg := &packages.Config{
		Mode:  packages.LoadAllSyntax,
		Dir:   dir,
		Env:   filtered,
		Tests: false,
	}
	pkgs, err := packages.Load(cfg, "./...")
	if err != nil {
		return nil, fmt.Errorf("packages.Load: %v", err)
	}
	var errs []string
	packages.Visit(pkgs, nil, func(p *packages.Package) {
		for _, e := range p.Errors {
			errs = append(errs, e.Error())
		}
	})
	if len(errs) > 0 {
		if len(errs) > 10 {
			errs = errs[:10]
		}
		return nil, fmt.Errorf("type/load errors: %s", strings.Join(errs, "; "))
	}
	p := &Prog{Config: goos + "/" + goarch, Dir: dir, Pkgs: pkgs, ByPath: map[string]*packages.Package{}, SSAPkg: map[string]*ssa.Package{}}
	if goos == "" {
		p.Config = "default"
	}
	n := 0
	for _, pk := range pkgs {
		if strings.HasPrefix(pk.PkgPath, modPath) {
			n++
		}
		p.ByPath[pk.PkgPath] = pk
		p.Fset = pk.Fset
	}
	if n < 20 {
		return nil, fmt.Errorf("only %d module packages loaded from %s (expected >= 20)", n, dir)
	}
	prog, spkgs := ssautil.AllPackages(pkgs, ssa.InstantiateGenerics)
	prog.Build()
	p.SSA = prog
	for i, sp := range spkgs {
		if sp != nil {
			p.SSAPkg[pkgs[i].PkgPath] = sp
		}
	}
	// also index dependency packages
	for _, sp := range prog.AllPackages() {
		if _, ok := p.SSAPkg[sp.Pkg.Path()]; !ok {
			p.SSAPkg[sp.Pkg.Path()] = sp
		}
	}
	p.AllFuncs = ssautil.AllFunctions(prog)
	p.funcOf = map[token.Pos]*ssa.Function{}
	for fn := range p.AllFuncs {
		if fn.Syntax() != nil {
			p.funcOf[fn.Syntax().Pos()] = fn
		}
	}
	return p, nil
}

// CallGraph returns the VTA call graph refined from CHA (built lazily).
func (p *Prog) CallGraph() *callgraph.Graph {
	if p.cg == nil {
		p.cg = vta.CallGraph(p.AllFuncs, cha.CallGraph(p.SSA))
	}
	return p.cg
}

func shortPkg(path string) string {
	path = strings.TrimPrefix(path, modPath+"/")
	path = strings.TrimPrefix(path, "internal/")
	return path
}

// FuncName returns a stable semantic name: pkg.(Recv).Name or pkg.Name$1 for closures.
func FuncName(fn *ssa.Function) string {
	if fn == nil {
		return "<nil>"
	}
	if fn.Parent() != nil {
		// closure: parent name + $ suffix from ssa name
		n := fn.Name()
		if i := strings.LastIndex(n, "$"); i >= 0 {
			return FuncName(fn.Parent()) + n[i:]
		}
		return FuncName(fn.Parent()) + "$" + n
	}
	pk := ""
	if fn.Pkg != nil {
		pk = shortPkg(fn.Pkg.Pkg.Path())
	} else if fn.Object() != nil && fn.Object().Pkg() != nil {
		pk = shortPkg(fn.Object().Pkg().Path())
	}
	if recv := fn.Signature.Recv(); recv != nil {
		t := recv.Type()
		ptr := ""
		if pt, ok := t.(*types.Pointer); ok {
			t = pt.Elem()
			ptr = "*"
		}
		tn := t.String()
		if nt, ok := t.(*types.Named); ok {
			tn = nt.Obj().Name()
		}
		return fmt.Sprintf("%s.(%s%s).%s", pk, ptr, tn, fn.Name())
	}
	return pk + "." + fn.Name()
}

// TopFunc returns the outermost enclosing function.
func TopFunc(fn *ssa.Function) *ssa.Function {
	for fn.Parent() != nil {
		fn = fn.Parent()
	}
	return fn
}

func (p *Prog) Pos(pos token.Pos) string {
	if !pos.IsValid() {
		return "-"
	}
	ps := p.Fset.Position(pos)
	rel, err := filepath.Rel(p.Dir, ps.Filename)
	if err != nil || strings.HasPrefix(rel, "..") {
		rel = ps.Filename
	}
	return fmt.Sprintf("%s:%d", rel, ps.Line)
}

func (p *Prog) InModule(fn *ssa.Function) bool {
	if fn == nil {
		return false
	}
	fn = TopFunc(fn)
	if fn.Pkg == nil {
		if o := fn.Object(); o != nil && o.Pkg() != nil {
			return strings.HasPrefix(o.Pkg().Path(), modPath)
		}
		return false
	}
	return strings.HasPrefix(fn.Pkg.Pkg.Path(), modPath)
}

func pkgPathOf(fn *ssa.Function) string {
	fn = TopFunc(fn)
	if fn.Pkg != nil {
		return fn.Pkg.Pkg.Path()
	}
	if o := fn.Object(); o != nil && o.Pkg() != nil {
		return o.Pkg().Path()
	}
	return ""
}

// ModuleFuncs returns all source functions (incl. closures) of the module, sorted by name.
func (p *Prog) ModuleFuncs() []*ssa.Function {
	var out []*ssa.Function
	for fn := range p.AllFuncs {
		if p.InModule(fn) && fn.Blocks != nil && fn.Synthetic == "" {
			out = append(out, fn)
		}
	}
	sort.Slice(out, func(i, j int) bool {
		a, b := FuncName(out[i]), FuncName(out[j])
		if a != b {
			return a < b
		}
		return out[i].Pos() < out[j].Pos()
	})
	return out
}

// FindFunc finds a function by its semantic name (see FuncName).
func (p *Prog) FindFunc(name string) *ssa.Function {
	for fn := range p.AllFuncs {
		if p.InModule(fn) && fn.Synthetic == "" && FuncName(fn) == name {
			return fn
		}
	}
	return nil
}

// FuncForNode returns the ssa function for a FuncDecl or FuncLit.
func (p *Prog) FuncForNode(n ast.Node) *ssa.Function {
	return p.funcOf[n.Pos()]
}

// ---------------------------------------------------------------------------------------------
// Reporting

type Violation struct {
	Rule string `json:"rule"`
	Key  string `json:"key"`
	Pos  string `json:"pos"`
	Msg  string `json:"msg"`
	// filled when matched with a known finding
	Known bool `json:"known,omitempty"`
}

type RuleResult struct {
	Name        string          `json:"rule"`
	Doc         string          `json:"doc"`
	Instances   int             `json:"instances"`
	Obligations int             `json:"obligations"`
	Discharged  int             `json:"discharged"`
	Exceptions  int             `json:"exceptions_used"`
	Nontrivial  map[string]bool `json:"-"`
	NontrivialN int             `json:"distinct_nontrivial"`
	Samples     []string        `json:"samples"`
	Notes       []string        `json:"notes,omitempty"`
	Stale       []string        `json:"stale_exceptions,omitempty"`
	Violations  []Violation     `json:"violations,omitempty"`
	usedExc     map[string]bool
	prop        string
}

func NewRule(name, doc string) *RuleResult {
	return &RuleResult{Name: name, Doc: doc, Nontrivial: map[string]bool{}, usedExc: map[string]bool{}}
}

// OK records a discharged obligation. key must be a semantic identity; nontrivial says whether the
// discharge needed more than a constant/literal argument.
func (r *RuleResult) OK(key string, nontrivial bool, witness string) {
	r.Obligations++
	r.Discharged++
	if nontrivial {
		r.Nontrivial[key] = true
	}
	if witness != "" && len(r.Samples) < 6 {
		r.Samples = append(r.Samples, key+" :: "+witness)
	}
	if dumpAll {
		fmt.Printf("  ok  [%s] %s :: %s\n", r.Name, key, witness)
	}
}

var dumpAll = os.Getenv("VERIF_DUMP") == "all"

// Exc records an obligation discharged by a reviewed exception.
func (r *RuleResult) Exc(key, reason string) {
	r.Obligations++
	r.Discharged++
	r.Exceptions++
	r.usedExc[key] = true
	r.Nontrivial[key] = true
	if len(r.Notes) < 60 {
		r.Notes = append(r.Notes, "exception "+key+": "+reason)
	}
}

func (r *RuleResult) Fail(key, pos, msg string) {
	r.Obligations++
	r.Violations = append(r.Violations, Violation{Rule: r.Name, Key: key, Pos: pos, Msg: msg})
}

func (r *RuleResult) Note(format string, a ...interface{}) {
	r.Notes = append(r.Notes, fmt.Sprintf(format, a...))
}

// Floor fails the rule if it found fewer instances than the hand-confirmed floor.
func (r *RuleResult) Floor(n int) {
	if r.Instances < n {
		r.Fail(r.Name+"/floor", "-", fmt.Sprintf("rule went blind: %d instances found, floor is %d", r.Instances, n))
	}
}

// Anchor fails the rule when a required anchor is missing.
func (r *RuleResult) Anchor(name string, found bool) bool {
	if !found {
		r.Fail(r.Name+"/anchor "+name, "-", "anchor not found: "+name+" (rule cannot be decided; update the table if the code moved)")
	}
	return found
}

// renamed re-labels a rule result so that one analysis can serve as a rule of several properties.
func renamed(r *RuleResult, name, doc string) *RuleResult {
	old := r.Name
	r.Name = name
	r.Doc = doc
	for i := range r.Violations {
		r.Violations[i].Rule = name
	}
	_ = old
	return r
}

// Exception tables: map key -> reason.
type ExcTable map[string]string

func (r *RuleResult) CheckExc(t ExcTable, key string) bool {
	if reason, ok := t[key]; ok {
		r.Exc(key, reason)
		return true
	}
	return false
}

func (r *RuleResult) StaleCheck(t ExcTable) {
	var keys []string
	for k := range t {
		if !r.usedExc[k] {
			keys = append(keys, k)
		}
	}
	sort.Strings(keys)
	r.Stale = append(r.Stale, keys...)
}

type KnownFinding struct {
	Property string `json:"property"`
	Rule     string `json:"rule"`
	Key      string `json:"key"`
	Status   string `json:"status"` // known | fixed
	Commit   string `json:"commit,omitempty"`
	What     string `json:"what"`
	Demo     string `json:"demo,omitempty"`
}

func verifDir() string {
	if d := os.Getenv("VERIF_DIR"); d != "" {
		return d
	}
	exe, err := os.Executable()
	if err == nil {
		d := filepath.Dir(filepath.Dir(exe))
		if _, err := os.Stat(filepath.Join(d, "properties.jsonl")); err == nil {
			return d
		}
	}
	return "/verif"
}

func loadKnown() ([]KnownFinding, error) {
	b, err := os.ReadFile(filepath.Join(verifDir(), "known_findings.json"))
	if err != nil {
		return nil, err
	}
	var doc struct {
		Findings []KnownFinding `json:"findings"`
	}
	if err := json.Unmarshal(b, &doc); err != nil {
		return nil, err
	}
	return doc.Findings, nil
}

type PropertyRun struct {
	ID          string
	Tier        string
	Explanation string
	Assumptions []string
	Rules       []*RuleResult
	Configs     []string
	Packages    int
	Functions   int
}

// Finish writes evidence, prints KNOWN-FINDING/VIOLATION lines and returns the exit code.
func (pr *PropertyRun) Finish(start time.Time) int {
	known, err := loadKnown()
	if err != nil {
		fmt.Printf("cannot load known findings: %v\n", err)
		known = nil
	}
	vd := verifDir()
	os.MkdirAll(filepath.Join(vd, "evidence", "violations"), 0o755)
	// clear old violation files for this property
	old, _ := filepath.Glob(filepath.Join(vd, "evidence", "violations", pr.ID+"-*.json"))
	for _, f := range old {
		os.Remove(f)
	}
	obligations, discharged, exceptions, instances := 0, 0, 0, 0
	nontrivial := map[string]bool{}
	var samples []interface{}
	nviol, nknown := 0, 0
	seenViol := map[string]bool{}
	for _, r := range pr.Rules {
		// dedupe violations by key
		var vs []Violation
		for _, v := range r.Violations {
			k := r.Name + "|" + v.Key
			if seenViol[k] {
				continue
			}
			seenViol[k] = true
			vs = append(vs, v)
		}
		sort.SliceStable(vs, func(i, j int) bool { return vs[i].Key < vs[j].Key })
		r.Violations = vs
		r.NontrivialN = len(r.Nontrivial)
		obligations += r.Obligations
		discharged += r.Discharged
		exceptions += r.Exceptions
		instances += r.Instances
		for k := range r.Nontrivial {
			nontrivial[r.Name+"|"+k] = true
		}
		for i, s := range r.Samples {
			if i < 3 {
				samples = append(samples, map[string]string{"rule": r.Name, "obligation": s, "verdict": "discharged"})
			}
		}
		for i := range r.Violations {
			v := &r.Violations[i]
			for _, k := range known {
				if k.Status == "known" && k.Property == pr.ID && k.Rule == v.Rule && k.Key == v.Key {
					v.Known = true
					fmt.Printf("KNOWN-FINDING: property=%s rule=%s key=%q %s\n", pr.ID, v.Rule, v.Key, k.What)
					nknown++
					discharged++ // accounted for, not discharged as holding; reported separately
					discharged--
					break
				}
			}
			if !v.Known {
				nviol++
				path := filepath.Join(vd, "evidence", "violations", fmt.Sprintf("%s-%d.json", pr.ID, nviol))
				b, _ := json.MarshalIndent(map[string]interface{}{"property": pr.ID, "violation": v, "tier": pr.Tier, "configs": pr.Configs}, "", " ")
				os.WriteFile(path, b, 0o644)
				fmt.Printf("  %s: [%s] %s — %s\n", v.Pos, v.Rule, v.Key, v.Msg)
				fmt.Printf("VIOLATION property=%s replay=%s\n", pr.ID, path)
			}
			samples = append(samples, map[string]string{"rule": r.Name, "obligation": v.Key, "verdict": map[bool]string{true: "known-finding", false: "violation"}[v.Known], "pos": v.Pos, "msg": v.Msg})
		}
	}
	seed := 0
	fmt.Sscanf(os.Getenv("VERIF_SEED"), "%d", &seed)
	ev := map[string]interface{}{
		"property_id": pr.ID,
		"tier":        pr.Tier,
		"seed":        seed,
		"level":       "other",
		"coverage": map[string]interface{}{
			"explanation":         pr.Explanation,
			"evaluations":         obligations,
			"distinct_nontrivial": len(nontrivial),
			"rule":                "obligations are enumerated from the type-checked SSA program of /repo (every instance of each rule's construct); an obligation is non-trivial when its discharge needed a dominance/dataflow/coverage argument or a reviewed exception rather than a constant or literal; distinct = distinct (rule, construct key)",
			"obligations":         obligations,
			"discharged":          discharged,
			"exceptions_used":     exceptions,
			"known_findings":      nknown,
			"instances":           instances,
			"packages":            pr.Packages,
			"functions_analysed":  pr.Functions,
			"build_configs":       pr.Configs,
			"rules":               pr.Rules,
			"samples":             samples,
			"exhaustive":          true,
			"checker_cmd":         "./run.sh check " + pr.ID + " --tier " + pr.Tier,
			"trusted_base":        []string{"go/types", "golang.org/x/tools v0.29.0 go/packages, go/ssa, callgraph/vta", "the frozen tables in /verif/checker (reviewed by reading)"},
		},
		"assumptions": pr.Assumptions,
		"wall_s":      time.Since(start).Seconds(),
		"violations":  nviol,
	}
	b, _ := json.MarshalIndent(ev, "", " ")
	if err := os.WriteFile(filepath.Join(vd, "evidence", pr.ID+".json"), b, 0o644); err != nil {
		fmt.Printf("cannot write evidence: %v\n", err)
		return 2
	}
	fmt.Printf("%s tier=%s configs=%v rules=%d obligations=%d discharged=%d exceptions=%d known=%d violations=%d wall=%.1fs\n",
		pr.ID, pr.Tier, pr.Configs, len(pr.Rules), obligations, discharged, exceptions, nknown, nviol, time.Since(start).Seconds())
	for _, r := range pr.Rules {
		fmt.Printf("  rule %-28s instances=%-4d obligations=%-4d discharged=%-4d exceptions=%-3d violations=%d\n", r.Name, r.Instances, r.Obligations, r.Discharged, r.Exceptions, len(r.Violations))
	}
	if nviol > 0 {
		return 1
	}
	return 0
}
