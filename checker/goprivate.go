package main

import (
	"fmt"
	"go/token"
	"go/types"
	"sort"
	"strings"

	"golang.org/x/tools/go/ssa"
)

// E-SLOT: goroutine-private element writes.
//
// esbuild parallelises by "one goroutine per item, each writes its own slot": a slice is allocated
// by the spawning function, goroutines started in a loop receive (or capture) it, and every
// goroutine stores only into the element selected by its own per-iteration parameter
// (results[i] = …). The convention is what makes the unsynchronised sharing race free and the
// result independent of the schedule. The rule decides it on the resolved program:
//
//   for every `go` statement that sits in a loop (several instances run concurrently), every slice
//   that is shared by the instances — captured from the spawning function or passed as a
//   loop-invariant argument — and every store into an element of that slice made by the
//   goroutine's function or, through slice-typed parameters, by its static callees (summaries with
//   parameter binding, recursion included): the element index is computed from the goroutine's own
//   per-iteration parameters / per-iteration captured variables only.
//
// A store whose index comes from anywhere else (a constant, shared data, a loop over the whole
// slice, the recursive descent of a graph) can hit the same element from two instances. Stores
// made while a mutex is held (must-hold lock set non-empty is approximated by: the storing function
// calls Lock before the store and the store is dominated by it) are not judged here (C20/R1/R2).
// Nothing is executed.

type slotSrc struct {
	param int // index into fn.Params, or -1
	other string
	pos   token.Pos
}

type slotSummaryKey struct {
	fn *ssa.Function
	k  int
}

type slotAnalyzer struct {
	locks   map[*ssa.Function]*lockInfo
	p       *Prog
	memo    map[slotSummaryKey][]slotSrc
	partial map[slotSummaryKey][]slotSrc
	running map[slotSummaryKey]bool
}

// indexLeaves classifies what an index expression is computed from: parameters of fn (by position),
// free variables (returned separately), constants (ignored) or anything else ("other").
func slotIndexLeaves(v ssa.Value, fn *ssa.Function) (params map[int]bool, fvs []*ssa.FreeVar, other string) {
	params = map[int]bool{}
	seen := map[ssa.Value]bool{}
	var walk func(v ssa.Value, depth int)
	walk = func(v ssa.Value, depth int) {
		if v == nil || seen[v] || other != "" {
			return
		}
		seen[v] = true
		if depth > 30 {
			other = "deep expression"
			return
		}
		switch x := v.(type) {
		case *ssa.Const:
			return
		case *ssa.Parameter:
			for i, q := range fn.Params {
				if q == x {
					params[i] = true
					return
				}
			}
			other = "parameter of another function"
		case *ssa.Convert:
			walk(x.X, depth+1)
		case *ssa.ChangeType:
			walk(x.X, depth+1)
		case *ssa.BinOp:
			walk(x.X, depth+1)
			walk(x.Y, depth+1)
		case *ssa.Phi:
			for _, e := range x.Edges {
				walk(e, depth+1)
			}
		case *ssa.Field:
			walk(x.X, depth+1)
		case *ssa.UnOp:
			if x.Op == token.MUL {
				switch a := x.X.(type) {
				case *ssa.FreeVar:
					fvs = append(fvs, a)
					return
				case *ssa.Alloc:
					// a local cell: everything stored into it
					if a.Referrers() != nil {
						n := 0
						for _, rf := range *a.Referrers() {
							if st, ok := rf.(*ssa.Store); ok && st.Addr == ssa.Value(a) {
								n++
								walk(st.Val, depth+1)
							}
						}
						if n > 0 {
							return
						}
					}
				case *ssa.FieldAddr:
					// a field of a by-value/pointer parameter struct (e.g. args.index)
					if prm, ok := a.X.(*ssa.Parameter); ok {
						walk(prm, depth+1)
						return
					}
				}
				other = "a value loaded from memory (" + x.X.String() + ")"
				return
			}
			walk(x.X, depth+1)
		case *ssa.Call:
			if len(x.Call.Args) == 1 && !x.Call.IsInvoke() && x.Call.StaticCallee() != nil {
				walk(x.Call.Args[0], depth+1) // e.g. idx.GetIndex()
				return
			}
			other = "the result of a call"
		default:
			other = fmt.Sprintf("%T", v)
		}
	}
	walk(v, 0)
	return
}

// baseIsValue: does the slice expression `base` denote (a view of) the value v?
func slotBaseIs(base ssa.Value, v ssa.Value) bool {
	for i := 0; i < 8; i++ {
		if base == v {
			return true
		}
		switch x := base.(type) {
		case *ssa.Slice:
			base = x.X
		case *ssa.ChangeType:
			base = x.X
		default:
			return false
		}
	}
	return false
}

// summary: the sources of the indices at which fn (or its static callees) stores into elements of
// its k-th parameter.
func (a *slotAnalyzer) summary(fn *ssa.Function, k int) []slotSrc {
	key := slotSummaryKey{fn, k}
	if s, ok := a.memo[key]; ok {
		return s
	}
	if a.running[key] {
		return a.partial[key] // recursion: the fixpoint iteration below feeds the partial result back in
	}
	if k >= len(fn.Params) || fn.Blocks == nil {
		a.memo[key] = nil
		return nil
	}
	a.running[key] = true
	defer delete(a.running, key)
	var out []slotSrc
	for iter := 0; iter < 6; iter++ {
		out = a.elemWrites(fn, fn.Params[k])
		if len(out) == len(a.partial[key]) {
			break
		}
		a.partial[key] = out
		// summaries computed on top of the stale partial result must be redone
		for mk := range a.memo {
			delete(a.memo, mk)
		}
	}
	a.memo[key] = out
	return out
}

// elemWrites: index sources of the element stores into the slice value sv made inside fn.
func (a *slotAnalyzer) elemWrites(fn *ssa.Function, sv ssa.Value) []slotSrc {
	var out []slotSrc
	isSV := func(v ssa.Value) bool { return slotBaseIs(v, sv) }
	_, svIsSlice := sv.Type().Underlying().(*types.Slice)
	eachInstr(fn, func(b *ssa.BasicBlock, in ssa.Instruction) {
		switch x := in.(type) {
		case *ssa.Store:
			// find the IndexAddr on sv at the root of the store address
			steps := addrChain(x.Addr)
			if !svIsSlice {
				// sv is a shared object (pointer / struct): the store is private if some element
				// selection on the way from sv to the stored-to location uses a private index
				if root := rootOfChain(steps); root == nil || !(root == sv || slotBaseIs(root, sv)) {
					return
				}
				if a.lockHeldAt(fn, x) {
					return // the object's own guarded update
				}
				out = append(out, a.chainSources(fn, steps, x.Pos(), "")...)
				return
			}
			for _, s := range steps {
				ia, ok := s.Val.(*ssa.IndexAddr)
				if !ok || !isSV(ia.X) {
					continue
				}
				params, fvs, other := slotIndexLeaves(ia.Index, fn)
				if other != "" {
					out = append(out, slotSrc{-1, other, x.Pos()})
					continue
				}
				if len(params) == 0 && len(fvs) == 0 {
					out = append(out, slotSrc{-1, "a constant or loop counter that does not depend on the caller's arguments", x.Pos()})
					continue
				}
				for pi := range params {
					out = append(out, slotSrc{pi, "", x.Pos()})
				}
				for _, fv := range fvs {
					out = append(out, slotSrc{-1, "fv:" + fv.Name(), x.Pos()})
				}
			}
		case ssa.CallInstruction:
			if _, isGo := in.(*ssa.Go); isGo {
				return
			}
			callee := x.Common().StaticCallee()
			if callee == nil {
				return
			}
			for i, arg := range x.Common().Args {
				if !isSV(arg) {
					// a pointer (or a struct value with reference fields) derived from the shared
					// object: what the callee writes through it lies wherever the derivation points
					if !svIsSlice && arg != sv && refLike(arg.Type()) {
						steps := addrChain(arg)
						if root := rootOfChain(steps); root != nil && (root == sv || slotBaseIs(root, sv)) && len(a.summary(callee, i)) > 0 {
							out = append(out, a.chainSources(fn, steps, x.Pos(), " (written by "+FuncName(callee)+")")...)
						}
					}
					continue
				}
				for _, src := range a.summary(callee, i) {
					if src.param < 0 {
						out = append(out, slotSrc{-1, strings.TrimPrefix(src.other, "fv:") + " (in " + FuncName(callee) + ")", src.pos})
						continue
					}
					if src.param >= len(x.Common().Args) {
						continue
					}
					params, fvs, other := slotIndexLeaves(x.Common().Args[src.param], fn)
					if other != "" {
						out = append(out, slotSrc{-1, other + ", passed to " + FuncName(callee) + " as the element index", x.Pos()})
						continue
					}
					if len(params) == 0 && len(fvs) == 0 {
						out = append(out, slotSrc{-1, "a constant passed to " + FuncName(callee) + " as the element index", x.Pos()})
						continue
					}
					for pi := range params {
						out = append(out, slotSrc{pi, "", x.Pos()})
					}
					for _, fv := range fvs {
						out = append(out, slotSrc{-1, "fv:" + fv.Name(), x.Pos()})
					}
				}
			}
		}
	})
	// one entry per (parameter, store site)
	seen := map[string]bool{}
	var uniq []slotSrc
	for _, o := range out {
		k := fmt.Sprintf("%d@%d/%v", o.param, o.pos, o.param < 0 && strings.HasPrefix(o.other, "fv:"))
		if !seen[k] {
			seen[k] = true
			uniq = append(uniq, o)
		}
	}
	return uniq
}

// lockHeldAt: some mutex is in the must-hold set of fn at instruction in.
func (a *slotAnalyzer) lockHeldAt(fn *ssa.Function, in ssa.Instruction) bool {
	if a.locks == nil {
		a.locks = map[*ssa.Function]*lockInfo{}
	}
	li, ok := a.locks[fn]
	if !ok {
		hasLock := false
		eachInstr(fn, func(_ *ssa.BasicBlock, x ssa.Instruction) {
			if c, ok := x.(ssa.CallInstruction); ok {
				if _, _, ok := mutexCall(c); ok {
					hasLock = true
				}
			}
		})
		if hasLock {
			li = analyseLocks(fn, lockState{}, func(x ssa.Instruction) bool { _, ok := x.(*ssa.Store); return ok })
		}
		a.locks[fn] = li
	}
	return li != nil && len(li.at[in]) > 0
}

// chainSources: for an address chain rooted at the shared object, the index sources of the first
// element selection whose index depends only on the function's parameters / captured variables
// (a candidate private slot); if there is none, one "other" source.
func (a *slotAnalyzer) chainSources(fn *ssa.Function, steps []pathStep, pos token.Pos, suffix string) []slotSrc {
	firstOther := ""
	nIdx := 0
	for i := len(steps) - 1; i >= 0; i-- {
		ia, ok := steps[i].Val.(*ssa.IndexAddr)
		if !ok {
			continue
		}
		nIdx++
		params, fvs, other := slotIndexLeaves(ia.Index, fn)
		if other != "" {
			if firstOther == "" {
				firstOther = other
			}
			continue
		}
		if len(params) == 0 && len(fvs) == 0 {
			if firstOther == "" {
				firstOther = "a constant or loop counter"
			}
			continue
		}
		var out []slotSrc
		for pi := range params {
			out = append(out, slotSrc{pi, "", pos})
		}
		for _, fv := range fvs {
			out = append(out, slotSrc{-1, "fv:" + fv.Name(), pos})
		}
		return out
	}
	if nIdx == 0 {
		return []slotSrc{{-1, "no element selection at all: a field of the shared object itself" + suffix, pos}}
	}
	return []slotSrc{{-1, firstOther + suffix, pos}}
}

// goSlots runs the rule; name/doc let several properties register the same analysis.
func goroutinePrivateSlots(p *Prog, name string) *RuleResult {
	r := NewRule(name, "goroutines started in a loop store into a slice they share only at an element selected by their own per-iteration parameters (directly or through the slice-typed parameters of their callees)")
	a := &slotAnalyzer{p: p, memo: map[slotSummaryKey][]slotSrc{}, partial: map[slotSummaryKey][]slotSrc{}, running: map[slotSummaryKey]bool{}}
	sites := goSites(p)
	nLoop := 0
	for _, g := range sites {
		if g.callee == nil || g.callee.Blocks == nil {
			continue
		}
		if !blockInLoop(g.in.Block()) {
			continue // a single instance: nothing runs concurrently with itself
		}
		nLoop++
		// shared slices: captured variables of slice type, and loop-invariant slice arguments
		type shared struct {
			desc string
			val  []ssa.Value // the values inside the goroutine function that denote the slice
		}
		var sh []shared
		if mc, ok := g.in.Call.Value.(*ssa.MakeClosure); ok {
			for i, fv := range g.callee.FreeVars {
				pt, ok := fv.Type().Underlying().(*types.Pointer)
				if !ok {
					continue
				}
				if _, isSlice := pt.Elem().Underlying().(*types.Slice); !isSlice {
					continue
				}
				if i < len(mc.Bindings) && definedInLoop(mc.Bindings[i]) {
					continue // a per-iteration variable
				}
				var loads []ssa.Value
				if fv.Referrers() != nil {
					for _, rf := range *fv.Referrers() {
						if u, ok := rf.(*ssa.UnOp); ok && u.Op == token.MUL {
							loads = append(loads, u)
						}
					}
				}
				sh = append(sh, shared{"captured " + fv.Name(), loads})
			}
		}
		// captured pointers to shared objects (the linker context `c`, the scanner `s`, ...)
		if mc, ok := g.in.Call.Value.(*ssa.MakeClosure); ok {
			for i, fv := range g.callee.FreeVars {
				pt, ok := fv.Type().Underlying().(*types.Pointer)
				if !ok {
					continue
				}
				if _, isPtr := pt.Elem().Underlying().(*types.Pointer); !isPtr {
					continue
				}
				if i < len(mc.Bindings) && definedInLoop(mc.Bindings[i]) {
					continue
				}
				var loads []ssa.Value
				if fv.Referrers() != nil {
					for _, rf := range *fv.Referrers() {
						if u, ok := rf.(*ssa.UnOp); ok && u.Op == token.MUL {
							loads = append(loads, u)
						}
					}
				}
				sh = append(sh, shared{"captured object " + fv.Name(), loads})
			}
		}
		for i, arg := range g.in.Call.Args {
			if i < len(g.callee.Params) && !definedInLoop(arg) {
				if _, isPtr := arg.Type().Underlying().(*types.Pointer); isPtr {
					sh = append(sh, shared{"object " + g.callee.Params[i].Name(), []ssa.Value{g.callee.Params[i]}})
				}
			}
			if _, isSlice := arg.Type().Underlying().(*types.Slice); !isSlice || i >= len(g.callee.Params) {
				continue
			}
			if definedInLoop(arg) {
				continue
			}
			sh = append(sh, shared{"argument " + g.callee.Params[i].Name(), []ssa.Value{g.callee.Params[i]}})
		}
		for _, s := range sh {
			r.Instances++
			key := FuncName(g.callee) + " " + s.desc
			var bad []string
			var badPos token.Pos
			n := 0
			for _, v := range s.val {
				for _, src := range a.elemWrites(g.callee, v) {
					n++
					private := false
					why := src.other
					switch {
					case src.param >= 0:
						// the goroutine's own parameter: private iff bound to a per-iteration value
						if src.param < len(g.in.Call.Args) && definedInLoop(g.in.Call.Args[src.param]) {
							private = true
						} else {
							why = "the goroutine's parameter " + g.callee.Params[src.param].Name() + ", which is bound to the same value for every instance"
						}
					case strings.HasPrefix(src.other, "fv:"):
						fvName := strings.TrimPrefix(src.other, "fv:")
						why = "the captured variable " + fvName + ", which is shared by every instance"
						if mc, ok := g.in.Call.Value.(*ssa.MakeClosure); ok {
							for i, fv := range g.callee.FreeVars {
								if fv.Name() == fvName && i < len(mc.Bindings) && definedInLoop(mc.Bindings[i]) {
									private = true
								}
							}
						}
					}
					if !private {
						bad = append(bad, p.Pos(src.pos)+": index from "+why)
						if badPos == token.NoPos {
							badPos = src.pos
						}
					}
				}
			}
			if len(bad) == 0 {
				r.OK(key, n > 0, fmt.Sprintf("%d element store(s), each at an index computed from the goroutine's per-iteration parameters", n))
				continue
			}
			sort.Strings(bad)
			if !r.CheckExc(goSlotExceptions, key) {
				r.Fail(key, p.Pos(badPos), "concurrently running instances of this goroutine store into the shared slice at an element that is not selected by their own per-iteration parameters — two instances can write (and read back) the same element: "+strings.Join(bad, "; "))
			}
		}
	}
	// Part 2: plain variables and maps. A goroutine started in a loop that assigns a variable
	// captured from the spawning function, or inserts into a captured map, races with its sibling
	// instances unless a mutex is held at that point (must-hold lock set of the goroutine's function).
	for _, g := range sites {
		if g.callee == nil || g.callee.Blocks == nil || !blockInLoop(g.in.Block()) {
			continue
		}
		mc, ok := g.in.Call.Value.(*ssa.MakeClosure)
		if !ok {
			continue
		}
		sharedFV := map[*ssa.FreeVar]bool{}
		for i, fv := range g.callee.FreeVars {
			if i < len(mc.Bindings) && !definedInLoop(mc.Bindings[i]) {
				sharedFV[fv] = true
			}
		}
		if len(sharedFV) == 0 {
			continue
		}
		isWrite := func(in ssa.Instruction) (string, bool) {
			switch x := in.(type) {
			case *ssa.Store:
				if fv, ok := x.Addr.(*ssa.FreeVar); ok && sharedFV[fv] {
					return "assigns captured " + fv.Name(), true
				}
			case *ssa.MapUpdate:
				if u, ok := x.Map.(*ssa.UnOp); ok && u.Op == token.MUL {
					if fv, ok := u.X.(*ssa.FreeVar); ok && sharedFV[fv] {
						return "inserts into captured map " + fv.Name(), true
					}
				}
			}
			return "", false
		}
		li := analyseLocks(g.callee, lockState{}, func(in ssa.Instruction) bool { _, w := isWrite(in); return w })
		eachInstr(g.callee, func(b *ssa.BasicBlock, in ssa.Instruction) {
			what, w := isWrite(in)
			if !w {
				return
			}
			r.Instances++
			key := FuncName(g.callee) + " " + what
			if held := li.at[in]; len(held) > 0 {
				var ks []string
				for k := range held {
					ks = append(ks, k)
				}
				sort.Strings(ks)
				r.OK(key, true, "a mutex is held at the write ("+strings.Join(ks, ", ")+")")
				return
			}
			if !r.CheckExc(goSlotExceptions, key) {
				r.Fail(key, p.Pos(in.Pos()), "concurrently running instances of this goroutine write the same captured variable / map without holding a mutex: a data race whose outcome depends on the schedule")
			}
		})
	}
	r.Note("go statements inside loops: %d of %d", nLoop, len(sites))
	r.Anchor("go statements inside loops", nLoop >= 10)
	r.StaleCheck(goSlotExceptions)
	return r
}

var goSlotExceptions = ExcTable{
	"linker.(*linkerContext).computeCrossChunkDependencies$1 captured object c": "one goroutine per chunk; it rewrites import records of the files in chunk.filesWithPartsInChunk, and a JS file is a member of exactly one chunk (decided by C10/R1 single-membership), so no two instances touch the same file",
	"renamer.(*NumberRenamer).AssignNamesByScope$1 captured object r":           "one goroutine per source index; it names the symbols of that file's nested scopes into r.names[ref.SourceIndex][...], and every symbol declared in a file's scopes carries that file's source index, so the outer index is the goroutine's own",
}

// blockInLoop: b lies on a CFG cycle.
func blockInLoop(start *ssa.BasicBlock) bool {
	seen := map[*ssa.BasicBlock]bool{}
	work := append([]*ssa.BasicBlock{}, start.Succs...)
	for len(work) > 0 {
		b := work[len(work)-1]
		work = work[:len(work)-1]
		if b == start {
			return true
		}
		if seen[b] {
			continue
		}
		seen[b] = true
		work = append(work, b.Succs...)
	}
	return false
}
