package main

import (
	"fmt"
	"go/token"
	"sort"
	"strings"

	"golang.org/x/tools/go/ssa"
)

// C09/R1c cache-key comparisons are unconditional.
//
// The AST caches reuse a parsed file when `entry.options.Equal(&options)`. R1 (E-EQ) decides that
// every option field that influences parsing is read through both operands somewhere in Equal.
// That is not enough: a comparison that sits behind a condition on *another* option (e.g. "only
// compare the JSX factory when the classic runtime is configured") lets two option sets compare
// equal although they differ in that field — and a per-file pragma or a later pass may still use
// it. Rule: for every field path P that Equal compares through both operands, every control-flow
// path from the entry to a `return true` passes a block that compares P, or a test of a proper
// prefix of P (a nil / length / loop-bound test of the container that holds P).

type c09Cmp struct {
	path  string
	block *ssa.BasicBlock
}

// paramPath: (parameter index, field path) that v is read from, "" if none
func paramPath(fn *ssa.Function, v ssa.Value) (int, string, bool) {
	var rev []string
	for depth := 0; depth < 30; depth++ {
		switch x := v.(type) {
		case *ssa.UnOp:
			if x.Op == token.MUL {
				v = x.X
				continue
			}
			return 0, "", false
		case *ssa.FieldAddr:
			rev = append(rev, fieldAddrName(x))
			v = x.X
			continue
		case *ssa.Field:
			rev = append(rev, fieldValName(x))
			v = x.X
			continue
		case *ssa.IndexAddr:
			rev = append(rev, "[]")
			v = x.X
			continue
		case *ssa.Index:
			rev = append(rev, "[]")
			v = x.X
			continue
		case *ssa.Lookup:
			rev = append(rev, "[k]")
			v = x.X
			continue
		case *ssa.Alloc:
			if sv := c04SingleStore(x); sv != nil {
				v = sv
				continue
			}
			return 0, "", false
		case *ssa.Call:
			// len(x), method calls on a field value (x.Equal(y) is handled by the caller)
			if bi, ok := x.Call.Value.(*ssa.Builtin); ok && bi.Name() == "len" && len(x.Call.Args) == 1 {
				v = x.Call.Args[0]
				continue
			}
			return 0, "", false
		case *ssa.Parameter:
			for i, prm := range fn.Params {
				if prm == x {
					parts := make([]string, len(rev))
					for j := range rev {
						parts[j] = rev[len(rev)-1-j]
					}
					return i, strings.Join(parts, "."), true
				}
			}
			return 0, "", false
		default:
			return 0, "", false
		}
	}
	return 0, "", false
}

func c09UnconditionalKey(p *Prog) *RuleResult {
	r := NewRule("C09/R1c cache-key-unconditional", "every option field the AST cache key compares is compared on every path to 'equal' (never only under a condition on some other option)")
	for _, name := range []string{"js_parser.(*Options).Equal", "css_parser.(*Options).Equal"} {
		fn := p.FindFunc(name)
		if !r.Anchor(name, fn != nil) {
			continue
		}
		c := &c04Ctx{p: p, fn: fn}
		c.collectRetPhis()
		cmpBlocks := map[string]map[*ssa.BasicBlock]bool{}
		testBlocks := map[string]map[*ssa.BasicBlock]bool{} // path read by a branch condition (one side is enough)
		add := func(m map[string]map[*ssa.BasicBlock]bool, path string, b *ssa.BasicBlock) {
			if m[path] == nil {
				m[path] = map[*ssa.BasicBlock]bool{}
			}
			m[path][b] = true
		}
		nilBlocks := map[string]map[*ssa.BasicBlock]bool{}
		eachInstr(fn, func(b *ssa.BasicBlock, in ssa.Instruction) {
			var ops []ssa.Value
			switch x := in.(type) {
			case *ssa.BinOp:
				ops = []ssa.Value{x.X, x.Y}
				for i, o := range ops {
					if cst, ok := o.(*ssa.Const); ok && cst.Value == nil {
						if _, path, ok := paramPath(fn, ops[1-i]); ok && path != "" {
							add(nilBlocks, path, b)
						}
					}
				}
			case *ssa.Call:
				ops = append(ops, x.Call.Args...)
			default:
				return
			}
			seen := map[int]map[string]bool{}
			for _, o := range ops {
				if pi, path, ok := paramPath(fn, o); ok && path != "" {
					if seen[pi] == nil {
						seen[pi] = map[string]bool{}
					}
					seen[pi][path] = true
					add(testBlocks, path, b)
				}
			}
			if len(fn.Params) >= 2 {
				for path := range seen[0] {
					if seen[1][path] {
						add(cmpBlocks, path, b)
					}
				}
			}
		})
		var paths []string
		for path := range cmpBlocks {
			paths = append(paths, path)
		}
		sort.Strings(paths)
		short := name[strings.Index(name, ".")+1:]
		for _, path := range paths {
			r.Instances++
			key := fmt.Sprintf("%s %s compares %s", strings.SplitN(name, ".", 2)[0], short, path)
			discharge := map[*ssa.BasicBlock]bool{}
			for b := range cmpBlocks[path] {
				discharge[b] = true
			}
			for q, bs := range testBlocks {
				if q != path && strings.HasPrefix(path, q+".") {
					for b := range bs {
						discharge[b] = true
					}
				}
			}
			// nil tests of the very pointer whose pointee is compared
			for b := range nilBlocks[path] {
				discharge[b] = true
			}
			pth, escapes := reachesExitAvoidingEdges(fn.Blocks[0], isTrueishReturn, func(b *ssa.BasicBlock) bool { return discharge[b] }, c.edgeCarriesFalse)
			if escapes {
				r.Fail(key, p.Pos(fn.Pos()), fmt.Sprintf("the cache key can report two option sets as equal without comparing %s (path through blocks %v): the comparison only happens under a condition on another option, so a cached AST parsed with a different %s can be reused", path, blockIdx(pth), path))
			} else {
				r.OK(key, true, "compared (or its container tested) on every path to 'equal'")
			}
		}
	}
	r.Floor(15)
	return r
}
