package main

import (
	"go/ast"
	"go/types"
	"strings"

	"golang.org/x/tools/go/packages"
	"golang.org/x/tools/go/ssa"
)

// Purity inference: a function is "read-only" when neither it nor any function it can call
// (static callees; any dynamic call makes it impure) stores to memory that is not a local
// allocation, updates a non-local map, sends on a channel, starts a goroutine or calls an unknown
// external function. Results are memoised per Prog.

type purity struct {
	p    *Prog
	memo map[*ssa.Function]int // 1 in progress, 2 pure, 3 impure
	why  map[*ssa.Function]string
}

var pureStdPkgs = map[string]bool{
	"strings": true, "strconv": true, "unicode": true, "unicode/utf8": true, "unicode/utf16": true, "math": true, "math/bits": true, "path": true, "errors": true,
}

var pureStdFuncs = map[string]bool{
	"fmt.Sprintf": true, "fmt.Sprint": true, "fmt.Errorf": true, "sort.SearchStrings": true, "sort.SearchInts": true, "sort.Search": true,
	"bytes.Equal": true, "bytes.HasPrefix": true, "bytes.HasSuffix": true, "bytes.IndexByte": true, "bytes.Index": true, "bytes.TrimSpace": true, "bytes.Contains": true,
	"(*regexp.Regexp).MatchString": true, "(*regexp.Regexp).String": true, "(*regexp.Regexp).FindStringSubmatch": true,
	"(*strings.Builder).String": true, "(*strings.Builder).Len": true,
	"(error).Error":      true,
	"(*sync.Mutex).Lock": true, "(*sync.Mutex).Unlock": true, "(*sync.RWMutex).RLock": true, "(*sync.RWMutex).RUnlock": true,
	"path/filepath.Base": true, "path/filepath.Ext": true, "path/filepath.Dir": true, "path/filepath.Clean": true, "path/filepath.Join": true, "path/filepath.IsAbs": true, "path/filepath.ToSlash": true,
	"net/url.PathEscape": true, "net/url.QueryEscape": true,
}

// interface methods whose every implementation in the module is a pure path computation
var pureIfaceMethods = map[string]bool{
	"(" + modPath + "/internal/fs.FS).IsAbs": true,
	"(" + modPath + "/internal/fs.FS).Join":  true,
	"(" + modPath + "/internal/fs.FS).Dir":   true,
	"(" + modPath + "/internal/fs.FS).Base":  true,
	"(" + modPath + "/internal/fs.FS).Ext":   true,
	"(" + modPath + "/internal/fs.FS).Rel":   true,
	"(" + modPath + "/internal/fs.FS).Cwd":   true,
}

func newPurity(p *Prog) *purity {
	return &purity{p: p, memo: map[*ssa.Function]int{}, why: map[*ssa.Function]string{}}
}

func (pu *purity) isPure(fn *ssa.Function) bool {
	if fn == nil {
		return false
	}
	switch pu.memo[fn] {
	case 1, 2:
		return true
	case 3:
		return false
	}
	pu.memo[fn] = 1
	ok, why := pu.compute(fn)
	if ok {
		pu.memo[fn] = 2
	} else {
		pu.memo[fn] = 3
		pu.why[fn] = why
	}
	return ok
}

func localRooted(addr ssa.Value) bool {
	steps := addrChain(addr)
	if len(steps) == 0 {
		return false
	}
	for _, s := range steps[:len(steps)-1] {
		if s.Kind == "deref" || s.Kind == "lookup" {
			// through a loaded pointer/slice: local only if that value is itself freshly allocated
			if u, ok := s.Val.(*ssa.UnOp); ok && frzFreshValue(u, 0) {
				continue
			}
			return false
		}
	}
	root := steps[len(steps)-1].Val
	switch root.(type) {
	case *ssa.Alloc, *ssa.MakeSlice, *ssa.MakeMap:
		return true
	}
	return frzFreshValue(root, 0)
}

func (pu *purity) compute(fn *ssa.Function) (bool, string) {
	if fn.Blocks == nil {
		// external
		if fn.Object() != nil {
			if f, ok := fn.Object().(*types.Func); ok && f.Pkg() != nil {
				if pureStdPkgs[f.Pkg().Path()] || pureStdFuncs[f.FullName()] {
					return true, ""
				}
				return false, "external " + f.FullName()
			}
		}
		return false, "external " + fn.String()
	}
	if fn.Object() != nil {
		if f, ok := fn.Object().(*types.Func); ok && f.Pkg() != nil && !strings.HasPrefix(f.Pkg().Path(), modPath) {
			if pureStdPkgs[f.Pkg().Path()] || pureStdFuncs[f.FullName()] {
				return true, ""
			}
			return false, "std " + f.FullName()
		}
	}
	for _, b := range fn.Blocks {
		for _, in := range b.Instrs {
			switch x := in.(type) {
			case *ssa.Store:
				if !localRooted(x.Addr) {
					return false, "store at " + pu.p.Pos(x.Pos())
				}
			case *ssa.MapUpdate:
				if !frzFreshValue(x.Map, 0) {
					return false, "map update at " + pu.p.Pos(x.Pos())
				}
			case *ssa.Send:
				return false, "send"
			case *ssa.Go:
				return false, "go"
			case *ssa.Defer:
				if c := x.Call.StaticCallee(); c == nil || !pu.isPure(c) {
					return false, "defer of impure/unknown"
				}
			case *ssa.Select:
				return false, "select"
			case *ssa.Call:
				cc := x.Common()
				if bi, ok := cc.Value.(*ssa.Builtin); ok {
					switch bi.Name() {
					case "copy":
						if !localRooted(cc.Args[0]) && !frzFreshValue(cc.Args[0], 0) {
							return false, "copy into non-local"
						}
					case "delete":
						if !frzFreshValue(cc.Args[0], 0) {
							return false, "delete on non-local map"
						}
					case "close":
						return false, "close"
					}
					continue
				}
				if cc.IsInvoke() {
					n := cc.Method.FullName()
					if pureStdFuncs[n] || strings.HasSuffix(n, ").Error") || pureIfaceMethods[n] {
						continue
					}
					return false, "interface call " + n
				}
				callee := cc.StaticCallee()
				if callee == nil {
					// calling a closure created in this function: find MakeClosure
					if mc, ok := cc.Value.(*ssa.MakeClosure); ok {
						if f, ok := mc.Fn.(*ssa.Function); ok && pu.isPure(f) {
							continue
						}
					}
					return false, "dynamic call at " + pu.p.Pos(x.Pos())
				}
				if !pu.isPure(callee) {
					return false, "calls " + FuncName(callee) + " (" + pu.why[callee] + ")"
				}
			}
		}
	}
	return true, ""
}

// ssaFuncOfCall resolves an AST call expression to its static ssa callee.
func (p *Prog) ssaFuncOfCall(pk *packages.Package, call *ast.CallExpr) *ssa.Function {
	var obj types.Object
	switch f := call.Fun.(type) {
	case *ast.Ident:
		obj = pk.TypesInfo.Uses[f]
	case *ast.SelectorExpr:
		obj = pk.TypesInfo.Uses[f.Sel]
	case *ast.ParenExpr:
		return nil
	}
	fn, ok := obj.(*types.Func)
	if !ok {
		return nil
	}
	// interface method => dynamic
	if recv := fn.Type().(*types.Signature).Recv(); recv != nil {
		if _, isIface := recv.Type().Underlying().(*types.Interface); isIface {
			return nil
		}
	}
	return p.SSA.FuncValue(fn)
}
