package main

import (
	"fmt"
	"go/token"
	"sort"

	"golang.org/x/tools/go/ssa"
)

// C16/R5 checked-index-stored.
//
// An input source map is untrusted. ParseSourceMap decodes running indices into its `sources` and
// `names` arrays, range-checks each one and stores it in a sourcemap.Mapping; every later consumer
// indexes those arrays with the stored value without checking again (a bad value is an
// index-out-of-range panic far away from the parser). Rule: the value stored into
// Mapping.SourceIndex / Mapping.OriginalName is, up to type conversions and ast.MakeIndex32,
// exactly an SSA value V for which both range tests (`V < lo` and `V >= hi`) are known to be false
// at the point where V is converted/stored. Any arithmetic applied after the checks produces a new,
// unchecked value and is reported.

var c16IndexFields = map[string]bool{"SourceIndex": true, "OriginalName": true}

func c16CheckedIndex(p *Prog) *RuleResult {
	r := NewRule("C16/R5 checked-index-stored", "the source and name indices ParseSourceMap stores into a Mapping are exactly the values it range-checked against the section's arrays")
	fn := p.FindFunc("js_parser.ParseSourceMap")
	if !r.Anchor("js_parser.ParseSourceMap", fn != nil) {
		return r
	}
	type leaf struct {
		v   ssa.Value
		use *ssa.BasicBlock
	}
	var stores []*ssa.Store
	eachInstr(fn, func(b *ssa.BasicBlock, in ssa.Instruction) {
		st, ok := in.(*ssa.Store)
		if !ok {
			return
		}
		if fa, ok := st.Addr.(*ssa.FieldAddr); ok && namedTypeName(fa.X.Type()) == "sourcemap.Mapping" && c16IndexFields[fieldAddrName(fa)] {
			stores = append(stores, st)
		}
	})
	sort.Slice(stores, func(i, j int) bool { return stores[i].Pos() < stores[j].Pos() })
	for _, st := range stores {
		field := fieldAddrName(st.Addr.(*ssa.FieldAddr))
		r.Instances++
		key := "Mapping." + field
		var leaves []leaf
		seen := map[ssa.Value]bool{}
		var walk func(v ssa.Value, use *ssa.BasicBlock)
		walk = func(v ssa.Value, use *ssa.BasicBlock) {
			if seen[v] {
				return
			}
			seen[v] = true
			switch x := v.(type) {
			case *ssa.Phi:
				for i, e := range x.Edges {
					walk(e, x.Block().Preds[i])
				}
			case *ssa.Convert:
				walk(x.X, x.Block())
			case *ssa.ChangeType:
				walk(x.X, x.Block())
			case *ssa.Call:
				if FuncNameOf(x) == "ast.MakeIndex32" && len(x.Call.Args) == 1 {
					walk(x.Call.Args[0], x.Block())
					return
				}
				leaves = append(leaves, leaf{v, use})
			case *ssa.Const:
				// the zero value (no name)
			case *ssa.UnOp:
				if al, ok := x.X.(*ssa.Alloc); ok && x.Op == token.MUL {
					// local variable: everything stored into it
					if al.Referrers() != nil {
						for _, rf := range *al.Referrers() {
							if s2, ok := rf.(*ssa.Store); ok && s2.Addr == ssa.Value(al) {
								walk(s2.Val, s2.Block())
							}
						}
					}
					return
				}
				leaves = append(leaves, leaf{v, use})
			default:
				leaves = append(leaves, leaf{v, use})
			}
		}
		walk(st.Val, st.Block())
		bad := ""
		checked := 0
		for _, lf := range leaves {
			lower, upper := false, false
			for _, f := range factsAt(lf.use) {
				bo, ok := f.Cond.(*ssa.BinOp)
				if !ok || bo.X != lf.v {
					continue
				}
				switch {
				case bo.Op == token.LSS && !f.True:
					lower = true // !(V < lo)
				case bo.Op == token.GEQ && !f.True:
					upper = true // !(V >= hi)
				case bo.Op == token.GEQ && f.True:
					lower = true
				case bo.Op == token.LSS && f.True:
					upper = true
				}
			}
			if lower && upper {
				checked++
				continue
			}
			what := "is not range-checked"
			if bo, ok := lf.v.(*ssa.BinOp); ok {
				what = fmt.Sprintf("is the result of a further %s computed after the range checks", bo.Op)
			}
			bad = fmt.Sprintf("the value stored (%s, %s) %s: lower bound known=%v, upper bound known=%v", lf.v.Name(), p.Pos(lf.v.Pos()), what, lower, upper)
		}
		switch {
		case bad != "":
			r.Fail(key, p.Pos(st.Pos()), "an index taken from an untrusted input source map is stored without being exactly the range-checked value: "+bad+"; consumers index sources/names with it unchecked (index out of range panic)")
		case checked == 0:
			r.Fail(key, p.Pos(st.Pos()), "no range-checked value found behind the stored index; the rule cannot be decided")
		default:
			r.OK(key, true, fmt.Sprintf("%d stored value(s), each dominated by both range tests on that very value", checked))
		}
	}
	r.Floor(2)
	return r
}

// C16/R6: graph traversals mark before they descend (engine: cyclecut.go E-CUT2)
func c16MarkBeforeRecurse(p *Prog) *RuleResult {
	r := NewRule("C16/R6 mark-before-recurse", "every recursive traversal that is guarded by a visited set stores the current node into the set before any call that can lead back into the traversal")
	n := checkMarkBeforeRecurse(p, r, map[string]bool{"linker": true, "bundler": true, "graph": true, "js_parser": true, "css_parser": true, "resolver": true, "js_ast": true, "renamer": true, "pkg/api": true, "cache": true, "fs": true})
	r.Anchor("recursive traversals guarded by a visited map", n >= 3)
	r.Floor(5)
	return r
}

// C16/R7 prefix/suffix overlap.
//
// A wildcard pattern "pre*suf" matches a string only if the string starts with pre, ends with suf
// AND is at least len(pre)+len(suf) long: "aba" starts with "ab" and ends with "ba" but does not
// match "ab*ba", and cutting s[len(pre):len(s)-len(suf)] out of it is a slice-bounds panic. Every
// place that tests strings.HasPrefix(s, p) and strings.HasSuffix(s, q) on the very same string in
// one conjunction must therefore also compare len(s) with something (the siblings that are right
// do: the external-pattern matcher, the exports/imports pattern matcher), or apply HasSuffix to
// the remainder after the prefix (a different value, not an instance of this rule).
func c16PrefixSuffixOverlap(p *Prog) *RuleResult {
	r := NewRule("C16/R7 prefix-suffix-overlap", "wherever one string is tested with both strings.HasPrefix and strings.HasSuffix in one conjunction (a `pre*suf` wildcard match), its length is also compared, so prefix and suffix cannot overlap")
	total := 0
	for _, fn := range p.ModuleFuncs() {
		var pre, suf []*ssa.Call
		eachInstr(fn, func(b *ssa.BasicBlock, in ssa.Instruction) {
			if c, ok := in.(*ssa.Call); ok && len(c.Call.Args) == 2 {
				switch calleeFullName(c) {
				case "strings.HasPrefix":
					pre = append(pre, c)
				case "strings.HasSuffix":
					suf = append(suf, c)
				}
			}
		})
		k := 0
		for _, hp := range pre {
			for _, hs := range suf {
				if hp.Call.Args[0] != hs.Call.Args[0] {
					continue
				}
				// two constant affixes are not a wildcard pattern (e.g. "is this text quoted?")
				if _, c1 := constString(hp.Call.Args[1]); c1 {
					if _, c2 := constString(hs.Call.Args[1]); c2 {
						continue
					}
				}
				s := hp.Call.Args[0]
				// the block where both are known to be true
				var both *ssa.BasicBlock
				for _, b := range fn.Blocks {
					ht, st := false, false
					for _, f := range factsAt(b) {
						if f.Cond == ssa.Value(hp) && f.True {
							ht = true
						}
						if f.Cond == ssa.Value(hs) && f.True {
							st = true
						}
					}
					if ht && st && (both == nil || both.Dominates(b) == false && b.Dominates(both)) {
						both = b
					}
				}
				if both == nil {
					continue // not a conjunction
				}
				k++
				total++
				r.Instances++
				key := fmt.Sprintf("%s wildcard match #%d", FuncName(fn), k)
				lenChecked := false
				isLenOfS := func(v ssa.Value) bool {
					c, ok := v.(*ssa.Call)
					if !ok {
						return false
					}
					bi, ok := c.Call.Value.(*ssa.Builtin)
					return ok && bi.Name() == "len" && len(c.Call.Args) == 1 && c.Call.Args[0] == s
				}
				// a comparison of len(s) that belongs to the same conjunction: evaluated before both
				// tests, or after at least one of them succeeded
				eachInstr(fn, func(cb *ssa.BasicBlock, in ssa.Instruction) {
					bo, ok := in.(*ssa.BinOp)
					if !ok || !(isLenOfS(bo.X) || isLenOfS(bo.Y)) {
						return
					}
					if cb.Dominates(both) {
						lenChecked = true
					}
					for _, f := range factsAt(cb) {
						if (f.Cond == ssa.Value(hp) || f.Cond == ssa.Value(hs)) && f.True {
							lenChecked = true
						}
					}
				})
				if lenChecked {
					r.OK(key, true, "the length of the string is compared as well")
				} else {
					r.Fail(key, p.Pos(hs.Pos()), "a string is matched against `prefix*suffix` with HasPrefix and HasSuffix only: when prefix and suffix overlap in the string (\"aba\" against \"ab*ba\") the match is accepted and the text between them, s[len(prefix):len(s)-len(suffix)], is a slice-bounds panic")
				}
			}
		}
	}
	r.Note(fmt.Sprintf("%d conjunctions of HasPrefix and HasSuffix on one string", total))
	r.Floor(2)
	return r
}
