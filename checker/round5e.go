package main

import (
	"fmt"
	"go/token"
	"strings"

	"golang.org/x/tools/go/ssa"
)

// ---------------------------------------------------------------------------------------------
// C20/R10 (= C17/R6) skipped-write-is-verified.
//
// "End callbacks run after outputs are written" and "a build writes exactly the files it reports":
// when the per-file writer of rebuildImpl returns without writing, the file must nevertheless be on
// disk with the reported bytes. The only legitimate silent returns are (a) writing is off for this
// build (errors were logged) and (b) the file was read back and compared equal. A return justified
// by remembered state alone (the hash recorded by the previous build) is wrong as soon as anything
// else touched the file — an on-end callback that moves outputs, a cleaned output directory.
func skippedWriteVerified(p *Prog, rule string) *RuleResult {
	r := NewRule(rule, "the per-file output writer returns without writing only when writing is disabled for the build or after reading the file back and comparing its bytes (never on the strength of the previous build's recorded hash alone)")
	top := p.FindFunc("pkg/api.rebuildImpl")
	if !r.Anchor("pkg/api.rebuildImpl", top != nil) {
		return r
	}
	isCallTo := func(in ssa.Instruction, suffixes ...string) bool {
		c, ok := in.(ssa.CallInstruction)
		if !ok {
			return false
		}
		n := calleeFullName(c)
		for _, s := range suffixes {
			if n == s || strings.HasSuffix(n, s) {
				return true
			}
		}
		return false
	}
	var writer *ssa.Function
	cands := append([]*ssa.Function{}, withClosures(top)...)
	// helpers of the package that the closures call (the writer may have been given a name)
	for _, fn := range withClosures(top) {
		eachInstr(fn, func(b *ssa.BasicBlock, in ssa.Instruction) {
			if c, ok := in.(ssa.CallInstruction); ok {
				if callee := c.Common().StaticCallee(); callee != nil && pkgPathOf(callee) == pkgPathOf(top) && len(callee.Blocks) > 0 {
					cands = append(cands, withClosures(callee)...)
				}
			}
		})
	}
	for _, fn := range cands {
		if fn == top {
			continue
		}
		has := false
		eachInstr(fn, func(b *ssa.BasicBlock, in ssa.Instruction) {
			if _, isGo := in.(*ssa.Go); isGo {
				return
			}
			if isCallTo(in, "io/ioutil.WriteFile", "os.WriteFile") {
				has = true
			}
		})
		if has {
			writer = fn
		}
	}
	if !r.Anchor("the closure of rebuildImpl that calls WriteFile", writer != nil) {
		return r
	}
	r.Instances++
	key := "rebuildImpl output writer: silent return is justified"
	// a helper of the package that reads the file back (a predicate such as "is the file unchanged")
	readsBack := func(in ssa.Instruction) *ssa.Function {
		c, ok := in.(ssa.CallInstruction)
		if !ok {
			return nil
		}
		callee := c.Common().StaticCallee()
		if callee == nil || pkgPathOf(callee) != pkgPathOf(top) || len(callee.Blocks) == 0 {
			return nil
		}
		found := false
		eachInstr(callee, func(b2 *ssa.BasicBlock, in2 ssa.Instruction) {
			if isCallTo(in2, "io/ioutil.ReadFile", "os.ReadFile") {
				found = true
			}
		})
		if found {
			return callee
		}
		return nil
	}
	blockHasCall := func(b *ssa.BasicBlock, suffixes ...string) bool {
		for _, in := range b.Instrs {
			if isCallTo(in, suffixes...) {
				return true
			}
			for _, sfx := range suffixes {
				if strings.HasSuffix(sfx, "ReadFile") && readsBack(in) != nil {
					return true
				}
			}
		}
		return false
	}
	// the edge "writing is disabled": If on a load of the captured shouldWriteFiles
	disabledEdge := func(b *ssa.BasicBlock, succ int) bool {
		if len(b.Instrs) == 0 {
			return false
		}
		ifi, ok := b.Instrs[len(b.Instrs)-1].(*ssa.If)
		if !ok {
			return false
		}
		cond := ifi.Cond
		neg := false
		if u, ok := cond.(*ssa.UnOp); ok && u.Op == token.NOT {
			cond, neg = u.X, true
		}
		ld, ok := cond.(*ssa.UnOp)
		if !ok || ld.Op != token.MUL {
			return false
		}
		fv, ok := ld.X.(*ssa.FreeVar)
		if !ok || !strings.Contains(strings.ToLower(fv.Name()), "write") {
			return false
		}
		// the successor taken when the flag is false
		if neg {
			return succ == 0
		}
		return succ == 1
	}
	nedges := 0
	for _, b := range writer.Blocks {
		for i := range b.Succs {
			if disabledEdge(b, i) {
				nedges++
			}
		}
	}
	if nedges == 0 {
		r.Note("the writing-disabled gate is not inside the writer (it was named and is called under the gate); C17/R2 decides the gate")
	}
	entry := writer.Blocks[0]
	path, found := reachesExitAvoidingEdges(entry, isReturnBlock, func(b *ssa.BasicBlock) bool {
		return blockHasCall(b, "io/ioutil.WriteFile", "os.WriteFile", "io/ioutil.ReadFile", "os.ReadFile", "logger.Log).AddError")
	}, disabledEdge)
	if found {
		last := path[len(path)-1]
		r.Fail(key, p.Pos(firstPos(last)), fmt.Sprintf("the output writer can return (at %s) without writing the file, without reporting an error and without having read the file back: the build then reports an output, and runs its end callbacks, although the file may not exist or may hold other bytes", p.Pos(firstPos(last))))
		return r
	}
	// the read-back must be compared
	cmp := false
	eachInstr(writer, func(b *ssa.BasicBlock, in ssa.Instruction) {
		if isCallTo(in, "bytes.Equal") {
			cmp = true
		}
		if h := readsBack(in); h != nil {
			eachInstr(h, func(b2 *ssa.BasicBlock, in2 ssa.Instruction) {
				if isCallTo(in2, "bytes.Equal") {
					cmp = true
				}
			})
		}
	})
	rd := false
	eachInstr(writer, func(b *ssa.BasicBlock, in ssa.Instruction) {
		if isCallTo(in, "io/ioutil.ReadFile", "os.ReadFile") || readsBack(in) != nil {
			rd = true
		}
	})
	if rd && !cmp {
		r.Fail(key, p.Pos(writer.Pos()), "the file is read back but its bytes are not compared with the output's contents")
		return r
	}
	r.OK(key, true, "every path to a return passes the writing-disabled gate, WriteFile, an error report, or the read-back of the file")
	r.Floor(1)
	return r
}

// ---------------------------------------------------------------------------------------------
// C17/R7 dotdot-scan-covers-last-segment.
//
// PathRelativeToOutbase keeps outputs inside the output directory by rewriting the leading `../`
// segments of the outbase-relative directory to `_.._/`. It counts them with
// `HasPrefix(dir[3*k:], "../")`. A directory that consists of `..` segments only ("..", "../..")
// ends without a separator, so its last segment is counted only if a separator was appended to the
// scanned string first (or the scan tests for a bare ".." as well). Without that, a file that sits
// directly in the parent of outbase is written to `<outdir>/../name`, outside the output directory.
func c17DotDotScan(p *Prog) *RuleResult {
	r := NewRule("C17/R7 dotdot-scan-covers-last-segment", "the scan that rewrites leading `../` segments of an output's relative directory also covers a final `..` segment that is not followed by a separator")
	n := 0
	for _, fn := range p.ModuleFuncs() {
		if pkgPathOf(fn) != modPath+"/internal/bundler" && pkgPathOf(fn) != modPath+"/internal/linker" {
			continue
		}
		k := 0
		eachInstr(fn, func(b *ssa.BasicBlock, in ssa.Instruction) {
			c, ok := in.(*ssa.Call)
			if !ok || calleeFullName(c) != "strings.HasPrefix" || len(c.Call.Args) != 2 {
				return
			}
			if s, ok := constString(c.Call.Args[1]); !ok || s != "../" {
				return
			}
			if !blockInLoop(b) {
				return
			}
			n++
			k++
			r.Instances++
			key := fmt.Sprintf("%s scan for leading ../ segments #%d", FuncName(fn), k)
			sepAppended, bareTested := false, false
			backSlice(c.Call.Args[0], func(v ssa.Value) bool {
				if bo, ok := v.(*ssa.BinOp); ok && bo.Op == token.ADD {
					if s, ok := constString(bo.Y); ok && s == "/" {
						sepAppended = true
					}
				}
				return true
			})
			eachInstr(fn, func(b2 *ssa.BasicBlock, in2 ssa.Instruction) {
				if bo, ok := in2.(*ssa.BinOp); ok && (bo.Op == token.EQL || bo.Op == token.NEQ) {
					if s, ok := constString(bo.Y); ok && s == ".." {
						bareTested = true
					}
					if s, ok := constString(bo.X); ok && s == ".." {
						bareTested = true
					}
				}
				if c2, ok := in2.(*ssa.Call); ok && calleeFullName(c2) == "strings.HasSuffix" && len(c2.Call.Args) == 2 {
					if s, ok := constString(c2.Call.Args[1]); ok && (s == ".." || s == "/..") {
						bareTested = true
					}
				}
			})
			switch {
			case sepAppended:
				r.OK(key, true, "a separator is appended to the scanned directory, so every `..` segment is followed by `/`")
			case bareTested:
				r.OK(key, true, "a bare `..` is tested separately")
			default:
				r.Fail(key, p.Pos(c.Pos()), "the scanned directory is not terminated by a separator and a bare `..` is not tested: for a file that sits directly in the parent directory of outbase (relative directory `..`) nothing is rewritten and the output path becomes <outdir>/../name, outside the output directory")
			}
		})
	}
	if !r.Anchor("scans for leading ../ segments in output path computation", n >= 1) {
		return r
	}
	r.Floor(1)
	return r
}
