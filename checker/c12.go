package main

import (
	"fmt"
	"go/ast"
	"go/types"
	"sort"
	"strings"

	"golang.org/x/tools/go/ssa"
)

var locTypes = map[string]bool{
	"logger.Loc":   true,
	"logger.Range": true,
}

var c12EqExceptions = ExcTable{
	"css_ast.(Token).Equal css_ast.Token.UnitOffset":                                              "derived from Text (split point between number and unit); Text is compared",
	"css_ast.(Token).EqualIgnoringWhitespace css_ast.Token.UnitOffset":                            "derived from Text; Text is compared",
	"css_ast.(Token).EqualIgnoringWhitespace css_ast.Token.Whitespace":                            "the purpose of this variant is to ignore whitespace flags (used only for media-query/container merging where whitespace is insignificant)",
	"css_ast.(*RDeclaration).Equal css_ast.RDeclaration.Key":                                      "Key is the interned form of KeyText, which is compared",
	"css_ast.(*RDeclaration).Equal css_ast.RDeclaration.KeyRange":                                 "location only",
	"css_ast.(ComplexSelector).Equal css_ast.ComplexSelector.Selectors.WasEmptyFromLocalOrGlobal": "parse-time hint consumed by parseListOfDeclarations right after parsing; not printed, both forms print as '&'",
}

var c12HashExceptions = ExcTable{
	"css_ast.(*RDeclaration).Hash Key": "Key is the interned form of KeyText (equal KeyText ⇒ equal Key); Equal compares KeyText",
}

func init() {
	register(&Property{
		ID:          "C12",
		Explanation: "R3: duplicate removal keeps the last of two rules that compare Equal, which is cascade-neutral only for rules whose effect does not depend on their first position; css_ast.RAtLayer.Equal and RAtImport.Equal must therefore return the constant false on every path (layer order is first-declaration order). Decides a structural necessary condition of cascade preservation, not the cascade itself: the equality used by CSS rule merging and duplicate-rule removal (css_ast.*.Equal / EqualIgnoringWhitespace, reached from DuplicateRuleRemover, mangleRules and the linker's cross-file removal) reads every semantic field of every CSS AST node type through BOTH operands (location fields excepted; derived fields listed as reviewed exceptions), pointer-typed fields are compared by content on both sides and not only against nil, and every field hashed by a node's Hash() is also compared by its Equal() (else hash-bucketed duplicate removal mis-pairs rules). If a field is missed, two rules differing only in it are 'equal' and one is deleted or merged away. R5 shared-ast-immutability: the C09/R2 frozen-AST analysis (in-place rule removal never runs on the cached stylesheet). R6 no-append-onto-borrowed: appends onto fields that hold slices borrowed from AST fields sit next to the copy-before-grow idiom. R7 tracker-reset-is-total: no zero value is stored into a single element of a shorthand tracker's state array. R8 logical-aliases-reset-trackers: each tracker has a whole-array reset control dependent on strings.HasPrefix(name, family prefix). R9 tracked-declaration-is-last-rule: at every call reporting a declaration to a shorthand tracker, a defining append of the rule list appended exactly the rule the declaration was taken from. R10 number-mangling-splits-off-exponent: the zero-stripping loop of mangleNumber is dominated by a search for the exponent marker. R11 calc-reciprocal-only-for-plain-numbers: a calcInvert built from a numeric term is conditional on that term's unit. NOT covered: selector-safety reasoning in mangleRules, shorthand collapsing, colour/calc arithmetic, nesting expansion, import order, local-name renaming.",
		Run: func(p *Prog, tier string) []*RuleResult {
			return []*RuleResult{c12EqCoverage(p), c12HashSubset(p), c12NeverEqualRule(p), c12DedupeAfterWrap(p), c12NoAppendOntoBorrowed(p, "C12/R6 no-append-onto-borrowed"), c12TrackerResetTotal(p), c12LogicalAliasesReset(p), renamed(c09Frozen(p), "C12/R5 shared-ast-immutability", "in-place rule removal and merging at link time (duplicate-rule removal compacts the slice it is given) may only run on rule lists made for this link: on the cached stylesheet it deletes rules from every later build that still needs them (same analysis as C09/R2)"), c12TrackedDeclIsLast(p), c12NumberExponent(p), c12CalcReciprocalUnitless(p)}
		},
	})
}

func eachFuncDecl(p *Prog, pkgPath string, f func(pkgp string, fd *ast.FuncDecl)) {
	pk := p.ByPath[pkgPath]
	if pk == nil {
		return
	}
	for _, file := range pk.Syntax {
		for _, d := range file.Decls {
			if fd, ok := d.(*ast.FuncDecl); ok && fd.Body != nil {
				f(pkgPath, fd)
			}
		}
	}
}

func declName(p *Prog, pkgPath string, fd *ast.FuncDecl) string {
	pk := p.ByPath[pkgPath]
	sp := shortPkg(pkgPath)
	if fd.Recv != nil && len(fd.Recv.List) > 0 {
		t := pk.TypesInfo.TypeOf(fd.Recv.List[0].Type)
		ptr := ""
		if pt, ok := t.(*types.Pointer); ok {
			ptr = "*"
			t = pt.Elem()
		}
		tn := t.String()
		if n, ok := t.(*types.Named); ok {
			tn = n.Obj().Name()
		}
		return sp + ".(" + ptr + tn + ")." + fd.Name.Name
	}
	return sp + "." + fd.Name.Name
}

func c12EqCoverage(p *Prog) *RuleResult {
	r := NewRule("C12/R1 css-eq-coverage", "every semantic field of every css_ast node type is compared through both operands by its Equal/EqualIgnoringWhitespace method")
	pkgPath := modPath + "/internal/css_ast"
	pk := p.ByPath[pkgPath]
	if !r.Anchor("package css_ast", pk != nil) {
		return r
	}
	ign := &eqIgnore{ignoredTypes: locTypes, table: c12EqExceptions}
	seenTypes := map[string]bool{}
	eachFuncDecl(p, pkgPath, func(_ string, fd *ast.FuncDecl) {
		if fd.Recv == nil || (fd.Name.Name != "Equal" && fd.Name.Name != "EqualIgnoringWhitespace") {
			return
		}
		name := declName(p, pkgPath, fd)
		if len(fd.Recv.List[0].Names) == 0 {
			// unnamed receiver: the method cannot read any field; accept only "never equal"
			T := namedOf(pk.TypesInfo.TypeOf(fd.Recv.List[0].Type))
			if T == nil {
				return
			}
			r.Instances++
			seenTypes[T.Obj().Name()] = true
			if len(fd.Body.List) == 1 {
				if rs, ok := fd.Body.List[0].(*ast.ReturnStmt); ok && len(rs.Results) == 1 {
					if id, ok := rs.Results[0].(*ast.Ident); ok && id.Name == "false" {
						r.OK(name+" never-equal", true, "method ignores its receiver and returns false: nodes of this type are never merged")
						return
					}
				}
			}
			r.Fail(name+" unnamed-receiver", p.Pos(fd.Pos()), "Equal ignores its receiver but can return true")
			return
		}
		a, b, T := findEqOperands(pk, fd)
		if a == nil || b == nil || T == nil {
			return
		}
		if structOf(T) == nil {
			return
		}
		r.Instances++
		seenTypes[T.Obj().Name()] = true
		ea := analyseEq(pk, fd, a, b)
		checkEqCoverage(r, p, name, ea, T, ign, p.Pos(fd.Pos()))
	})
	// every implementer of css_ast.R, MQ, SS must have been seen (sealed sums with Equal in the interface)
	for _, iface := range []string{"R", "MQ", "SS"} {
		obj := pk.Types.Scope().Lookup(iface)
		if !r.Anchor("css_ast."+iface, obj != nil) {
			continue
		}
		it, _ := obj.Type().Underlying().(*types.Interface)
		for _, n := range pk.Types.Scope().Names() {
			tn, ok := pk.Types.Scope().Lookup(n).(*types.TypeName)
			if !ok || tn.IsAlias() {
				continue
			}
			if _, isStruct := tn.Type().Underlying().(*types.Struct); !isStruct {
				continue
			}
			if types.Implements(types.NewPointer(tn.Type()), it) || types.Implements(tn.Type(), it) {
				if seenTypes[n] {
					r.OK("css_ast."+iface+" implementer "+n+" has an analysed Equal", false, "")
				} else {
					r.Fail("css_ast."+iface+" implementer "+n, p.Pos(tn.Pos()), "no Equal method was analysed for this node type")
				}
			}
		}
	}
	r.Floor(30)
	r.StaleCheck(c12EqExceptions)
	return r
}

func c12HashSubset(p *Prog) *RuleResult {
	r := NewRule("C12/R2 hash-subset-of-eq", "every field a node's Hash() reads is also read by its Equal() through both operands (hash-bucketed duplicate removal pairs rules by hash, then confirms by Equal)")
	pkgPath := modPath + "/internal/css_ast"
	pk := p.ByPath[pkgPath]
	if !r.Anchor("package css_ast", pk != nil) {
		return r
	}
	type pair struct{ eq, hash *ast.FuncDecl }
	m := map[string]*pair{}
	eachFuncDecl(p, pkgPath, func(_ string, fd *ast.FuncDecl) {
		if fd.Recv == nil {
			return
		}
		a, _, T := findEqOperands(pk, fd)
		if a == nil || T == nil {
			return
		}
		e := m[T.Obj().Name()]
		if e == nil {
			e = &pair{}
			m[T.Obj().Name()] = e
		}
		switch fd.Name.Name {
		case "Equal":
			e.eq = fd
		case "Hash":
			e.hash = fd
		}
	})
	var names []string
	for n := range m {
		names = append(names, n)
	}
	sort.Strings(names)
	for _, n := range names {
		e := m[n]
		if e.eq == nil || e.hash == nil {
			continue
		}
		r.Instances++
		ha, _, _ := findEqOperands(pk, e.hash)
		a, b, _ := findEqOperands(pk, e.eq)
		ea := analyseEq(pk, e.eq, a, b)
		hname := declName(p, pkgPath, e.hash)
		for _, path := range fieldsRead(pk, e.hash, ha) {
			top := strings.Split(path, ".")[0]
			key := hname + " " + top
			cov := false
			for s := 0; s < 2; s++ {
				found := false
				for up := range ea.uses[s] {
					if up == top || strings.HasPrefix(up, top+".") {
						found = true
					}
				}
				if !found {
					cov = false
					break
				}
				cov = true
			}
			if cov {
				r.OK(key, true, "hashed field is also compared by Equal on both operands")
			} else if !r.CheckExc(c12HashExceptions, key) {
				r.Fail(key, p.Pos(e.hash.Pos()), "field "+top+" contributes to "+n+".Hash() but is not read through both operands by Equal()")
			}
		}
	}
	r.Floor(20)
	r.StaleCheck(c12HashExceptions)
	return r
}

// C12/R3 order-sensitive rules never compare equal.
//
// Duplicate-rule removal (css_parser RemoveDuplicateRules / the linker's cross-file pass) keeps the
// LAST of two rules that compare Equal. That is only cascade-neutral for rules whose effect does
// not depend on where they FIRST appear. Two kinds do depend on it:
//
//	@layer  — layer order is the order of first declaration; dropping an earlier `@layer a`
//	          (statement or block) moves layer a behind layers declared in between and flips the
//	          winner between layers;
//	@import — conditions and position-dependent semantics, handled by the bundler itself.
//
// So for these kinds Equal must answer false on every path.
var c12NeverEqual = map[string]string{
	"RAtLayer":  "cascade layer order is the order of first declaration, so an earlier duplicate cannot be dropped in favour of a later one",
	"RAtImport": "imports are position dependent and are resolved by the bundler, never merged by text equality",
}

func c12NeverEqualRule(p *Prog) *RuleResult {
	r := NewRule("C12/R3 order-sensitive-never-equal", "rule kinds whose meaning depends on their first position (@layer, @import) never compare Equal, so duplicate removal, which keeps the last copy, cannot touch them")
	var names []string
	for n := range c12NeverEqual {
		names = append(names, n)
	}
	sort.Strings(names)
	for _, n := range names {
		r.Instances++
		key := n + ".Equal"
		fn := p.FindFunc("css_ast.(*" + n + ").Equal")
		if fn == nil {
			r.Fail(key, "", "method css_ast.(*"+n+").Equal not found")
			continue
		}
		bad := ""
		rets := 0
		eachInstr(fn, func(b *ssa.BasicBlock, in ssa.Instruction) {
			ret, ok := in.(*ssa.Return)
			if !ok || len(ret.Results) != 1 {
				return
			}
			rets++
			if !isConstBool(ret.Results[0], false) {
				bad = p.Pos(ret.Pos())
			}
		})
		if bad != "" || rets == 0 {
			r.Fail(key, bad, "css_ast."+n+".Equal can answer true: "+c12NeverEqual[n]+"; duplicate removal keeps only the last of two equal rules")
		} else {
			r.OK(key, true, fmt.Sprintf("all %d returns are the constant false", rets))
		}
	}
	return r
}

// C12/R4 cross-file dedupe sees conditioned rules.
//
// When CSS files are bundled, a file imported with conditions (`@import "x.css" print`,
// `supports(...)`, `layer(...)`) contributes its rules wrapped in the corresponding at-rules
// (wrapRulesWithConditions). The cross-file duplicate remover is shared by the whole chunk and
// knows nothing about import conditions, so it may only compare rules *after* that wrapping:
// an unconditional rule must never be dropped in favour of an identical rule that only applies
// under a condition. Rule: in the linker, the rule list handed to DeadRuleRemover.
// RemoveDeadRulesInPlace is computed from the result of wrapRulesWithConditions.
func c12DedupeAfterWrap(p *Prog) *RuleResult {
	r := NewRule("C12/R4 dedupe-after-conditions", "the cross-file duplicate remover of a CSS chunk is given a file's rules only after they were wrapped in the file's import conditions")
	n := 0
	for _, fn := range p.ModuleFuncs() {
		if pkgPathOf(fn) != modPath+"/internal/linker" {
			continue
		}
		k := 0
		eachInstr(fn, func(b *ssa.BasicBlock, in ssa.Instruction) {
			c, ok := in.(*ssa.Call)
			if !ok || FuncNameOf(c) != "css_parser.(*DeadRuleRemover).RemoveDeadRulesInPlace" || len(c.Call.Args) < 3 {
				return
			}
			n++
			k++
			r.Instances++
			key := fmt.Sprintf("%s call #%d", FuncName(fn), k)
			wrapped := false
			backSlice(c.Call.Args[2], func(v ssa.Value) bool {
				if cc, ok := v.(*ssa.Call); ok && FuncNameOf(cc) == "linker.wrapRulesWithConditions" {
					// and it has been executed by then
					if cc.Block() != b && cc.Block().Dominates(b) {
						wrapped = true
					}
					if cc.Block() == b {
						for _, bi := range b.Instrs {
							if bi == ssa.Instruction(cc) {
								wrapped = true
								break
							}
							if bi == ssa.Instruction(c) {
								break
							}
						}
					}
				}
				return !wrapped
			})
			if wrapped {
				r.OK(key, true, "the rule list is the result of wrapRulesWithConditions")
			} else {
				r.Fail(key, p.Pos(c.Pos()), "the cross-file duplicate remover is given a file's own rules before they are wrapped in the file's import conditions: an unconditional rule of an earlier file is then deleted in favour of an identical rule that only applies under a media/supports/layer condition")
			}
		})
	}
	r.Anchor("linker call of css_parser.(*DeadRuleRemover).RemoveDeadRulesInPlace", n > 0)
	return r
}
