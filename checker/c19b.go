package main

import (
	"fmt"
	"go/token"
	"go/types"
	"sort"

	"golang.org/x/tools/go/ssa"
)

// C19/R4 metafile-reads-final-record.
//
// bundler.processScannedFiles writes the `imports` entries of the metafile's `inputs` section while
// it walks a file's import records, and the same walk also *rewrites* records (the dual-package
// hazard rewrite retargets record.SourceIndex from a package's "module" file to its "main" file).
// The metafile is an exact account only if every record field it reports is read after the last
// store to that field in the iteration: text generated from a field that is overwritten later in
// the same iteration describes an import the bundle does not contain.
// Rule: for every strings.Builder.WriteString in processScannedFiles whose text depends on a load
// of an ast.ImportRecord field F, no store to ImportRecord.F is reachable from the write without
// leaving the innermost loop that contains the write (i.e. later in the same iteration).

var c19RewriteExceptions = map[string]string{
	"ImportRecord.SourceIndex = graph.CSSRepr.JSSourceIndex": "a CSS file imported from JS is replaced by a generated JS stub whose Source is the CSS file's own Source (same path in the metafile); the stub is an artefact of this build, not another input",
}

func c19MetafileFinalRecord(p *Prog) *RuleResult {
	r := NewRule("C19/R4 metafile-reads-final-record", "metafile text generated from an import record is generated after the last rewrite of the record fields it reports (no store to the field later in the same iteration)")
	fn := p.FindFunc("bundler.(*scanner).processScannedFiles")
	if !r.Anchor("bundler.(*scanner).processScannedFiles", fn != nil) {
		return r
	}
	loops := naturalLoops(fn)
	innermost := func(b *ssa.BasicBlock) (*ssa.BasicBlock, map[*ssa.BasicBlock]bool) {
		var bestH *ssa.BasicBlock
		var best map[*ssa.BasicBlock]bool
		for h, body := range loops {
			if body[b] && (best == nil || len(body) < len(best)) {
				bestH, best = h, body
			}
		}
		return bestH, best
	}
	// stores to ImportRecord fields
	stores := map[string][]*ssa.Store{}
	eachInstr(fn, func(b *ssa.BasicBlock, in ssa.Instruction) {
		st, ok := in.(*ssa.Store)
		if !ok {
			return
		}
		if fa, ok := st.Addr.(*ssa.FieldAddr); ok && namedTypeName(fa.X.Type()) == "ast.ImportRecord" {
			stores[fieldAddrName(fa)] = append(stores[fieldAddrName(fa)], st)
		}
	})
	nWrites := 0
	usedExc := map[string]string{}
	eachInstr(fn, func(b *ssa.BasicBlock, in ssa.Instruction) {
		c, ok := in.(*ssa.Call)
		if !ok || calleeFullName(c) != "(*strings.Builder).WriteString" || len(c.Call.Args) < 2 {
			return
		}
		fields := map[string]bool{}
		backSlice(c.Call.Args[1], func(v ssa.Value) bool {
			if fa, ok := v.(*ssa.FieldAddr); ok && namedTypeName(fa.X.Type()) == "ast.ImportRecord" {
				fields[fieldAddrName(fa)] = true
			}
			return true
		})
		if len(fields) == 0 {
			return
		}
		nWrites++
		header, body := innermost(b)
		var names []string
		for f := range fields {
			names = append(names, f)
		}
		sort.Strings(names)
		for _, f := range names {
			r.Instances++
			key := fmt.Sprintf("metafile text from ImportRecord.%s", f)
			bad := ""
			for _, st := range stores[f] {
				sb := st.Block()
				if body != nil && !body[sb] {
					continue
				}
				// reachable from the write to the store within the iteration?
				reach := false
				if sb == b {
					after := false
					for _, x := range b.Instrs {
						if x == in {
							after = true
						}
						if x == ssa.Instruction(st) && after {
							reach = true
						}
					}
				} else {
					seen := map[*ssa.BasicBlock]bool{b: true}
					work := []*ssa.BasicBlock{b}
					for len(work) > 0 && !reach {
						x := work[len(work)-1]
						work = work[:len(work)-1]
						for _, s := range x.Succs {
							if s == header || seen[s] || (body != nil && !body[s]) {
								continue
							}
							if s == sb {
								reach = true
								break
							}
							seen[s] = true
							work = append(work, s)
						}
					}
				}
				if reach {
					// reviewed rewrites that do not change what the metafile reports
					if o, n, ok := loadedField(st.Val); ok {
						if reason, ok := c19RewriteExceptions["ImportRecord."+f+" = "+o+"."+n]; ok {
							usedExc["ImportRecord."+f+" = "+o+"."+n] = reason
							continue
						}
					}
					// clearing the field (the zero Index32): the copy loader moves the target to
					// CopySourceIndex; the metafile still reports the copied file as imported
					if cv, ok := st.Val.(*ssa.Const); ok && cv.Value == nil {
						usedExc["ImportRecord."+f+" = zero value"] = "the record is cleared after its target was moved to another field (copy loader); the file is still an input the importer refers to"
						continue
					}
					bad = p.Pos(st.Pos())
				}
			}
			if bad != "" {
				r.Fail(key, p.Pos(c.Pos()), "the metafile entry is generated from ImportRecord."+f+" before the record is rewritten at "+bad+" in the same iteration: the metafile reports an import target that the bundle does not use")
			} else {
				r.OK(key, true, fmt.Sprintf("no store to ImportRecord.%s is reachable from the write within the iteration (%d store site(s) in the function)", f, len(stores[f])))
			}
		}
	})
	for k, reason := range usedExc {
		r.Note("reviewed rewrite " + k + ": " + reason)
	}
	r.Anchor("metafile writes that report import-record fields", nWrites >= 1)
	return r
}

// C19/R5 attribution and the inputs list use one predicate.
//
// The metafile's top-level "inputs" (bundler.generateMetadataJSON) leaves out every file flagged
// OmitFromSourceMapsAndMetafile — the runtime and the synthetic modules esbuild generates for glob
// imports. The per-output byte attribution (outputs[..].inputs), recorded in generateChunkJS, must
// leave out exactly the same files, or an output attributes bytes to an "input" that is not listed
// and was never read. Rule: the attribution record in generateChunkJS is made only on the edge
// where the file's OmitFromSourceMapsAndMetafile flag is false, and generateMetadataJSON tests the
// same flag.
func c19OmitPredicate(p *Prog) *RuleResult {
	r := NewRule("C19/R5 omit-predicate-siblings", "the per-output byte attribution and the metafile's list of inputs exclude files by the same predicate (the file's OmitFromSourceMapsAndMetafile flag)")
	gm := p.FindFunc("bundler.(*Bundle).generateMetadataJSON")
	gc := p.FindFunc("linker.(*linkerContext).generateChunkJS")
	if !r.Anchor("bundler.(*Bundle).generateMetadataJSON", gm != nil) || !r.Anchor("linker.(*linkerContext).generateChunkJS", gc != nil) {
		return r
	}
	testsFlag := func(fn *ssa.Function) bool {
		found := false
		eachInstr(fn, func(b *ssa.BasicBlock, in ssa.Instruction) {
			if ifi, ok := in.(*ssa.If); ok {
				c := ifi.Cond
				if u, ok := c.(*ssa.UnOp); ok && u.Op == token.NOT {
					c = u.X
				}
				if _, n, ok := loadedField(c); ok && n == "OmitFromSourceMapsAndMetafile" {
					found = true
				}
			}
		})
		return found
	}
	r.Instances++
	if testsFlag(gm) {
		r.OK("generateMetadataJSON filters inputs by OmitFromSourceMapsAndMetafile", true, "the inputs list skips flagged files")
	} else {
		r.Fail("generateMetadataJSON filters inputs by OmitFromSourceMapsAndMetafile", p.Pos(gm.Pos()), "the metafile's list of inputs no longer tests the OmitFromSourceMapsAndMetafile flag")
	}
	n := 0
	eachInstr(gc, func(b *ssa.BasicBlock, in ssa.Instruction) {
		mu, ok := in.(*ssa.MapUpdate)
		if !ok {
			return
		}
		// the attribution map: map[uint32][][]byte keyed by the compile result's source index
		mt, ok := mu.Map.Type().Underlying().(*types.Map)
		if !ok {
			return
		}
		if _, isSlice := mt.Elem().Underlying().(*types.Slice); !isSlice {
			return
		}
		if bt, ok := mt.Key().Underlying().(*types.Basic); !ok || bt.Kind() != types.Uint32 {
			return
		}
		n++
		r.Instances++
		key := "generateChunkJS attribution record"
		okFlag := false
		for _, f := range factsAt(b) {
			if _, name, ok := loadedField(f.Cond); ok && name == "OmitFromSourceMapsAndMetafile" && !f.True {
				okFlag = true
			}
		}
		if okFlag {
			r.OK(key, true, "recorded only where OmitFromSourceMapsAndMetafile is false")
		} else {
			r.Fail(key, p.Pos(mu.Pos()), "bytes are attributed to a file without having tested its OmitFromSourceMapsAndMetafile flag, which is what decides whether the file appears in the metafile's inputs: a synthetic module (glob import) is then attributed bytes under a key that is not a listed input")
		}
	})
	r.Anchor("generateChunkJS: the attribution record", n >= 1)
	return r
}
