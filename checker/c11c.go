package main

import (
	"go/token"
	"go/types"
	"strings"

	"golang.org/x/tools/go/ssa"
)

// C11/R4 real-path provenance.
//
// Node resolves every module to its real path (fs.realpath) and continues the node_modules walk
// from there. esbuild caches, per directory entry, the real path of an entry that is a symlink
// (realFS.kind → Entry.symlink); the resolver uses it as the canonical location of the file and of
// every directory below it (dirInfo.absRealPath). The value is only canonical if it is the result
// of full symlink evaluation of the entry's path: a one-hop readlink target (chains of links, a
// relative link inside a linked directory) is not, and the resolver then looks for packages next
// to an intermediate link, where Node looks next to the real file.
// Rule: the non-empty values realFS.kind returns as `symlink` are, without further processing, the
// first result of goFilepath.evalSymlinks.
func c11RealPathProvenance(p *Prog) *RuleResult {
	r := NewRule("C11/R4 real-path-provenance", "the real path cached for a symlinked directory entry is the result of full symlink evaluation (evalSymlinks), never a one-hop link target")
	fn := p.FindFunc("fs.(*realFS).kind")
	if !r.Anchor("fs.(*realFS).kind", fn != nil) {
		return r
	}
	n := 0
	for _, b := range fn.Blocks {
		if !isReturnBlock(b) {
			continue
		}
		ret := b.Instrs[len(b.Instrs)-1].(*ssa.Return)
		if len(ret.Results) < 1 {
			continue
		}
		// collect the leaves of the first result
		var leaves []ssa.Value
		seen := map[ssa.Value]bool{}
		var walk func(v ssa.Value)
		walk = func(v ssa.Value) {
			if v == nil || seen[v] {
				return
			}
			seen[v] = true
			switch x := v.(type) {
			case *ssa.Phi:
				for _, e := range x.Edges {
					walk(e)
				}
			case *ssa.UnOp:
				// named result spilled to a cell (the function has a defer): every value stored to it
				if al, ok := x.X.(*ssa.Alloc); ok && al.Referrers() != nil {
					for _, rf := range *al.Referrers() {
						if st, ok := rf.(*ssa.Store); ok && st.Addr == ssa.Value(al) {
							walk(st.Val)
						}
					}
					return
				}
				leaves = append(leaves, v)
			default:
				leaves = append(leaves, v)
			}
		}
		walk(ret.Results[0])
		for _, lf := range leaves {
			if s, ok := constString(lf); ok && s == "" {
				continue
			}
			n++
			r.Instances++
			key := "realFS.kind symlink value"
			if ex, ok := lf.(*ssa.Extract); ok && ex.Index == 0 {
				if c, ok := ex.Tuple.(*ssa.Call); ok && strings.HasSuffix(FuncNameOf(c), "goFilepath).evalSymlinks") {
					r.OK(key, true, "the first result of evalSymlinks, unprocessed")
					continue
				}
			}
			r.Fail(key, p.Pos(lf.Pos()), "the real path recorded for a symlinked entry is "+ssaExpr(lf, 0)+", not the result of evalSymlinks: a link whose target is itself reached through links (npm link chains, a relative link inside a linked directory) gets a non-canonical 'real' path, and packages are then looked up next to the intermediate link")
		}
	}
	r.Anchor("a symlink value returned by realFS.kind", n >= 1)
	return r
}

// C11/R5 wildcard matches at least one character.
//
// Node's PACKAGE_IMPORTS_EXPORTS_RESOLVE matches a pattern key "./base*trailer" only if matchKey
// "starts with but is not equal to" the pattern base and, when there is a trailer, is at least as
// long as the whole key: the `*` always stands for one or more characters. "./foo*" therefore does
// not match the subpath "./foo"; Node reports ERR_PACKAGE_PATH_NOT_EXPORTED for it.
// Rule: in esmPackageImportsExportsResolve every path from the entry to the pattern call of
// esmPackageTargetResolve (pattern = true) crosses an edge that establishes matchKey != patternBase
// (a string inequality on matchKey) or len(matchKey) >= len(key) (a length comparison on matchKey).
func c11WildcardNonEmpty(p *Prog) *RuleResult {
	r := NewRule("C11/R5 wildcard-nonempty", "a `*` pattern of an exports/imports map matches only subpaths in which the `*` stands for at least one character (Node: matchKey starts with but is not equal to the pattern base)")
	fn := p.FindFunc("resolver.(resolverQuery).esmPackageImportsExportsResolve")
	if !r.Anchor("resolver.(resolverQuery).esmPackageImportsExportsResolve", fn != nil) {
		return r
	}
	var matchKey *ssa.Parameter
	for _, prm := range fn.Params {
		if prm.Name() == "matchKey" {
			matchKey = prm
		}
	}
	if !r.Anchor("parameter matchKey", matchKey != nil) {
		return r
	}
	isMatchKey := func(v ssa.Value) bool { return v == ssa.Value(matchKey) }
	isLenOfMatchKey := func(v ssa.Value) bool {
		c, ok := v.(*ssa.Call)
		if !ok {
			return false
		}
		bi, ok := c.Call.Value.(*ssa.Builtin)
		return ok && bi.Name() == "len" && len(c.Call.Args) == 1 && isMatchKey(c.Call.Args[0])
	}
	safeEdge := func(b *ssa.BasicBlock, si int) bool {
		if len(b.Instrs) == 0 {
			return false
		}
		ifi, ok := b.Instrs[len(b.Instrs)-1].(*ssa.If)
		if !ok {
			return false
		}
		cond, pol := ifi.Cond, si == 0
		for {
			if u, ok := cond.(*ssa.UnOp); ok && u.Op == token.NOT {
				cond, pol = u.X, !pol
				continue
			}
			break
		}
		bo, ok := cond.(*ssa.BinOp)
		if !ok {
			return false
		}
		switch bo.Op {
		case token.NEQ, token.EQL:
			// matchKey != <some string>
			if bt, ok := bo.X.Type().Underlying().(*types.Basic); ok && bt.Kind() == types.String && (isMatchKey(bo.X) || isMatchKey(bo.Y)) {
				if _, isConst := bo.Y.(*ssa.Const); isConst {
					return false
				}
				return pol == (bo.Op == token.NEQ)
			}
		case token.GEQ, token.GTR:
			if isLenOfMatchKey(bo.X) {
				return pol
			}
		case token.LSS, token.LEQ:
			if isLenOfMatchKey(bo.X) {
				return !pol
			}
			if isLenOfMatchKey(bo.Y) {
				return pol
			}
		}
		return false
	}
	n := 0
	eachInstr(fn, func(b *ssa.BasicBlock, in ssa.Instruction) {
		c, ok := in.(*ssa.Call)
		if !ok || !strings.HasSuffix(FuncNameOf(c), "resolverQuery).esmPackageTargetResolve") || len(c.Call.Args) < 5 {
			return
		}
		if !isConstBool(c.Call.Args[4], true) {
			return // not a pattern match
		}
		n++
		r.Instances++
		key := "pattern match in esmPackageImportsExportsResolve"
		target := b
		if path, reach := reachesExitAvoidingEdges(fn.Blocks[0], func(x *ssa.BasicBlock) bool { return x == target }, func(x *ssa.BasicBlock) bool { return false }, safeEdge); reach {
			r.Fail(key, p.Pos(c.Pos()), "a pattern key is matched on a path ("+blockPath(path)+") that never established that matchKey differs from the pattern base (or is at least as long as the key): `\"./foo*\"` then matches the subpath `./foo` with an empty `*`, which Node rejects as not exported")
		} else {
			r.OK(key, true, "every path to the pattern match establishes matchKey != patternBase or len(matchKey) >= len(key)")
		}
	})
	r.Anchor("a pattern call of esmPackageTargetResolve", n >= 1)
	return r
}

// C11/R6 every segment of the matched subpath is validated.
//
// Node's PACKAGE_TARGET_RESOLVE rejects a target if any segment *after the first* is ".", ".." or
// "node_modules" (a target starts with "./"), and rejects the part of the specifier matched by `*`
// (the subpath) if *any* segment is one of those — otherwise `pkg/lib/../secret.js` walks out of
// an exported directory `"./lib/*"`. The validator applied to the subpath therefore must not skip
// the first segment.
// Rule: the function that validates the `subpath` parameter of esmPackageTargetResolve compares
// with ".." a segment that can start at offset 0 of its argument (dataflow over the string slices:
// the parameter and its prefixes x[:n] start at 0, x[n:] does not).
func c11SubpathSegments(p *Prog) *RuleResult {
	r := NewRule("C11/R6 subpath-all-segments", "the validation of the subpath matched by a `*` pattern examines every segment, including the first (a leading `..` or `node_modules` segment is rejected as Node does)")
	fn := p.FindFunc("resolver.(resolverQuery).esmPackageTargetResolve")
	if !r.Anchor("resolver.(resolverQuery).esmPackageTargetResolve", fn != nil) {
		return r
	}
	var subpath *ssa.Parameter
	for _, prm := range fn.Params {
		if prm.Name() == "subpath" {
			subpath = prm
		}
	}
	if !r.Anchor("parameter subpath", subpath != nil) {
		return r
	}
	// startsAtZero: can the string value v begin at offset 0 of the function's parameter prm?
	var coversFirst func(callee *ssa.Function, pi int, depth int) (bool, bool)
	coversFirst = func(callee *ssa.Function, pi int, depth int) (found bool, covers bool) {
		if callee == nil || callee.Blocks == nil || depth > 3 || pi >= len(callee.Params) {
			return false, false
		}
		prm := callee.Params[pi]
		atZero := map[ssa.Value]bool{prm: true}
		for changed := true; changed; {
			changed = false
			eachInstr(callee, func(_ *ssa.BasicBlock, in ssa.Instruction) {
				v, ok := in.(ssa.Value)
				if !ok || atZero[v] {
					return
				}
				switch x := in.(type) {
				case *ssa.Slice:
					if atZero[x.X] && x.Low == nil {
						atZero[v] = true
						changed = true
					}
				case *ssa.Phi:
					for _, e := range x.Edges {
						if atZero[e] {
							atZero[v] = true
							changed = true
						}
					}
				}
			})
		}
		eachInstr(callee, func(_ *ssa.BasicBlock, in ssa.Instruction) {
			switch x := in.(type) {
			case *ssa.BinOp:
				if x.Op != token.EQL && x.Op != token.NEQ {
					return
				}
				for _, pair := range [][2]ssa.Value{{x.X, x.Y}, {x.Y, x.X}} {
					if s, ok := constString(pair[1]); ok && s == ".." {
						found = true
						if atZero[pair[0]] {
							covers = true
						}
					}
				}
			case *ssa.Call:
				// forwarded to another validator
				if sub := x.Call.StaticCallee(); sub != nil && sub != callee {
					for ai, a := range x.Call.Args {
						if bt, ok := a.Type().Underlying().(*types.Basic); !ok || bt.Kind() != types.String {
							continue
						}
						f2, c2 := coversFirst(sub, ai, depth+1)
						if f2 {
							found = true
							if c2 && atZero[a] {
								covers = true
							}
						}
					}
				}
			}
		})
		return
	}
	n := 0
	eachInstr(fn, func(b *ssa.BasicBlock, in ssa.Instruction) {
		c, ok := in.(*ssa.Call)
		if !ok {
			return
		}
		callee := c.Call.StaticCallee()
		if callee == nil || pkgPathOf(callee) != pkgPathOf(fn) {
			return
		}
		for ai, a := range c.Call.Args {
			if a != ssa.Value(subpath) {
				continue
			}
			found, covers := coversFirst(callee, ai, 0)
			if !found {
				continue // not a segment validator
			}
			n++
			r.Instances++
			key := "validation of subpath in esmPackageTargetResolve"
			if covers {
				r.OK(key, true, FuncName(callee)+" compares a segment that starts at offset 0 of the subpath with \"..\"")
			} else {
				r.Fail(key, p.Pos(c.Pos()), "the subpath is validated by "+FuncName(callee)+", which discards everything up to the first separator before it looks at segments: a subpath that begins with `..` or `node_modules` (`pkg/lib/../secret.js` with \"./lib/*\") is accepted and resolves outside the exported directory; Node throws ERR_INVALID_MODULE_SPECIFIER")
			}
		}
	})
	r.Anchor("a segment validation of subpath", n >= 1)
	return r
}

// C11/R7 the matched subpath is substituted verbatim.
//
// Node computes a pattern target as `new URL(target.replace(/\*/g, subpath), packageURL)` and
// decodes percent escapes of the whole result afterwards (fileURLToPath). esbuild mirrors that:
// it replaces "*" in the target by the subpath and URL-unescapes the result in
// esmHandlePostConditions. The substituted text must therefore be the subpath exactly as matched;
// escaping or otherwise rewriting it first makes `pkg/feat/a%20b.js` resolve to a file literally
// named `a%20b.js` where Node resolves `a b.js`.
func c11SubpathVerbatim(p *Prog) *RuleResult {
	r := NewRule("C11/R7 subpath-verbatim", "the text substituted for `*` in an exports/imports pattern target is the matched subpath itself, unmodified (percent escapes are decoded once, on the whole result, as Node does)")
	fn := p.FindFunc("resolver.(resolverQuery).esmPackageTargetResolve")
	if !r.Anchor("resolver.(resolverQuery).esmPackageTargetResolve", fn != nil) {
		return r
	}
	var subpath *ssa.Parameter
	for _, prm := range fn.Params {
		if prm.Name() == "subpath" {
			subpath = prm
		}
	}
	if !r.Anchor("parameter subpath", subpath != nil) {
		return r
	}
	n := 0
	eachInstr(fn, func(b *ssa.BasicBlock, in ssa.Instruction) {
		c, ok := in.(*ssa.Call)
		if !ok || calleeFullName(c) != "strings.ReplaceAll" || len(c.Call.Args) != 3 {
			return
		}
		if s, ok := constString(c.Call.Args[1]); !ok || s != "*" {
			return
		}
		n++
		r.Instances++
		key := "esmPackageTargetResolve substitution for *"
		if c.Call.Args[2] == ssa.Value(subpath) {
			r.OK(key, true, "the subpath parameter itself")
		} else {
			r.Fail(key, p.Pos(c.Pos()), "the text substituted for `*` is "+ssaExpr(c.Call.Args[2], 0)+", not the matched subpath itself: the later URL-unescaping then no longer yields the file Node resolves (`pkg/feat/a%20b.js` → `a b.js`)")
		}
	})
	r.Anchor("the `*` substitution in esmPackageTargetResolve", n >= 1)
	return r
}
