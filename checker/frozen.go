package main

import (
	"fmt"
	"go/token"
	"go/types"
	"sort"
	"strings"

	"golang.org/x/tools/go/ssa"
)

// E-FRZ: post-parse stores into AST-typed memory must hit memory that CloneLinkerGraph (or the
// per-build code) cloned. Type-based abstraction: a store address is a chain of steps from a root.
// Walking root -> store, the abstract state is FRESH (memory owned by this build) or SHARED
// (memory possibly shared with the parse cache). Rules:
//   - root Alloc / MakeSlice / MakeMap / fresh append in the same function: FRESH
//   - root pointer to a per-build (non-AST-package) struct: FRESH
//   - root pointer to ast.Symbol / js_ast.Part / ast.ImportRecord / graph.JSRepr / graph.CSSRepr:
//     FRESH (the linker's cloned element types; the clone itself is checked by the companion rule)
//   - any other pointer/slice/map into AST-package types (E*/S*/B* nodes, []Stmt, *Scope, ...): SHARED
//   - a field step keeps the state
//   - a dereference (load of pointer/slice/map then index/field/lookup) of field F:
//       F owned by a non-AST-package struct: FRESH->FRESH if the loaded value's element type is not
//         AST-typed or is one of the cloned element types, else SHARED
//       F in the cloned-container table: keeps FRESH
//       otherwise SHARED
// A candidate store is one whose written object is AST-typed. FRESH discharges; SHARED needs an
// exception keyed by (function, type path).

var astPkgs = map[string]bool{
	modPath + "/internal/js_ast":  true,
	modPath + "/internal/css_ast": true,
	modPath + "/internal/ast":     true,
}

func isASTType(t types.Type) bool {
	for {
		switch u := t.(type) {
		case *types.Pointer:
			t = u.Elem()
			continue
		case *types.Slice:
			t = u.Elem()
			continue
		case *types.Array:
			t = u.Elem()
			continue
		case *types.Map:
			return isASTType(u.Elem()) || isASTType(u.Key())
		case *types.Named:
			if u.Obj().Pkg() != nil && astPkgs[u.Obj().Pkg().Path()] {
				// only aggregate/interface types matter
				switch u.Underlying().(type) {
				case *types.Struct, *types.Interface, *types.Slice, *types.Map:
					return true
				}
				return false
			}
			return false
		}
		return false
	}
}

// cloned element types: pointers to these are assumed to point into per-build clones.
var frzClonedElemTypes = map[string]bool{
	"ast.Symbol":       true, // SymbolMap.SymbolsForSource[i] = append([]ast.Symbol{}, ...)
	"js_ast.Part":      true, // AST.Parts = append([]js_ast.Part{}, ...)
	"ast.ImportRecord": true, // AST.ImportRecords = append([]ast.ImportRecord{}, ...)
	"ast.SymbolMap":    true, // per-build: ast.NewSymbolMap in CloneLinkerGraph
}

// cloned containers: dereferencing these fields of AST-package structs stays in fresh memory.
var frzClonedContainers = map[string]string{
	"js_ast.AST.Parts":               "CloneLinkerGraph: repr.AST.Parts = append([]js_ast.Part{}, ...)",
	"js_ast.AST.ImportRecords":       "CloneLinkerGraph / parseFile: append([]ast.ImportRecord{}, ...)",
	"css_ast.AST.ImportRecords":      "CloneLinkerGraph / parseFile: append([]ast.ImportRecord{}, ...)",
	"js_ast.AST.NamedImports":        "CloneLinkerGraph: fresh map copy",
	"js_ast.AST.ModuleScope":         "CloneLinkerGraph: new(js_ast.Scope) copy",
	"js_ast.Scope.Generated":         "CloneLinkerGraph: append([]ast.Ref{}, ...) (module scope only; nested scopes are not reached post-parse)",
	"js_ast.Part.SymbolUses":         "CloneLinkerGraph: fresh map copy per part",
	"ast.SymbolMap.SymbolsForSource": "CloneLinkerGraph: fresh outer array and per-file append([]ast.Symbol{}, ...)",
}

type frzSite struct {
	fn    *ssa.Function
	pos   token.Pos
	path  string
	state string // fresh | shared
	why   string
	instr ssa.Instruction
}

func ownerIsAST(owner string) bool {
	return strings.HasPrefix(owner, "js_ast.") || strings.HasPrefix(owner, "css_ast.") || strings.HasPrefix(owner, "ast.")
}

// frzFreshValue reports whether v is produced by an allocation in this function (or, for a
// captured variable, by allocations in the enclosing function).
func frzFreshValue(v ssa.Value, depth int) bool {
	return frzFresh(v, map[ssa.Value]bool{}, depth)
}

func frzFresh(v ssa.Value, seen map[ssa.Value]bool, depth int) bool {
	if depth > 40 {
		return false
	}
	if seen[v] {
		return true // cycle through a phi: decided by the other edges
	}
	seen[v] = true
	switch x := v.(type) {
	case *ssa.Alloc, *ssa.MakeSlice, *ssa.MakeMap, *ssa.MakeChan:
		return true
	case *ssa.Const:
		return x.Value == nil // nil slice/map/pointer: nothing to alias
	case *ssa.Call:
		if b, ok := x.Call.Value.(*ssa.Builtin); ok && b.Name() == "append" {
			return frzFresh(x.Call.Args[0], seen, depth+1)
		}
		if b, ok := x.Call.Value.(*ssa.Builtin); ok && b.Name() == "new" {
			return true
		}
		return frzCallResultFresh(x, 0, seen, depth)
	case *ssa.Extract:
		if c, ok := x.Tuple.(*ssa.Call); ok {
			return frzCallResultFresh(c, x.Index, seen, depth)
		}
	case *ssa.Slice:
		return frzFresh(x.X, seen, depth+1)
	case *ssa.Phi:
		for _, e := range x.Edges {
			if !frzFresh(e, seen, depth+1) {
				return false
			}
		}
		return len(x.Edges) > 0
	case *ssa.ChangeType:
		return frzFresh(x.X, seen, depth+1)
	case *ssa.FieldAddr:
		if _, ok := x.X.(*ssa.Alloc); ok {
			return true // address inside a local/fresh struct
		}
		if fa, ok := x.X.(*ssa.FieldAddr); ok {
			return frzFresh(fa, seen, depth+1)
		}
	case *ssa.Parameter:
		// one level interprocedural: fresh when every call site passes a fresh argument
		if frzProg == nil {
			return false
		}
		fn := x.Parent()
		idx := -1
		for i, p := range fn.Params {
			if p == x {
				idx = i
			}
		}
		node := frzProg.CallGraph().Nodes[fn]
		if idx < 0 || node == nil || len(node.In) == 0 || fn.Parent() != nil {
			return false
		}
		for _, e := range node.In {
			if e.Site == nil {
				return false
			}
			cc := e.Site.Common()
			ai := idx
			if cc.IsInvoke() {
				ai = idx - 1
			}
			if ai < 0 || ai >= len(cc.Args) {
				return false
			}
			if !frzFresh(cc.Args[ai], seen, depth+4) {
				return false
			}
		}
		return true
	case *ssa.UnOp:
		if x.Op == token.MUL {
			// load of a field of a local struct variable: fresh when a fresh store to that field
			// dominates the load and every other store to the field/struct happens before it
			if fa, ok := x.X.(*ssa.FieldAddr); ok {
				if al, ok := fa.X.(*ssa.Alloc); ok {
					if frzLocalFieldFresh(al, fa.Field, x, seen, depth) {
						return true
					}
				}
				// field of a per-build struct type: fresh when every store to that field anywhere in
				// the module stores a fresh value (self-append counts)
				if owner := namedTypeName(fa.X.Type()); owner != "" && !ownerIsAST(owner) {
					return frzFieldAlwaysFresh(fa, seen, depth)
				}
			}
			// load of a local or captured variable cell: fresh when every value stored to the cell is fresh
			if cell := varCell(x.X); cell != nil {
				vals, ok := storesToCell(cell)
				if !ok || len(vals) == 0 {
					return false
				}
				for _, sv := range vals {
					if !frzFresh(sv, seen, depth+1) {
						return false
					}
				}
				return true
			}
		}
	}
	return false
}

var frzProg *Prog

var frzFieldMemo = map[string]int{} // 0 unknown, 1 in progress, 2 fresh, 3 not fresh
var frzFieldStores map[string][]*ssa.Store

func frzFieldKey(fa *ssa.FieldAddr) string {
	return namedTypeName(fa.X.Type()) + "." + fieldAddrName(fa)
}

func frzFieldAlwaysFresh(fa *ssa.FieldAddr, seen map[ssa.Value]bool, depth int) bool {
	if frzProg == nil {
		return false
	}
	if frzFieldStores == nil {
		frzFieldStores = map[string][]*ssa.Store{}
		for _, fn := range frzProg.ModuleFuncs() {
			eachInstr(fn, func(b *ssa.BasicBlock, in ssa.Instruction) {
				if st, ok := in.(*ssa.Store); ok {
					if f, ok := st.Addr.(*ssa.FieldAddr); ok {
						k := frzFieldKey(f)
						frzFieldStores[k] = append(frzFieldStores[k], st)
					}
				}
			})
		}
	}
	key := frzFieldKey(fa)
	switch frzFieldMemo[key] {
	case 1, 2:
		return true
	case 3:
		return false
	}
	frzFieldMemo[key] = 1
	ok := true
	for _, st := range frzFieldStores[key] {
		if !frzFresh(st.Val, map[ssa.Value]bool{}, depth+1) {
			ok = false
			break
		}
	}
	// whole-struct stores could also set the field; composite literals are built field by field in
	// SSA, struct copies (*p = *q) keep the property when q's field has it (same type, same field)
	if ok {
		frzFieldMemo[key] = 2
	} else {
		frzFieldMemo[key] = 3
	}
	return ok
}

// frzCallResultFresh: result idx of a static call is fresh when every return statement of the
// callee returns a fresh value at that index (parameters are judged over all call sites).
func frzCallResultFresh(c *ssa.Call, idx int, seen map[ssa.Value]bool, depth int) bool {
	callee := c.Call.StaticCallee()
	if callee == nil || callee.Blocks == nil || depth > 30 {
		return false
	}
	n := 0
	for _, b := range callee.Blocks {
		if len(b.Instrs) == 0 {
			continue
		}
		if ret, ok := b.Instrs[len(b.Instrs)-1].(*ssa.Return); ok {
			if idx >= len(ret.Results) {
				return false
			}
			n++
			if !frzFresh(ret.Results[idx], seen, depth+2) {
				return false
			}
		}
	}
	return n > 0
}

func instrIndex(b *ssa.BasicBlock, in ssa.Instruction) int {
	for i, x := range b.Instrs {
		if x == in {
			return i
		}
	}
	return -1
}

// instrDominates: a executes before b on every path reaching b.
func instrDominates(a, b ssa.Instruction) bool {
	if a.Block() == b.Block() {
		return instrIndex(a.Block(), a) < instrIndex(b.Block(), b)
	}
	return a.Block().Dominates(b.Block())
}

func frzLocalFieldFresh(al *ssa.Alloc, field int, load ssa.Instruction, seen map[ssa.Value]bool, depth int) bool {
	refs := al.Referrers()
	if refs == nil {
		return false
	}
	var fieldStores, otherStores []*ssa.Store
	for _, r := range *refs {
		switch x := r.(type) {
		case *ssa.Store:
			if x.Addr == al {
				otherStores = append(otherStores, x)
			} else {
				return false // address of the struct escapes
			}
		case *ssa.FieldAddr:
			if x.Field != field || x.Referrers() == nil {
				continue
			}
			for _, rr := range *x.Referrers() {
				if st, ok := rr.(*ssa.Store); ok && st.Addr == x {
					fieldStores = append(fieldStores, st)
				}
			}
		case *ssa.UnOp, *ssa.DebugRef:
		case *ssa.MakeInterface:
		default:
			// the struct's address is passed elsewhere (call argument, closure): give up
			if _, ok := r.(ssa.CallInstruction); ok {
				return false
			}
			if _, ok := r.(*ssa.MakeClosure); ok {
				return false
			}
		}
	}
	for _, fs := range fieldStores {
		if !instrDominates(fs, load) || !frzFresh(fs.Val, seen, depth+1) {
			continue
		}
		ok := true
		for _, o := range fieldStores {
			if o != fs && !instrDominates(o, fs) {
				ok = false
			}
		}
		for _, o := range otherStores {
			if !instrDominates(o, fs) {
				ok = false
			}
		}
		if ok {
			return true
		}
	}
	return false
}

// varCell resolves an address to the Alloc of a local variable, looking through closure capture.
func varCell(addr ssa.Value) *ssa.Alloc {
	switch x := addr.(type) {
	case *ssa.Alloc:
		return x
	case *ssa.FreeVar:
		fn := x.Parent()
		par := fn.Parent()
		if par == nil {
			return nil
		}
		idx := -1
		for i, fv := range fn.FreeVars {
			if fv == x {
				idx = i
			}
		}
		if idx < 0 {
			return nil
		}
		var cell *ssa.Alloc
		for _, b := range par.Blocks {
			for _, in := range b.Instrs {
				if mc, ok := in.(*ssa.MakeClosure); ok && mc.Fn == fn && idx < len(mc.Bindings) {
					c := varCell(mc.Bindings[idx])
					if c == nil || (cell != nil && c != cell) {
						return nil
					}
					cell = c
				}
			}
		}
		return cell
	}
	return nil
}

// storesToCell returns every value stored into the variable cell by its function and the closures
// nested in it; ok=false when the cell's address escapes in another way.
func storesToCell(cell *ssa.Alloc) ([]ssa.Value, bool) {
	var vals []ssa.Value
	ok := true
	var visit func(fn *ssa.Function)
	visit = func(fn *ssa.Function) {
		for _, b := range fn.Blocks {
			for _, in := range b.Instrs {
				switch x := in.(type) {
				case *ssa.Store:
					if c := varCell(x.Addr); c == cell {
						vals = append(vals, x.Val)
					} else if c2 := varCell(x.Val); c2 == cell {
						ok = false
					}
				case *ssa.Call:
					for _, a := range x.Call.Args {
						if varCell(a) == cell {
							ok = false
						}
					}
				}
			}
		}
		for _, a := range fn.AnonFuncs {
			visit(a)
		}
	}
	visit(cell.Parent())
	return vals, ok
}

// frzClassify classifies the memory written through address chain `steps` (store-first order).
func frzClassify(steps []pathStep) (state, why string) {
	n := len(steps)
	if n == 0 {
		return "shared", "no chain"
	}
	root := steps[n-1].Val
	state = "shared"
	switch r := root.(type) {
	case *ssa.Alloc, *ssa.MakeSlice, *ssa.MakeMap:
		state, why = "fresh", "root allocated in this function"
	case *ssa.Global:
		state, why = "fresh", "package-level variable (not part of an AST)"
	default:
		t := root.Type()
		if frzFreshValue(root, 0) {
			state, why = "fresh", "root allocated in this function"
			break
		}
		tn := namedTypeName(derefAll(t))
		switch {
		case frzClonedElemTypes[tn]:
			state, why = "fresh", "pointer to cloned element type "+tn
		case isASTType(t):
			state, why = "shared", "root "+describeRoot(r)+" of AST type "+t.String()
		default:
			state, why = "fresh", "root "+describeRoot(r)+" of per-build type "+t.String()
		}
	}
	lastField := ""
	lastOwnerAST := false
	for i := n - 2; i >= 0; i-- {
		s := steps[i]
		switch s.Kind {
		case "field":
			lastField = s.Owner + "." + s.Name
			lastOwnerAST = ownerIsAST(s.Owner)
		case "deref", "lookup", "assert", "extract", "slice":
			if s.Kind == "slice" {
				continue
			}
			if s.Kind == "extract" {
				continue
			}
			// what pointer/slice/map was loaded?
			var loadedT types.Type
			if u, ok := s.Val.(*ssa.UnOp); ok {
				loadedT = u.Type()
			} else if l, ok := s.Val.(*ssa.Lookup); ok {
				loadedT = l.X.Type()
			} else if ta, ok := s.Val.(*ssa.TypeAssert); ok {
				loadedT = ta.AssertedType
			}
			// a load of the address itself (not yet a dereference into other memory) happens only
			// when the loaded value is a pointer/slice/map/interface
			if loadedT != nil {
				switch loadedT.Underlying().(type) {
				case *types.Pointer, *types.Slice, *types.Map, *types.Interface:
				default:
					continue
				}
			}
			if u, ok := s.Val.(*ssa.UnOp); ok && frzFreshValue(u, 0) {
				state, why = "fresh", "value loaded here was freshly allocated and stored by this function"
				continue
			}
			if state != "fresh" {
				continue
			}
			if lastField == "" {
				// deref of the root variable itself (e.g. *recordsPtr)
				continue
			}
			if _, ok := frzClonedContainers[lastField]; ok {
				why = "through cloned container " + lastField
				continue
			}
			if !lastOwnerAST {
				// field of a per-build struct: fresh unless it holds AST-typed shared memory
				et := loadedT
				if _, isMap := et.Underlying().(*types.Map); isMap {
					// maps held in per-build structs are created per build (make/clone); assumption A-FRZ-1
					continue
				}
				if et != nil && isASTType(et) {
					tn := namedTypeName(derefAll(et))
					if frzClonedElemTypes[tn] || tn == "graph.JSRepr" || tn == "graph.CSSRepr" {
						continue
					}
					state, why = "shared", "AST-typed value loaded from per-build field "+lastField+" (may alias cached AST memory)"
					continue
				}
				continue
			}
			state, why = "shared", "dereference of AST field "+lastField+" which CloneLinkerGraph does not clone"
		case "index":
			// index directly on an array value keeps state; on a loaded slice the deref step precedes
		}
	}
	return state, why
}

func derefAll(t types.Type) types.Type {
	for {
		switch u := t.(type) {
		case *types.Pointer:
			t = u.Elem()
			continue
		case *types.Slice:
			t = u.Elem()
			continue
		}
		return t
	}
}

func describeRoot(v ssa.Value) string {
	switch x := v.(type) {
	case *ssa.Parameter:
		return "parameter " + x.Name()
	case *ssa.FreeVar:
		return "captured " + x.Name()
	case *ssa.Call:
		n := calleeFullName(x)
		return "result of " + n
	case *ssa.Phi:
		return "phi"
	case *ssa.Extract:
		return "tuple element"
	case *ssa.UnOp:
		if fv, ok := x.X.(*ssa.FreeVar); ok {
			return "captured variable " + fv.Name()
		}
		if al, ok := x.X.(*ssa.Alloc); ok {
			return "local variable " + al.Comment
		}
	case *ssa.Next:
		return "range element"
	}
	return fmt.Sprintf("%T", v)
}

// writtenObjectIsAST: does the store write into an object of an AST-package type?
func frzCandidate(steps []pathStep, addrT types.Type) bool {
	for _, s := range steps {
		if s.Kind == "field" && ownerIsAST(s.Owner) {
			return true
		}
	}
	// element store into []AST-type or map of AST type
	if len(steps) > 0 {
		s := steps[0]
		if s.Kind == "index" || s.Kind == "lookup" {
			if isASTType(addrT) {
				return true
			}
		}
	}
	return false
}

func frzCollect(p *Prog, fns []*ssa.Function) []frzSite {
	var sites []frzSite
	for _, fn := range fns {
		eachInstr(fn, func(b *ssa.BasicBlock, in ssa.Instruction) {
			switch x := in.(type) {
			case *ssa.Store:
				steps := addrChain(x.Addr)
				if len(steps) <= 1 {
					// direct store to an Alloc / param pointer / global
					if len(steps) == 1 {
						if _, ok := steps[0].Val.(*ssa.Alloc); ok {
							return
						}
						if _, ok := steps[0].Val.(*ssa.Global); ok {
							return
						}
						if _, ok := steps[0].Val.(*ssa.FreeVar); ok {
							return // assignment to a captured local variable, not a write into AST memory
						}
						// *ptr = v where ptr is a param/call result
						pt, ok := x.Addr.Type().Underlying().(*types.Pointer)
						if !ok || !isASTType(pt.Elem()) {
							return
						}
						st, why := frzClassify(steps)
						sites = append(sites, frzSite{fn, x.Pos(), "*(" + describeRoot(steps[0].Val) + " " + x.Addr.Type().String() + ")", st, why, in})
					}
					return
				}
				pt, _ := x.Addr.Type().Underlying().(*types.Pointer)
				var et types.Type
				if pt != nil {
					et = pt.Elem()
				}
				if !frzCandidate(steps, et) {
					return
				}
				// purely local: root Alloc and no deref
				st, why := frzClassify(steps)
				sites = append(sites, frzSite{fn, x.Pos(), pathString(steps), st, why, in})
			case *ssa.MapUpdate:
				steps := addrChain(x.Map)
				steps = append([]pathStep{{Kind: "lookup", Val: &ssa.Lookup{X: x.Map}}}, steps...)
				if !frzCandidate(steps, x.Map.Type()) {
					return
				}
				st, why := frzClassify(steps)
				sites = append(sites, frzSite{fn, x.Pos(), pathString(steps), st, why, in})
			}
		})
	}
	sort.SliceStable(sites, func(i, j int) bool {
		a, b := FuncName(sites[i].fn), FuncName(sites[j].fn)
		if a != b {
			return a < b
		}
		return sites[i].path < sites[j].path
	})
	return sites
}
