package main

import (
	"fmt"
	"go/token"
	"os"
	"strings"

	"golang.org/x/tools/go/ssa"
)

// C01/R5 indirect call target.
//
// `(0, a.b)()` and `a.b()` differ: the second passes `a` as `this`. The parser folds expressions
// such as `(false || a.b)` or a `define`d identifier to the property access `a.b` even without
// minification and records on the call (ECall.Kind, ETemplate.TagWasOriginallyPropertyAccess)
// whether the target was a property access *in the source*. The printer has to print the target as
// `(0, a.b)` whenever the target is a property access now but was not one originally — for plain
// calls, optional calls and tagged templates alike.
// Rule (path rule on the printer's control-flow graph): in the ECall and ETemplate cases of
// printExpr, the recursive printExpr call that prints the call target / template tag *without* the
// `(0,` prefix is reachable from the case entry only across an edge that establishes one of
//     the target was a property access originally      (Kind == TargetWasOriginallyPropertyAccess /
//                                                         TagWasOriginallyPropertyAccess is set)
//     the target is not a property access now           (IsPropertyAccess(target) is false / the type
//                                                         tests for EDot and EIndex failed)
// Any other way to the bare print (e.g. "it is an optional call") lets a folded target gain a
// receiver.

func c01IndirectTarget(p *Prog) *RuleResult {
	r := NewRule("C01/R5 indirect-call-target", "the printer prints a call target / template tag without the `(0, …)` indirection only on paths that established that the target was originally a property access or is not one now")
	fn := p.FindFunc("js_printer.(*printer).printExpr")
	if !r.Anchor("js_printer.(*printer).printExpr", fn != nil) {
		return r
	}
	type inst struct {
		kind, child, marker string
	}
	for _, it := range []inst{{"ECall", "Target", "Kind"}, {"ETemplate", "TagOrNil", "TagWasOriginallyPropertyAccess"}} {
		r.Instances++
		key := it.kind + "." + it.child + " printed bare only when safe"
		// the case region and its entry
		var entry *ssa.BasicBlock
		var node ssa.Value
		for _, b := range fn.Blocks {
			if len(b.Instrs) == 0 {
				continue
			}
			ifi, ok := b.Instrs[len(b.Instrs)-1].(*ssa.If)
			if !ok {
				continue
			}
			ex, ok := ifi.Cond.(*ssa.Extract)
			if !ok || ex.Index != 1 {
				continue
			}
			ta, ok := ex.Tuple.(*ssa.TypeAssert)
			if !ok || shortTypeName(ta.AssertedType) != it.kind {
				continue
			}
			if c13CaseKind(b.Succs[0]) != it.kind {
				continue
			}
			// the assert of the printed expression itself (expr.Data), not of some operand
			if root, path := purePath(ta.X); len(path) != 1 || path[0] != "Data" || !(root.Name() == "expr" || strings.Contains(root.String(), "expr")) {
				continue
			}
			entry = b.Succs[0]
			for _, rf := range *ta.Referrers() {
				if e0, ok := rf.(*ssa.Extract); ok && e0.Index == 0 {
					node = e0
				}
			}
		}
		if entry == nil || node == nil {
			r.Fail(key, p.Pos(fn.Pos()), "the "+it.kind+" case of printExpr was not found")
			continue
		}
		// the node variable may be reassigned inside the case (e = e2 after inlining): follow phis
		aliases := map[ssa.Value]bool{node: true}
		for changed := true; changed; {
			changed = false
			eachInstr(fn, func(_ *ssa.BasicBlock, in ssa.Instruction) {
				if ph, ok := in.(*ssa.Phi); ok && !aliases[ph] {
					for _, e := range ph.Edges {
						if aliases[e] {
							aliases[ph] = true
							changed = true
						}
					}
				}
			})
		}
		isNode := func(v ssa.Value) bool { return aliases[v] }
		isChild := func(v ssa.Value) bool {
			root, path := purePath(v)
			return isNode(root) && len(path) >= 1 && path[0] == it.child
		}
		// the `(0,` prints and the recursive prints of the child
		wrapBlocks := map[*ssa.BasicBlock]bool{}
		var bare []*ssa.Call
		eachInstr(fn, func(b *ssa.BasicBlock, in ssa.Instruction) {
			c, ok := in.(*ssa.Call)
			if !ok || c13CaseKind(b) != it.kind {
				return
			}
			name := FuncNameOf(c)
			if strings.HasSuffix(name, "printer).print") && len(c.Call.Args) == 2 {
				if s, ok := constString(c.Call.Args[1]); ok && s == "(0," {
					wrapBlocks[b] = true
				}
			}
		})
		eachInstr(fn, func(b *ssa.BasicBlock, in ssa.Instruction) {
			c, ok := in.(*ssa.Call)
			if !ok || c.Call.StaticCallee() != fn || c13CaseKind(b) != it.kind || len(c.Call.Args) < 2 {
				return
			}
			if !isChild(c.Call.Args[1]) {
				return
			}
			// preceded by the wrap in the same block or dominated by a wrap block?
			wrapped := false
			for wb := range wrapBlocks {
				if wb == b || wb.Dominates(b) {
					wrapped = true
				}
			}
			if !wrapped {
				bare = append(bare, c)
			}
		})
		if os.Getenv("VERIF_DEBUG") != "" {
			fmt.Println("DEBUG", it.kind, "entry", entry.Index, "wrap", len(wrapBlocks), "bare", len(bare))
		}
		if len(wrapBlocks) == 0 || len(bare) == 0 {
			r.Fail(key, p.Pos(entry.Instrs[0].Pos()), "the `(0,` indirection or the bare print of "+it.kind+"."+it.child+" was not found in the "+it.kind+" case")
			continue
		}
		// safe edges: (block, successor index) that establish "originally a property access" or "not a property access now"
		safeEdge := func(b *ssa.BasicBlock, si int) bool {
			if len(b.Instrs) == 0 {
				return false
			}
			ifi, ok := b.Instrs[len(b.Instrs)-1].(*ssa.If)
			if !ok {
				return false
			}
			cond, pol := ifi.Cond, si == 0
			for {
				if u, ok := cond.(*ssa.UnOp); ok && u.Op == token.NOT {
					cond, pol = u.X, !pol
					continue
				}
				break
			}
			// marker tests
			if bo, ok := cond.(*ssa.BinOp); ok && (bo.Op == token.EQL || bo.Op == token.NEQ) {
				for _, side := range []ssa.Value{bo.X, bo.Y} {
					root, path := purePath(side)
					if isNode(root) && len(path) == 1 && path[0] == it.marker && it.marker == "Kind" {
						// Kind == TargetWasOriginallyPropertyAccess established
						other := bo.Y
						if side == bo.Y {
							other = bo.X
						}
						if cv, ok := constInt(other); ok && c01KindConst(p, "TargetWasOriginallyPropertyAccess") == cv {
							return pol == (bo.Op == token.EQL)
						}
					}
				}
			}
			if root, path := purePath(cond); isNode(root) && len(path) == 1 && path[0] == it.marker && it.marker != "Kind" {
				return pol // the flag is set
			}
			// shape tests: IsPropertyAccess(child) false
			if c, ok := cond.(*ssa.Call); ok && FuncNameOf(c) == "js_ast.IsPropertyAccess" && len(c.Call.Args) == 1 && isChild(c.Call.Args[0]) {
				return !pol
			}
			// a boolean that records the outcome of type tests on the child (tagIsPropertyAccess): false edge
			if ph, ok := cond.(*ssa.Phi); ok {
				fromChildTests := false
				for _, pb := range ph.Block().Preds {
					for d := pb; d != nil; d = d.Idom() {
						if len(d.Instrs) == 0 {
							continue
						}
						if di, ok := d.Instrs[len(d.Instrs)-1].(*ssa.If); ok {
							if ex, ok := di.Cond.(*ssa.Extract); ok {
								if ta, ok := ex.Tuple.(*ssa.TypeAssert); ok && isChild(ta.X) {
									fromChildTests = true
								}
							}
						}
						if d == entry {
							break
						}
					}
				}
				if fromChildTests {
					return !pol
				}
			}
			return false
		}
		bad := ""
		for _, c := range bare {
			target := c.Block()
			path, reach := reachesExitAvoidingEdges(entry, func(x *ssa.BasicBlock) bool { return x == target }, func(x *ssa.BasicBlock) bool { return false }, safeEdge)
			if reach {
				bad = p.Pos(c.Pos()) + " via blocks " + blockPath(path)
			}
		}
		if bad != "" {
			r.Fail(key, p.Pos(bare[0].Pos()), "the "+strings.ToLower(it.child[:1])+it.child[1:]+" of "+it.kind+" can be printed without `(0, …)` on a path that established neither that it was a property access in the source nor that it is not one now ("+bad+"): a target folded to `a.b` (e.g. `(false || a.b)?.()`) is then called with `a` as `this`")
		} else {
			r.OK(key, true, "every path to the bare print crosses the originally-a-property-access edge or the not-a-property-access edge")
		}
	}
	return r
}

func c01KindConst(p *Prog, name string) int64 {
	pk := p.ByPath[modPath+"/internal/js_ast"]
	if pk == nil {
		return -1
	}
	if v, ok := constsOfType(pk.Types, "CallKind")[name]; ok {
		return v
	}
	return -1
}

// C01/R6 operator-gluing hazards do not depend on output options.
//
// printSpaceBeforeOperator decides whether two adjacent operator tokens need a space between them:
// `+ +x`, `- --x`, and the two sequences that would otherwise form an HTML-like comment delimiter,
// `x-- > y` and `x < !--y`. `<!--` and `-->` open single-line comments in every classic script and
// CommonJS module, on every platform (ECMA-262 Annex B.1.1), not only inside a <script> element. The
// decision is a function of the two operators and of the bytes already printed; making any of it
// conditional on an output option drops a needed space under that option.
func c01OperatorHazardsUnconditional(p *Prog) *RuleResult {
	r := NewRule("C01/R6 operator-gluing-unconditional", "the space that keeps adjacent operators from forming another token (`++`, `--`, `<!--`, `-->`) is decided from the operators and the printed bytes only, never from an output option")
	fn := p.FindFunc("js_printer.(*printer).printSpaceBeforeOperator")
	if !r.Anchor("js_printer.(*printer).printSpaceBeforeOperator", fn != nil) {
		return r
	}
	n := 0
	eachInstr(fn, func(b *ssa.BasicBlock, in ssa.Instruction) {
		ifi, ok := in.(*ssa.If)
		if !ok {
			return
		}
		n++
		r.Instances++
		key := fmt.Sprintf("printSpaceBeforeOperator condition #%d", n)
		opt := ""
		backSlice(ifi.Cond, func(v ssa.Value) bool {
			if fa, ok := v.(*ssa.FieldAddr); ok && fieldAddrName(fa) == "options" && namedTypeName(fa.X.Type()) == "js_printer.printer" {
				opt = p.Pos(ifi.Cond.Pos())
			}
			return opt == ""
		})
		if opt == "" {
			r.OK(key, false, "")
		} else {
			r.Fail(key, opt, "a token-gluing decision depends on an output option: under that option `x-- > y` / `x < !--y` (or `+ +x`) is printed without the space and the operators fuse into another token (`-->` and `<!--` start comments in every classic script)")
		}
	})
	r.Anchor("conditions of printSpaceBeforeOperator", n >= 4)
	// the same for a regular expression printed right after a `/`: `a / /re/` must not become `a//re/`
	// (a line comment) under any option; only the `</script` half of that test is about inline scripts
	pe := p.FindFunc("js_printer.(*printer).printExpr")
	if r.Anchor("js_printer.(*printer).printExpr", pe != nil) {
		m := 0
		eachInstr(pe, func(b *ssa.BasicBlock, in ssa.Instruction) {
			bo, ok := in.(*ssa.BinOp)
			if !ok || bo.Op != token.EQL || c13CaseKind(b) != "ERegExp" {
				return
			}
			cv, ok := constInt(bo.Y)
			if !ok || cv != '/' {
				return
			}
			m++
			r.Instances++
			key := "printExpr ERegExp: space after a preceding `/`"
			opt := ""
			for _, f := range factsAt(b) {
				backSlice(f.Cond, func(v ssa.Value) bool {
					if fa, ok := v.(*ssa.FieldAddr); ok && fieldAddrName(fa) == "options" && namedTypeName(fa.X.Type()) == "js_printer.printer" {
						opt = p.Pos(f.Cond.Pos())
					}
					return opt == ""
				})
			}
			if opt == "" {
				r.OK(key, true, "tested independently of the output options")
			} else {
				r.Fail(key, p.Pos(bo.Pos()), "the test that keeps `a / /re/` from being printed as `a//re/` (a line comment) is only made under an output option ("+opt+"): with that option off the rest of the line silently becomes a comment")
			}
		})
		r.Anchor("printExpr ERegExp: test of the preceding byte for `/`", m >= 1)
	}
	return r
}
