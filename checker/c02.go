package main

import (
	"go/token"
	"sort"

	"golang.org/x/tools/go/ssa"
)

func init() {
	register(&Property{
		ID:          "C02",
		Explanation: "Decides four structural necessary conditions of 'bundling preserves module-graph semantics', not the semantics: R4 every graph search that answers a provisional constant for nodes already in its visited set (the export-star dynamic-fallback search) receives a visited set created for that one traversal root; R1 every interop/runtime helper the linker, bundler, graph and printer refer to by name (__commonJS, __esm, __toESM, __toCommonJS, __export, __reExport, __copyProps, __require, __glob, __toBinary*, ...) is exported by the embedded runtime text in every feature configuration; R2 a module identity is parsed at most once per scan: the `go parseFile` spawn is dominated by the not-found edge of the visited-map lookup, and the visited entry and the pending counter are updated on every path from that edge to the spawn; R3 every config.Loader constant is dispatched by parseFile's loader switch (none falls through to 'do not know how to load'). R5 shared-ast-immutability: the C09/R2 frozen-AST analysis (no link-time store into AST memory that was not cloned for this link). R6 await-follows-callee-async: every EAwait the linker builds around a call of x.AST.WrapperRef is control dependent on x.Meta.IsAsyncOrHasAsyncDependency of the same x. R7 esm-wrapper-call-awaitable: every generated call of an ES-wrapped module's wrapper has an awaited variant for the same module in the same function. R8 require-of-tla-diagnosed-for-every-requirer: no condition controlling the require() diagnostic of reportInvalidTLA reads tlaCheck.parent of the file whose records are examined. R9 init-before-reexport: no append of a wrapper call to insideWrapperPrefix is reachable, within one iteration of the statement loop, after an append of a __reExport call. NOT covered: link-time import/export matching, wrapper and ordering semantics, the JS bodies of the helpers.",
		Run: func(p *Prog, tier string) []*RuleResult {
			return []*RuleResult{
				runtimeNamesRule(p, "C02/R1 runtime-names", map[string]bool{"linker": true, "bundler": true, "graph": true, "js_printer": true}, 10),
				c02LoadOnce(p), c02LoaderDispatch(p), c02CycleCut(p), c02AwaitFollowsCallee(p), c02WrapperCallAwaitable(p), c02RequireOfTLADiagnosed(p), c02InitBeforeReExport(p),
				renamed(c09Frozen(p), "C02/R5 shared-ast-immutability", "modules are linked from parsed ASTs (and lazily exported JSON/CSS values) that the caches share between builds and between the parallel per-entry-point links: a link-time store into AST memory that was not cloned for this link makes the next link bundle a corrupted module (same analysis as C09/R2)"),
			}
		},
	})
	register(&Property{
		ID:          "C05",
		Explanation: "Decides one structural necessary condition of 'syntax lowering preserves behaviour': every runtime helper the lowering passes of the parser call or import by name (__async, __asyncGenerator, __privateGet/Set/Add/Method/In, __publicField, __objRest, __spreadValues/Props, __pow, __template, __using, __callDispose, __decorate*, __forAwait, __yieldStar, __await, __superGet/Set, ...) is exported by the embedded runtime text in every feature branch. It decides the existence of the helper, nothing about what it does. R2 decides one ordering fact of object-rest lowering on the control-flow graph: within one iteration of the property loop of lowerObjectRestHelper's visitor, every path to the splitObjectPattern call passes the key capture (captureKeyForObjectRest) or the edge on which the pattern has no trailing rest, so `rest` excludes every property before it. R3 synthesised-this: sibling agreement of the super-property lowering helpers on the bookkeeping of the `this` they write (two known findings). R4 cannot-throw-table: couldPotentiallyThrow answers 'cannot throw' only for primitive literals and function/arrow expressions. R5 implied-features-unmasked: fixInvalidUnsupportedJSFeatureOverrides ORs the implied bits in as given. R6 hoist-first-evaluated: every call of findFirstTopLevelSuperCall receives the child its statement kind evaluates first and once (table of statement/child pairs). R7 marking-traversal-visits-every-child: in self-recursive bool-valued map-marking traversals of js_parser no recursive call is control dependent on a loop-carried boolean. R8 assign-target-rewrite-visits-every-property: the in-loop recursive calls of lowerSuperPropertyOrPrivateInAssign depend on no Property field but ValueOrNil. NOT covered: once-only evaluation, this/super binding, short-circuit order of the lowered code (a linear-use analysis was considered and declined, see DESIGN.md).",
		Run: func(p *Prog, tier string) []*RuleResult {
			return []*RuleResult{runtimeNamesRule(p, "C05/R1 runtime-names", map[string]bool{"js_parser": true}, 40), c05ObjectRestExclusion(p), c05SynthesisedThis(p), c05CannotThrow(p), c05ImpliedFeaturesUnmasked(p, "C05/R5 implied-features-unmasked"), c05HoistFirstEvaluated(p), markingTraversalComplete(p, "C05/R7 marking-traversal-visits-every-child"), c05AssignTargetVisitsAll(p)}
		},
	})
}

// c02CycleCut: graph searches in the linker/bundler that cut cycles with a provisional constant
// get a visited set that lives for exactly one traversal (engine: cyclecut.go).
func c02CycleCut(p *Prog) *RuleResult {
	r := NewRule("C02/R4 cycle-cut-scope", "a graph search that answers a constant for nodes already in its visited set (the cycle cut) is given a visited set created for that one traversal, never one that survives from one root to the next")
	cuts := findCutFuncs(p)
	found := false
	for _, cf := range cuts {
		r.Note("provisional-answer search: " + FuncName(cf.fn) + " (cut answer " + cf.cutConst + ")")
		if FuncName(cf.fn) == "linker.(*linkerContext).hasDynamicExportsDueToExportStar" {
			found = true
		}
	}
	if !r.Anchor("linker.(*linkerContext).hasDynamicExportsDueToExportStar is a provisional-answer search", found) {
		return r
	}
	checkCutScopes(p, r, cuts)
	r.Floor(1)
	return r
}

func c02LoadOnce(p *Prog) *RuleResult {
	r := NewRule("C02/R2 load-once", "in maybeParseFile the parseFile goroutine is spawned only on the not-found edge of the visited-map lookup, and the visited entry and the pending-results counter are updated on every path from that edge to the spawn")
	fn := p.FindFunc("bundler.(*scanner).maybeParseFile")
	if !r.Anchor("bundler.(*scanner).maybeParseFile", fn != nil) {
		return r
	}
	var spawns []*ssa.Go
	var lookupIf *ssa.BasicBlock
	var notFound *ssa.BasicBlock
	var lookupKey ssa.Value
	var updates, incs []ssa.Instruction
	eachInstr(fn, func(b *ssa.BasicBlock, in ssa.Instruction) {
		switch x := in.(type) {
		case *ssa.Go:
			if c := calleeOfGo(x); c != nil && FuncName(c) == "bundler.parseFile" {
				spawns = append(spawns, x)
			}
		case *ssa.If:
			if ex, ok := x.Cond.(*ssa.Extract); ok && ex.Index == 1 {
				if lk, ok := ex.Tuple.(*ssa.Lookup); ok {
					if _, n, ok := loadedField(lk.X); ok && n == "visited" {
						lookupIf = b
						notFound = b.Succs[1]
						lookupKey = lk.Index
					}
				}
			}
		case *ssa.MapUpdate:
			if _, n, ok := loadedField(x.Map); ok && n == "visited" {
				updates = append(updates, in)
			}
		case *ssa.Store:
			if fa, ok := x.Addr.(*ssa.FieldAddr); ok && fieldAddrName(fa) == "remaining" {
				incs = append(incs, in)
			}
		}
	})
	if !r.Anchor("go parseFile(...)", len(spawns) > 0) || !r.Anchor("s.visited[key] lookup", lookupIf != nil) {
		return r
	}
	for _, g := range spawns {
		r.Instances++
		if edgeDominates(lookupIf, 1, g.Block()) {
			r.OK("maybeParseFile spawn dominated by visited-miss", true, "the go statement is reachable only through the not-found edge of the s.visited lookup")
		} else {
			r.Fail("maybeParseFile spawn dominated by visited-miss", p.Pos(g.Pos()), "parseFile can be spawned for a path that is already in s.visited: the module would be loaded and evaluated twice")
		}
		for _, spec := range []struct {
			name string
			ins  []ssa.Instruction
			msg  string
		}{
			{"s.visited[key] = ... before spawn", updates, "the visited entry is not recorded on every path to the spawn: a second import of the same path would load it again"},
			{"s.remaining++ before spawn", incs, "the pending counter is not incremented on every path to the spawn: the scan loop would stop before the file's result arrives"},
		} {
			r.Instances++
			blocks := map[*ssa.BasicBlock]bool{}
			for _, in := range spec.ins {
				blocks[in.Block()] = true
			}
			if path, bad := reachesExitAvoiding(notFound, func(b *ssa.BasicBlock) bool { return b == g.Block() }, func(b *ssa.BasicBlock) bool { return blocks[b] }, false); bad && !blocks[g.Block()] {
				r.Fail("maybeParseFile "+spec.name, p.Pos(g.Pos()), spec.msg+" ("+blockPath(path)+")")
			} else {
				r.OK("maybeParseFile "+spec.name, true, "on every path from the miss edge to the go statement")
			}
		}
	}
	// the key stored is the key looked up
	for _, u := range updates {
		r.Instances++
		mu := u.(*ssa.MapUpdate)
		same := mu.Key == lookupKey
		if !same {
			// both are loads of the same local variable cell
			if a, ok := mu.Key.(*ssa.UnOp); ok {
				if b, ok := lookupKey.(*ssa.UnOp); ok && a.X == b.X {
					same = true
				}
			}
		}
		if same {
			r.OK("maybeParseFile visited key consistency", true, "the entry is stored under the same key that was looked up")
		} else {
			r.Fail("maybeParseFile visited key consistency", p.Pos(u.Pos()), "the visited entry is stored under a different key than the one looked up")
		}
	}
	r.Floor(4)
	return r
}

func c02LoaderDispatch(p *Prog) *RuleResult {
	r := NewRule("C02/R3 loader-dispatch", "every config.Loader constant is a case of parseFile's loader switch (LoaderNone/LoaderDefault excepted: they mean 'no loader configured' and produce the documented error)")
	fn := p.FindFunc("bundler.parseFile")
	cfg := p.ByPath[modPath+"/internal/config"]
	if !r.Anchor("bundler.parseFile", fn != nil) || !r.Anchor("package config", cfg != nil) {
		return r
	}
	consts := constsOfType(cfg.Types, "Loader")
	if !r.Anchor("config.Loader constants", len(consts) >= 15) {
		return r
	}
	// the dispatch switch is the longest chain of blocks that each end in `if loader == <const>` and
	// whose false successor is the next such block
	cmpOf := func(b *ssa.BasicBlock) (int64, bool) {
		if len(b.Instrs) == 0 {
			return 0, false
		}
		ifi, ok := b.Instrs[len(b.Instrs)-1].(*ssa.If)
		if !ok {
			return 0, false
		}
		bo, ok := ifi.Cond.(*ssa.BinOp)
		if !ok || bo.Op != token.EQL || namedTypeName(bo.X.Type()) != "config.Loader" {
			return 0, false
		}
		return constInt(bo.Y)
	}
	var best map[int64]bool
	for _, b := range fn.Blocks {
		if _, ok := cmpOf(b); !ok {
			continue
		}
		chain := map[int64]bool{}
		cur := b
		for steps := 0; steps < 64; steps++ {
			v, ok := cmpOf(cur)
			if !ok {
				break
			}
			if steps > 0 && len(cur.Instrs) > 3 {
				break // not a pure comparison block: a different statement
			}
			chain[v] = true
			cur = cur.Succs[1]
		}
		if len(chain) > len(best) {
			best = chain
		}
	}
	if !r.Anchor("parseFile loader switch", len(best) >= 10) {
		return r
	}
	var names []string
	for n := range consts {
		names = append(names, n)
	}
	sort.Strings(names)
	for _, n := range names {
		r.Instances++
		key := "parseFile handles config." + n
		switch {
		case best[consts[n]]:
			r.OK(key, true, "a case of the dispatch switch")
		case n == "LoaderNone" || n == "LoaderDefault":
			r.OK(key+" (no loader configured)", false, "")
		default:
			r.Fail(key, p.Pos(fn.Pos()), "loader constant "+n+" has no case in parseFile's switch: files with that loader fail with 'Do not know how to load path'")
		}
	}
	return r
}
