package main

import (
	"fmt"
	"go/token"
	"sort"
	"strings"

	"golang.org/x/tools/go/ssa"
)

func init() {
	register(&Property{
		ID:          "C19",
		Explanation: "Decides structural necessary conditions of 'the metafile is an exact account' (not the exactness of every byte attribution): R1 the routine that counts final bytes for the metafile (accurateFinalByteCount) and the routine that produces them (substituteFinalPaths) — which the code comment says must match — handle the same piece kinds, derive each substituted path through the same call sequence, and the content call site passes the same path function with the same base directory that the count uses; R2 every graph.OutputFile constructed in bundler/linker carries a metafile chunk, and generateMetadataJSON walks the very slice of output files that Compile returns; metafile loop ordering is covered by C08/R1. R4 metafile-reads-final-record: metafile text generated from an import record is generated after the last rewrite of the fields it reports. R5 omit-predicate-siblings: the attribution record is made only where OmitFromSourceMapsAndMetafile is false; the inputs list tests the same flag. R6 range-self-mutation: the C08/R11 analysis (the loop that makes the per-input metafile chunks does not add to the table it ranges over). R7 import-kind-matches-printed-form: the kind passed to printPath is a constant (or phi of constants) that agrees with the keyword printed before it on every path. R8 exports-list-from-emitted-aliases: the writer of a JS chunk's exports reads SortedAndFilteredExportAliases and does not range over ResolvedExports. R9 substituted-paths-json-escaped: the metafile path callback of substituteFinalPaths returns text derived from helpers.QuoteForJSON. R10 inputs-keyed-once: every bytesInOutput writer ranges over a list its parent appends to only under a failed comma-ok lookup. R11 input-size-from-unmodified-contents: no self-derived store into source.Contents reaches the copy into InputFile.Source in parseFile. NOT covered: per-input byte attribution inside a chunk, import/export lists.",
		Run: func(p *Prog, tier string) []*RuleResult {
			return []*RuleResult{c19Siblings(p), c19EveryOutputListed(p), c19TemplateOnly(p), c19MetafileFinalRecord(p), c19OmitPredicate(p), renamed(c08RangeSelfMutation(p), "C19/R6 range-self-mutation", "the loop that creates the per-input metafile chunks ranges over the scanner's result table; a result it adds to that table while ranging gets a second chunk whenever its cached index lies inside the range, and the input is then listed twice (same analysis as C08/R11)"), c19KindMatchesForm(p), c19ExportsFromEmittedAliases(p), c19SubstitutedPathsEscaped(p), c19InputsKeyedOnce(p), c19InputSizeUnmodified(p)}
		},
	})
}

// caseSummaries: for a function switching on a value of type typeName, the ordered callee sequence
// executed in the region dominated by each `== const` true edge.
func caseSummaries(fn *ssa.Function, typeName string, norm func(c ssa.CallInstruction) string) map[int64][]string {
	out := map[int64][]string{}
	for _, b := range fn.Blocks {
		if len(b.Instrs) == 0 {
			continue
		}
		ifi, ok := b.Instrs[len(b.Instrs)-1].(*ssa.If)
		if !ok {
			continue
		}
		bo, ok := ifi.Cond.(*ssa.BinOp)
		if !ok || bo.Op != token.EQL || namedTypeName(bo.X.Type()) != typeName {
			continue
		}
		v, ok := constInt(bo.Y)
		if !ok {
			continue
		}
		var seq []string
		for _, rb := range fn.DomPreorder() {
			if !edgeDominates(b, 0, rb) {
				continue
			}
			for _, in := range rb.Instrs {
				if c, ok := in.(ssa.CallInstruction); ok {
					if n := norm(c); n != "" {
						seq = append(seq, n)
					}
				}
			}
		}
		out[v] = seq
	}
	return out
}

func c19Siblings(p *Prog) *RuleResult {
	r := NewRule("C19/R1 count-substitute-siblings", "accurateFinalByteCount and substituteFinalPaths agree case by case on how a substituted path is derived")
	cnt := p.FindFunc("linker.(*linkerContext).accurateFinalByteCount")
	sub := p.FindFunc("linker.(*linkerContext).substituteFinalPaths")
	if !r.Anchor("linker.(*linkerContext).accurateFinalByteCount", cnt != nil) || !r.Anchor("linker.(*linkerContext).substituteFinalPaths", sub != nil) {
		return r
	}
	norm := func(fn *ssa.Function) func(c ssa.CallInstruction) string {
		return func(c ssa.CallInstruction) string {
			n := calleeFullName(c)
			switch {
			case strings.HasSuffix(n, "linkerContext).pathBetweenChunks"):
				return "PATHFN"
			case n == "":
				// dynamic call of the path-function parameter
				if prm, ok := c.Common().Value.(*ssa.Parameter); ok && prm.Parent() == fn {
					return "PATHFN"
				}
				return ""
			case strings.HasPrefix(n, "invoke "):
				if strings.HasSuffix(n, ".Rel") {
					return "fs.Rel"
				}
				return ""
			case n == "strings.ReplaceAll":
				return "strings.ReplaceAll"
			}
			return ""
		}
	}
	a := caseSummaries(cnt, "linker.outputPieceIndexKind", norm(cnt))
	b := caseSummaries(sub, "linker.outputPieceIndexKind", norm(sub))
	lk := p.ByPath[modPath+"/internal/linker"]
	consts := constsOfType(lk.Types, "outputPieceIndexKind")
	if !r.Anchor("linker.outputPieceIndexKind constants", len(consts) >= 3) {
		return r
	}
	var names []string
	for n := range consts {
		names = append(names, n)
	}
	sort.Strings(names)
	for _, n := range names {
		if n == "outputPieceNone" {
			continue
		}
		r.Instances++
		v := consts[n]
		sa, oka := a[v]
		sb, okb := b[v]
		key := "piece kind " + n
		switch {
		case !oka || !okb:
			r.Fail(key, p.Pos(cnt.Pos()), fmt.Sprintf("piece kind %s is handled by only one of the two routines (count: %v, substitute: %v): the metafile byte count diverges from the written bytes", n, oka, okb))
		case strings.Join(sa, ",") != strings.Join(sb, ","):
			r.Fail(key, p.Pos(cnt.Pos()), fmt.Sprintf("the two routines derive the path differently for %s: count %v vs substitute %v", n, sa, sb))
		default:
			r.OK(key, true, "same call sequence in both routines: "+strings.Join(sa, " → "))
		}
	}
	// the content call site passes a closure that calls pathBetweenChunks(finalRelDir, x) with the
	// same finalRelDir derivation (fs.Dir(chunk.finalRelPath)) the count call sites use
	gen := p.FindFunc("linker.(*linkerContext).generateChunksInParallel")
	if r.Anchor("linker.(*linkerContext).generateChunksInParallel", gen != nil) {
		for _, fn := range gen.AnonFuncs {
			eachInstr(fn, func(_ *ssa.BasicBlock, in ssa.Instruction) {
				c, ok := in.(*ssa.Call)
				if !ok || !strings.HasSuffix(calleeFullName(c), "linkerContext).substituteFinalPaths") {
					return
				}
				// only the call whose first argument is chunk.intermediateOutput (the content)
				_, fname, isF := loadedField(c.Call.Args[1])
				isContent := isF && fname == "intermediateOutput"
				if !isContent {
					return
				}
				r.Instances++
				mc, ok := c.Call.Args[2].(*ssa.MakeClosure)
				good := false
				if ok {
					clo := mc.Fn.(*ssa.Function)
					eachInstr(clo, func(_ *ssa.BasicBlock, in2 ssa.Instruction) {
						if cc, ok := in2.(*ssa.Call); ok && strings.HasSuffix(calleeFullName(cc), "linkerContext).pathBetweenChunks") {
							// first real arg is a captured finalRelDir, second is the closure's parameter
							if _, isP := cc.Call.Args[2].(*ssa.Parameter); isP {
								good = true
							}
						}
					})
					// the captured directory is fs.Dir(chunk.finalRelPath)
					dirOK := false
					for _, bnd := range mc.Bindings {
						backSlice(bnd, func(v ssa.Value) bool {
							if fa, ok := v.(*ssa.FieldAddr); ok && fieldAddrName(fa) == "finalRelPath" {
								dirOK = true
							}
							return true
						})
					}
					good = good && dirOK
				}
				if good {
					r.OK("content substitution uses pathBetweenChunks(dir(finalRelPath), path)", true, "the same path function and base directory that accurateFinalByteCount applies")
				} else {
					r.Fail("content substitution uses pathBetweenChunks(dir(finalRelPath), path)", p.Pos(c.Pos()), "the path function used when writing the chunk differs from the one used when counting its bytes for the metafile")
				}
			})
		}
	}
	// count call sites pass fs.Dir(finalRelPath-derived) too
	if n := p.CallGraph().Nodes[cnt]; n != nil {
		for _, e := range n.In {
			r.Instances++
			arg := e.Site.Common().Args[2]
			ok := false
			backSlice(arg, func(v ssa.Value) bool {
				if c, isC := v.(*ssa.Call); isC && strings.HasSuffix(calleeFullName(c), ".Dir") {
					ok = true
				}
				if _, nme, isF := loadedField(v); isF && nme == "finalTemplate" {
					ok = true
				}
				return true
			})
			key := FuncName(e.Caller.Func) + " accurateFinalByteCount(dir)"
			if ok {
				r.OK(key, true, "base directory derived from the chunk's final path template")
			} else {
				r.Fail(key, p.Pos(e.Site.Pos()), "the directory used for counting is not derived from the chunk's own path")
			}
		}
	}
	r.Floor(4)
	return r
}

func c19EveryOutputListed(p *Prog) *RuleResult {
	r := NewRule("C19/R2 every-output-listed", "every graph.OutputFile literal carries a metafile chunk; generateMetadataJSON receives the slice of outputs that Compile returns")
	for _, fn := range p.ModuleFuncs() {
		pp := pkgPathOf(fn)
		if pp != modPath+"/internal/linker" && pp != modPath+"/internal/bundler" {
			continue
		}
		eachInstr(fn, func(b *ssa.BasicBlock, in ssa.Instruction) {
			al, ok := in.(*ssa.Alloc)
			if !ok || namedTypeName(al.Type()) != "graph.OutputFile" || al.Comment != "complit" {
				return
			}
			r.Instances++
			set := false
			if al.Referrers() != nil {
				for _, rf := range *al.Referrers() {
					if fa, ok := rf.(*ssa.FieldAddr); ok && fieldAddrName(fa) == "JSONMetadataChunk" && fa.Referrers() != nil {
						for _, rr := range *fa.Referrers() {
							if st, ok := rr.(*ssa.Store); ok && st.Addr == fa {
								set = true
							}
						}
					}
				}
			}
			key := FuncName(fn) + " OutputFile literal"
			if set {
				r.OK(key, true, "sets JSONMetadataChunk")
			} else {
				r.Fail(key, p.Pos(al.Pos()), "an output file is emitted without a metafile entry: it would be written but missing from the metafile's outputs")
			}
		})
	}
	// Compile: the slice passed to generateMetadataJSON is the one that is returned (modulo the
	// de-duplication that only drops entries whose path is already present)
	cf := p.FindFunc("bundler.(*Bundle).Compile")
	if r.Anchor("bundler.(*Bundle).Compile", cf != nil) {
		r.Instances++
		var metaArg ssa.Value
		eachInstr(cf, func(_ *ssa.BasicBlock, in ssa.Instruction) {
			if c, ok := in.(*ssa.Call); ok && strings.HasSuffix(calleeFullName(c), "Bundle).generateMetadataJSON") {
				metaArg = c.Call.Args[1]
			}
		})
		if metaArg == nil {
			r.Fail("Compile passes its outputs to generateMetadataJSON", p.Pos(cf.Pos()), "generateMetadataJSON call not found")
		} else {
			// the returned slice must derive from the same variable
			same := false
			name := func(v ssa.Value) string {
				if ph, ok := v.(*ssa.Phi); ok {
					return ph.Comment
				}
				if u, ok := v.(*ssa.UnOp); ok {
					if al, ok := u.X.(*ssa.Alloc); ok {
						return al.Comment
					}
				}
				return ""
			}
			mn := name(metaArg)
			for _, b := range cf.Blocks {
				if !isReturnBlock(b) || b == cf.Recover {
					continue
				}
				ret := b.Instrs[len(b.Instrs)-1].(*ssa.Return)
				rv := returnedValue(ret, 0)
				backSlice(rv, func(v ssa.Value) bool {
					if n := name(v); n != "" && n == mn {
						same = true
					}
					return true
				})
			}
			if same && mn != "" {
				r.OK("Compile passes its outputs to generateMetadataJSON", true, "the metafile is generated from the variable `"+mn+"` that Compile returns")
			} else {
				r.Fail("Compile passes its outputs to generateMetadataJSON", p.Pos(cf.Pos()), "the metafile is generated from a different list than the one returned for writing")
			}
		}
	}
	r.Floor(4)
	return r
}

// C19/R3 whitespace-stripping only touches templates.
//
// The minified metafile is produced by stripping every space and newline from the JSON *templates*
// (config.MetafileFormat.MaybeRemoveWhitespace) before paths and numbers are formatted in. Applied
// to anything that already contains data it would also strip spaces inside quoted paths, so the
// metafile would name files that do not exist. Rule: every argument of MaybeRemoveWhitespace in the
// module is a compile-time constant string.
func c19TemplateOnly(p *Prog) *RuleResult {
	r := NewRule("C19/R3 strip-templates-only", "MetafileFormat.MaybeRemoveWhitespace is only ever applied to compile-time constant JSON templates, never to text that already contains paths or other data")
	n := 0
	for _, fn := range p.ModuleFuncs() {
		k := 0
		eachInstr(fn, func(b *ssa.BasicBlock, in ssa.Instruction) {
			c, ok := in.(*ssa.Call)
			if !ok || FuncNameOf(c) != "config.(MetafileFormat).MaybeRemoveWhitespace" || len(c.Call.Args) != 2 {
				return
			}
			n++
			k++
			r.Instances++
			key := fmt.Sprintf("%s call #%d", FuncName(fn), k)
			if _, ok := constString(c.Call.Args[1]); ok {
				r.OK(key, false, "constant template")
			} else {
				r.Fail(key, p.Pos(c.Pos()), "whitespace is stripped from a string that is not a constant template ("+describeVal(c.Call.Args[1])+"): spaces inside quoted paths are removed too, so the minified metafile (used automatically for large builds) names inputs that do not exist")
			}
		})
	}
	r.Anchor("calls of config.(MetafileFormat).MaybeRemoveWhitespace", n > 0)
	r.Floor(40)
	return r
}
