package main

import (
	"fmt"
	"sort"

	"golang.org/x/tools/go/ssa"
)

// C19/R4 metafile-reads-final-record.
//
// bundler.processScannedFiles writes the `imports` entries of the metafile's `inputs` section while
// it walks a file's import records, and the same walk also *rewrites* records (the dual-package
// hazard rewrite retargets record.SourceIndex from a package's "module" file to its "main" file).
// The metafile is an exact account only if every record field it reports is read after the last
// store to that field in the iteration: text generated from a field that is overwritten later in
// the same iteration describes an import the bundle does not contain.
// Rule: for every strings.Builder.WriteString in processScannedFiles whose text depends on a load
// of an ast.ImportRecord field F, no store to ImportRecord.F is reachable from the write without
// leaving the innermost loop that contains the write (i.e. later in the same iteration).

var c19RewriteExceptions = map[string]string{
	"ImportRecord.SourceIndex = graph.CSSRepr.JSSourceIndex": "a CSS file imported from JS is replaced by a generated JS stub whose Source is the CSS file's own Source (same path in the metafile); the stub is an artefact of this build, not another input",
}

func c19MetafileFinalRecord(p *Prog) *RuleResult {
	r := NewRule("C19/R4 metafile-reads-final-record", "metafile text generated from an import record is generated after the last rewrite of the record fields it reports (no store to the field later in the same iteration)")
	fn := p.FindFunc("bundler.(*scanner).processScannedFiles")
	if !r.Anchor("bundler.(*scanner).processScannedFiles", fn != nil) {
		return r
	}
	loops := naturalLoops(fn)
	innermost := func(b *ssa.BasicBlock) (*ssa.BasicBlock, map[*ssa.BasicBlock]bool) {
		var bestH *ssa.BasicBlock
		var best map[*ssa.BasicBlock]bool
		for h, body := range loops {
			if body[b] && (best == nil || len(body) < len(best)) {
				bestH, best = h, body
			}
		}
		return bestH, best
	}
	// stores to ImportRecord fields
	stores := map[string][]*ssa.Store{}
	eachInstr(fn, func(b *ssa.BasicBlock, in ssa.Instruction) {
		st, ok := in.(*ssa.Store)
		if !ok {
			return
		}
		if fa, ok := st.Addr.(*ssa.FieldAddr); ok && namedTypeName(fa.X.Type()) == "ast.ImportRecord" {
			stores[fieldAddrName(fa)] = append(stores[fieldAddrName(fa)], st)
		}
	})
	nWrites := 0
	usedExc := map[string]string{}
	eachInstr(fn, func(b *ssa.BasicBlock, in ssa.Instruction) {
		c, ok := in.(*ssa.Call)
		if !ok || calleeFullName(c) != "(*strings.Builder).WriteString" || len(c.Call.Args) < 2 {
			return
		}
		fields := map[string]bool{}
		backSlice(c.Call.Args[1], func(v ssa.Value) bool {
			if fa, ok := v.(*ssa.FieldAddr); ok && namedTypeName(fa.X.Type()) == "ast.ImportRecord" {
				fields[fieldAddrName(fa)] = true
			}
			return true
		})
		if len(fields) == 0 {
			return
		}
		nWrites++
		header, body := innermost(b)
		var names []string
		for f := range fields {
			names = append(names, f)
		}
		sort.Strings(names)
		for _, f := range names {
			r.Instances++
			key := fmt.Sprintf("metafile text from ImportRecord.%s", f)
			bad := ""
			for _, st := range stores[f] {
				sb := st.Block()
				if body != nil && !body[sb] {
					continue
				}
				// reachable from the write to the store within the iteration?
				reach := false
				if sb == b {
					after := false
					for _, x := range b.Instrs {
						if x == in {
							after = true
						}
						if x == ssa.Instruction(st) && after {
							reach = true
						}
					}
				} else {
					seen := map[*ssa.BasicBlock]bool{b: true}
					work := []*ssa.BasicBlock{b}
					for len(work) > 0 && !reach {
						x := work[len(work)-1]
						work = work[:len(work)-1]
						for _, s := range x.Succs {
							if s == header || seen[s] || (body != nil && !body[s]) {
								continue
							}
							if s == sb {
								reach = true
								break
							}
							seen[s] = true
							work = append(work, s)
						}
					}
				}
				if reach {
					// reviewed rewrites that do not change what the metafile reports
					if o, n, ok := loadedField(st.Val); ok {
						if reason, ok := c19RewriteExceptions["ImportRecord."+f+" = "+o+"."+n]; ok {
							usedExc["ImportRecord."+f+" = "+o+"."+n] = reason
							continue
						}
					}
					// clearing the field (the zero Index32): the copy loader moves the target to
					// CopySourceIndex; the metafile still reports the copied file as imported
					if cv, ok := st.Val.(*ssa.Const); ok && cv.Value == nil {
						usedExc["ImportRecord."+f+" = zero value"] = "the record is cleared after its target was moved to another field (copy loader); the file is still an input the importer refers to"
						continue
					}
					bad = p.Pos(st.Pos())
				}
			}
			if bad != "" {
				r.Fail(key, p.Pos(c.Pos()), "the metafile entry is generated from ImportRecord."+f+" before the record is rewritten at "+bad+" in the same iteration: the metafile reports an import target that the bundle does not use")
			} else {
				r.OK(key, true, fmt.Sprintf("no store to ImportRecord.%s is reachable from the write within the iteration (%d store site(s) in the function)", f, len(stores[f])))
			}
		}
	})
	for k, reason := range usedExc {
		r.Note("reviewed rewrite "+k+": "+reason)
	}
	r.Anchor("metafile writes that report import-record fields", nWrites >= 1)
	return r
}
