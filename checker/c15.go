package main

import (
	"fmt"
	"go/token"
	"strings"

	"golang.org/x/tools/go/ssa"
)

func init() {
	register(&Property{
		ID:          "C15",
		Explanation: "R3 allocate-and-reserve: a name allocator (recognised structurally: returns a string that it tested for membership in a map, directly or through findNameUse) stores the very value it returns as a key of that map on every path to the return; otherwise a later request gets the same name and two declarations or export aliases collide. Decides two structural necessary conditions of 'renaming never changes binding' (capture-freedom itself is a relation between scope trees and is not decided): R1 names reach the output only through the renamer: in the JS printer no value read from ast.Symbol.OriginalName flows into an output sink (it may only be compared or handed to the source-map name table), and identifier printing obtains its text from Renamer.NameForSymbol; R2 every renamer honours the must-not-rename namespace: MinifyRenamer.NameForSymbol returns a generated slot name only when SlotNamespace() != SlotMustNotBeRenamed, AccumulateSymbolCount and NumberRenamer.assignName test the slot namespace before counting/assigning, AssignNamesByFrequency consults the reserved-name set (default namespace) and the keyword table (labels) before storing a name, and computeReservedNamesForScope reserves unbound and pinned names of both Members and Generated and descends into scopes containing direct eval. R4 symbol-registered: every newSymbol call of the parser is followed on every path by a registration in Scope.Generated / Scope.Members (interprocedural; 17 reviewed exceptions). R5 renamer-input-siblings (shared with C10/R5). R6 hoisted-import-bindings: every ref-bearing field of SImport / SExportStar / SExportFrom flows into AddTopLevelSymbol. R7 generated-name-tested-last: in AssignNamesByFrequency the last candidate generated before the store into the slot is looked up in the namespace's table after it was generated (namespace-infeasible edges pruned). NOT covered: slot assignment, collision freedom between merged scopes, mangle-props consistency.",
		Run: func(p *Prog, tier string) []*RuleResult {
			return []*RuleResult{c15NamesViaRenamer(p), c15PinRespect(p), c15AllocReserve(p), c15SymbolRegistered(p), c10RenamerSiblings(p, "C15/R5 renamer-input-siblings"), c15HoistedImportBindings(p), c15GeneratedNameTestedLast(p)}
		},
	})
}

var c15OriginalNameExceptions = ExcTable{
	"css_printer.(*printer).printSymbol": "CSS names are looked up in options.LocalNames (the renamer's output for local CSS names); only symbols without an entry — global, deliberately unrenamed names — fall back to OriginalName",
}

func c15NamesViaRenamer(p *Prog) *RuleResult {
	r := NewRule("C15/R1 names-via-renamer", "the printers never print ast.Symbol.OriginalName; identifier text comes from Renamer.NameForSymbol")
	for _, fn := range p.ModuleFuncs() {
		pp := pkgPathOf(fn)
		if pp != modPath+"/internal/js_printer" && pp != modPath+"/internal/css_printer" {
			continue
		}
		eachInstr(fn, func(b *ssa.BasicBlock, in ssa.Instruction) {
			u, ok := in.(*ssa.UnOp)
			if !ok || u.Op != token.MUL {
				return
			}
			fa, ok := u.X.(*ssa.FieldAddr)
			if !ok || fieldAddrName(fa) != "OriginalName" || namedTypeName(fa.X.Type()) != "ast.Symbol" {
				return
			}
			r.Instances++
			key := FuncName(fn)
			// forward uses of the loaded string
			bad := ""
			seen := map[ssa.Value]bool{}
			var follow func(v ssa.Value)
			follow = func(v ssa.Value) {
				if seen[v] || v.Referrers() == nil {
					return
				}
				seen[v] = true
				for _, rf := range *v.Referrers() {
					switch x := rf.(type) {
					case *ssa.BinOp:
						if x.Op == token.EQL || x.Op == token.NEQ {
							continue
						}
						bad = "used in expression " + x.Op.String()
					case *ssa.Phi:
						follow(x)
					case *ssa.DebugRef:
					case *ssa.Store:
						// store into a local variable: follow its loads
						if al, ok := x.Addr.(*ssa.Alloc); ok && al.Referrers() != nil {
							for _, rr := range *al.Referrers() {
								if ld, ok := rr.(*ssa.UnOp); ok && ld.Op == token.MUL {
									follow(ld)
								}
							}
							continue
						}
						bad = "stored to " + ssaExpr(x.Addr, 0)
					case *ssa.Call:
						n := calleeFullName(x)
						if strings.HasSuffix(n, "sourcemap.ChunkBuilder).AddSourceMapping") {
							continue // the source map's `names` table records the original name by design
						}
						bad = "passed to " + n
					default:
						bad = fmt.Sprintf("used by %T", rf)
					}
				}
			}
			follow(u)
			if bad == "" {
				r.OK(key+" OriginalName", true, "only compared, or recorded in the source map's names table")
				return
			}
			if r.CheckExc(c15OriginalNameExceptions, key) {
				return
			}
			r.Fail(key+" OriginalName", p.Pos(u.Pos()), "a symbol's OriginalName is "+bad+": the printed name would bypass the renamer")
		})
	}
	// positive: identifiers are printed from NameForSymbol
	n := 0
	for _, fn := range p.ModuleFuncs() {
		if pkgPathOf(fn) != modPath+"/internal/js_printer" {
			continue
		}
		eachInstr(fn, func(b *ssa.BasicBlock, in ssa.Instruction) {
			if c, ok := in.(ssa.CallInstruction); ok && strings.HasSuffix(calleeFullName(c), "renamer.Renamer).NameForSymbol") {
				n++
			}
		})
	}
	r.Instances++
	if n >= 5 {
		r.OK("js_printer uses Renamer.NameForSymbol", true, fmt.Sprintf("%d call sites", n))
	} else {
		r.Fail("js_printer uses Renamer.NameForSymbol", "-", fmt.Sprintf("only %d NameForSymbol call sites left in the JS printer", n))
	}
	r.StaleCheck(c15OriginalNameExceptions)
	return r
}

// nsTest finds the block(s) testing the result of (*ast.Symbol).SlotNamespace() against a constant.
func nsTestBlocks(fn *ssa.Function) (tests []*ssa.BasicBlock, nsCalls int) {
	isNS := func(v ssa.Value) bool {
		found := false
		backSlice(v, func(x ssa.Value) bool {
			if c, ok := x.(*ssa.Call); ok && strings.HasSuffix(calleeFullName(c), "ast.Symbol).SlotNamespace") {
				found = true
				return false
			}
			return true
		})
		return found
	}
	eachInstr(fn, func(b *ssa.BasicBlock, in ssa.Instruction) {
		if c, ok := in.(*ssa.Call); ok && strings.HasSuffix(calleeFullName(c), "ast.Symbol).SlotNamespace") {
			nsCalls++
		}
		if ifi, ok := in.(*ssa.If); ok {
			if bo, ok := ifi.Cond.(*ssa.BinOp); ok && (bo.Op == token.EQL || bo.Op == token.NEQ) && isNS(bo.X) {
				tests = append(tests, b)
			}
		}
	})
	return
}

func c15PinRespect(p *Prog) *RuleResult {
	r := NewRule("C15/R2 pin-respect", "every renamer consults the must-not-rename namespace, the reserved names and the keyword table before it assigns or returns a generated name")
	ap := p.ByPath[modPath+"/internal/ast"]
	if !r.Anchor("package ast", ap != nil) {
		return r
	}
	slotConsts := constsOfType(ap.Types, "SlotNamespace")
	mustNot, ok := slotConsts["SlotMustNotBeRenamed"]
	if !r.Anchor("ast.SlotMustNotBeRenamed", ok) {
		return r
	}
	// MinifyRenamer.NameForSymbol: returns of non-OriginalName values are dominated by ns != MustNotBeRenamed
	if fn := p.FindFunc("renamer.(*MinifyRenamer).NameForSymbol"); r.Anchor("renamer.(*MinifyRenamer).NameForSymbol", fn != nil) {
		for _, b := range fn.Blocks {
			if !isReturnBlock(b) {
				continue
			}
			ret := b.Instrs[len(b.Instrs)-1].(*ssa.Return)
			_, fname, isF := loadedField(ret.Results[0])
			if isF && fname == "OriginalName" {
				continue
			}
			r.Instances++
			ok := false
			for _, f := range factsAt(b) {
				if bo, isB := f.Cond.(*ssa.BinOp); isB {
					if k, isK := constInt(bo.Y); isK && k == mustNot {
						notEq := (bo.Op == token.EQL && !f.True) || (bo.Op == token.NEQ && f.True)
						if notEq {
							ok = true
						}
					}
				}
			}
			if ok {
				r.OK("MinifyRenamer.NameForSymbol generated name", true, "a slot name is returned only under SlotNamespace() != SlotMustNotBeRenamed")
			} else {
				r.Fail("MinifyRenamer.NameForSymbol generated name", p.Pos(ret.Pos()), "a generated name can be returned for a symbol in the must-not-rename namespace (exports, unbound globals, names visible to eval/with)")
			}
		}
	}
	// functions whose effect must be dominated by a SlotNamespace test
	for _, spec := range []struct {
		fn     string
		effect func(in ssa.Instruction) bool
		what   string
	}{
		{"renamer.(*MinifyRenamer).AccumulateSymbolCount", func(in ssa.Instruction) bool {
			if c, ok := in.(*ssa.Call); ok {
				n := calleeFullName(c)
				if n == "sync/atomic.AddUint32" {
					return true
				}
				if bi, ok := c.Call.Value.(*ssa.Builtin); ok && bi.Name() == "append" {
					return true
				}
			}
			return false
		}, "count accumulation"},
		{"renamer.(*NumberRenamer).assignName", func(in ssa.Instruction) bool {
			if st, ok := in.(*ssa.Store); ok {
				if ia, ok := st.Addr.(*ssa.IndexAddr); ok {
					_ = ia
					if bt := st.Val.Type().String(); bt == "string" {
						return true
					}
				}
			}
			return false
		}, "name assignment"},
	} {
		fn := p.FindFunc(spec.fn)
		if !r.Anchor(spec.fn, fn != nil) {
			continue
		}
		tests, ncalls := nsTestBlocks(fn)
		eachInstr(fn, func(b *ssa.BasicBlock, in ssa.Instruction) {
			if !spec.effect(in) {
				return
			}
			r.Instances++
			key := spec.fn + " " + spec.what
			dom := false
			for _, t := range tests {
				if t.Dominates(b) && t != b {
					dom = true
				}
			}
			if dom && ncalls > 0 {
				r.OK(key, true, "dominated by a test of SlotNamespace()")
			} else {
				r.Fail(key, p.Pos(in.Pos()), spec.what+" happens without a dominating test of the symbol's slot namespace: pinned names could be renamed")
			}
		})
	}
	// AssignNamesByFrequency: reserved names and keywords consulted in name-generation loops
	if fn := p.FindFunc("renamer.(*MinifyRenamer).AssignNamesByFrequency"); r.Anchor("renamer.(*MinifyRenamer).AssignNamesByFrequency", fn != nil) {
		reserved, keywords, store := false, false, false
		// the function itself and the helpers of the package it calls (the selection loop may be split off)
		hosts := []*ssa.Function{fn}
		eachInstr(fn, func(_ *ssa.BasicBlock, in ssa.Instruction) {
			if c, ok := in.(*ssa.Call); ok {
				if callee := c.Call.StaticCallee(); callee != nil && callee != fn && pkgPathOf(callee) == pkgPathOf(fn) && len(callee.Blocks) > 0 {
					hosts = append(hosts, callee)
				}
			}
		})
		for _, host := range hosts {
			eachInstr(host, func(b *ssa.BasicBlock, in ssa.Instruction) {
				switch x := in.(type) {
				case *ssa.Lookup:
					feedsIf := false
					if x.Referrers() != nil {
						for _, rf := range *x.Referrers() {
							if bo, ok := rf.(*ssa.BinOp); ok && bo.Referrers() != nil {
								for _, rr := range *bo.Referrers() {
									if _, ok := rr.(*ssa.If); ok {
										feedsIf = true
									}
								}
							}
						}
					}
					if _, n, ok := loadedField(x.X); ok && n == "reservedNames" && feedsIf && definedInLoop(x) {
						reserved = true
					}
					if u, ok := x.X.(*ssa.UnOp); ok {
						if g, ok := u.X.(*ssa.Global); ok && g.Name() == "Keywords" && feedsIf && definedInLoop(x) {
							keywords = true
						}
					}
				case *ssa.Store:
					if fa, ok := x.Addr.(*ssa.FieldAddr); ok && fieldAddrName(fa) == "name" && namedTypeName(fa.X.Type()) == "renamer.symbolSlot" {
						store = true
					}
				}
			})
		}
		r.Instances += 2
		if reserved && store {
			r.OK("AssignNamesByFrequency skips reserved names", true, "a loop regenerates the name while r.reservedNames[name] != 0 before slot.name is stored")
		} else {
			r.Fail("AssignNamesByFrequency skips reserved names", p.Pos(fn.Pos()), "generated names are no longer checked against the reserved-name set (keywords, unbound globals, pinned names)")
		}
		if keywords && store {
			r.OK("AssignNamesByFrequency skips keywords for labels", true, "a loop regenerates the label while js_lexer.Keywords[name] != 0")
		} else {
			r.Fail("AssignNamesByFrequency skips keywords for labels", p.Pos(fn.Pos()), "generated label names are no longer checked against the keyword table")
		}
	}
	// computeReservedNamesForScope
	if fn := p.FindFunc("renamer.computeReservedNamesForScope"); r.Anchor("renamer.computeReservedNamesForScope", fn != nil) {
		members, generated, eval, recurse := false, false, false, false
		eachInstr(fn, func(b *ssa.BasicBlock, in ssa.Instruction) {
			switch x := in.(type) {
			case *ssa.Range:
				if _, n, ok := loadedField(x.X); ok && n == "Members" {
					members = true
				}
			case *ssa.UnOp:
				if _, n, ok := loadedField(x); ok {
					if n == "Generated" {
						generated = true
					}
					if n == "ContainsDirectEval" {
						eval = true
					}
				}
			case *ssa.Call:
				if c := x.Call.StaticCallee(); c == fn {
					recurse = true
				}
			}
		})
		for _, c := range []struct {
			ok   bool
			what string
		}{{members, "ranges over scope.Members"}, {generated, "ranges over scope.Generated"}, {eval && recurse, "descends into child scopes containing direct eval"}} {
			r.Instances++
			if c.ok {
				r.OK("computeReservedNamesForScope "+c.what, true, "")
			} else {
				r.Fail("computeReservedNamesForScope "+c.what, p.Pos(fn.Pos()), "reserved-name computation no longer "+c.what)
			}
		}
	}
	r.Floor(8)
	return r
}

// c15AllocReserve: name allocators record the name they hand out (engine: allocres.go)
func c15AllocReserve(p *Prog) *RuleResult {
	r := NewRule("C15/R3 allocate-and-reserve", "a name allocator that tests candidate names against its used set stores the name it returns into that set on every path")
	n := checkAllocators(p, r, map[string]bool{"renamer": true, "linker": true, "js_parser": true, "css_parser": true, "bundler": true, "js_ast": true, "ast": true})
	r.Anchor("at least one allocator recognised (renamer.(*ExportRenamer).NextRenamedName)", n > 0)
	r.Floor(2)
	return r
}
