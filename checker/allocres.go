package main

import (
	"fmt"
	"go/types"
	"sort"

	"golang.org/x/tools/go/ssa"
)

// E-ALLOC: allocate-and-reserve.
//
// A name allocator hands out a string that is not yet in its "used" set. The name it returns has
// to be put into that set before it returns, otherwise the next request can be given the same
// name. Structural recognition: a function that returns a string value R and tests exactly that
// value (or, if R is a phi, one of its incoming values) for membership in a map M with string
// keys. Obligation: for every non-phi value c that can be returned, an update M[c] = … with that
// very SSA value as key is executed on every path on which c is returned (its block dominates the
// edge through which c reaches the return).

// helper methods that answer "is this name in use?" and the set they consult in the receiver
var allocMembershipHelpers = map[string]string{
	"renamer.(*numberScope).findNameUse": "renamer.numberScope.nameCounts",
}

// allocation records confirmed by reading (each is added to by the allocator that consults it)
var allocKnownUsedSets = map[string]bool{
	"renamer.ExportRenamer.used":     true,
	"renamer.numberScope.nameCounts": true,
}

var writtenSetsCache = map[*Prog]map[string]bool{}

// writtenSets: identities of string-keyed maps that some function of the module stores a
// non-constant key into.
func writtenSets(p *Prog) map[string]bool {
	if m, ok := writtenSetsCache[p]; ok {
		return m
	}
	m := map[string]bool{}
	for _, fn := range p.ModuleFuncs() {
		eachInstr(fn, func(_ *ssa.BasicBlock, in ssa.Instruction) {
			if mu, ok := in.(*ssa.MapUpdate); ok {
				if _, isConst := mu.Key.(*ssa.Const); !isConst {
					if id := mapIdentity(mu.Map); id != "" {
						m[id] = true
					}
				}
			}
		})
	}
	writtenSetsCache[p] = m
	return m
}

type allocFunc struct {
	fn  *ssa.Function
	m   string // description of the map
	key string
}

func isStringType(t types.Type) bool {
	b, ok := t.Underlying().(*types.Basic)
	return ok && b.Info()&types.IsString != 0
}

// mapIdentity: a stable description of a map-valued expression (field path), "" if not a field/param
func mapIdentity(v ssa.Value) string {
	if o, n, ok := loadedField(v); ok {
		return o + "." + n
	}
	if prm, ok := v.(*ssa.Parameter); ok {
		return "param " + prm.Name()
	}
	if fv, ok := v.(*ssa.FreeVar); ok {
		return "captured " + fv.Name()
	}
	return ""
}

type allocReturn struct {
	val  ssa.Value       // non-phi returned value
	via  *ssa.BasicBlock // block from which the value flows towards the return (phi predecessor or the return block)
	retB *ssa.BasicBlock
}

func returnedStrings(fn *ssa.Function, idx int) []allocReturn {
	var out []allocReturn
	eachInstr(fn, func(b *ssa.BasicBlock, in ssa.Instruction) {
		ret, ok := in.(*ssa.Return)
		if !ok || idx >= len(ret.Results) {
			return
		}
		seen := map[ssa.Value]bool{}
		var walk func(v ssa.Value, via *ssa.BasicBlock)
		walk = func(v ssa.Value, via *ssa.BasicBlock) {
			if ph, ok := v.(*ssa.Phi); ok {
				if seen[ph] {
					return
				}
				seen[ph] = true
				for i, e := range ph.Edges {
					walk(e, ph.Block().Preds[i])
				}
				return
			}
			out = append(out, allocReturn{v, via, b})
		}
		walk(ret.Results[0+idx], b)
	})
	return out
}

func checkAllocators(p *Prog, r *RuleResult, pkgs map[string]bool) int {
	found := 0
	var fns []*ssa.Function
	for _, fn := range p.ModuleFuncs() {
		if pkgs[shortPkg(pkgPathOf(fn))] {
			fns = append(fns, fn)
		}
	}
	sort.Slice(fns, func(i, j int) bool { return FuncName(fns[i]) < FuncName(fns[j]) })
	for _, fn := range fns {
		res := fn.Signature.Results()
		if res.Len() == 0 || !isStringType(res.At(0).Type()) || len(fn.Blocks) == 0 {
			continue
		}
		rets := returnedStrings(fn, 0)
		cand := map[ssa.Value]bool{}
		for _, ar := range rets {
			cand[ar.val] = true
		}
		eachInstr(fn, func(b *ssa.BasicBlock, in ssa.Instruction) {
			if ret, ok := in.(*ssa.Return); ok && len(ret.Results) > 0 {
				cand[ret.Results[0]] = true
				// phis on the way
				seen := map[ssa.Value]bool{}
				var walk func(v ssa.Value)
				walk = func(v ssa.Value) {
					if ph, ok := v.(*ssa.Phi); ok && !seen[ph] {
						seen[ph] = true
						cand[ph] = true
						for _, e := range ph.Edges {
							walk(e)
						}
					}
				}
				walk(ret.Results[0])
			}
		})
		// membership tests on a candidate
		maps := map[string]bool{}
		eachInstr(fn, func(b *ssa.BasicBlock, in ssa.Instruction) {
			lk, ok := in.(*ssa.Lookup)
			if !ok || !cand[lk.Index] {
				return
			}
			if _, isMap := lk.X.Type().Underlying().(*types.Map); !isMap {
				return
			}
			if id := mapIdentity(lk.X); id != "" {
				maps[id] = true
			}
		})
		// membership tests made through a helper method (table: helper -> the set it consults)
		eachInstr(fn, func(b *ssa.BasicBlock, in ssa.Instruction) {
			c, ok := in.(*ssa.Call)
			if !ok {
				return
			}
			if set, ok := allocMembershipHelpers[FuncNameOf(c)]; ok {
				for _, a := range c.Call.Args {
					if cand[a] {
						maps[set] = true
					}
				}
			}
		})
		if len(maps) == 0 {
			continue
		}
		var ids []string
		for id := range maps {
			// a set nobody in the module ever adds a name to is a fixed blacklist (reserved words), not
			// the allocator's record of what it handed out: filtering candidates against it creates no
			// obligation to record them. The sets confirmed as allocation records on today's tree stay
			// obligations even if their last update is deleted.
			if !allocKnownUsedSets[id] && !writtenSets(p)[id] {
				continue
			}
			ids = append(ids, id)
		}
		sort.Strings(ids)
		for _, id := range ids {
			found++
			// updates of that map, by key value
			type upd struct {
				key ssa.Value
				b   *ssa.BasicBlock
			}
			var upds []upd
			eachInstr(fn, func(b *ssa.BasicBlock, in ssa.Instruction) {
				if mu, ok := in.(*ssa.MapUpdate); ok && mapIdentity(mu.Map) == id {
					upds = append(upds, upd{mu.Key, b})
				}
			})
			// reserved(v, via): v is stored as a key on every path on which it flows through block via
			var reserved func(v ssa.Value, via *ssa.BasicBlock, seen map[ssa.Value]bool) (bool, ssa.Value)
			reserved = func(v ssa.Value, via *ssa.BasicBlock, seen map[ssa.Value]bool) (bool, ssa.Value) {
				for _, u := range upds {
					if u.key == v && (u.b == via || u.b.Dominates(via)) {
						return true, nil
					}
				}
				if ph, ok := v.(*ssa.Phi); ok && !seen[ph] {
					seen[ph] = true
					for i, e := range ph.Edges {
						if ok, bad := reserved(e, ph.Block().Preds[i], seen); !ok {
							return false, bad
						}
					}
					return true, nil
				}
				if _, isConst := v.(*ssa.Const); isConst {
					return true, nil
				}
				return false, v
			}
			n := 0
			eachInstr(fn, func(b *ssa.BasicBlock, in ssa.Instruction) {
				ret, ok := in.(*ssa.Return)
				if !ok || len(ret.Results) == 0 {
					return
				}
				n++
				r.Instances++
				key := fmt.Sprintf("%s return #%d reserved in %s", FuncName(fn), n, id)
				if ok, bad := reserved(ret.Results[0], b, map[ssa.Value]bool{}); ok {
					r.OK(key, true, "the returned name is stored as a key of the used set on every path to this return")
				} else {
					r.Fail(key, p.Pos(ret.Pos()), fmt.Sprintf("%s tests names against %s and can return %s without having recorded that very name in the set: the next request can be handed the same name (two distinct symbols or exports with one name)", FuncName(fn), id, describeVal(bad)))
				}
			})
		}
	}
	return found
}
