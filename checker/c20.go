package main

import (
	"fmt"
	"go/types"
	"os"
	"sort"
	"strings"

	"golang.org/x/tools/go/ssa"
)

var c20Guards = []guardSpec{
	{"pkg/api.internalContext", "activeBuild", "mutex"},
	{"pkg/api.internalContext", "recentBuild", "mutex"},
	{"pkg/api.internalContext", "didDispose", "mutex"},
	{"pkg/api.internalContext", "latestHashes", "mutex"},
	{"pkg/api.internalContext", "watcher", "mutex"},
	{"pkg/api.internalContext", "handler", "mutex"},
	{"cmd/esbuild.activeBuild", "ctx", "mutex"},
	{"cmd/esbuild.activeBuild", "pluginResolve", "mutex"},
	{"cmd/esbuild.activeBuild", "rebuildWaitGroup", "mutex"},
	{"cmd/esbuild.activeBuild", "withinRebuildCount", "mutex"},
	{"cmd/esbuild.activeBuild", "didGetCancel", "mutex"},
	{"cmd/esbuild.serviceType", "callbacks", "mutex"},
	{"cmd/esbuild.serviceType", "activeBuilds", "mutex"},
	{"cmd/esbuild.serviceType", "nextRequestID", "mutex"},
	{"pkg/api.watcher", "data", "mutex"},
	{"pkg/api.watcher", "recentItems", "mutex"},
	{"pkg/api.watcher", "itemsToScan", "mutex"},
	{"pkg/api.watcher", "itemsPerIteration", "mutex"},
	{"pkg/api.apiHandler", "activeStreams", "mutex"},
	{"pkg/api.apiHandler", "currentHashes", "mutex"},
	{"bundler.runtimeCache", "astMap", "astMutex"},
	{"cache.JSCache", "entries", "mutex"},
	{"cache.CSSCache", "entries", "mutex"},
	{"cache.JSONCache", "entries", "mutex"},
	{"cache.SourceIndexCache", "entries", "mutex"},
	{"cache.SourceIndexCache", "globEntries", "mutex"},
	{"cache.SourceIndexCache", "nextSourceIndex", "mutex"},
	{"cache.FSCache", "entries", "mutex"},
	{"fs.realFS", "entries", "entriesMutex"},
	{"fs.realFS", "watchData", "watchMutex"},
	{"fs.accessedEntries", "wasPresent", "mutex"},
	{"fs.accessedEntries", "allEntries", "mutex"},
}

// reviewed unguarded accesses: "<func> <owner>.<field>"
var c20GuardExceptions = ExcTable{
	"cmd/esbuild.(*serviceType).handleBuildRequest cmd/esbuild.activeBuild.ctx": "initial store right after api.Context() returned and before the response packet is sent: the client learns that the context exists only from that response, so no rebuild/cancel/dispose/resolve request for this key can be in flight, and no build (hence no on-start callback) has been started yet",
	"fs.(*realFS).WatchData fs.realFS.watchData":                                "each build creates its own realFS; rebuildImpl calls WatchData() after ScanBundle has joined every goroutine that reads files, and nothing reads files through this FS afterwards (Compile only uses path functions)",
	"pkg/api.(*internalContext).Dispose pkg/api.internalContext.watcher":        "read after the critical section that set didDispose: Watch() assigns ctx.watcher only under the lock after testing didDispose, so no write can follow; the lock hand-over orders any earlier write before this read",
	"pkg/api.(*internalContext).Dispose pkg/api.internalContext.handler":        "read after the critical section that set didDispose: Serve() assigns ctx.handler only under the lock after testing didDispose, so no write can follow; the lock hand-over orders any earlier write before this read",
}

type lockCache struct {
	p     *Prog
	infos map[*ssa.Function]*lockInfo
	entry map[*ssa.Function]lockState
	busy  map[*ssa.Function]bool
}

func newLockCache(p *Prog) *lockCache {
	return &lockCache{p: p, infos: map[*ssa.Function]*lockInfo{}, entry: map[*ssa.Function]lockState{}, busy: map[*ssa.Function]bool{}}
}

func interestingForLocks(in ssa.Instruction) bool {
	switch in.(type) {
	case *ssa.Store, *ssa.UnOp, *ssa.Call, *ssa.FieldAddr, *ssa.IndexAddr, *ssa.MapUpdate, *ssa.Go, *ssa.Defer, *ssa.Send:
		return true
	}
	return false
}

// entryState: locks certainly held whenever fn is entered: the intersection over all call sites of
// the caller's held locks, translated through the argument binding (one level of callers, which
// themselves use their own entry state recursively). Functions with unknown/dynamic callers,
// exported API entry points and goroutine roots start empty.
func (lc *lockCache) entryState(fn *ssa.Function) lockState {
	if s, ok := lc.entry[fn]; ok {
		return s
	}
	if lc.busy[fn] {
		return lockState{}
	}
	lc.busy[fn] = true
	defer func() { lc.busy[fn] = false }()
	res := lockState{}
	node := lc.p.CallGraph().Nodes[fn]
	if node == nil || len(node.In) == 0 || (fn.Object() != nil && fn.Object().Exported() && fn.Signature.Recv() == nil) {
		lc.entry[fn] = res
		return res
	}
	first := true
	for _, e := range node.In {
		site := e.Site
		if site == nil {
			lc.entry[fn] = lockState{}
			return lockState{}
		}
		if _, isGo := site.(*ssa.Go); isGo {
			lc.entry[fn] = lockState{}
			return lockState{}
		}
		if _, isDefer := site.(*ssa.Defer); isDefer {
			lc.entry[fn] = lockState{}
			return lockState{}
		}
		cc := site.Common()
		if cc.StaticCallee() != fn {
			// dynamic edge (interface / func value): cannot bind arguments
			if mc, ok := cc.Value.(*ssa.MakeClosure); !ok || mc.Fn != fn {
				lc.entry[fn] = lockState{}
				return lockState{}
			}
		}
		caller := e.Caller.Func
		ci := lc.info(caller)
		held := ci.at[site.(ssa.Instruction)]
		translated := lockState{}
		for k := range held {
			// bind through arguments
			for i, a := range cc.Args {
				if i >= len(fn.Params) {
					break
				}
				ak := objKey(a)
				if strings.HasPrefix(k, ak) {
					translated["param:"+fn.Params[i].Name()+"|"+strings.TrimPrefix(k, ak)] = true
				}
			}
			// closures share captured variables by name
			if fn.Parent() == caller {
				for _, fv := range fn.FreeVars {
					for _, pref := range []string{"local:" + fv.Name() + "|", "param:" + fv.Name() + "|", "fv:" + fv.Name() + "|"} {
						if strings.HasPrefix(k, pref) {
							translated["fv:"+fv.Name()+"|"+strings.TrimPrefix(k, pref)] = true
						}
					}
				}
			}
		}
		if first {
			res = translated
			first = false
		} else {
			res = intersect(res, translated)
		}
	}
	lc.entry[fn] = res
	return res
}

func (lc *lockCache) info(fn *ssa.Function) *lockInfo {
	if li, ok := lc.infos[fn]; ok {
		return li
	}
	// placeholder to cut recursion
	lc.infos[fn] = &lockInfo{fn: fn, at: map[ssa.Instruction]lockState{}, in: map[*ssa.BasicBlock]lockState{}}
	li := analyseLocks(fn, lc.entryState(fn), interestingForLocks)
	lc.infos[fn] = li
	return li
}

func init() {
	register(&Property{
		ID:          "C20",
		Explanation: "Decides structural necessary conditions of concurrency safety of contexts, plugins and the stdio service (not absence of all races or liveness): R1 guarded-by: every read/write of the listed shared fields (build-context state, service state, watcher and serve-handler state, caches) happens with the owning mutex in the must-hold lock set (intraprocedural dataflow with defer handling and one level of call-site binding), or is a reviewed entry; R2 every Lock is released on all exits (or deferred), and no blocking operation (WaitGroup.Wait, plugin/rebuild call, channel op) runs while a context/service mutex is held; R3 Rebuild/Cancel/Dispose join semantics (Add and activeBuild publication in one critical section, activeBuild cleared under the lock before Done, Cancel/Dispose wait for the snapshotted build, didDispose tested under the lock by every public method); R4 each stdio request gets exactly one response carrying its own id on every path, and every goroutine of the handler is accounted in the keep-alive wait group; R5 on-start callbacks complete before anything that can reach resolve/load callbacks, and on-end callbacks run after the output-writing wait and on every path. R3 also decides that no return of Cancel/Dispose is reachable without Wait or the activeBuild-is-nil edge. R6 goroutine-private-slots (E-SLOT). R7 lock-order: the module-wide lock-order graph (mutex B acquired directly or through static callees while mutex A is in the must-hold set) has no cycle; no mutex is locked, directly or by a callee on the same object, while already held. R8 spawn-then-write. R9 mangle-cache-per-build: the mangle cache given to Compile is a cloneMangleCache result of the same function. R10 skipped-write-is-verified: every path of the per-file output writer to a return passes the writing-disabled gate, WriteFile, an error report or the read-back of the file. R11 inject-before-results: the C16/R12 analysis. NOT covered: data races on fields outside the table, liveness under arbitrary plugin behaviour, the TypeScript side of the protocol.",
		Run: func(p *Prog, tier string) []*RuleResult {
			return []*RuleResult{c20GuardedBy(p), c20LockBalance(p), c20JoinSemantics(p), c20OneResponse(p), c20CallbackOrdering(p), goroutinePrivateSlots(p, "C20/R6 goroutine-private-slots"), c20LockOrder(p), spawnThenWrite(p, "C20/R8 spawn-then-write"), c20MangleCachePerBuild(p), skippedWriteVerified(p, "C20/R10 skipped-write-is-verified"), injectBeforeResults(p, "C20/R11 inject-before-results")}
		},
	})
}

func c20GuardedBy(p *Prog) *RuleResult {
	r := NewRule("C20/R1 guarded-by", "every access to a lock-protected field holds its mutex")
	lc := newLockCache(p)
	dump := os.Getenv("VERIF_DUMP") != ""
	for _, g := range c20Guards {
		acc := guardedAccesses(p, g.owner, g.field)
		if len(acc) == 0 && !typeHasField(p, g.owner, g.field) {
			// the field does not exist in this build configuration (js/wasm replaces the serve
			// handler by an empty struct): nothing to guard here
			r.Note("guard %s.%s: the type has no such field in configuration %s", g.owner, g.field, p.Config)
			continue
		}
		if len(acc) == 0 {
			r.Fail("guard "+g.owner+"."+g.field, "-", "guarded field has no accesses (renamed or removed?): update the guard table")
			continue
		}
		sort.SliceStable(acc, func(i, j int) bool { return acc[i].instr.Pos() < acc[j].instr.Pos() })
		for _, a := range acc {
			r.Instances++
			li := lc.info(a.fn)
			held := li.at[a.instr]
			// required lock: same base object, mutex field
			fk := objKey(a.fa)
			base := strings.TrimSuffix(fk, "."+g.field)
			need := base + "." + g.mutex
			mode := "read"
			if a.write {
				mode = "write"
			}
			key := fmt.Sprintf("%s %s.%s", FuncName(a.fn), g.owner, g.field)
			if held[need] {
				r.OK(key+" "+mode, true, "lock "+need+" is in the must-hold set")
				continue
			}
			// object not yet shared: allocated in this function
			if isLocalStruct(a.fa.X) {
				r.OK(key+" "+mode+" (unshared)", true, "the struct is allocated in this function and not yet published")
				continue
			}
			// reading only the nil-ness of a field that is never written while shared
			if !a.write && nilCompareOnly(a.instr) && writtenOnlyUnshared(acc) {
				r.OK(key+" nil-test", true, "only the nil-ness of the field is read, and the field is never assigned after the object is published")
				continue
			}
			if dump {
				var hs []string
				for k := range held {
					hs = append(hs, k)
				}
				fmt.Printf("UNGUARDED %s %s @ %s need=%s held=%v\n", key, mode, p.Pos(a.instr.Pos()), need, hs)
			}
			if r.CheckExc(c20GuardExceptions, key) {
				continue
			}
			r.Fail(key, p.Pos(a.instr.Pos()), fmt.Sprintf("%s of %s.%s without holding %s (held: %d locks)", mode, g.owner, g.field, need, len(held)))
		}
	}
	r.Floor(100)
	r.StaleCheck(c20GuardExceptions)
	return r
}

func nilCompareOnly(in ssa.Instruction) bool {
	u, ok := in.(*ssa.UnOp)
	if !ok || u.Referrers() == nil {
		return false
	}
	for _, rf := range *u.Referrers() {
		bo, ok := rf.(*ssa.BinOp)
		if !ok {
			if _, isDbg := rf.(*ssa.DebugRef); isDbg {
				continue
			}
			return false
		}
		cx, okx := bo.X.(*ssa.Const)
		cy, oky := bo.Y.(*ssa.Const)
		if !((okx && cx.Value == nil) || (oky && cy.Value == nil)) {
			return false
		}
	}
	return true
}

func writtenOnlyUnshared(acc []fieldAccess) bool {
	for _, a := range acc {
		if !a.write {
			continue
		}
		if _, isStore := a.instr.(*ssa.Store); !isStore {
			continue // map updates change the contents, not the field
		}
		if isLocalStruct(a.fa.X) {
			continue
		}
		return false
	}
	return true
}

// reviewed: "<func> <lock>" held at return, or "<func> blocking <op>" under lock
var c20BalanceExceptions = ExcTable{
	"pkg/api.(*apiHandler).broadcastBuildResult blocking channel send under param:h|.mutex": "serve mode live reload: each registered stream has a dedicated goroutine receiving until the stream is closed; it stops early only after a write error on a dead connection, upon which CloseNotify removes the stream under the same mutex. A residual window (consumer gone, stream still registered, next broadcast wins the mutex) could block the sender; 13k rebuilds against aborting event-stream clients did not reproduce it, so it is recorded as reviewed, not as a finding",
	"pkg/api.(*internalContext).Serve blocking WaitGroup.Wait under param:ctx|.mutex":       "bounded wait for the HTTP server goroutine to report that it started (or failed) listening; the goroutine signals exactly once on both outcomes and never takes ctx.mutex",
	"pkg/api.(*internalContext).Serve blocking time.Sleep under param:ctx|.mutex":           "fixed 50 ms sleep (documented Linux socket-reuse workaround) during one-time server start-up",
}

func isBlockingInstr(in ssa.Instruction) string {
	switch x := in.(type) {
	case *ssa.Send:
		return "channel send"
	case *ssa.Select:
		if x.Blocking {
			return "select"
		}
	case *ssa.UnOp:
		if x.Op.String() == "<-" {
			return "channel receive"
		}
	case *ssa.Call:
		n := calleeFullName(x)
		switch {
		case n == "(*sync.WaitGroup).Wait" || strings.HasSuffix(n, "ThreadSafeWaitGroup).Wait"):
			return "WaitGroup.Wait"
		case n == "time.Sleep":
			return "time.Sleep"
		case strings.HasSuffix(n, "pkg/api.rebuildImpl"), strings.HasSuffix(n, "internalContext).rebuild"), strings.HasSuffix(n, "internalContext).Rebuild"),
			strings.HasSuffix(n, "internalContext).Cancel"), strings.HasSuffix(n, "internalContext).Dispose"), strings.HasSuffix(n, "serviceType).sendRequest"),
			strings.HasSuffix(n, "BuildContext).Rebuild"), strings.HasSuffix(n, "BuildContext).Cancel"), strings.HasSuffix(n, "BuildContext).Dispose"),
			strings.HasSuffix(n, "bundler.ScanBundle"), strings.HasSuffix(n, "Bundle).Compile"):
			return "call " + n[strings.LastIndex(n, "/")+1:]
		}
	}
	return ""
}

func c20LockBalance(p *Prog) *RuleResult {
	r := NewRule("C20/R2 lock-balance", "every Lock is released on all exits (directly or by defer); no blocking operation runs while a mutex of pkg/api or cmd/esbuild is held")
	lc := newLockCache(p)
	nlocks := 0
	for _, fn := range p.ModuleFuncs() {
		hasLock := false
		eachInstr(fn, func(b *ssa.BasicBlock, in ssa.Instruction) {
			if c, ok := in.(ssa.CallInstruction); ok {
				if op, _, ok := mutexCall(c); ok && op == "lock" {
					hasLock = true
					nlocks++
				}
			}
		})
		pp := pkgPathOf(fn)
		apiLayer := strings.HasSuffix(pp, "/pkg/api") || strings.HasSuffix(pp, "/cmd/esbuild")
		if !hasLock && !apiLayer {
			continue
		}
		li := lc.info(fn)
		if hasLock {
			r.Instances++
			entry := lc.entryState(fn)
			var bad []string
			seen := map[string]bool{}
			for _, k := range li.exitBad {
				if !entry[k] && !seen[k] {
					seen[k] = true
					bad = append(bad, k)
				}
			}
			if len(bad) == 0 {
				r.OK(FuncName(fn)+" unlock on all exits", true, "no lock acquired here is still held at a return")
			} else {
				for _, k := range bad {
					key := FuncName(fn) + " returns holding " + k
					if !r.CheckExc(c20BalanceExceptions, key) {
						r.Fail(key, p.Pos(fn.Pos()), "a path returns with "+k+" still locked (no Unlock and no deferred Unlock)")
					}
				}
			}
		}
		if apiLayer {
			eachInstr(fn, func(b *ssa.BasicBlock, in ssa.Instruction) {
				op := isBlockingInstr(in)
				if op == "" {
					return
				}
				held := li.at[in]
				if len(held) == 0 {
					return
				}
				var hs []string
				for k := range held {
					hs = append(hs, k)
				}
				sort.Strings(hs)
				r.Instances++
				key := FuncName(fn) + " blocking " + op + " under " + strings.Join(hs, ",")
				if !r.CheckExc(c20BalanceExceptions, key) {
					r.Fail(key, p.Pos(in.Pos()), "blocking operation ("+op+") while holding "+strings.Join(hs, ","))
				}
			})
		}
	}
	r.Note("Lock() call sites: %d", nlocks)
	r.Floor(40)
	r.StaleCheck(c20BalanceExceptions)
	return r
}

// isLocalStruct: v addresses a struct that is being built in this very function (composite literal
// or new(T), possibly a nested field of one) and has not been handed to anyone yet at construction.
func isLocalStruct(v ssa.Value) bool {
	for {
		switch x := v.(type) {
		case *ssa.Alloc:
			return true
		case *ssa.FieldAddr:
			v = x.X
		default:
			return false
		}
	}
}

// ---------------------------------------------------------------------------------------------
// R3 join semantics, R5 callback ordering

func findCalls(fn *ssa.Function, pred func(name string) bool) []ssa.CallInstruction {
	var out []ssa.CallInstruction
	eachInstr(fn, func(b *ssa.BasicBlock, in ssa.Instruction) {
		if c, ok := in.(ssa.CallInstruction); ok && pred(calleeFullName(c)) {
			out = append(out, c)
		}
	})
	return out
}

func wgMethodOn(c ssa.CallInstruction, method, fieldName string) bool {
	if calleeFullName(c) != "(*sync.WaitGroup)."+method {
		return false
	}
	args := c.Common().Args
	if len(args) == 0 {
		return false
	}
	if fa, ok := args[0].(*ssa.FieldAddr); ok {
		return fieldAddrName(fa) == fieldName
	}
	if al, ok := args[0].(*ssa.Alloc); ok {
		return al.Comment == fieldName
	}
	if u, ok := args[0].(*ssa.UnOp); ok {
		if fv, ok := u.X.(*ssa.FreeVar); ok {
			return fv.Name() == fieldName
		}
	}
	if fv, ok := args[0].(*ssa.FreeVar); ok {
		return fv.Name() == fieldName
	}
	return false
}

func c20JoinSemantics(p *Prog) *RuleResult {
	r := NewRule("C20/R3 join-semantics", "a build is published (activeBuild) together with its WaitGroup.Add in one critical section and unpublished under the lock strictly before Done; Cancel and Dispose wait for the build they snapshotted; every public context method tests didDispose under the lock first")
	lc := newLockCache(p)
	rb := p.FindFunc("pkg/api.(*internalContext).rebuild")
	if r.Anchor("pkg/api.(*internalContext).rebuild", rb != nil) {
		li := lc.info(rb)
		var add, done ssa.CallInstruction
		var pub, unpub *ssa.Store
		eachInstr(rb, func(b *ssa.BasicBlock, in ssa.Instruction) {
			if c, ok := in.(ssa.CallInstruction); ok {
				if wgMethodOn(c, "Add", "waitGroup") {
					add = c
				}
				if wgMethodOn(c, "Done", "waitGroup") {
					done = c
				}
			}
			if st, ok := in.(*ssa.Store); ok {
				if fa, ok := st.Addr.(*ssa.FieldAddr); ok && fieldAddrName(fa) == "activeBuild" {
					if c, isC := st.Val.(*ssa.Const); isC && c.Value == nil {
						unpub = st
					} else {
						pub = st
					}
				}
			}
		})
		r.Instances++
		if add == nil || done == nil || pub == nil || unpub == nil {
			r.Fail("rebuild anchors", p.Pos(rb.Pos()), "waitGroup.Add/Done or the activeBuild publish/unpublish stores were not found")
		} else {
			// Add and publish in one critical section: same block, lock held at both, no unlock between
			sameCS := add.Block() == pub.Block() && len(li.at[add.(ssa.Instruction)]) > 0 && len(li.at[pub]) > 0
			if sameCS {
				lo, hi := instrIndex(add.Block(), add.(ssa.Instruction)), instrIndex(pub.Block(), pub)
				if lo > hi {
					lo, hi = hi, lo
				}
				for _, in := range add.Block().Instrs[lo:hi] {
					if c, ok := in.(ssa.CallInstruction); ok {
						if op, _, ok := mutexCall(c); ok && op == "unlock" {
							sameCS = false
						}
					}
				}
			}
			if sameCS {
				r.OK("rebuild: Add(1) and activeBuild publication in one critical section", true, "same block, ctx.mutex held throughout")
			} else {
				r.Fail("rebuild: Add(1) and activeBuild publication in one critical section", p.Pos(pub.Pos()), "a joiner could observe the published build before its wait group was armed (or the reverse)")
			}
			r.Instances++
			if instrDominates(unpub, done.(ssa.Instruction)) && len(li.at[unpub]) > 0 {
				r.OK("rebuild: activeBuild cleared under the lock before Done", true, "the nil store dominates waitGroup.Done()")
			} else {
				r.Fail("rebuild: activeBuild cleared under the lock before Done", p.Pos(done.Pos()), "Done() can run before activeBuild is cleared: a waiter released by Done could start a Rebuild that joins the finished build")
			}
			r.Instances++
			if path, bad := reachesExitAvoiding(add.Block(), isReturnBlock, func(b *ssa.BasicBlock) bool { return b == done.Block() }, true); bad && add.Block() != done.Block() {
				r.Fail("rebuild: Done on every path after Add", p.Pos(add.Pos()), "a path returns after Add(1) without Done(): "+blockPath(path))
			} else {
				r.OK("rebuild: Done on every path after Add", true, "every path from Add(1) to a return passes Done()")
			}
			// exactly one Done call site
			r.Instances++
			nd := len(findCalls(rb, func(n string) bool { return n == "(*sync.WaitGroup).Done" }))
			if nd == 1 {
				r.OK("rebuild: single Done", true, "exactly one Done() call site")
			} else {
				r.Fail("rebuild: single Done", p.Pos(rb.Pos()), fmt.Sprintf("%d Done() call sites", nd))
			}
		}
	}
	for _, name := range []string{"pkg/api.(*internalContext).Cancel", "pkg/api.(*internalContext).Dispose"} {
		fn := p.FindFunc(name)
		if !r.Anchor(name, fn != nil) {
			continue
		}
		r.Instances++
		// the If on `build != nil` whose true branch must reach Wait on every path
		var waitBlocks = map[*ssa.BasicBlock]bool{}
		for _, c := range findCalls(fn, func(n string) bool { return n == "(*sync.WaitGroup).Wait" }) {
			if wgMethodOn(c, "Wait", "waitGroup") {
				waitBlocks[c.Block()] = true
			}
		}
		ok := false
		var badPath string
		eachInstr(fn, func(b *ssa.BasicBlock, in ssa.Instruction) {
			ifi, isIf := in.(*ssa.If)
			if !isIf {
				return
			}
			bo, isB := ifi.Cond.(*ssa.BinOp)
			if !isB || namedTypeName(bo.X.Type()) != "pkg/api.buildInProgress" {
				return
			}
			// value compared must come from ctx.activeBuild
			_, fname, isF := loadedField(bo.X)
			if !isF || fname != "activeBuild" {
				return
			}
			succ := b.Succs[0]
			if bo.Op.String() == "==" {
				succ = b.Succs[1]
			}
			if path, bad := reachesExitAvoiding(succ, isReturnBlock, func(x *ssa.BasicBlock) bool { return waitBlocks[x] }, false); bad {
				badPath = blockPath(path)
			} else {
				ok = true
			}
		})
		if ok && badPath == "" {
			r.OK(name+" waits for the snapshotted build", true, "with a non-nil activeBuild snapshot every path to return passes build.waitGroup.Wait()")
		} else {
			r.Fail(name+" waits for the snapshotted build", p.Pos(fn.Pos()), "returns without waiting for the running build "+badPath)
		}
		// ... and no return is reached at all without either waiting or having seen that no build is
		// running: an early return (e.g. "already disposed") must not overtake a build that another
		// caller is still waiting for.
		r.Instances++
		nilEdge := func(b *ssa.BasicBlock, si int) bool {
			if len(b.Instrs) == 0 {
				return false
			}
			ifi, isIf := b.Instrs[len(b.Instrs)-1].(*ssa.If)
			if !isIf {
				return false
			}
			bo, isB := ifi.Cond.(*ssa.BinOp)
			if !isB || namedTypeName(bo.X.Type()) != "pkg/api.buildInProgress" {
				return false
			}
			if _, fname, isF := loadedField(bo.X); !isF || fname != "activeBuild" {
				return false
			}
			// the edge on which the snapshot is nil
			if bo.Op.String() == "==" {
				return si == 0
			}
			return si == 1
		}
		if path, reach := reachesExitAvoidingEdges(fn.Blocks[0], isReturnBlock, func(x *ssa.BasicBlock) bool { return waitBlocks[x] }, nilEdge); reach {
			r.Fail(name+" never returns while a build may be running", p.Pos(fn.Pos()), "a return is reachable without waiting for the build and without having seen activeBuild == nil ("+blockPath(path)+"): a second Dispose()/Cancel() that arrives while the first is still waiting returns while the build is still running")
		} else {
			r.OK(name+" never returns while a build may be running", true, "every return passes build.waitGroup.Wait() or the edge on which the activeBuild snapshot is nil")
		}
	}
	for _, name := range []string{"pkg/api.(*internalContext).rebuild", "pkg/api.(*internalContext).Cancel", "pkg/api.(*internalContext).Dispose", "pkg/api.(*internalContext).Watch", "pkg/api.(*internalContext).Serve"} {
		fn := p.FindFunc(name)
		if !r.Anchor(name, fn != nil) {
			continue
		}
		r.Instances++
		li := lc.info(fn)
		var test *ssa.BasicBlock
		eachInstr(fn, func(b *ssa.BasicBlock, in ssa.Instruction) {
			if ifi, ok := in.(*ssa.If); ok {
				if _, n, ok := loadedField(ifi.Cond); ok && n == "didDispose" {
					if u, ok := ifi.Cond.(*ssa.UnOp); ok && len(li.at[u]) > 0 {
						test = b
					}
				}
			}
		})
		key := name + " tests didDispose under the lock first"
		// a stub that does no work (the js/wasm build's Serve only returns an error) has nothing to refuse
		if !takesAnyMutex(fn) {
			r.Note("%s takes no mutex and starts no work in configuration %s", name, p.Config)
			continue
		}
		if test == nil {
			r.Fail(key, p.Pos(fn.Pos()), "no test of ctx.didDispose under ctx.mutex")
			continue
		}
		good := true
		for _, b := range fn.Blocks {
			if isReturnBlock(b) && b != fn.Recover && !test.Dominates(b) {
				good = false
			}
		}
		// nothing but the Lock before the test: the test block must be the entry block or directly follow it
		if good && (test == fn.Blocks[0] || (len(test.Preds) == 1 && test.Preds[0] == fn.Blocks[0])) {
			r.OK(key, true, "the didDispose test dominates every return and is the first thing after taking the lock")
		} else if good {
			r.OK(key, true, "the didDispose test dominates every return")
		} else {
			r.Fail(key, p.Pos(fn.Pos()), "a path returns without having tested didDispose")
		}
	}
	r.Floor(8)
	return r
}

func c20CallbackOrdering(p *Prog) *RuleResult {
	r := NewRule("C20/R5 callback-ordering", "ScanBundle waits for all on-start callbacks before anything that can reach a resolve/load callback; on-start goroutines always call Done; on-end callbacks run after the output writes were joined and on every path")
	sb := p.FindFunc("bundler.ScanBundle")
	if r.Anchor("bundler.ScanBundle", sb != nil) {
		// functions from which plugin resolve/load callbacks are reachable
		targets := []*ssa.Function{p.FindFunc("bundler.RunOnResolvePlugins"), p.FindFunc("bundler.runOnLoadPlugins")}
		r.Anchor("bundler.RunOnResolvePlugins", targets[0] != nil)
		r.Anchor("bundler.runOnLoadPlugins", targets[1] != nil)
		cg := p.CallGraph()
		reach := map[*ssa.Function]bool{}
		var work []*ssa.Function
		for _, t := range targets {
			if t != nil {
				reach[t] = true
				work = append(work, t)
			}
		}
		for len(work) > 0 {
			f := work[len(work)-1]
			work = work[:len(work)-1]
			if n := cg.Nodes[f]; n != nil {
				for _, e := range n.In {
					c := e.Caller.Func
					if !reach[c] && p.InModule(c) && strings.Contains(pkgPathOf(c), "/internal/bundler") {
						reach[c] = true
						work = append(work, c)
					}
				}
			}
		}
		var wait ssa.CallInstruction
		for _, c := range findCalls(sb, func(n string) bool { return n == "(*sync.WaitGroup).Wait" }) {
			if wgMethodOn(c, "Wait", "onStartWaitGroup") {
				wait = c
			}
		}
		if r.Anchor("ScanBundle onStartWaitGroup.Wait()", wait != nil) {
			n := 0
			eachInstr(sb, func(b *ssa.BasicBlock, in ssa.Instruction) {
				c, ok := in.(ssa.CallInstruction)
				if !ok {
					return
				}
				var callee *ssa.Function
				if g, isGo := in.(*ssa.Go); isGo {
					callee = calleeOfGo(g)
				} else {
					callee = c.Common().StaticCallee()
				}
				if callee == nil || !reach[callee] {
					// closures of ScanBundle that can reach callbacks
					if callee == nil || callee.Parent() != sb {
						return
					}
					can := false
					for _, f := range withClosures(callee) {
						eachInstr(f, func(_ *ssa.BasicBlock, in2 ssa.Instruction) {
							if c2, ok := in2.(ssa.CallInstruction); ok {
								if sc := c2.Common().StaticCallee(); sc != nil && reach[sc] {
									can = true
								}
							}
						})
					}
					if !can {
						return
					}
				}
				n++
				r.Instances++
				key := "ScanBundle call " + FuncName(callee) + " after on-start barrier"
				if instrDominates(wait.(ssa.Instruction), in) {
					r.OK(key, true, "dominated by onStartWaitGroup.Wait()")
				} else {
					r.Fail(key, p.Pos(in.Pos()), FuncName(callee)+" can run resolve/load callbacks but is not dominated by the on-start barrier")
				}
			})
			if n < 3 {
				r.Fail("ScanBundle callback-reaching calls", p.Pos(sb.Pos()), "expected at least 3 calls that can reach resolve/load callbacks (inject, entry points, scan loop)")
			}
		}
		// on-start goroutines: Done on every path
		eachInstr(sb, func(b *ssa.BasicBlock, in ssa.Instruction) {
			g, ok := in.(*ssa.Go)
			if !ok {
				return
			}
			callee := calleeOfGo(g)
			if callee == nil {
				return
			}
			var dones []ssa.CallInstruction
			for _, c := range findCalls(callee, func(n string) bool { return n == "(*sync.WaitGroup).Done" }) {
				if wgMethodOn(c, "Done", "onStartWaitGroup") {
					dones = append(dones, c)
				}
			}
			if len(dones) == 0 {
				return
			}
			r.Instances++
			key := "on-start goroutine " + FuncName(callee) + " Done on every path"
			doneBlocks := map[*ssa.BasicBlock]bool{}
			deferred := false
			for _, d := range dones {
				doneBlocks[d.Block()] = true
				if _, isDefer := d.(*ssa.Defer); isDefer {
					deferred = true
				}
			}
			if deferred {
				r.OK(key, true, "deferred")
				return
			}
			if path, bad := reachesExitAvoiding(callee.Blocks[0], isReturnBlock, func(x *ssa.BasicBlock) bool { return doneBlocks[x] }, false); bad {
				r.Fail(key, p.Pos(callee.Pos()), "a path returns without Done(): the scan would wait forever: "+blockPath(path))
			} else {
				r.OK(key, true, "every path to return passes Done()")
			}
		})
	}
	// on-end after writes, on every path
	rb := p.FindFunc("pkg/api.rebuildImpl")
	if r.Anchor("pkg/api.rebuildImpl", rb != nil) {
		var onEndLoad ssa.Instruction
		var onEndCall ssa.Instruction
		var writeWait ssa.CallInstruction
		var goBlocks []*ssa.BasicBlock
		var compile ssa.Instruction
		eachInstr(rb, func(b *ssa.BasicBlock, in ssa.Instruction) {
			if u, ok := in.(*ssa.UnOp); ok {
				if _, n, ok := loadedField(u); ok && n == "onEndCallbacks" && onEndLoad == nil {
					onEndLoad = in
				}
			}
			if c, ok := in.(*ssa.Call); ok {
				if _, n, ok := loadedField(c.Call.Value); ok && n == "fn" && namedTypeName(c.Call.Value.(*ssa.UnOp).X.(*ssa.FieldAddr).X.Type()) == "pkg/api.onEndCallback" {
					onEndCall = in
				}
				if wgMethodOn(c, "Wait", "waitGroup") {
					writeWait = c
				}
				if strings.HasSuffix(calleeFullName(c), "bundler.Bundle).Compile") {
					compile = in
				}
			}
			if _, ok := in.(*ssa.Go); ok {
				goBlocks = append(goBlocks, b)
			}
		})
		if r.Anchor("rebuildImpl on-end loop", onEndLoad != nil && onEndCall != nil) && r.Anchor("rebuildImpl write waitGroup.Wait()", writeWait != nil) {
			for _, gb := range goBlocks {
				r.Instances++
				key := "rebuildImpl on-end after write join"
				if path, bad := reachesExitAvoiding(gb, func(b *ssa.BasicBlock) bool { return b == onEndCall.Block() }, func(b *ssa.BasicBlock) bool { return b == writeWait.Block() }, true); bad {
					r.Fail(key, p.Pos(onEndCall.Pos()), "an on-end callback can run while output files are still being written: "+blockPath(path))
				} else {
					r.OK(key, true, "every path from a file-operation goroutine spawn to the on-end call passes waitGroup.Wait()")
				}
			}
			r.Instances++
			if path, bad := reachesExitAvoiding(rb.Blocks[0], isReturnBlock, func(b *ssa.BasicBlock) bool { return b == onEndLoad.Block() }, false); bad {
				r.Fail("rebuildImpl on-end loop on every path", p.Pos(rb.Pos()), "a path returns without running the on-end callbacks: "+blockPath(path))
			} else {
				r.OK("rebuildImpl on-end loop on every path", true, "every path to return passes the on-end loop")
			}
			_ = compile
		}
	}
	r.Floor(6)
	return r
}

// ---------------------------------------------------------------------------------------------
// R4 one response with the request's own id

type cnt struct{ min, max int }

// pathCounts computes, for every block, the min and max number of events on paths from entry to
// the block's end (max is capped at 3; a cycle containing an event saturates it).
func pathCounts(fn *ssa.Function, events func(ssa.Instruction) int) map[*ssa.BasicBlock]cnt {
	const capN = 3
	in := map[*ssa.BasicBlock]cnt{}
	out := map[*ssa.BasicBlock]cnt{}
	ev := map[*ssa.BasicBlock]int{}
	for _, b := range fn.Blocks {
		for _, i := range b.Instrs {
			ev[b] += events(i)
		}
	}
	if len(fn.Blocks) == 0 {
		return out
	}
	for _, b := range fn.Blocks {
		in[b] = cnt{1 << 30, -1}
		out[b] = cnt{1 << 30, -1}
	}
	in[fn.Blocks[0]] = cnt{0, 0}
	changed := true
	for iter := 0; changed && iter < 200; iter++ {
		changed = false
		for _, b := range fn.Blocks {
			i := in[b]
			if b != fn.Blocks[0] {
				i = cnt{1 << 30, -1}
				for _, p := range b.Preds {
					o := out[p]
					if o.max < 0 {
						continue
					}
					if o.min < i.min {
						i.min = o.min
					}
					if o.max > i.max {
						i.max = o.max
					}
				}
			}
			if i.max < 0 {
				continue
			}
			o := cnt{i.min + ev[b], i.max + ev[b]}
			if o.max > capN {
				o.max = capN
			}
			if o.min > capN {
				o.min = capN
			}
			if o != out[b] || i != in[b] {
				in[b], out[b] = i, o
				changed = true
			}
		}
	}
	return out
}

// c20IDSource reports whether v is "the request's own id" in the given frame.
type idFrame struct {
	fn      *ssa.Function
	isOwnID func(v ssa.Value) bool
}

func c20OneResponse(p *Prog) *RuleResult {
	r := NewRule("C20/R4 one-response-own-id", "every request packet gets exactly one response on every path of the dispatcher (goroutines it spawns included), each response is built from the request's own id, and every dispatcher goroutine is registered in the keep-alive wait group")
	h := p.FindFunc("cmd/esbuild.(*serviceType).handleIncomingPacket")
	if !r.Anchor("cmd/esbuild.(*serviceType).handleIncomingPacket", h != nil) {
		return r
	}
	sendName := modPath + "/cmd/esbuild.serviceType).sendPacket"
	isSend := func(in ssa.Instruction) bool {
		c, ok := in.(*ssa.Call)
		return ok && strings.HasSuffix(calleeFullName(c), sendName)
	}
	// responsibility of a closure: exactly one send on every non-panicking path
	var closureOK func(fn *ssa.Function, depth int) (bool, string)
	closureOK = func(fn *ssa.Function, depth int) (bool, string) {
		if depth > 3 {
			return false, "nesting too deep"
		}
		counts := pathCounts(fn, func(in ssa.Instruction) int {
			if isSend(in) {
				return 1
			}
			if g, ok := in.(*ssa.Go); ok {
				if cl := calleeOfGo(g); cl != nil && cl.Parent() == fn {
					if ok, _ := closureOK(cl, depth+1); ok {
						return 1
					}
				}
			}
			return 0
		})
		for _, b := range fn.Blocks {
			if !isReturnBlock(b) || b == fn.Recover {
				continue
			}
			c := counts[b]
			if c.max < 0 {
				continue
			}
			if c.min != 1 || c.max != 1 {
				return false, fmt.Sprintf("a path to the return at %s sends between %d and %d responses", p.Pos(b.Instrs[len(b.Instrs)-1].Pos()), c.min, c.max)
			}
		}
		return true, ""
	}
	// dispatcher: from the point where the packet is known to be a request
	counts := pathCounts(h, func(in ssa.Instruction) int {
		if isSend(in) {
			return 1
		}
		if g, ok := in.(*ssa.Go); ok {
			if cl := calleeOfGo(g); cl != nil {
				if ok, _ := closureOK(cl, 0); ok {
					return 1
				}
			}
		}
		return 0
	})
	nret := 0
	for _, b := range h.Blocks {
		if !isReturnBlock(b) || b == h.Recover {
			continue
		}
		isReq, found := fieldCondFact(b, "isRequest")
		if !found || !isReq {
			continue // decode failure / response packets: not requests
		}
		nret++
		r.Instances++
		c := counts[b]
		key := fmt.Sprintf("handleIncomingPacket return #%d", nret)
		if c.min == 1 && c.max == 1 {
			r.OK(key, true, "exactly one response (sendPacket or a goroutine that sends exactly one) on every path to this return")
		} else {
			r.Fail("handleIncomingPacket response count", p.Pos(b.Instrs[len(b.Instrs)-1].Pos()), fmt.Sprintf("a request can get between %d and %d responses on a path to this return", c.min, c.max))
		}
	}
	if nret == 0 {
		r.Fail("handleIncomingPacket returns", p.Pos(h.Pos()), "no return dominated by p.isRequest found")
	}
	// each spawned goroutine: report why when it does not send exactly once, and check registration
	eachInstr(h, func(b *ssa.BasicBlock, in ssa.Instruction) {
		g, ok := in.(*ssa.Go)
		if !ok {
			return
		}
		cl := calleeOfGo(g)
		if cl == nil {
			return
		}
		isReq, found := fieldCondFact(b, "isRequest")
		r.Instances++
		key := FuncName(cl)
		if found && isReq {
			if ok, why := closureOK(cl, 0); ok {
				r.OK(key+" sends exactly once", true, "every path of the goroutine sends one response")
			} else {
				r.Fail(key+" sends exactly once", p.Pos(cl.Pos()), why)
			}
		}
		// keep-alive registration: Add(1) dominates the go statement in the same block, closure defers Done
		added := false
		for _, prev := range b.Instrs[:instrIndex(b, in)] {
			if c, ok := prev.(*ssa.Call); ok && strings.HasSuffix(calleeFullName(c), "ThreadSafeWaitGroup).Add") {
				added = true
			}
		}
		deferred := false
		eachInstr(cl, func(_ *ssa.BasicBlock, in2 ssa.Instruction) {
			if d, ok := in2.(*ssa.Defer); ok && strings.HasSuffix(calleeFullName(d), "ThreadSafeWaitGroup).Done") {
				deferred = true
			}
		})
		if added && deferred {
			r.OK(key+" keep-alive accounting", true, "keepAliveWaitGroup.Add(1) precedes the go statement and the goroutine defers Done()")
		} else {
			r.Fail(key+" keep-alive accounting", p.Pos(in.Pos()), "goroutine not bracketed by keepAliveWaitGroup.Add(1) / deferred Done(): the service may exit while it runs")
		}
	})
	// own id: every sendPacket argument in the dispatcher and its closures is built from p.id
	pID := func(v ssa.Value) bool {
		o, n, ok := loadedField(v)
		return ok && n == "id" && o == "cmd/esbuild.packet"
	}
	var checkResponse func(v ssa.Value, own func(ssa.Value) bool, depth int) (bool, string)
	checkResponse = func(v ssa.Value, own func(ssa.Value) bool, depth int) (bool, string) {
		if depth > 4 {
			return false, "too deep"
		}
		switch x := v.(type) {
		case *ssa.Phi:
			for _, e := range x.Edges {
				if ok, why := checkResponse(e, own, depth+1); !ok {
					return false, why
				}
			}
			return true, ""
		case *ssa.Call:
			n := calleeFullName(x)
			switch {
			case strings.HasSuffix(n, "cmd/esbuild.encodePacket"):
				// argument is a packet value loaded from a local literal
				if u, ok := x.Call.Args[0].(*ssa.UnOp); ok {
					if al, ok := u.X.(*ssa.Alloc); ok && al.Referrers() != nil {
						for _, rf := range *al.Referrers() {
							if fa, ok := rf.(*ssa.FieldAddr); ok && fieldAddrName(fa) == "id" && fa.Referrers() != nil {
								for _, rr := range *fa.Referrers() {
									if st, ok := rr.(*ssa.Store); ok {
										if own(st.Val) {
											return true, ""
										}
										return false, "packet id is not the request's id"
									}
								}
							}
						}
					}
				}
				return false, "packet literal without an id"
			case strings.HasSuffix(n, "cmd/esbuild.encodeErrorPacket"):
				if own(x.Call.Args[0]) {
					return true, ""
				}
				return false, "error packet id is not the request's id"
			}
			// a handler taking the id as an argument: every return of every possible callee must
			// respond with that parameter
			var callees []*ssa.Function
			if sc := x.Call.StaticCallee(); sc != nil {
				callees = []*ssa.Function{sc}
			} else if node := p.CallGraph().Nodes[x.Parent()]; node != nil {
				for _, e := range node.Out {
					if e.Site == ssa.CallInstruction(x) {
						callees = append(callees, e.Callee.Func)
					}
				}
			}
			if len(callees) == 0 {
				return false, "unresolved responder call"
			}
			// which argument carries the id?
			idArg := -1
			for i, a := range x.Call.Args {
				if own(a) {
					idArg = i
				}
			}
			if idArg < 0 {
				return false, "responder " + n + " is not given the request's id"
			}
			for _, cal := range callees {
				if cal.Blocks == nil || idArg >= len(cal.Params) {
					return false, "responder " + FuncName(cal) + " has no body / parameter mismatch"
				}
				prm := cal.Params[idArg]
				ownP := func(v ssa.Value) bool { return v == prm }
				for _, b := range cal.Blocks {
					if !isReturnBlock(b) || b == cal.Recover {
						continue
					}
					ret := b.Instrs[len(b.Instrs)-1].(*ssa.Return)
					if len(ret.Results) != 1 {
						return false, "responder with unexpected result shape"
					}
					if ok, why := checkResponse(returnedValue(ret, 0), ownP, depth+1); !ok {
						return false, FuncName(cal) + ": " + why
					}
				}
			}
			return true, ""
		case *ssa.UnOp:
			// load of a local variable holding the response
			if al, ok := x.X.(*ssa.Alloc); ok {
				if vals, ok := storesToCell(al); ok && len(vals) > 0 {
					for _, sv := range vals {
						if ok, why := checkResponse(sv, own, depth+1); !ok {
							return false, why
						}
					}
					return true, ""
				}
			}
		}
		return false, fmt.Sprintf("response built by %T", v)
	}
	for _, fn := range withClosures(h) {
		eachInstr(fn, func(b *ssa.BasicBlock, in ssa.Instruction) {
			if !isSend(in) {
				return
			}
			c := in.(*ssa.Call)
			r.Instances++
			key := FuncName(fn) + " response id"
			arg := c.Call.Args[len(c.Call.Args)-1]
			if ok, why := checkResponse(arg, pID, 0); ok {
				r.OK(key, true, "response carries the request's own id")
			} else {
				r.Fail(key, p.Pos(c.Pos()), "cannot show that the response carries the request's own id: "+why)
			}
		})
	}
	r.Floor(20)
	return r
}

// typeHasField: does the named struct type "pkg.Type" of the loaded program have this field?
func typeHasField(p *Prog, owner, field string) bool {
	i := strings.LastIndex(owner, ".")
	if i < 0 {
		return false
	}
	pkgShort, typeName := owner[:i], owner[i+1:]
	for path, pk := range p.ByPath {
		if !strings.HasSuffix(path, "/"+pkgShort) && shortPkg(path) != pkgShort {
			continue
		}
		obj := pk.Types.Scope().Lookup(typeName)
		if obj == nil {
			continue
		}
		st, ok := obj.Type().Underlying().(*types.Struct)
		if !ok {
			continue
		}
		for j := 0; j < st.NumFields(); j++ {
			if st.Field(j).Name() == field {
				return true
			}
		}
	}
	return false
}

func takesAnyMutex(fn *ssa.Function) bool {
	found := false
	eachInstr(fn, func(_ *ssa.BasicBlock, in ssa.Instruction) {
		if c, ok := in.(ssa.CallInstruction); ok {
			if _, _, ok := mutexCall(c); ok {
				found = true
			}
		}
	})
	return found
}

// C20/R9 per-build copy of the mangle cache.
//
// The linker writes new name assignments into the mangle-cache map it is given and the same map
// is returned to the caller as BuildResult.MangleCache. Each build must therefore work on its own
// copy: with one map per context, a rebuild's result contains entries of earlier builds (and picks
// names around them), an already returned BuildResult changes under its reader, and a reader of
// result N races with build N+1.
// Rule: the mangle-cache argument of every (*Bundle).Compile call is the result of a
// cloneMangleCache call made in the same function (i.e. per build).
func c20MangleCachePerBuild(p *Prog) *RuleResult {
	r := NewRule("C20/R9 mangle-cache-per-build", "the mangle cache handed to the linker (and returned in the build result) is cloned from the user's map once per build, never shared between the builds of a context")
	n := 0
	for _, fn := range p.ModuleFuncs() {
		eachInstr(fn, func(b *ssa.BasicBlock, in ssa.Instruction) {
			c, ok := in.(*ssa.Call)
			if !ok || FuncNameOf(c) != "bundler.(*Bundle).Compile" || len(c.Call.Args) < 4 {
				return
			}
			n++
			r.Instances++
			key := FuncName(fn) + " mangle cache given to Compile"
			fresh := false
			backSlice(c.Call.Args[3], func(v ssa.Value) bool {
				if cc, ok := v.(*ssa.Call); ok {
					if strings.HasSuffix(FuncNameOf(cc), "cloneMangleCache") && cc.Parent() == fn {
						fresh = true
					}
					return false
				}
				return true
			})
			if fresh {
				r.OK(key, true, "the result of a cloneMangleCache call in the same function")
			} else {
				r.Fail(key, p.Pos(c.Pos()), "the map given to the linker is not a per-build clone: the linker writes the names it assigns into it, so builds of one context share and mutate one map (results mix builds, an earlier BuildResult changes after it was returned, concurrent readers race)")
			}
		})
	}
	r.Anchor("calls of (*Bundle).Compile", n >= 1)
	return r
}
