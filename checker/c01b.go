package main

import (
	"fmt"
	"go/ast"
	"go/constant"
	"go/token"
	"strconv"
	"strings"

	"golang.org/x/tools/go/packages"
	"golang.org/x/tools/go/ssa"
)

// C01/R3 escape-denotation.
//
// "Every string and template literal denotes exactly the same value in the output as in the
// input." The JS printer's escaper (printUnquotedUTF16) is a switch on the UTF-16 code unit whose
// cases append constant escape sequences. Two structural facts are decided:
//
//  (a) escape table: the constant escape sequence appended in `case K:` denotes code unit K under
//      ECMAScript's escape grammar (SingleEscapeCharacter, \0, \xHH, \uHHHH; ECMA-262 §12.9.4);
//  (b) NUL look-ahead: `\0` is the NUL escape only when the next character is not a DecimalDigit
//      (`\0 [lookahead ∉ DecimalDigit]`; otherwise it is a legacy octal escape or \08 / \09, both
//      errors in strict code and in templates). So on no path may the short form "\0" be appended
//      when a following code unit exists and is one of '0'..'9'. The guard is evaluated on the SSA
//      control-flow graph for each of the ten digits (comparisons of the next unit with constants
//      are decided, the bounds test of the next index is taken as true, anything else forks).

// jsDecodeEscape decodes a string consisting of exactly one ECMAScript escape sequence.
func jsDecodeEscape(s string) (int, bool) {
	if len(s) < 2 || s[0] != '\\' {
		return 0, false
	}
	single := map[byte]int{'b': 8, 't': 9, 'n': 10, 'v': 11, 'f': 12, 'r': 13, '"': '"', '\'': '\'', '\\': '\\'}
	if v, ok := single[s[1]]; ok && len(s) == 2 {
		return v, true
	}
	switch {
	case s == "\\0":
		return 0, true
	case s[1] == 'x' && len(s) == 4:
		v, err := strconv.ParseUint(s[2:], 16, 16)
		return int(v), err == nil
	case s[1] == 'u' && len(s) == 6:
		v, err := strconv.ParseUint(s[2:], 16, 32)
		return int(v), err == nil
	case len(s) == 2 && !strings.ContainsAny(s[1:], "0123456789xu\r\n") && s[1] < 0x80:
		// NonEscapeCharacter: denotes itself
		return int(s[1]), true
	}
	return 0, false
}

func c01EscapeDenotation(p *Prog) *RuleResult {
	r := NewRule("C01/R3 escape-denotation", "each constant escape sequence the string escaper appends for code unit K denotes K under the ECMAScript escape grammar, and the short NUL escape \\0 is never emitted in front of a decimal digit")
	pk := p.ByPath[modPath+"/internal/js_printer"]
	if !r.Anchor("package js_printer", pk != nil) {
		return r
	}
	fd := findFuncDecl(pk, "printer", "printUnquotedUTF16")
	if !r.Anchor("js_printer.(*printer).printUnquotedUTF16", fd != nil) {
		return r
	}
	// (a) the escape table, from the type-checked syntax tree
	c01EscapeTable(p, r, pk, fd, "printUnquotedUTF16", 12)
	if hp := p.ByPath[modPath+"/internal/helpers"]; r.Anchor("package helpers", hp != nil) {
		if qd := findFuncDecl(hp, "", "internalQuote"); r.Anchor("helpers.internalQuote", qd != nil) {
			c01EscapeTable(p, r, hp, qd, "internalQuote", 8)
		}
	}

	// (b) NUL look-ahead on the SSA form
	fn := p.FindFunc("js_printer.(*printer).printUnquotedUTF16")
	if !r.Anchor("ssa js_printer.(*printer).printUnquotedUTF16", fn != nil) {
		return r
	}
	var textParam *ssa.Parameter
	for _, prm := range fn.Params {
		if prm.Name() == "text" {
			textParam = prm
		}
	}
	if !r.Anchor("parameter text", textParam != nil) {
		return r
	}
	var shortBlocks []*ssa.BasicBlock
	lenText := map[ssa.Value]bool{}
	eachInstr(fn, func(b *ssa.BasicBlock, in ssa.Instruction) {
		call, ok := in.(*ssa.Call)
		if !ok {
			return
		}
		bi, ok := call.Call.Value.(*ssa.Builtin)
		if !ok {
			return
		}
		if bi.Name() == "append" && len(call.Call.Args) == 2 {
			if s, ok := constString(call.Call.Args[1]); ok && s == "\\0" {
				shortBlocks = append(shortBlocks, b)
			}
		}
		if bi.Name() == "len" && len(call.Call.Args) == 1 && call.Call.Args[0] == ssa.Value(textParam) {
			lenText[call] = true
		}
	})
	r.Instances++
	if len(shortBlocks) == 0 {
		r.OK("NUL short form", false, "the escaper never emits \\0 (always the two-digit hex form)")
		return r
	}
	// entry of the NUL case: the block(s) reached on the true edge of `c == 0` where c is a unit of text
	isTextLoad := func(v ssa.Value) (*ssa.IndexAddr, bool) {
		u, ok := v.(*ssa.UnOp)
		if !ok || u.Op != token.MUL {
			return nil, false
		}
		ia, ok := u.X.(*ssa.IndexAddr)
		if !ok || ia.X != ssa.Value(textParam) {
			return nil, false
		}
		return ia, true
	}
	var entries []*ssa.BasicBlock
	var cur ssa.Value
	eachInstr(fn, func(b *ssa.BasicBlock, in ssa.Instruction) {
		ifi, ok := in.(*ssa.If)
		if !ok {
			return
		}
		bo, ok := ifi.Cond.(*ssa.BinOp)
		if !ok || bo.Op != token.EQL {
			return
		}
		if _, ok := isTextLoad(bo.X); !ok {
			return
		}
		if v, ok := constInt(bo.Y); ok && v == 0 {
			entries = append(entries, b.Succs[0])
			cur = bo.X
		}
	})
	if len(entries) != 1 {
		r.Fail("NUL short form", p.Pos(fn.Pos()), fmt.Sprintf("could not find the unique `c == 0` case of the escaper (%d candidates): the look-ahead guard cannot be decided", len(entries)))
		return r
	}
	loops := naturalLoops(fn)
	var loopHeader *ssa.BasicBlock
	for h, body := range loops {
		if body[entries[0]] && (loopHeader == nil || len(body) < len(loops[loopHeader])) {
			loopHeader = h
		}
	}
	short := map[*ssa.BasicBlock]bool{}
	for _, b := range shortBlocks {
		short[b] = true
	}
	var bad []string
	undecided := ""
	for d := int64('0'); d <= '9'; d++ {
		type st struct {
			b      *ssa.BasicBlock
			loaded bool
		}
		seen := map[st]bool{}
		var walk func(b *ssa.BasicBlock, loaded bool, trail []int)
		walk = func(b *ssa.BasicBlock, loaded bool, trail []int) {
			if seen[st{b, loaded}] || b == loopHeader {
				return
			}
			seen[st{b, loaded}] = true
			trail = append(trail, b.Index)
			for _, in := range b.Instrs {
				if u, ok := in.(*ssa.UnOp); ok && u != cur {
					if _, ok := isTextLoad(u); ok {
						loaded = true
					}
				}
			}
			if short[b] {
				// reached although every decidable test was evaluated for "a next unit exists and is d"
				bad = append(bad, fmt.Sprintf("next unit '%c': blocks %v", rune(d), trail))
				return
			}
			if len(b.Instrs) == 0 {
				return
			}
			ifi, ok := b.Instrs[len(b.Instrs)-1].(*ssa.If)
			if !ok {
				for _, s := range b.Succs {
					walk(s, loaded, trail)
				}
				return
			}
			cond := ifi.Cond
			pol := true
			for {
				if u, ok := cond.(*ssa.UnOp); ok && u.Op == token.NOT {
					cond, pol = u.X, !pol
					continue
				}
				break
			}
			val, known := false, false
			if bo, ok := cond.(*ssa.BinOp); ok {
				cmp := func(a, c int64) (bool, bool) {
					switch bo.Op {
					case token.EQL:
						return a == c, true
					case token.NEQ:
						return a != c, true
					case token.LSS:
						return a < c, true
					case token.LEQ:
						return a <= c, true
					case token.GTR:
						return a > c, true
					case token.GEQ:
						return a >= c, true
					}
					return false, false
				}
				_, xNext := isTextLoad(bo.X)
				_, yNext := isTextLoad(bo.Y)
				if bo.X == cur {
					xNext = false
				}
				if bo.Y == cur {
					yNext = false
				}
				cx, xConst := constInt(bo.X)
				cy, yConst := constInt(bo.Y)
				switch {
				case xNext && yConst:
					val, known = cmp(d, cy)
				case yNext && xConst:
					val, known = cmp(cx, d)
				case bo.X == cur && yConst:
					val, known = cmp(0, cy)
				case lenText[bo.Y]:
					// bounds test of an index against len(text): in the hazardous states the next unit exists
					val, known = cmp(0, 1)
				case lenText[bo.X]:
					val, known = cmp(1, 0)
				case xNext || yNext:
					undecided = fmt.Sprintf("%s: the next code unit is compared with something that is not a constant", p.Pos(bo.Pos()))
				}
			} else if _, isNext := isTextLoad(cond); isNext {
				undecided = p.Pos(ifi.Pos()) + ": branch on the next code unit"
			}
			if known {
				if val != pol {
					walk(b.Succs[1], loaded, trail)
				} else {
					walk(b.Succs[0], loaded, trail)
				}
				return
			}
			walk(b.Succs[0], loaded, trail)
			walk(b.Succs[1], loaded, trail)
		}
		walk(entries[0], false, nil)
	}
	switch {
	case undecided != "":
		r.Fail("NUL short form", undecided, "the look-ahead guard of the \\0 escape is no longer a comparison of the next code unit with constants; cannot decide that a digit never follows \\0")
	case len(bad) > 0:
		r.Fail("NUL short form", p.Pos(shortBlocks[0].Instrs[0].Pos()), "the escaper can print the short NUL escape \\0 directly in front of a decimal digit ("+strings.Join(bad, "; ")+"): \\0 followed by a digit is a legacy octal escape (or \\08/\\09), a syntax error in strict code, modules and templates, and a different value for 0-7")
	default:
		r.OK("NUL short form", true, "for each next unit '0'..'9', with the bounds test of the next index taken as true, no path from the NUL case reaches the \\0 form")
	}
	r.Floor(21)
	return r
}

// c01EscapeTable checks every constant escape sequence appended inside `case K:` of the function's
// code-unit switch.
func c01EscapeTable(p *Prog, r *RuleResult, pk *packages.Package, fd *ast.FuncDecl, fname string, floor int) {
	var sws []*ast.SwitchStmt
	ast.Inspect(fd.Body, func(n ast.Node) bool {
		if s, ok := n.(*ast.SwitchStmt); ok && s.Tag != nil {
			for _, c := range s.Body.List {
				cc := c.(*ast.CaseClause)
				for _, e := range cc.List {
					if tv, ok := pk.TypesInfo.Types[e]; ok && tv.Value != nil && tv.Value.Kind() == constant.Int {
						sws = append(sws, s)
						return true
					}
				}
			}
		}
		return true
	})
	if !r.Anchor("code-unit switch in "+fname, len(sws) > 0) {
		return
	}
	escapes := 0
	for _, sw := range sws {
		for _, c := range sw.Body.List {
			cc := c.(*ast.CaseClause)
			var ks []int64
			for _, e := range cc.List {
				if tv, ok := pk.TypesInfo.Types[e]; ok && tv.Value != nil {
					if v, ok := constant.Int64Val(tv.Value); ok {
						ks = append(ks, v)
					}
				}
			}
			if len(ks) == 0 {
				continue
			}
			for _, st := range cc.Body {
				ast.Inspect(st, func(n ast.Node) bool {
					if _, nested := n.(*ast.SwitchStmt); nested {
						return false
					}
					lit, ok := n.(*ast.BasicLit)
					if !ok || lit.Kind != token.STRING {
						return true
					}
					s, err := strconv.Unquote(lit.Value)
					if err != nil || !strings.HasPrefix(s, "\\") {
						return true
					}
					r.Instances++
					escapes++
					key := fmt.Sprintf("%s: escape %q in case %s", fname, s, caseDesc(ks))
					v, ok := jsDecodeEscape(s)
					switch {
					case !ok:
						r.Fail(key, p.Pos(lit.Pos()), fmt.Sprintf("%q is not a single well-formed ECMAScript escape sequence", s))
					case len(ks) != 1 || int64(v) != ks[0]:
						r.Fail(key, p.Pos(lit.Pos()), fmt.Sprintf("the escaper prints %q for code unit %s, but that sequence denotes U+%04X: the literal's value changes", s, caseDesc(ks), v))
					default:
						r.OK(key, true, fmt.Sprintf("denotes U+%04X", v))
					}
					return true
				})
			}
		}
	}
	if escapes < floor {
		r.Fail(fname+": escape table size", p.Pos(fd.Pos()), fmt.Sprintf("only %d constant escape sequences found in the code-unit switches (%d confirmed by hand)", escapes, floor))
	}
}

func caseDesc(ks []int64) string {
	var out []string
	for _, k := range ks {
		out = append(out, fmt.Sprintf("U+%04X", k))
	}
	return strings.Join(out, ",")
}

// C01/R4 literal-equality table.
//
// js_ast.CheckEqualityIfNoSideEffects folds `a == b`, `a != b`, `a === b`, `a !== b` of two literals
// at parse time, even without minification. It only looks at the kinds of the two literals, at
// the equality kind and — where it has to — at their values, so for each of the 6×6×2
// (kind, kind, loose/strict) combinations its behaviour is extracted from the SSA form with E-ENUM
// (the dynamic types of both operands and the equality kind are preset, every type test is then
// decided; tests on the literal values fork). ECMAScript (IsLooselyEqual / IsStrictlyEqual,
// ECMA-262 §7.2.13-15) gives for each combination either a constant answer or an answer that
// depends on the values:
//
//	same kind: null, undefined -> true; boolean, number, bigint, string -> depends on the values
//	null vs undefined: loose true, strict false
//	null / undefined vs anything else: false
//	two different non-nullish kinds: strict false; loose DEPENDS on the values (1n == 1, 0 == "", 1 == true)
//
// Whenever the function claims to know the answer (ok = true), the answer must be that constant,
// and where the answer depends on the values it must not be a constant.
var c01LiteralKinds = []string{"ENull", "EUndefined", "EBoolean", "ENumber", "EBigInt", "EString"}

func c01LiteralEquality(p *Prog) *RuleResult {
	r := NewRule("C01/R4 literal-equality-table", "for every pair of literal kinds and both equality kinds, CheckEqualityIfNoSideEffects claims a known result only where ECMAScript's IsLooselyEqual / IsStrictlyEqual gives one, and a constant result only where the result does not depend on the literal values")
	fn := p.FindFunc("js_ast.CheckEqualityIfNoSideEffects")
	if !r.Anchor("js_ast.CheckEqualityIfNoSideEffects", fn != nil) {
		return r
	}
	pk := p.ByPath[modPath+"/internal/js_ast"]
	ek := constsOfType(pk.Types, "EqualityKind")
	loose, okL := ek["LooseEquality"]
	strict, okS := ek["StrictEquality"]
	if !r.Anchor("js_ast.LooseEquality / StrictEquality", okL && okS) || !r.Anchor("parameters left, right, kind", len(fn.Params) == 3) {
		return r
	}
	isLit := map[string]bool{}
	for _, k := range c01LiteralKinds {
		isLit[k] = true
	}
	nullish := func(k string) bool { return k == "ENull" || k == "EUndefined" }
	for _, L := range c01LiteralKinds {
		for _, R := range c01LiteralKinds {
			for _, K := range []string{"loose", "strict"} {
				r.Instances++
				kv := loose
				if K == "strict" {
					kv = strict
				}
				// expected: "T", "F" or "V" (depends on the values)
				exp := ""
				switch {
				case L == R && nullish(L):
					exp = "T"
				case L == R:
					exp = "V"
				case nullish(L) && nullish(R):
					if K == "loose" {
						exp = "T"
					} else {
						exp = "F"
					}
				case nullish(L) || nullish(R):
					exp = "F"
				case K == "strict":
					exp = "F"
				default:
					exp = "V"
				}
				cfg := &enumCfg{
					recursive: map[string]bool{}, inlined: map[string]func() []enumOutcome{}, lenient: true, opConsts: map[int64]string{},
					presetKinds:  map[string]string{fn.Params[0].Name(): L, fn.Params[1].Name(): R},
					presetParams: map[string]int64{fn.Params[2].Name(): kv},
					knownCalls: map[string]func(func(ssa.Value) (string, bool), *ssa.Call) (int64, bool){
						"js_ast.IsPrimitiveLiteral": func(kindOf func(ssa.Value) (string, bool), c *ssa.Call) (int64, bool) {
							if len(c.Call.Args) != 1 {
								return 0, false
							}
							if k, ok := kindOf(c.Call.Args[0]); ok {
								if isLit[k] {
									return 1, true
								}
								return 0, true
							}
							return 0, false
						},
					},
				}
				outs, problems := enumEvaluate(p, fn, cfg)
				key := fmt.Sprintf("%s %s %s", strings.TrimPrefix(L, "E"), map[string]string{"loose": "==", "strict": "==="}[K], strings.TrimPrefix(R, "E"))
				if len(problems) > 0 {
					r.Fail(key, p.Pos(fn.Pos()), "cannot extract the behaviour of this combination: "+problems[0])
					continue
				}
				bad := ""
				claims := 0
				for _, o := range outs {
					if len(o.results) != 2 {
						bad = "unexpected result arity"
						break
					}
					eq, ok := o.results[0], o.results[1]
					if ok.known && ok.val == 0 {
						continue // declines: always sound
					}
					claims++
					switch exp {
					case "T", "F":
						want := int64(0)
						if exp == "T" {
							want = 1
						}
						if !eq.known {
							// a computed answer where a constant is expected: not decided here
							continue
						}
						if eq.val != want {
							bad = fmt.Sprintf("claims the result is %v, ECMAScript says %v", eq.val != 0, want != 0)
						}
					case "V":
						if eq.known {
							bad = fmt.Sprintf("claims the constant result %v although the result depends on the two values (e.g. 1n == 1, 0 == \"\", 1 == true are true)", eq.val != 0)
						}
					}
				}
				if bad != "" {
					r.Fail(key, p.Pos(fn.Pos()), "the parse-time equality fold is wrong for this combination of literal kinds: "+bad)
				} else {
					r.OK(key, claims > 0, fmt.Sprintf("%d path(s), %d claim a result, expected %s", len(outs), claims, map[string]string{"T": "true", "F": "false", "V": "value-dependent"}[exp]))
				}
			}
		}
	}
	r.Floor(72)
	return r
}
