package main

import (
	"fmt"
	"os"
	"sort"
	"strings"

	"golang.org/x/tools/go/ssa"
)

var c20Guards = []guardSpec{
	{"pkg/api.internalContext", "activeBuild", "mutex"},
	{"pkg/api.internalContext", "recentBuild", "mutex"},
	{"pkg/api.internalContext", "didDispose", "mutex"},
	{"pkg/api.internalContext", "latestHashes", "mutex"},
	{"pkg/api.internalContext", "watcher", "mutex"},
	{"pkg/api.internalContext", "handler", "mutex"},
	{"cmd/esbuild.activeBuild", "ctx", "mutex"},
	{"cmd/esbuild.activeBuild", "pluginResolve", "mutex"},
	{"cmd/esbuild.activeBuild", "rebuildWaitGroup", "mutex"},
	{"cmd/esbuild.activeBuild", "withinRebuildCount", "mutex"},
	{"cmd/esbuild.activeBuild", "didGetCancel", "mutex"},
	{"cmd/esbuild.serviceType", "callbacks", "mutex"},
	{"cmd/esbuild.serviceType", "activeBuilds", "mutex"},
	{"cmd/esbuild.serviceType", "nextRequestID", "mutex"},
	{"pkg/api.watcher", "data", "mutex"},
	{"pkg/api.watcher", "recentItems", "mutex"},
	{"pkg/api.watcher", "itemsToScan", "mutex"},
	{"pkg/api.watcher", "itemsPerIteration", "mutex"},
	{"pkg/api.apiHandler", "activeStreams", "mutex"},
	{"pkg/api.apiHandler", "currentHashes", "mutex"},
	{"bundler.runtimeCache", "astMap", "astMutex"},
	{"cache.JSCache", "entries", "mutex"},
	{"cache.CSSCache", "entries", "mutex"},
	{"cache.JSONCache", "entries", "mutex"},
	{"cache.SourceIndexCache", "entries", "mutex"},
	{"cache.SourceIndexCache", "globEntries", "mutex"},
	{"cache.SourceIndexCache", "nextSourceIndex", "mutex"},
	{"cache.FSCache", "entries", "mutex"},
	{"fs.realFS", "entries", "entriesMutex"},
	{"fs.realFS", "watchData", "watchMutex"},
	{"fs.accessedEntries", "wasPresent", "mutex"},
	{"fs.accessedEntries", "allEntries", "mutex"},
}

// reviewed unguarded accesses: "<func> <owner>.<field>"
var c20GuardExceptions = ExcTable{
	"fs.(*realFS).WatchData fs.realFS.watchData": "each build creates its own realFS; rebuildImpl calls WatchData() after ScanBundle has joined every goroutine that reads files, and nothing reads files through this FS afterwards (Compile only uses path functions)",
	"pkg/api.(*internalContext).Dispose pkg/api.internalContext.watcher": "read after the critical section that set didDispose: Watch() assigns ctx.watcher only under the lock after testing didDispose, so no write can follow; the lock hand-over orders any earlier write before this read",
	"pkg/api.(*internalContext).Dispose pkg/api.internalContext.handler": "read after the critical section that set didDispose: Serve() assigns ctx.handler only under the lock after testing didDispose, so no write can follow; the lock hand-over orders any earlier write before this read",
}

type lockCache struct {
	p     *Prog
	infos map[*ssa.Function]*lockInfo
	entry map[*ssa.Function]lockState
	busy  map[*ssa.Function]bool
}

func newLockCache(p *Prog) *lockCache {
	return &lockCache{p: p, infos: map[*ssa.Function]*lockInfo{}, entry: map[*ssa.Function]lockState{}, busy: map[*ssa.Function]bool{}}
}

func interestingForLocks(in ssa.Instruction) bool {
	switch in.(type) {
	case *ssa.Store, *ssa.UnOp, *ssa.Call, *ssa.FieldAddr, *ssa.IndexAddr, *ssa.MapUpdate, *ssa.Go, *ssa.Defer, *ssa.Send:
		return true
	}
	return false
}

// entryState: locks certainly held whenever fn is entered: the intersection over all call sites of
// the caller's held locks, translated through the argument binding (one level of callers, which
// themselves use their own entry state recursively). Functions with unknown/dynamic callers,
// exported API entry points and goroutine roots start empty.
func (lc *lockCache) entryState(fn *ssa.Function) lockState {
	if s, ok := lc.entry[fn]; ok {
		return s
	}
	if lc.busy[fn] {
		return lockState{}
	}
	lc.busy[fn] = true
	defer func() { lc.busy[fn] = false }()
	res := lockState{}
	node := lc.p.CallGraph().Nodes[fn]
	if node == nil || len(node.In) == 0 || (fn.Object() != nil && fn.Object().Exported() && fn.Signature.Recv() == nil) {
		lc.entry[fn] = res
		return res
	}
	first := true
	for _, e := range node.In {
		site := e.Site
		if site == nil {
			lc.entry[fn] = lockState{}
			return lockState{}
		}
		if _, isGo := site.(*ssa.Go); isGo {
			lc.entry[fn] = lockState{}
			return lockState{}
		}
		if _, isDefer := site.(*ssa.Defer); isDefer {
			lc.entry[fn] = lockState{}
			return lockState{}
		}
		cc := site.Common()
		if cc.StaticCallee() != fn {
			// dynamic edge (interface / func value): cannot bind arguments
			if mc, ok := cc.Value.(*ssa.MakeClosure); !ok || mc.Fn != fn {
				lc.entry[fn] = lockState{}
				return lockState{}
			}
		}
		caller := e.Caller.Func
		ci := lc.info(caller)
		held := ci.at[site.(ssa.Instruction)]
		translated := lockState{}
		for k := range held {
			// bind through arguments
			for i, a := range cc.Args {
				if i >= len(fn.Params) {
					break
				}
				ak := objKey(a)
				if strings.HasPrefix(k, ak) {
					translated["param:"+fn.Params[i].Name()+"|"+strings.TrimPrefix(k, ak)] = true
				}
			}
			// closures share captured variables by name
			if fn.Parent() == caller {
				for _, fv := range fn.FreeVars {
					for _, pref := range []string{"local:" + fv.Name() + "|", "param:" + fv.Name() + "|", "fv:" + fv.Name() + "|"} {
						if strings.HasPrefix(k, pref) {
							translated["fv:"+fv.Name()+"|"+strings.TrimPrefix(k, pref)] = true
						}
					}
				}
			}
		}
		if first {
			res = translated
			first = false
		} else {
			res = intersect(res, translated)
		}
	}
	lc.entry[fn] = res
	return res
}

func (lc *lockCache) info(fn *ssa.Function) *lockInfo {
	if li, ok := lc.infos[fn]; ok {
		return li
	}
	// placeholder to cut recursion
	lc.infos[fn] = &lockInfo{fn: fn, at: map[ssa.Instruction]lockState{}, in: map[*ssa.BasicBlock]lockState{}}
	li := analyseLocks(fn, lc.entryState(fn), interestingForLocks)
	lc.infos[fn] = li
	return li
}

func init() {
	register(&Property{
		ID: "C20",
		Explanation: "Decides structural necessary conditions of concurrency safety of contexts, plugins and the stdio service (not absence of all races or liveness): R1 guarded-by: every read/write of the listed shared fields (build-context state, service state, watcher and serve-handler state, caches) happens with the owning mutex in the must-hold lock set (intraprocedural dataflow with defer handling and one level of call-site binding), or is a reviewed entry; R2 every Lock is released on all exits (or deferred), and no blocking operation (WaitGroup.Wait, plugin/rebuild call, channel op) runs while a context/service mutex is held; R3 Rebuild/Cancel/Dispose join semantics (Add and activeBuild publication in one critical section, activeBuild cleared under the lock before Done, Cancel/Dispose wait for the snapshotted build, didDispose tested under the lock by every public method); R4 each stdio request gets exactly one response carrying its own id on every path, and every goroutine of the handler is accounted in the keep-alive wait group; R5 on-start callbacks complete before anything that can reach resolve/load callbacks, and on-end callbacks run after the output-writing wait and on every path. NOT covered: data races on fields outside the table, liveness under arbitrary plugin behaviour, the TypeScript side of the protocol.",
		Run: func(p *Prog, tier string) []*RuleResult {
			return []*RuleResult{c20GuardedBy(p), c20LockBalance(p)}
		},
	})
}

func c20GuardedBy(p *Prog) *RuleResult {
	r := NewRule("C20/R1 guarded-by", "every access to a lock-protected field holds its mutex")
	lc := newLockCache(p)
	dump := os.Getenv("VERIF_DUMP") != ""
	for _, g := range c20Guards {
		acc := guardedAccesses(p, g.owner, g.field)
		if len(acc) == 0 {
			r.Fail("guard "+g.owner+"."+g.field, "-", "guarded field has no accesses (renamed or removed?): update the guard table")
			continue
		}
		sort.SliceStable(acc, func(i, j int) bool { return acc[i].instr.Pos() < acc[j].instr.Pos() })
		for _, a := range acc {
			r.Instances++
			li := lc.info(a.fn)
			held := li.at[a.instr]
			// required lock: same base object, mutex field
			fk := objKey(a.fa)
			base := strings.TrimSuffix(fk, "."+g.field)
			need := base + "." + g.mutex
			mode := "read"
			if a.write {
				mode = "write"
			}
			key := fmt.Sprintf("%s %s.%s", FuncName(a.fn), g.owner, g.field)
			if held[need] {
				r.OK(key+" "+mode, true, "lock "+need+" is in the must-hold set")
				continue
			}
			// object not yet shared: allocated in this function
			if _, isAlloc := a.fa.X.(*ssa.Alloc); isAlloc || frzFreshValue(a.fa.X, 0) {
				r.OK(key+" "+mode+" (unshared)", true, "the struct is allocated in this function and not yet published")
				continue
			}
			// reading only the nil-ness of a field that is never written while shared
			if !a.write && nilCompareOnly(a.instr) && writtenOnlyUnshared(acc) {
				r.OK(key+" nil-test", true, "only the nil-ness of the field is read, and the field is never assigned after the object is published")
				continue
			}
			if dump {
				var hs []string
				for k := range held {
					hs = append(hs, k)
				}
				fmt.Printf("UNGUARDED %s %s @ %s need=%s held=%v\n", key, mode, p.Pos(a.instr.Pos()), need, hs)
			}
			if r.CheckExc(c20GuardExceptions, key) {
				continue
			}
			r.Fail(key, p.Pos(a.instr.Pos()), fmt.Sprintf("%s of %s.%s without holding %s (held: %d locks)", mode, g.owner, g.field, need, len(held)))
		}
	}
	r.Floor(100)
	r.StaleCheck(c20GuardExceptions)
	return r
}

func nilCompareOnly(in ssa.Instruction) bool {
	u, ok := in.(*ssa.UnOp)
	if !ok || u.Referrers() == nil {
		return false
	}
	for _, rf := range *u.Referrers() {
		bo, ok := rf.(*ssa.BinOp)
		if !ok {
			if _, isDbg := rf.(*ssa.DebugRef); isDbg {
				continue
			}
			return false
		}
		cx, okx := bo.X.(*ssa.Const)
		cy, oky := bo.Y.(*ssa.Const)
		if !((okx && cx.Value == nil) || (oky && cy.Value == nil)) {
			return false
		}
	}
	return true
}

func writtenOnlyUnshared(acc []fieldAccess) bool {
	for _, a := range acc {
		if !a.write {
			continue
		}
		if _, isStore := a.instr.(*ssa.Store); !isStore {
			continue // map updates change the contents, not the field
		}
		if _, isAlloc := a.fa.X.(*ssa.Alloc); isAlloc || frzFreshValue(a.fa.X, 0) {
			continue
		}
		return false
	}
	return true
}

// reviewed: "<func> <lock>" held at return, or "<func> blocking <op>" under lock
var c20BalanceExceptions = ExcTable{
	"pkg/api.(*apiHandler).broadcastBuildResult blocking channel send under param:h|.mutex": "serve mode live reload: each registered stream has a dedicated goroutine receiving until the stream is closed; it stops early only after a write error on a dead connection, upon which CloseNotify removes the stream under the same mutex. A residual window (consumer gone, stream still registered, next broadcast wins the mutex) could block the sender; 13k rebuilds against aborting event-stream clients did not reproduce it, so it is recorded as reviewed, not as a finding",
	"pkg/api.(*internalContext).Serve blocking WaitGroup.Wait under param:ctx|.mutex":      "bounded wait for the HTTP server goroutine to report that it started (or failed) listening; the goroutine signals exactly once on both outcomes and never takes ctx.mutex",
	"pkg/api.(*internalContext).Serve blocking time.Sleep under param:ctx|.mutex":          "fixed 50 ms sleep (documented Linux socket-reuse workaround) during one-time server start-up",
}

func isBlockingInstr(in ssa.Instruction) string {
	switch x := in.(type) {
	case *ssa.Send:
		return "channel send"
	case *ssa.Select:
		if x.Blocking {
			return "select"
		}
	case *ssa.UnOp:
		if x.Op.String() == "<-" {
			return "channel receive"
		}
	case *ssa.Call:
		n := calleeFullName(x)
		switch {
		case n == "(*sync.WaitGroup).Wait" || strings.HasSuffix(n, "ThreadSafeWaitGroup).Wait"):
			return "WaitGroup.Wait"
		case n == "time.Sleep":
			return "time.Sleep"
		case strings.HasSuffix(n, "pkg/api.rebuildImpl"), strings.HasSuffix(n, "internalContext).rebuild"), strings.HasSuffix(n, "internalContext).Rebuild"),
			strings.HasSuffix(n, "internalContext).Cancel"), strings.HasSuffix(n, "internalContext).Dispose"), strings.HasSuffix(n, "serviceType).sendRequest"),
			strings.HasSuffix(n, "BuildContext).Rebuild"), strings.HasSuffix(n, "BuildContext).Cancel"), strings.HasSuffix(n, "BuildContext).Dispose"),
			strings.HasSuffix(n, "bundler.ScanBundle"), strings.HasSuffix(n, "Bundle).Compile"):
			return "call " + n[strings.LastIndex(n, "/")+1:]
		}
	}
	return ""
}

func c20LockBalance(p *Prog) *RuleResult {
	r := NewRule("C20/R2 lock-balance", "every Lock is released on all exits (directly or by defer); no blocking operation runs while a mutex of pkg/api or cmd/esbuild is held")
	lc := newLockCache(p)
	nlocks := 0
	for _, fn := range p.ModuleFuncs() {
		hasLock := false
		eachInstr(fn, func(b *ssa.BasicBlock, in ssa.Instruction) {
			if c, ok := in.(ssa.CallInstruction); ok {
				if op, _, ok := mutexCall(c); ok && op == "lock" {
					hasLock = true
					nlocks++
				}
			}
		})
		pp := pkgPathOf(fn)
		apiLayer := strings.HasSuffix(pp, "/pkg/api") || strings.HasSuffix(pp, "/cmd/esbuild")
		if !hasLock && !apiLayer {
			continue
		}
		li := lc.info(fn)
		if hasLock {
			r.Instances++
			entry := lc.entryState(fn)
			var bad []string
			seen := map[string]bool{}
			for _, k := range li.exitBad {
				if !entry[k] && !seen[k] {
					seen[k] = true
					bad = append(bad, k)
				}
			}
			if len(bad) == 0 {
				r.OK(FuncName(fn)+" unlock on all exits", true, "no lock acquired here is still held at a return")
			} else {
				for _, k := range bad {
					key := FuncName(fn) + " returns holding " + k
					if !r.CheckExc(c20BalanceExceptions, key) {
						r.Fail(key, p.Pos(fn.Pos()), "a path returns with "+k+" still locked (no Unlock and no deferred Unlock)")
					}
				}
			}
		}
		if apiLayer {
			eachInstr(fn, func(b *ssa.BasicBlock, in ssa.Instruction) {
				op := isBlockingInstr(in)
				if op == "" {
					return
				}
				held := li.at[in]
				if len(held) == 0 {
					return
				}
				var hs []string
				for k := range held {
					hs = append(hs, k)
				}
				sort.Strings(hs)
				r.Instances++
				key := FuncName(fn) + " blocking " + op + " under " + strings.Join(hs, ",")
				if !r.CheckExc(c20BalanceExceptions, key) {
					r.Fail(key, p.Pos(in.Pos()), "blocking operation ("+op+") while holding "+strings.Join(hs, ","))
				}
			})
		}
	}
	r.Note("Lock() call sites: %d", nlocks)
	r.Floor(40)
	r.StaleCheck(c20BalanceExceptions)
	return r
}
