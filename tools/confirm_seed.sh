#!/bin/bash
# usage: confirm_seed.sh <id>
# Confirms a seeded change produced by a sub-agent in /tmp/seed/<id> (worktree, change applied) with
# outputs in /tmp/seed/out/<id>: (1) the patch equals the worktree diff, (2) builds, (3) the whole
# Go test suite passes with it, (4) the demo fails with it and passes without it.
# Writes my_demo_with.txt / my_demo_without.txt / my_suite.txt into /tmp/seed/out/<id>.
export GOFLAGS=-mod=mod GOPROXY=off GOSUMDB=off GOTOOLCHAIN=local
id=$1
base=${SEED_BASE:-/tmp/seed}
wt=$base/$id
out=$base/out/$id
set -u
cd "$wt" || exit 2
# normalise: worktree = HEAD + patch.diff exactly
git checkout -q -- . && git clean -fdq
git apply "$out/patch.diff" || { echo "PATCH DOES NOT APPLY"; exit 2; }
go build ./... || { echo "BUILD FAILED"; exit 2; }
go vet ./internal/... >/dev/null 2>&1
go test -vet=off -count=1 ./... > "$out/my_suite.txt" 2>&1
if grep -qE '^(FAIL|---\s*FAIL|panic)' "$out/my_suite.txt"; then echo "SUITE FAILS WITH CHANGE"; grep -E '^(FAIL|--- FAIL)' "$out/my_suite.txt" | head; exit 3; fi
echo "suite: $(grep -c '^ok' "$out/my_suite.txt") packages ok"
rundemo() {
  if [ -d "$out/demo" ]; then
    d=$(mktemp -d /tmp/seeddemo.XXXX)
    cp -r "$out/demo/." "$d/"
    ( cd "$d" && sed -i -E "s#(github.com/evanw/esbuild =>) .*#\1 $wt#" go.mod && cp "$wt/go.sum" . && go run . ); rc=$?
    rm -rf "$d"; return $rc
  else
    pkg=pkg/api
    grep -q '^package ' "$out/demo_test.go" && p=$(grep -m1 '^package ' "$out/demo_test.go" | awk '{print $2}')
    [ -f "$out/DEMO_PKG" ] && pkg=$(cat "$out/DEMO_PKG")
    cp "$out/demo_test.go" "$wt/$pkg/zz_seed_demo_test.go"
    ( cd "$wt" && go test -vet=off -count=1 -run 'Seed|Demo|TestC[0-9]' ./$pkg/ ); rc=$?
    rm -f "$wt/$pkg/zz_seed_demo_test.go"; return $rc
  fi
}
rundemo > "$out/my_demo_with.txt" 2>&1; w=$?
git apply -R "$out/patch.diff"
rundemo > "$out/my_demo_without.txt" 2>&1; wo=$?
git apply "$out/patch.diff"
echo "demo with change: exit $w; without: exit $wo"
if [ $w -ne 0 ] && [ $wo -eq 0 ]; then echo CONFIRMED; else echo "NOT CONFIRMED"; tail -5 "$out/my_demo_with.txt" "$out/my_demo_without.txt"; exit 4; fi
