package main

import (
	"fmt"
	"go/constant"
	"go/token"
	"go/types"
	"sort"
	"strings"

	"golang.org/x/tools/go/ssa"
)

// E-ENUM: finite-domain abstract evaluation of a classifier function.
//
// Some of esbuild's licences for rewriting are small pure functions over enums: they look at the
// kind of an AST node, at an operator code and at the answers of recursive calls (themselves enum
// values), compare those with constants and return a constant or one of the recursive answers.
// Such a function touches its inputs only through equality comparisons, so its behaviour is a
// finite table: (node kind, operator, answers for the operands) -> result. The evaluator walks the
// SSA control-flow graph, forks on the outcome of every type test and operator comparison, binds
// each recursive answer to each of the enum's values in turn and records what is returned.
// Nothing is executed; a construct the evaluator cannot interpret is reported as undecidable.

type enumOutcome struct {
	kind          string           // AST node kind selected by the type switch ("" = none of the tested kinds)
	op            string           // operator constant name selected ("" = none compared equal)
	labels        []string         // other branch decisions taken, e.g. "TagOrNil==nil"
	roles         map[string]int64 // operand role -> abstract value of the recursive answer
	result        int64            // returned enum value
	unknownResult bool             // lenient mode: the returned value is not a constant on this path
	results       []enumRes        // all results of the return, in order
	descs         []string         // per result: "" when known; "str:<text>" for a constant string; a description from cfg.describe, or "?"
	isBool        bool             // result is a boolean (0/1) rather than an enum value
	pos           token.Pos
}

type enumRes struct {
	val   int64
	known bool
}

type enumCfg struct {
	recursive    map[string]bool                                                                      // semantic names of calls whose result is a symbolic enum value (arg 0 names the role)
	inlined      map[string]func() []enumOutcome                                                      // callees evaluated separately: their outcome tables
	domain       []int64                                                                              // values of the enum
	opConsts     map[int64]string                                                                     // operator code -> name
	opField      string                                                                               // name of the operator field on the node ("Op")
	opParamPath  []string                                                                             // alternatively: the compared enum is <param0>.<path...> (e.g. p.lexer.Token)
	presetKinds  map[string]string                                                                    // dynamic type of interface-typed parameters, by parameter name: every type test on them is decided
	presetParams map[string]int64                                                                     // value of integer/enum parameters, by parameter name
	knownCalls   map[string]func(kindOfArg func(ssa.Value) (string, bool), c *ssa.Call) (int64, bool) // pure predicates that can be answered from preset kinds
	lenient      bool                                                                                 // unknown branch conditions fork (labelled "?"), unknown results are recorded with unknownResult
	describe     func(e *enumEvaluator, s *enumState, v ssa.Value) (string, bool)                     // lenient mode: names an uninterpreted value; forks on it are labelled "<name>=T" / "<name>=F" instead of "?"
	maxPaths     int
}

type enumState struct {
	kind    string
	kindVal ssa.Value // the node (extract #0)
	op      string
	opNot   map[int64]bool
	labels  []string
	roles   map[string]int64
	vals    map[ssa.Value]int64 // evaluated enum/bool values
	known   map[ssa.Value]bool
	alias   map[ssa.Value]ssa.Value // phi -> the incoming value on this path (when it is not a known constant)
}

func (s *enumState) clone() *enumState {
	c := &enumState{kind: s.kind, kindVal: s.kindVal, op: s.op, opNot: map[int64]bool{}, roles: map[string]int64{}, vals: map[ssa.Value]int64{}, known: map[ssa.Value]bool{}, alias: map[ssa.Value]ssa.Value{}}
	for k, v := range s.alias {
		c.alias[k] = v
	}
	c.labels = append(c.labels, s.labels...)
	for k, v := range s.opNot {
		c.opNot[k] = v
	}
	for k, v := range s.roles {
		c.roles[k] = v
	}
	for k, v := range s.vals {
		c.vals[k] = v
	}
	for k, v := range s.known {
		c.known[k] = v
	}
	return c
}

type enumEvaluator struct {
	p        *Prog
	fn       *ssa.Function
	cfg      *enumCfg
	out      []enumOutcome
	problems []string
	paths    int
}

// roleOf names the operand an argument denotes: the field path below the current node or a parameter.
func (e *enumEvaluator) roleOf(s *enumState, arg ssa.Value) string {
	root, path := purePath(arg)
	if len(path) > 0 && path[len(path)-1] == "Data" {
		path = path[:len(path)-1]
	}
	if prm, ok := root.(*ssa.Parameter); ok {
		for i, q := range e.fn.Params {
			if q == prm {
				return fmt.Sprintf("param%d%s", i, dotJoin(path))
			}
		}
	}
	if s.kindVal != nil && root == s.kindVal {
		return strings.Join(path, ".")
	}
	// a local copy of a parameter (struct params are spilled)
	if al, ok := root.(*ssa.Alloc); ok {
		if v := c04SingleStore(al); v != nil {
			if prm, ok := v.(*ssa.Parameter); ok {
				for i, q := range e.fn.Params {
					if q == prm {
						return fmt.Sprintf("param%d%s", i, dotJoin(path))
					}
				}
			}
		}
	}
	return "?" + arg.Name()
}

func dotJoin(path []string) string {
	if len(path) == 0 {
		return ""
	}
	return "." + strings.Join(path, ".")
}

func c04SingleStore(al *ssa.Alloc) ssa.Value {
	var v ssa.Value
	if al.Referrers() == nil {
		return nil
	}
	for _, rf := range *al.Referrers() {
		if st, ok := rf.(*ssa.Store); ok && st.Addr == ssa.Value(al) {
			if v != nil {
				return nil
			}
			v = st.Val
		}
	}
	return v
}

func (e *enumEvaluator) eval(s *enumState, v ssa.Value) (int64, bool) {
	if c, ok := v.(*ssa.Const); ok {
		if c.Value == nil {
			return 0, false
		}
		if isConstBool(v, true) {
			return 1, true
		}
		if isConstBool(v, false) {
			return 0, true
		}
		if i, ok := constInt(v); ok {
			return i, true
		}
		return 0, false
	}
	if s.known[v] {
		return s.vals[v], true
	}
	if a, ok := s.alias[v]; ok && a != v {
		if s.known[a] {
			return s.vals[a], true
		}
	}
	if prm, ok := v.(*ssa.Parameter); ok && e.cfg.presetParams != nil {
		if val, ok := e.cfg.presetParams[prm.Name()]; ok {
			return val, true
		}
	}
	return 0, false
}

// presetKindOf: the preset dynamic type of the parameter an interface value is read from
func (e *enumEvaluator) presetKindOf(v ssa.Value) (string, bool) {
	if e.cfg.presetKinds == nil {
		return "", false
	}
	root, path := purePath(v)
	if len(path) != 0 {
		return "", false
	}
	if al, ok := root.(*ssa.Alloc); ok {
		if sv := c04SingleStore(al); sv != nil {
			root = sv
		}
	}
	if prm, ok := root.(*ssa.Parameter); ok {
		k, ok := e.cfg.presetKinds[prm.Name()]
		return k, ok
	}
	return "", false
}

func (e *enumEvaluator) problem(pos token.Pos, format string, a ...interface{}) {
	msg := e.p.Pos(pos) + ": " + fmt.Sprintf(format, a...)
	for _, q := range e.problems {
		if q == msg {
			return
		}
	}
	e.problems = append(e.problems, msg)
}

// run evaluates block b (entered from pred) with state s.
func (e *enumEvaluator) run(b *ssa.BasicBlock, pred *ssa.BasicBlock, s *enumState, depth int) {
	e.runFrom(b, pred, 0, s, depth)
}

func (e *enumEvaluator) runFrom(b, pred *ssa.BasicBlock, idx int, s *enumState, depth int) {
	if e.paths > e.cfg.maxPaths || depth > 600 {
		e.problem(e.fn.Pos(), "path budget exhausted")
		return
	}
	for i := idx; i < len(b.Instrs); i++ {
		in := b.Instrs[i]
		switch x := in.(type) {
		case *ssa.Phi:
			for pi, p := range b.Preds {
				if p == pred {
					if val, ok := e.eval(s, x.Edges[pi]); ok {
						s.vals[x], s.known[x] = val, true
					} else {
						delete(s.known, x)
						in := x.Edges[pi]
						if a, ok := s.alias[in]; ok {
							in = a
						}
						s.alias[x] = in
					}
				}
			}
		case *ssa.BinOp, *ssa.UnOp:
			e.step(s, in)
		case *ssa.Call:
			name := FuncNameOf(x)
			if kc, ok := e.cfg.knownCalls[name]; ok {
				if val, known := kc(e.presetKindOf, x); known {
					s.vals[x], s.known[x] = val, true
				}
				continue
			}
			if e.cfg.recursive[name] || e.cfg.inlined[name] != nil {
				e.forkCall(b, pred, i, x, s, depth)
				return
			}
		case *ssa.If:
			e.branch(b, x, s, depth)
			return
		case *ssa.Jump:
			e.run(b.Succs[0], b, s, depth+1)
			return
		case *ssa.Return:
			e.finish(x, s)
			return
		case *ssa.Panic:
			return
		}
	}
}

func (e *enumEvaluator) step(s *enumState, in ssa.Instruction) {
	switch x := in.(type) {
	case *ssa.BinOp:
		if x.Op == token.EQL || x.Op == token.NEQ {
			a, okA := e.eval(s, x.X)
			c, okC := e.eval(s, x.Y)
			if okA && okC {
				r := int64(0)
				if (a == c) == (x.Op == token.EQL) {
					r = 1
				}
				s.vals[x], s.known[x] = r, true
			}
		}
	case *ssa.UnOp:
		if x.Op == token.NOT {
			if a, ok := e.eval(s, x.X); ok {
				s.vals[x], s.known[x] = 1-a, true
			}
		}
	}
}

func (e *enumEvaluator) forkCall(b, pred *ssa.BasicBlock, idx int, x *ssa.Call, s *enumState, depth int) {
	name := FuncNameOf(x)
	if e.cfg.recursive[name] {
		role := e.roleOf(s, x.Call.Args[0])
		if old, ok := s.roles[role]; ok {
			s.vals[x], s.known[x] = old, true
			e.runFrom(b, pred, idx+1, s, depth+1)
			return
		}
		for _, dv := range e.cfg.domain {
			c := s.clone()
			c.roles[role] = dv
			c.vals[x], c.known[x] = dv, true
			e.runFrom(b, pred, idx+1, c, depth+1)
		}
		return
	}
	outs := e.cfg.inlined[name]()
	argRoles := map[string]string{}
	for i, a := range x.Call.Args {
		argRoles[fmt.Sprintf("param%d", i)] = e.roleOf(s, a)
	}
	for _, o := range outs {
		c := s.clone()
		consistent := true
		for r, val := range o.roles {
			cr, ok := argRoles[r]
			if !ok {
				cr = r
			}
			if old, had := c.roles[cr]; had && old != val {
				consistent = false
			}
			c.roles[cr] = val
		}
		if !consistent {
			continue
		}
		c.vals[x], c.known[x] = o.result, true
		e.runFrom(b, pred, idx+1, c, depth+1)
	}
}

func (e *enumEvaluator) finish(x *ssa.Return, s *enumState) {
	e.paths++
	if len(x.Results) == 0 || (len(x.Results) != 1 && !e.cfg.lenient) {
		e.problem(x.Pos(), "unexpected result arity")
		return
	}
	val, ok := e.eval(s, x.Results[0])
	if !ok && !e.cfg.lenient {
		e.problem(x.Pos(), "returned value %s is not an enum constant or a recursive answer on the path kind=%s op=%s", x.Results[0].Name(), s.kind, s.op)
		return
	}
	o := enumOutcome{unknownResult: !ok, kind: s.kind, op: s.op, labels: append([]string{}, s.labels...), roles: map[string]int64{}, result: val, pos: x.Pos()}
	if bt, ok := x.Results[0].Type().Underlying().(*types.Basic); ok && bt.Info()&types.IsBoolean != 0 {
		o.isBool = true
	}
	for k, v := range s.roles {
		o.roles[k] = v
	}
	for _, rv := range x.Results {
		v2, k2 := e.eval(s, rv)
		o.results = append(o.results, enumRes{v2, k2})
		d := ""
		if !k2 {
			d = "?"
			if a, ok := s.alias[rv]; ok {
				rv = a
			}
			if c, ok := rv.(*ssa.Const); ok && c.Value != nil && c.Value.Kind() == constant.String {
				d = "str:" + constant.StringVal(c.Value)
			} else if e.cfg.describe != nil {
				if dd, ok := e.cfg.describe(e, s, rv); ok {
					d = dd
				}
			}
		}
		o.descs = append(o.descs, d)
	}
	e.out = append(e.out, o)
}

func (e *enumEvaluator) branch(b *ssa.BasicBlock, x *ssa.If, s *enumState, depth int) {
	if val, ok := e.eval(s, x.Cond); ok {
		si := 1
		if val != 0 {
			si = 0
		}
		e.run(b.Succs[si], b, s, depth+1)
		return
	}
	// type test?
	if ex, ok := x.Cond.(*ssa.Extract); ok && ex.Index == 1 {
		if ta, ok := ex.Tuple.(*ssa.TypeAssert); ok {
			if k, ok := e.presetKindOf(ta.X); ok {
				si := 1
				if k == shortTypeName(ta.AssertedType) {
					si = 0
				}
				e.run(b.Succs[si], b, s, depth+1)
				return
			}
			t := s.clone()
			f := s.clone()
			if s.kind == "" {
				t.kind = shortTypeName(ta.AssertedType)
				for _, rf := range *ta.Referrers() {
					if e0, ok := rf.(*ssa.Extract); ok && e0.Index == 0 {
						t.kindVal = e0
					}
				}
			} else {
				t.labels = append(t.labels, e.condLabel(s, ta.X)+" is "+shortTypeName(ta.AssertedType))
				f.labels = append(f.labels, e.condLabel(s, ta.X)+" is not "+shortTypeName(ta.AssertedType))
			}
			e.run(b.Succs[0], b, t, depth+1)
			e.run(b.Succs[1], b, f, depth+1)
			return
		}
	}
	// operator comparison?
	if bo, ok := x.Cond.(*ssa.BinOp); ok && (bo.Op == token.EQL || bo.Op == token.NEQ) {
		if cv, ok := constInt(bo.Y); ok && (s.kindVal != nil || e.cfg.opParamPath != nil) {
			root, path := purePath(bo.X)
			isOp := s.kindVal != nil && root == s.kindVal && len(path) == 1 && path[0] == e.cfg.opField
			if e.cfg.opParamPath != nil && len(e.fn.Params) > 0 && root == ssa.Value(e.fn.Params[0]) && strings.Join(path, ".") == strings.Join(e.cfg.opParamPath, ".") {
				isOp = true
			}
			if isOp {
				name, known := e.cfg.opConsts[cv]
				if !known {
					name = fmt.Sprintf("op#%d", cv)
				}
				eqSucc, neSucc := 0, 1
				if bo.Op == token.NEQ {
					eqSucc, neSucc = 1, 0
				}
				if s.op != "" {
					// already fixed: deterministic
					if s.op == name {
						e.run(b.Succs[eqSucc], b, s, depth+1)
					} else {
						e.run(b.Succs[neSucc], b, s, depth+1)
					}
					return
				}
				if !s.opNot[cv] {
					t := s.clone()
					t.op = name
					e.run(b.Succs[eqSucc], b, t, depth+1)
				}
				f := s.clone()
				f.opNot[cv] = true
				e.run(b.Succs[neSucc], b, f, depth+1)
				return
			}
		}
		// nil test of a field
		var other ssa.Value
		if c, ok := bo.Y.(*ssa.Const); ok && c.Value == nil {
			other = bo.X
		} else if c, ok := bo.X.(*ssa.Const); ok && c.Value == nil {
			other = bo.Y
		}
		if other != nil {
			lbl := e.condLabel(s, other)
			t := s.clone()
			f := s.clone()
			eqSucc, neSucc := 0, 1
			if bo.Op == token.NEQ {
				eqSucc, neSucc = 1, 0
			}
			t.labels = append(t.labels, lbl+"==nil")
			f.labels = append(f.labels, lbl+"!=nil")
			e.run(b.Succs[eqSucc], b, t, depth+1)
			e.run(b.Succs[neSucc], b, f, depth+1)
			return
		}
	}
	if e.cfg.lenient {
		t := s.clone()
		f := s.clone()
		lt, lf := "?", "?"
		if e.cfg.describe != nil {
			cv := x.Cond
			if a, ok := s.alias[cv]; ok {
				cv = a
			}
			if d, ok := e.cfg.describe(e, s, cv); ok {
				lt, lf = d+"=T", d+"=F"
			}
			// the same uninterpreted condition decides the same way later on this path
			t.vals[x.Cond], t.known[x.Cond] = 1, true
			f.vals[x.Cond], f.known[x.Cond] = 0, true
		}
		t.labels = append(t.labels, lt)
		f.labels = append(f.labels, lf)
		e.run(b.Succs[0], b, t, depth+1)
		e.run(b.Succs[1], b, f, depth+1)
		return
	}
	e.problem(x.Pos(), "branch condition %s is neither a type test, an operator comparison, a nil test nor a comparison of enum values (path kind=%s op=%s)", x.Cond.String(), s.kind, s.op)
}

func (e *enumEvaluator) condLabel(s *enumState, v ssa.Value) string {
	root, path := purePath(v)
	if len(path) > 0 && path[len(path)-1] == "Data" {
		path = path[:len(path)-1]
	}
	if s.kindVal != nil && root == s.kindVal {
		return strings.Join(path, ".")
	}
	if _, ok := root.(*ssa.Parameter); ok {
		return root.Name() + dotJoin(path)
	}
	return root.Name() + dotJoin(path)
}

func enumEvaluate(p *Prog, fn *ssa.Function, cfg *enumCfg) ([]enumOutcome, []string) {
	e := &enumEvaluator{p: p, fn: fn, cfg: cfg}
	if cfg.maxPaths == 0 {
		cfg.maxPaths = 200000
	}
	s := &enumState{opNot: map[int64]bool{}, roles: map[string]int64{}, vals: map[ssa.Value]int64{}, known: map[ssa.Value]bool{}, alias: map[ssa.Value]ssa.Value{}}
	e.run(fn.Blocks[0], nil, s, 0)
	sort.Strings(e.problems)
	return e.out, e.problems
}
