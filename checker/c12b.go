package main

import (
	"go/token"
	"go/types"
	"sort"
	"strings"

	"golang.org/x/tools/go/ssa"
)

// C12/R6 (E-FRZ companion) no append onto a slice borrowed from the AST.
//
// Link-time code keeps slices taken from a parsed (cached, shared) AST in its own structures — the
// CSS import order entries hold the `@layer` name lists of the files (LayersPreImport /
// LayersPostImport). `append(s, x...)` writes into s's backing array when it has spare capacity, so
// appending onto such a borrowed slice can overwrite the AST's own data and what other entries
// that borrowed the same slice see: hoisted `@layer` statements then list the wrong names and
// layer priority flips. A borrowed slice has to be copied (append([]T{}, s...)) before it grows.
// Rule: fields of linker/bundler/graph structs that are assigned a slice loaded from an AST-typed
// field are "borrowing fields"; every append whose first operand is loaded from a borrowing field
// must either take a slice that was freshly allocated in the same block, or sit in a loop that
// also contains the copy-before-grow idiom for that field (a fresh clone assigned to the same
// field): the path-sensitive "clone once, then extend" pattern of findImportedFilesInCSSOrder.
func c12NoAppendOntoBorrowed(p *Prog, name string) *RuleResult {
	r := NewRule(name, "a slice borrowed from a parsed AST is copied before anything is appended to it (append writes into spare capacity of the borrowed backing array)")
	isAST := func(t types.Type) bool {
		n := namedTypeName(t)
		return strings.HasPrefix(n, "css_ast.") || strings.HasPrefix(n, "js_ast.") || strings.HasPrefix(n, "ast.")
	}
	inScope := func(fn *ssa.Function) bool {
		pp := pkgPathOf(fn)
		return pp == modPath+"/internal/linker" || pp == modPath+"/internal/bundler" || pp == modPath+"/internal/graph"
	}
	borrowing := map[string]string{} // owner.field -> where
	for _, fn := range p.ModuleFuncs() {
		if !inScope(fn) {
			continue
		}
		eachInstr(fn, func(b *ssa.BasicBlock, in ssa.Instruction) {
			st, ok := in.(*ssa.Store)
			if !ok {
				return
			}
			dst, ok := st.Addr.(*ssa.FieldAddr)
			if !ok || isAST(dst.X.Type()) {
				return
			}
			if _, isSlice := st.Val.Type().Underlying().(*types.Slice); !isSlice {
				return
			}
			u, ok := st.Val.(*ssa.UnOp)
			if !ok || u.Op != token.MUL {
				return
			}
			src, ok := u.X.(*ssa.FieldAddr)
			if !ok || !isAST(src.X.Type()) {
				return
			}
			borrowing[namedTypeName(dst.X.Type())+"."+fieldAddrName(dst)] = p.Pos(st.Pos()) + " (from " + namedTypeName(src.X.Type()) + "." + fieldAddrName(src) + ")"
		})
	}
	var bf []string
	for k := range borrowing {
		bf = append(bf, k)
	}
	sort.Strings(bf)
	r.Note("borrowing fields: %s", strings.Join(bf, ", "))
	if !r.Anchor("fields that borrow AST slices", len(borrowing) >= 1) {
		return r
	}
	isFreshClone := func(v ssa.Value) bool {
		// append(<fresh empty slice>, xs...)
		c, ok := v.(*ssa.Call)
		if !ok {
			return false
		}
		bi, ok := c.Call.Value.(*ssa.Builtin)
		if !ok || bi.Name() != "append" || len(c.Call.Args) < 1 {
			return false
		}
		switch a := c.Call.Args[0].(type) {
		case *ssa.Slice:
			_, isAlloc := a.X.(*ssa.Alloc)
			return isAlloc
		case *ssa.MakeSlice:
			return true
		case *ssa.Const:
			return a.Value == nil
		}
		return false
	}
	for _, fn := range p.ModuleFuncs() {
		if !inScope(fn) {
			continue
		}
		loops := naturalLoops(fn)
		eachInstr(fn, func(b *ssa.BasicBlock, in ssa.Instruction) {
			c, ok := in.(*ssa.Call)
			if !ok {
				return
			}
			bi, ok := c.Call.Value.(*ssa.Builtin)
			if !ok || bi.Name() != "append" || len(c.Call.Args) < 2 {
				return
			}
			base := c.Call.Args[0]
			u, ok := base.(*ssa.UnOp)
			if !ok || u.Op != token.MUL {
				return
			}
			fa, ok := u.X.(*ssa.FieldAddr)
			if !ok {
				return
			}
			fk := namedTypeName(fa.X.Type()) + "." + fieldAddrName(fa)
			where, isB := borrowing[fk]
			if !isB {
				return
			}
			r.Instances++
			key := FuncName(fn) + " appends onto " + fk
			// the copy-before-grow idiom for the same field in the innermost enclosing loop
			var body map[*ssa.BasicBlock]bool
			for _, lb := range loops {
				if lb[b] && (body == nil || len(lb) < len(body)) {
					body = lb
				}
			}
			cloned := false
			eachInstr(fn, func(b2 *ssa.BasicBlock, in2 ssa.Instruction) {
				if body != nil && !body[b2] {
					return
				}
				st, ok := in2.(*ssa.Store)
				if !ok {
					return
				}
				dst, ok := st.Addr.(*ssa.FieldAddr)
				if !ok || namedTypeName(dst.X.Type())+"."+fieldAddrName(dst) != fk {
					return
				}
				if isFreshClone(st.Val) {
					cloned = true
				}
			})
			if cloned {
				r.OK(key, true, "the same loop copies the borrowed slice into a fresh one (clone once, then extend) before it grows")
			} else {
				r.Fail(key, p.Pos(c.Pos()), "this append extends a slice that may still be the one borrowed from the AST at "+where+", and nothing in the loop copies it first: with spare capacity the append overwrites the AST's backing array and what other holders of the same slice see")
			}
		})
	}
	return r
}
