package main

import (
	"fmt"
	"go/token"
	"go/types"
	"sort"
	"strings"

	"golang.org/x/tools/go/ssa"
)

// ---------------------------------------------------------------------------------------------
// C11/R9 expansion-keys-by-key-shape-only.
//
// PACKAGE_IMPORTS_EXPORTS_RESOLVE takes the *first* matching pattern key in specificity order; a
// `null` target there means "not exported" and stops the search. A null pattern therefore has to be
// in the list: it shadows the wider patterns behind it (`"./features/private/*": null`). Membership
// in expansionKeys is a property of the key (ends in "/", contains "*"), never of the value.
func c11ExpansionKeysByShape(p *Prog) *RuleResult {
	r := NewRule("C11/R9 expansion-keys-by-key-shape-only", "whether a key of an exports/imports map is a pattern key (a member of expansionKeys) depends on the key alone, not on the value it maps to")
	fn := p.FindFunc("resolver.parseImportsExportsMap")
	if !r.Anchor("resolver.parseImportsExportsMap", fn != nil) {
		return r
	}
	n := 0
	for _, f := range withClosures(fn) {
		eachInstr(f, func(b *ssa.BasicBlock, in ssa.Instruction) {
			c, ok := in.(*ssa.Call)
			if !ok {
				return
			}
			bi, ok := c.Call.Value.(*ssa.Builtin)
			if !ok || bi.Name() != "append" || namedTypeName(c.Type()) != "resolver.expansionKeysArray" {
				return
			}
			n++
			r.Instances++
			key := fmt.Sprintf("parseImportsExportsMap appends to expansionKeys #%d", n)
			bad := ""
			for _, ifi := range controlDepIfsTransitive(b) {
				sliceCond(ifi.Cond, func(v ssa.Value) bool {
					switch x := v.(type) {
					case *ssa.FieldAddr:
						if namedTypeName(x.X.Type()) == "resolver.pjEntry" {
							bad = fieldAddrName(x)
						}
					case *ssa.Field:
						if namedTypeName(x.X.Type()) == "resolver.pjEntry" {
							bad = fieldValName(x)
						}
					}
					return true
				})
			}
			if bad == "" {
				r.OK(key, true, "conditional on the shape of the key only")
			} else {
				r.Fail(key, p.Pos(c.Pos()), "membership in expansionKeys depends on the entry's value (pjEntry."+bad+"): a pattern key mapped to null is left out, so it no longer shadows a wider pattern behind it and a subpath the package blocks resolves (Node: ERR_PACKAGE_PATH_NOT_EXPORTED)")
			}
		})
	}
	if !r.Anchor("appends to expansionKeys", n >= 1) {
		return r
	}
	r.Floor(1)
	return r
}

// ---------------------------------------------------------------------------------------------
// C14/R11 (= C05/R7) marking-traversal-visits-every-child.
//
// lowerObjectRestHelper first walks the pattern with a recursive closure that *marks* every node
// containing an object rest (a captured map) and returns whether it found one; the second pass
// lowers exactly the marked nodes. The walk's result is an accumulator, but the walk itself is the
// point: a recursive call that is skipped once the accumulator is true (`found = found || walk(x)`)
// leaves later siblings unmarked, and their `{...x}` is emitted for a target without object rest.
// Rule: in a self-recursive function or closure of js_parser that updates a captured map, no
// recursive call is control dependent on a loop-carried boolean of that function.
func markingTraversalComplete(p *Prog, rule string) *RuleResult {
	r := NewRule(rule, "a recursive marking traversal (a self-recursive function that records nodes in a map and returns whether it found any) makes its recursive calls unconditionally with respect to its own accumulated result")
	n := 0
	for _, fn := range p.ModuleFuncs() {
		if pkgPathOf(fn) != modPath+"/internal/js_parser" {
			continue
		}
		if sig := fn.Signature; sig.Results().Len() != 1 || !types.Identical(sig.Results().At(0).Type().Underlying(), types.Typ[types.Bool]) {
			continue
		}
		// self-recursive (directly, or a closure called through its own captured variable)
		var recCalls []*ssa.Call
		marks := false
		eachInstr(fn, func(b *ssa.BasicBlock, in ssa.Instruction) {
			switch x := in.(type) {
			case *ssa.Call:
				if x.Call.StaticCallee() == fn {
					recCalls = append(recCalls, x)
					return
				}
				// closure calling itself through the cell that holds it
				if ld, ok := x.Call.Value.(*ssa.UnOp); ok {
					if fv, ok := ld.X.(*ssa.FreeVar); ok && fn.Parent() != nil {
						for _, pin := range fn.Parent().Blocks {
							for _, pi := range pin.Instrs {
								if mc, ok := pi.(*ssa.MakeClosure); ok && mc.Fn == ssa.Value(fn) {
									for i, bnd := range mc.Bindings {
										if i < len(fn.FreeVars) && fn.FreeVars[i] == fv {
											// the binding is the cell into which this very closure is stored
											if al, ok := bnd.(*ssa.Alloc); ok && al.Referrers() != nil {
												for _, ar := range *al.Referrers() {
													if st, ok := ar.(*ssa.Store); ok && st.Val == ssa.Value(mc) {
														recCalls = append(recCalls, x)
													}
												}
											}
										}
									}
								}
							}
						}
					}
				}
			case *ssa.MapUpdate:
				marks = true
			}
		})
		if len(recCalls) == 0 || !marks {
			continue
		}
		loops := naturalLoops(fn)
		isLoopHeader := func(b *ssa.BasicBlock) bool { _, ok := loops[b]; return ok }
		for i, c := range recCalls {
			n++
			r.Instances++
			key := fmt.Sprintf("%s recursive call #%d", FuncName(fn), i+1)
			bad := ""
			for _, ifi := range controlDepIfsTransitive(c.Block()) {
				var vals []ssa.Value
				condsOfBoolValue(ifi.Cond, &vals, 0)
				for _, v := range vals {
					if ph, ok := v.(*ssa.Phi); ok && isLoopHeader(ph.Block()) && types.Identical(ph.Type().Underlying(), types.Typ[types.Bool]) {
						bad = ph.Comment
					}
				}
			}
			if bad == "" {
				r.OK(key, true, "not control dependent on a loop-carried boolean of the traversal")
			} else {
				r.Fail(key, p.Pos(c.Pos()), "the recursive call is skipped once the traversal's own accumulator `"+bad+"` is true: later siblings are never visited and therefore never marked, so the pass that lowers the marked nodes leaves their syntax in place (a second `{...x}` in one pattern is emitted unlowered for a target without object rest)")
			}
		}
	}
	if !r.Anchor("self-recursive marking traversals in js_parser", n >= 2) {
		return r
	}
	r.Floor(2)
	return r
}

// ---------------------------------------------------------------------------------------------
// C12/R9 tracked-declaration-is-last-rule.
//
// The shorthand trackers are told about a declaration through mangleSide / mangleSides /
// mangleCorner / mangleCorners(rules, decl, …). They do not receive the declaration's position:
// they record `len(rules)-1` and later blank `rules[thatIndex]` when the side is overridden. The
// contract is that `decl` is the last element of `rules` at the time of the call. Rule: at every
// call site the `rules` argument is the result of an append whose single appended element is the
// rule that `decl` was taken from.
func c12TrackedDeclIsLast(p *Prog) *RuleResult {
	r := NewRule("C12/R9 tracked-declaration-is-last-rule", "at every call that reports a declaration to a CSS shorthand tracker, the declaration is the element most recently appended to the rule list that is passed along (the tracker records len(rules)-1 as the declaration's position)")
	n := 0
	elemKey := func(v ssa.Value) string {
		// identity of "the rule": an SSA struct value, or the address expression it is loaded from
		for {
			switch x := v.(type) {
			case *ssa.TypeAssert:
				v = x.X
				continue
			case *ssa.Field:
				if fieldValName(x) == "Data" {
					v = x.X
					continue
				}
			case *ssa.UnOp:
				if x.Op == token.MUL {
					switch a := x.X.(type) {
					case *ssa.FieldAddr:
						if fieldAddrName(a) == "Data" {
							v = a.X
							continue
						}
					case *ssa.IndexAddr:
						return fmt.Sprintf("elem(%p,%p)", a.X, a.Index)
					case *ssa.Alloc:
						if sv := uniqueStoreTo(a); sv != nil {
							v = sv
							continue
						}
						return fmt.Sprintf("cell(%p)", a)
					}
				}
			case *ssa.IndexAddr:
				return fmt.Sprintf("elem(%p,%p)", x.X, x.Index)
			case *ssa.Alloc:
				if sv := uniqueStoreTo(x); sv != nil {
					v = sv
					continue
				}
				return fmt.Sprintf("cell(%p)", x)
			}
			return fmt.Sprintf("val(%p)", v)
		}
	}
	var lines []string
	for _, fn := range p.ModuleFuncs() {
		if pkgPathOf(fn) != modPath+"/internal/css_parser" {
			continue
		}
		eachInstr(fn, func(b *ssa.BasicBlock, in ssa.Instruction) {
			c, ok := in.(*ssa.Call)
			if !ok || c.Call.StaticCallee() == nil {
				return
			}
			name := c.Call.StaticCallee().Name()
			if name != "mangleSide" && name != "mangleSides" && name != "mangleCorner" && name != "mangleCorners" {
				return
			}
			if strings.HasSuffix(namedTypeName(fn.Signature.Recv().Type()), "Tracker") {
				return // the trackers' own internal calls
			}
			if len(c.Call.Args) < 3 {
				return
			}
			rulesArg, declArg := c.Call.Args[1], c.Call.Args[2]
			n++
			r.Instances++
			key := fmt.Sprintf("%s reports a declaration to %s #%d", FuncName(fn), name, n)
			// the defining append(s) of rulesArg (through phis)
			var appends []*ssa.Call
			seen := map[ssa.Value]bool{}
			var walk func(v ssa.Value, depth int)
			walk = func(v ssa.Value, depth int) {
				if seen[v] || depth > 6 {
					return
				}
				seen[v] = true
				switch x := v.(type) {
				case *ssa.Call:
					if bi, ok := x.Call.Value.(*ssa.Builtin); ok && bi.Name() == "append" {
						appends = append(appends, x)
					}
				case *ssa.Phi:
					for _, e := range x.Edges {
						walk(e, depth+1)
					}
				}
			}
			walk(rulesArg, 0)
			// the declaration may itself be a phi (the main loop re-processes a cloned declaration on the
			// colour-clipping path): any of its sources may be the one that was appended
			wants := map[string]bool{}
			var declSrc func(v ssa.Value, depth int)
			declSrc = func(v ssa.Value, depth int) {
				if ph, ok := v.(*ssa.Phi); ok && depth < 4 {
					for _, e := range ph.Edges {
						declSrc(e, depth+1)
					}
					return
				}
				if ex, ok := v.(*ssa.Extract); ok {
					v = ex.Tuple
				}
				wants[elemKey(v)] = true
			}
			declSrc(declArg, 0)
			okAny := false
			why := ""
			for _, a := range appends {
				// the appended element: arg1 is a slice of a fresh one-element array
				single := ""
				if sl, ok := a.Call.Args[1].(*ssa.Slice); ok {
					if al, ok := sl.X.(*ssa.Alloc); ok && al.Referrers() != nil {
						cnt := 0
						for _, rf := range *al.Referrers() {
							if ia, ok := rf.(*ssa.IndexAddr); ok && ia.Referrers() != nil {
								for _, rr := range *ia.Referrers() {
									if st, ok := rr.(*ssa.Store); ok {
										cnt++
										single = elemKey(st.Val)
									}
								}
							}
						}
						if cnt != 1 {
							single = ""
						}
					}
				}
				if single == "" {
					if why == "" {
						why = "the rule list passed along is the result of an append of a whole slice (or of several elements), so the reported declaration is not known to be its last element"
					}
				} else if !wants[single] {
					if why == "" {
						why = "the element appended last to the rule list is not the rule the reported declaration was taken from"
					}
				} else {
					okAny = true
				}
			}
			if okAny {
				r.OK(key, true, "the rule list is append(…, rule) and the declaration is rule.Data")
			} else {
				if why == "" {
					why = "the rule list passed along is not the result of an append"
				}
				lines = append(lines, key)
				r.Fail(key, p.Pos(c.Pos()), why+": the tracker records len(rules)-1 as the position of this declaration, and when the side is overridden later it blanks the rule at that position — a different declaration is removed and the cascade winner of its property changes")
			}
		})
	}
	sort.Strings(lines)
	if !r.Anchor("calls that report a declaration to a shorthand tracker", n >= 10) {
		return r
	}
	r.Floor(10)
	return r
}
