#!/bin/bash
# Entry point of the static verifier. Usage:
#   ./run.sh setup                      build bin/esverif (offline)
#   ./run.sh check <Cxx|all> [--tier quick|thorough]
#   ./run.sh explain <violation.json>
set -u
cd "$(dirname "$0")"
export GOFLAGS=-mod=mod GOPROXY=off GOSUMDB=off GOTOOLCHAIN=local CGO_ENABLED=0
unset GOWORK
export VERIF_DIR="$(pwd)"
build() {
  (cd checker && go build -o ../bin/esverif .) || { echo "esverif build failed"; exit 2; }
}
case "${1:-}" in
  setup) mkdir -p bin evidence; build ;;
  check|explain)
    if [ ! -x bin/esverif ] || [ -n "$(find checker -newer bin/esverif -name '*.go' -print -quit 2>/dev/null)" ]; then mkdir -p bin evidence; build; fi
    exec bin/esverif "$@" ;;
  *) echo "usage: $0 setup | check <Cxx|all> [--tier quick|thorough] | explain <file>"; exit 2 ;;
esac
