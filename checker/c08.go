package main

import (
	"go/token"
	"golang.org/x/tools/go/ssa"
	"fmt"
	"os"
	"sort"
	"strings"
)

// reviewed map loops: key -> reason
var c08MapLoopExceptions = ExcTable{
	"fs.(*realFS).WatchData range wasPresent:map[string]bool":                 "watch mode only: returns the first directory entry whose presence changed; which of several changed entries is named affects only the 'file changed' trigger text, the rebuild itself re-reads everything",
	"fs.(*realFS).WatchData range watchData:map[string]fs.privateWatchData":   "per-path effects only (paths[path] keyed by a copy of the loop key); modKey(path) reads the file system and touches no shared state",
	"fs.(*zipFS).ReadDirectory range entries:map[string]fs.EntryKind":          "insert keyed by the lower-cased name: collides only if one zip directory has two names differing only by case; file lookup itself is by lower-cased path in archive order; no observable difference could be produced (tried)",
	"fs.MockFS range param input:map[string]string":                            "test/mock file system: directory entries inserted per path; values for one key are equal in every order unless a path is both a file and a directory; the `break` ends the walk up to the root, not the map loop",
	"js_parser.(*parser).generateImportStmt range param symbols:map[string]ast.LocRef": "minimum by Loc.Start; logger.Loc has Start as its only field, so the stored value is determined by the compared key (commutative min)",
	"linker.(*linkerContext).addExportsForExportStar range NamedExports:map[string]js_ast.NamedExport": "ImportsToBind[name.Ref] is keyed by the value's own Ref and stores {Ref: name.Ref, SourceIndex: otherSourceIndex}: fully determined by the key and a loop-invariant",
	"linker.(*linkerContext).computeCrossChunkDependencies range imports:map[ast.Ref]bool": "appends into importsFromOtherChunks[chunk], which sortedCrossChunkImports sorts (by export alias, then chunks by index) before any use; exports[ref]=true is a set insert",
	"linker.(*linkerContext).mangleProps range MangledProps:map[string]ast.Ref": "each property name occurs once per file; merges for different names touch disjoint symbols; the merge target is fixed by the outer loop over ReachableFiles (ordered)",
	"linker.(*linkerContext).scanImportsAndExports range ImportsToBind:map[ast.Ref]graph.ImportData": "Part.Dependencies is consumed as a set by the tree-shaking closure; MergeSymbols links each import symbol to its export (distinct keys); the only order-sensitive part of MergeContentsWith (name transfer between two pinned symbols) needs two must-not-rename import aliases of one export, which only arises under direct eval where the file is wrapped as CommonJS and imports are not bound (checked by experiment)",
	"linker.(*linkerContext).scanImportsAndExports range SymbolUses:map[ast.Ref]js_ast.SymbolUse": "appends to Part.Dependencies, which is consumed as a set by the tree-shaking closure (markPartLiveForTreeShaking visits every dependency; liveness is a closure and does not depend on visiting order)",
	"pkg/api.(*apiHandler).broadcastBuildResult range local:map[string]string":        "serve mode live-reload event: collected into added/removed/updated which are sorted (sort.Strings) before being sent",
	"pkg/api.(*apiHandler).broadcastBuildResult range param newHashes:map[string]string": "serve mode live-reload event: collected into added/removed/updated which are sorted (sort.Strings) before being sent",
	"pkg/api.(*watcher).tryToFindDirtyPath range Paths:map[string]func() string":       "watch mode deliberately scans paths in a shuffled order (Fisher-Yates right below); it decides when a rebuild starts, not what it produces",
	"pkg/api.rebuildImpl range param oldHashes:map[string]string":                      "collects stale outputs to delete; each is removed by its own goroutine, order irrelevant (a set of os.Remove calls)",
	"pkg/api.validateDefines range local:map[string]config.DefineData":                 "ProcessDefines turns the array into keyed lookups (identifier map, dot-defines bucketed by last part and matched by full part list); rawDefines keys are unique so bucket order cannot change which define matches",
	"pkg/cli.parseTargets range validEngines:map[string]pkg/api.EngineName":            "engine names are mutually prefix-free, so at most one entry satisfies strings.HasPrefix(value, engine); the error list below is sorted (sort.Strings(engines))",
	"renamer.(*MinifyRenamer).AccumulateSymbolUseCounts range param symbolUses:map[ast.Ref]js_ast.SymbolUse": "adds counts into per-slot counters (atomic integer adds) and appends top-level symbols to an array that is sorted by (count, stable source index, inner index) before names are assigned",
	"renamer.(*NumberRenamer).AssignNamesByScope range param nestedScopes:map[uint32][]*js_ast.Scope": "one goroutine per file, joined by a WaitGroup; each writes only r.names[its own sourceIndex] and reads the frozen root scope",
	"resolver.(*Resolver).Resolve range PackageAliases:map[string]string":              "longest matching key with a strict > comparison: two matching keys of equal length are both prefixes of importPath of the same length, hence equal; argmax is unique",
	"resolver.(resolverQuery).finalizeImportsExportsResult range rewrittenFileExtensions:map[string][]string": "the keys .js/.jsx/.mjs/.cjs are mutually suffix-free, so at most one iteration passes strings.HasSuffix(base, old) and the loop breaks right after it",
	"resolver.(resolverQuery).loadAsFile range rewrittenFileExtensions:map[string][]string": "the keys .js/.jsx/.mjs/.cjs are mutually suffix-free, so at most one iteration passes strings.HasSuffix(base, old) and the loop breaks right after it",
	"resolver.(resolverQuery).matchTSConfigPaths range Map:map[string][]resolver.TSConfigPath #2": "lexicographic maximum of (prefix length, suffix length) with strict comparisons; two matching patterns with equal lengths have equal prefix and suffix strings, i.e. are the same key (the code comment states this is done for determinism)",
	"resolver.(resolverQuery).parseTSConfigFromSource range Map:map[string][]resolver.TSConfigPath": "filters each key's own slice in place and stores it back under the loop key; the helper only logs located warnings and lazily creates one shared tracker (idempotent)",
}

func init() {
	register(&Property{
		ID: "C08",
		Explanation: "Decides the absence of the enumerable nondeterminism sources on paths that produce output or diagnostics (necessary conditions of byte-identical builds, not the behaviour): R1 every `range` over a map in non-test code is order-insensitive (commutative body, collect-then-sort, located-diagnostics-only) or a reviewed entry; R2 goroutines deliver results by pre-assigned index or into sorted collections, never by completion order; R3 sort comparators and hash inputs never use unstable source indices; R4 clock/random/environment reads occur only at the reviewed owner sites; R5 no multi-way select on build paths; R6 no location-less diagnostic is logged from concurrently running goroutines. NOT covered: totality of sort comparators, absolute-path independence (paths are run-time values), determinism of plugin code.",
		Run: func(p *Prog, tier string) []*RuleResult {
			return []*RuleResult{c08MapOrder(p), c08GoroutineOrder(p)}
		},
	})
}

func c08MapOrder(p *Prog) *RuleResult {
	r := NewRule("C08/R1 map-order", "every range over a Go map is order-insensitive, sorts what it collects, only logs located diagnostics, or is a reviewed entry")
	loops := collectMapLoops(p)
	sort.SliceStable(loops, func(i, j int) bool { return loops[i].key < loops[j].key })
	dump := os.Getenv("VERIF_DUMP") != ""
	kinds := map[string]int{}
	for _, ml := range loops {
		r.Instances++
		kinds[ml.kind]++
		pos := p.Pos(ml.rng.Pos())
		switch ml.kind {
		case "commutative":
			r.OK(ml.key, true, "body has only commutative effects (keyed inserts, deletes, integer/boolean accumulation, constant returns)")
		case "collect-then-sort":
			r.OK(ml.key, true, "collect-then-sort: "+strings.Join(ml.sorted, "; "))
		case "located-diagnostics-only":
			r.OK(ml.key, true, "only order-sensitive effect is logging located diagnostics, which the logger sorts")
		default:
			if dump {
				fmt.Printf("UNRESOLVED %s @ %s\n", ml.key, pos)
				for _, pr := range ml.problems {
					fmt.Printf("    %s\n", pr)
				}
			}
			ok, void := guardedExc(p, r, c08MapLoopExceptions, ml.key)
			if ok {
				continue
			}
			if void != "" {
				void = " [reviewed exception void: " + void + "]"
			}
			r.Fail(ml.key, pos, "map iteration whose effects depend on iteration order: "+strings.Join(ml.problems, "; ")+void)
		}
	}
	r.Note("loop kinds: %v", kinds)
	r.Floor(80)
	r.StaleCheck(c08MapLoopExceptions)
	return r
}

// ---------------------------------------------------------------------------------------------
// R2 goroutine completion order

// goRoots returns the functions started by `go` statements in module code: closures (with the Go
// instruction) and named functions.
type goSite struct {
	in     *ssa.Go
	caller *ssa.Function
	callee *ssa.Function
}

func goSites(p *Prog) []goSite {
	var out []goSite
	for _, fn := range p.ModuleFuncs() {
		eachInstr(fn, func(b *ssa.BasicBlock, in ssa.Instruction) {
			g, ok := in.(*ssa.Go)
			if !ok {
				return
			}
			var callee *ssa.Function
			if c := g.Call.StaticCallee(); c != nil {
				callee = c
			} else if mc, ok := g.Call.Value.(*ssa.MakeClosure); ok {
				callee, _ = mc.Fn.(*ssa.Function)
			}
			out = append(out, goSite{g, fn, callee})
		})
	}
	return out
}

var c08GoAccumExceptions = ExcTable{
	"graph.CloneLinkerGraph$1 append captured dynamicImportEntryPoints": "collected under a mutex in completion order, then mapped to stable source indices and sorted (sort.Ints(stableEntryPoints)) before the entry points are appended",
}

var c08GoSendExceptions = ExcTable{
	"bundler.parseFile send chan chan bundler.parseResult":                       "received by scanAllDependencies, which stores each result by its own source index (s.results[sourceIndex]); source indices themselves are unstable and are never used for ordering (C08/R3)",
	"bundler.parseFile$1 send chan chan bundler.parseResult":                     "recover path of parseFile: same receiver, result stored by source index",
	"bundler.parseFile send chan chan config.InjectedFile":                       "each injected file has its own channel, and preprocessInjectedFiles receives from the channels in the user's inject order",
	"bundler.(*scanner).preprocessInjectedFiles$1 send chan chan bundler.parseResult": "forwards a define-injected file result to the scan loop, which stores by source index",
	"bundler.ScanBundle$2 send chan chan bundler.parseResult":                    "the runtime file's result; stored at the fixed runtime source index",
	"linker.(*linkerContext).generateIsolatedHash send chan chan []byte":         "one buffered channel per chunk carrying exactly one value (that chunk's isolated hash); readers block on the specific chunk they need",
	"pkg/api.(*apiHandler).serveEventStream$1 send chan chan struct{}":           "serve mode: signals that an HTTP event-stream client went away; no build output involved",
}

// derivedFromParam: is v computed only from parameters of fn (incl. conversions, arithmetic, field reads of params)?
func derivedFromParam(v ssa.Value, fn *ssa.Function, depth int) bool {
	if depth > 6 {
		return false
	}
	switch x := v.(type) {
	case *ssa.Parameter:
		return x.Parent() == fn
	case *ssa.Convert:
		return derivedFromParam(x.X, fn, depth+1)
	case *ssa.ChangeType:
		return derivedFromParam(x.X, fn, depth+1)
	case *ssa.BinOp:
		_, cy := x.Y.(*ssa.Const)
		_, cx := x.X.(*ssa.Const)
		return (derivedFromParam(x.X, fn, depth+1) && (cy || derivedFromParam(x.Y, fn, depth+1))) || (cx && derivedFromParam(x.Y, fn, depth+1))
	case *ssa.Field:
		return derivedFromParam(x.X, fn, depth+1)
	case *ssa.UnOp:
		if x.Op == token.MUL {
			if fa, ok := x.X.(*ssa.FieldAddr); ok {
				return derivedFromParam(fa.X, fn, depth+1)
			}
			if al, ok := x.X.(*ssa.Alloc); ok {
				if sv := uniqueStoreTo(al); sv != nil {
					return derivedFromParam(sv, fn, depth+1)
				}
			}
		}
	case *ssa.Call:
		// method calls on a parameter with no other args (e.g. idx.GetIndex())
		if len(x.Call.Args) == 1 && !x.Call.IsInvoke() {
			return derivedFromParam(x.Call.Args[0], fn, depth+1)
		}
	}
	return false
}

func c08GoroutineOrder(p *Prog) *RuleResult {
	r := NewRule("C08/R2 goroutine-order", "code running in a goroutine never accumulates into a shared slice (append) or hands results over a channel in completion order, unless it writes a slot selected by its own parameter, the collection is sorted before use, or the site is reviewed")
	sites := goSites(p)
	r.Note("go statements: %d", len(sites))
	seenFn := map[*ssa.Function]bool{}
	for _, g := range sites {
		if g.callee == nil {
			continue
		}
		if seenFn[g.callee] {
			continue
		}
		seenFn[g.callee] = true
		r.Instances++
		inGoroutine := map[*ssa.Function]bool{}
		for _, fn := range withClosures(g.callee) {
			inGoroutine[fn] = true
		}
		for _, fn := range withClosures(g.callee) {
			eachInstr(fn, func(b *ssa.BasicBlock, in ssa.Instruction) {
				switch x := in.(type) {
				case *ssa.Send:
					key := FuncName(fn) + " send chan " + shortType(x.Chan.Type())
					if !r.CheckExc(c08GoSendExceptions, key) {
						r.Fail(key, p.Pos(x.Pos()), "goroutine sends on a channel: the receiver sees results in completion order (needs review of the receive side)")
					}
				case *ssa.Store:
					c, ok := x.Val.(*ssa.Call)
					if !ok {
						return
					}
					bi, ok := c.Call.Value.(*ssa.Builtin)
					if !ok || bi.Name() != "append" {
						return
					}
					// accumulating append: first argument is a load of the stored-to address
					ld, ok := c.Call.Args[0].(*ssa.UnOp)
					if !ok || ld.Op != token.MUL {
						return
					}
					if ld.X != x.Addr && pathString(addrChain(ld.X)) != pathString(addrChain(x.Addr)) {
						return
					}
					steps := addrChain(x.Addr)
					root := rootOfChain(steps)
					if al, ok := root.(*ssa.Alloc); ok && inGoroutine[al.Parent()] {
						return // local to the goroutine
					}
					if fv, ok := x.Addr.(*ssa.FreeVar); ok {
						if cell := varCell(fv); cell != nil && inGoroutine[cell.Parent()] {
							return // variable of the goroutine's own function captured by a nested closure
						}
					}
					if u, ok := root.(*ssa.UnOp); ok {
						if cell := varCell(u.X); cell != nil && inGoroutine[cell.Parent()] {
							if vals, ok := storesToCell(cell); ok {
								allFresh := len(vals) > 0
								for _, v := range vals {
									if !frzFreshValue(v, 0) {
										allFresh = false
									}
								}
								if allFresh {
									return
								}
							}
						}
					}
					// through the goroutine's own pointer parameter that the go statement binds to &slice[i]
					if prm, ok := root.(*ssa.Parameter); ok && prm.Parent() == g.callee {
						for i, fp := range g.callee.Params {
							if fp == prm && i < len(g.in.Call.Args) {
								if _, isIdx := g.in.Call.Args[i].(*ssa.IndexAddr); isIdx {
									r.OK(FuncName(fn)+" append "+pathString(steps), true, "appends through the goroutine's own parameter, bound to &slice[i] at the go statement")
									return
								}
								if definedInLoop(g.in.Call.Args[i]) {
									r.OK(FuncName(fn)+" append "+pathString(steps), true, "appends through the goroutine's own pointer parameter, bound to a per-iteration value at the go statement")
									return
								}
							}
						}
					}
					switch rv := root.(type) {
					case *ssa.MakeSlice:
						if inGoroutine[rv.Parent()] {
							return
						}
					case *ssa.MakeMap:
						if inGoroutine[rv.Parent()] {
							return
						}
					}
					// per-goroutine slot?
					for _, s := range steps {
						if ia, ok := s.Val.(*ssa.IndexAddr); ok && derivedFromParam(ia.Index, g.callee, 0) {
							r.OK(FuncName(fn)+" append "+pathString(steps), true, "appends into a slot indexed by the goroutine's own parameter")
							return
						}
						if lk, ok := s.Val.(*ssa.Lookup); ok && derivedFromParam(lk.Index, g.callee, 0) {
							r.OK(FuncName(fn)+" append "+pathString(steps), true, "appends into a map slot keyed by the goroutine's own parameter")
							return
						}
					}
					desc := pathString(steps)
					if fv, ok := x.Addr.(*ssa.FreeVar); ok {
						desc = "captured " + fv.Name()
					}
					key := FuncName(fn) + " append " + desc
					if ok, void := guardedExc(p, r, c08GoAccumExceptions, key); !ok {
						r.Fail(key, p.Pos(x.Pos()), "goroutine appends to shared slice "+desc+": element order is goroutine completion order "+void)
					}
				}
			})
		}
	}
	r.Floor(40)
	r.StaleCheck(c08GoAccumExceptions)
	r.StaleCheck(c08GoSendExceptions)
	return r
}

// definedInLoop: v is computed by an instruction inside a CFG cycle (a per-iteration value).
func definedInLoop(v ssa.Value) bool {
	in, ok := v.(ssa.Instruction)
	if !ok || in.Block() == nil {
		return false
	}
	start := in.Block()
	seen := map[*ssa.BasicBlock]bool{}
	work := append([]*ssa.BasicBlock{}, start.Succs...)
	for len(work) > 0 {
		b := work[len(work)-1]
		work = work[:len(work)-1]
		if b == start {
			return true
		}
		if seen[b] {
			continue
		}
		seen[b] = true
		work = append(work, b.Succs...)
	}
	return false
}

// Guards: structural facts a reviewed exception relies on. If a guard no longer holds the exception
// is void and the obligation fails.
type excGuard struct {
	fn     string // function (with closures) that must contain ...
	callee string // ... at least n static calls to this function
	n      int
}

var c08Guards = map[string][]excGuard{
	"graph.CloneLinkerGraph$1 append captured dynamicImportEntryPoints":                      {{"graph.CloneLinkerGraph", "sort.Ints", 1}},
	"linker.(*linkerContext).computeCrossChunkDependencies range imports:map[ast.Ref]bool":   {{"linker.(*linkerContext).sortedCrossChunkImports", "sort.Sort", 2}},
	"pkg/api.(*apiHandler).broadcastBuildResult range local:map[string]string":               {{"pkg/api.(*apiHandler).broadcastBuildResult", "sort.Strings", 3}},
	"pkg/api.(*apiHandler).broadcastBuildResult range param newHashes:map[string]string":     {{"pkg/api.(*apiHandler).broadcastBuildResult", "sort.Strings", 3}},
	"pkg/cli.parseTargets range validEngines:map[string]pkg/api.EngineName":                  {{"pkg/cli.parseTargets", "sort.Strings", 1}},
	"renamer.(*MinifyRenamer).AccumulateSymbolUseCounts range param symbolUses:map[ast.Ref]js_ast.SymbolUse": {{"linker.(*linkerContext).renameSymbolsInChunk", "sort.Sort", 2}},
}

func countCalls(p *Prog, fnName, callee string) int {
	fn := p.FindFunc(fnName)
	if fn == nil {
		return -1
	}
	n := 0
	for _, f := range withClosures(fn) {
		eachInstr(f, func(b *ssa.BasicBlock, in ssa.Instruction) {
			if c, ok := in.(ssa.CallInstruction); ok && calleeFullName(c) == callee {
				n++
			}
		})
	}
	return n
}

// guardedExc applies the exception table but voids an entry whose guards fail.
func guardedExc(p *Prog, r *RuleResult, t ExcTable, key string) (bool, string) {
	if _, ok := t[key]; !ok {
		return false, ""
	}
	for _, g := range c08Guards[key] {
		if n := countCalls(p, g.fn, g.callee); n < g.n {
			return false, fmt.Sprintf("the reviewed reason relies on %s calling %s at least %d time(s), found %d", g.fn, g.callee, g.n, n)
		}
	}
	r.CheckExc(t, key)
	return true, ""
}
