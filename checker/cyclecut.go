package main

import (
	"fmt"
	"go/token"
	"go/types"
	"sort"

	"golang.org/x/tools/go/ssa"
)

// E-CUT: cycle-cut memo scope.
//
// A depth-first search over a possibly cyclic graph that returns an answer per node commonly cuts
// cycles with a visited set: `if visited[n] { return <constant> }; visited[n] = true`. The
// constant returned at the cut is provisional: it means "being computed further up the stack",
// not "the answer for n". It is only sound while the visited set belongs to one traversal. If the
// set survives into a second traversal from another root, nodes whose real answer was the
// opposite are reported with the provisional constant.
//
// Rule: for every function F in the module that
//   (a) calls itself (directly), passing its map-typed parameter M through,
//   (b) tests M[k] and on the hit edge returns a constant without consulting anything else,
//   (c) stores M[k] = true, and
//   (d) can return something other than that constant,
// every call of F from another function passes a map that is created for that call: a MakeMap
// in the caller such that no loop contains the call but not the MakeMap (and the map is not also
// stored into longer-lived state).

type cutFunc struct {
	fn       *ssa.Function
	param    int
	cutConst string
}

func findCutFuncs(p *Prog) []cutFunc {
	var out []cutFunc
	for _, fn := range p.ModuleFuncs() {
		if len(fn.Blocks) == 0 || fn.Signature.Results().Len() == 0 {
			continue
		}
		for pi, prm := range fn.Params {
			mt, ok := prm.Type().Underlying().(*types.Map)
			if !ok {
				continue
			}
			if b, ok := mt.Elem().Underlying().(*types.Basic); !ok || b.Info()&types.IsBoolean == 0 {
				continue
			}
			selfRec, update := false, false
			cut := ""
			otherReturn := false
			eachInstr(fn, func(b *ssa.BasicBlock, in ssa.Instruction) {
				switch x := in.(type) {
				case *ssa.Call:
					if calleeOf(x) == fn && pi < len(x.Call.Args) && x.Call.Args[pi] == ssa.Value(prm) {
						selfRec = true
					}
				case *ssa.MapUpdate:
					if x.Map == ssa.Value(prm) && isConstBool(x.Value, true) {
						update = true
					}
				case *ssa.Lookup:
					if x.X != ssa.Value(prm) || x.CommaOk || x.Referrers() == nil {
						return
					}
					for _, rf := range *x.Referrers() {
						ifi, ok := rf.(*ssa.If)
						if !ok {
							continue
						}
						hit := ifi.Block().Succs[0]
						if len(hit.Instrs) == 1 {
							if ret, ok := hit.Instrs[0].(*ssa.Return); ok && len(ret.Results) >= 1 {
								if c, ok := ret.Results[0].(*ssa.Const); ok {
									cut = c.String()
								}
							}
						}
					}
				}
			})
			if !selfRec || !update || cut == "" {
				continue
			}
			eachInstr(fn, func(b *ssa.BasicBlock, in ssa.Instruction) {
				if ret, ok := in.(*ssa.Return); ok && len(ret.Results) >= 1 {
					if c, ok := ret.Results[0].(*ssa.Const); !ok || c.String() != cut {
						otherReturn = true
					}
				}
			})
			if otherReturn {
				out = append(out, cutFunc{fn, pi, cut})
			}
		}
	}
	sort.Slice(out, func(i, j int) bool { return FuncName(out[i].fn) < FuncName(out[j].fn) })
	return out
}

// checkCutScopes applies the rule to the given cut functions; keyPrefix distinguishes properties.
func checkCutScopes(p *Prog, r *RuleResult, cuts []cutFunc) {
	for _, cf := range cuts {
		name := FuncName(cf.fn)
		sites := 0
		for _, caller := range p.ModuleFuncs() {
			if caller == cf.fn {
				continue
			}
			var loops map[*ssa.BasicBlock]map[*ssa.BasicBlock]bool
			eachInstr(caller, func(b *ssa.BasicBlock, in ssa.Instruction) {
				call, ok := in.(ssa.CallInstruction)
				if !ok || calleeOf(call) != cf.fn {
					return
				}
				sites++
				r.Instances++
				key := fmt.Sprintf("%s called from %s #%d", name, FuncName(caller), sites)
				arg := call.Common().Args[cf.param]
				// look through a local variable cell
				if u, ok := arg.(*ssa.UnOp); ok && u.Op == token.MUL {
					if al, ok := u.X.(*ssa.Alloc); ok {
						if v := uniqueStoreTo(al); v != nil {
							arg = v
						}
					}
				}
				mm, ok := arg.(*ssa.MakeMap)
				if !ok {
					r.Fail(key, p.Pos(in.Pos()), fmt.Sprintf("%s cuts cycles with the provisional answer %s for nodes in its visited set, so the set must be created for each traversal; here it is %s, not a map made for this call", name, cf.cutConst, describeVal(arg)))
					return
				}
				if mm.Parent() != caller {
					r.Fail(key, p.Pos(in.Pos()), "the visited set is created in a different function than the traversal it belongs to")
					return
				}
				if loops == nil {
					loops = naturalLoops(caller)
				}
				for h, body := range loops {
					if body[b] && !body[mm.Block()] {
						r.Fail(key, p.Pos(in.Pos()), fmt.Sprintf("%s cuts cycles with the provisional answer %s for nodes already in its visited set; the set passed here is created outside the loop headed at block %d (%s) and so survives from one traversal root to the next: a node cut in an earlier traversal keeps the provisional answer", name, cf.cutConst, h.Index, p.Pos(mm.Pos())))
						return
					}
				}
				// the map must not be used by anything but traversals started here
				if refs := mm.Referrers(); refs != nil {
					for _, rf := range *refs {
						if st, ok := rf.(*ssa.Store); ok && st.Val == ssa.Value(mm) {
							if _, isLocal := st.Addr.(*ssa.Alloc); !isLocal {
								r.Fail(key, p.Pos(in.Pos()), "the visited set is also stored into longer-lived state")
								return
							}
						}
					}
				}
				r.OK(key, true, "visited set made at "+p.Pos(mm.Pos())+" in the same loop nest as the call")
			})
		}
		if sites == 0 {
			r.Note(name + ": no external call site")
		}
	}
}

func describeVal(v ssa.Value) string {
	switch x := v.(type) {
	case *ssa.Parameter:
		return "the caller's parameter " + x.Name()
	case *ssa.FreeVar:
		return "the captured variable " + x.Name()
	case *ssa.UnOp:
		if fa, ok := x.X.(*ssa.FieldAddr); ok {
			return "the field " + fieldAddrName(fa)
		}
	}
	return v.String()
}
