package main

import (
	"fmt"
	"go/ast"
	"go/token"
	"go/types"
	"sort"
	"strings"

	"golang.org/x/tools/go/packages"
)

func init() {
	register(&Property{
		ID:          "C04",
		Explanation: "Decides one structural necessary condition of 'tree shaking removes only unobservable code': the purity classifier (js_ast ExprCanBeRemovedIfUnused / StmtsCanBeRemovedIfUnused) answers 'removable' unconditionally only for expression and statement kinds in an independent ECMAScript-derived table of effect-free kinds, answers 'removable if the operands are' only for operators that perform no implicit ToPrimitive/ToString/ToNumber and cannot throw, keeps the required guards on ==/!= and relational operators and on templates, and falls back to 'not removable' for everything else. An operator or node kind added to a pure case only makes more code disappear, which snapshot tests cannot distinguish from better tree shaking. R2 (operand coverage) additionally decides, on the SSA control-flow graph of the three judges, that every field of an AST node that can hold evaluated code (enumerated from the type definitions) is judged, found nil/empty or type-tested on every path that reaches a 'removable' answer or the next loop iteration; a child skipped under some condition (e.g. a destructuring default that is not examined when the initialiser has an element at that index) is reported with the path. R4 shared-ast-immutability: the C09/R2 frozen-AST analysis. R5 process-wide-state-immutable: E-GLOB (no store through a value obtained from a package-level variable, shallow copies included, outside the owner's guarded update). R6 glob-wildcard-pretest: globstarToEscapedRegexp answers a constant 'no wildcard' only after excluding every character its scanning loop treats as a wildcard. R7 date-argument-purity-table (shared with C01/R10). R8 inlined-calls-match-counted-calls: no flag look-up feeding an IsEmptyFunction/IsIdentityFunction test in js_printer reads ECall.OptionalChain. NOT covered: the liveness traversal, package.json sideEffects, dangling references (graph facts), user annotations.",
		Run: func(p *Prog, tier string) []*RuleResult {
			return []*RuleResult{c04PurityTable(p), c04OperandCoverage(p), renamed(c03PrimitiveTransfer(p), "C04/R3 primitive-type-transfer", "the removal judges trust KnownPrimitiveType != Unknown to mean 'ToString/ToPrimitive cannot run user code' (template substitutions, relational operators, ==): every row of its behaviour table must over-approximate the ECMAScript type-transfer function (same analysis as C03/R3)"), renamed(c09Frozen(p), "C04/R4 shared-ast-immutability", "tree shaking decides liveness per link on ASTs shared with other links and later rebuilds: substituting references to (possibly removed) declarations into shared AST memory leaves the next link with code that refers to bindings it tree-shook away (same analysis as C09/R2)"), globalSharedImmutability(p, "C04/R5 process-wide-state-immutable"), c04GlobWildcardPretest(p), dateArgumentPurity(p, "C04/R7 date-argument-purity-table"), c04InlinedCallsMatchCounted(p)}
		},
	})
}

// expression kinds for which "removable" may be returned without looking at anything
var c04UnconditionalExprs = map[string]string{
	"ENull": "literal", "EUndefined": "literal", "EMissing": "array hole", "EBoolean": "literal", "ENumber": "literal", "EBigInt": "literal",
	"EString": "literal", "EThis": "reading this", "ERegExp": "literal (allocation only)", "EFunction": "closure creation", "EArrow": "closure creation",
	"EImportMeta": "import.meta", "EImportIdentifier": "documented assumption: ES import bindings are side-effect free",
}

// operators: mode "operands" (removable iff operands are), "guard:<callee>" (operands + named guard), "special" (reviewed special case)
var c04UnaryOps = map[string]string{
	"UnOpVoid":   "operands",
	"UnOpNot":    "operands",
	"UnOpTypeof": "operands", // plus the documented `typeof identifier` special case
	"UnOpNeg":    "special:only a negated bigint literal (type assertion to *EBigInt)",
}

var c04BinaryOps = map[string]string{
	"BinOpStrictEq": "operands", "BinOpStrictNe": "operands", "BinOpComma": "operands", "BinOpNullishCoalescing": "operands",
	"BinOpLogicalOr": "operands", "BinOpLogicalAnd": "operands",
	"BinOpLooseEq": "guard:CanChangeStrictToLoose", "BinOpLooseNe": "guard:CanChangeStrictToLoose",
	"BinOpLt": "guard:KnownPrimitiveType", "BinOpGt": "guard:KnownPrimitiveType", "BinOpLe": "guard:KnownPrimitiveType", "BinOpGe": "guard:KnownPrimitiveType",
}

var c04UnconditionalStmts = map[string]string{
	"SFunction": "hoisted declaration", "SEmpty": "no-op", "SImport": "removability of the import itself is decided by the linker from the imported file's side-effect status",
	"SExportFrom": "exports are tracked separately by the linker",
}

func findFuncDecl(pk *packages.Package, recvType, name string) *ast.FuncDecl {
	for _, f := range pk.Syntax {
		for _, d := range f.Decls {
			fd, ok := d.(*ast.FuncDecl)
			if !ok || fd.Name.Name != name || fd.Body == nil {
				continue
			}
			if recvType == "" && fd.Recv == nil {
				return fd
			}
			if fd.Recv != nil && len(fd.Recv.List) > 0 && strings.TrimPrefix(types.ExprString(fd.Recv.List[0].Type), "*") == recvType {
				return fd
			}
		}
	}
	return nil
}

func caseTypeNames(pk *packages.Package, cc *ast.CaseClause) []string {
	var out []string
	for _, e := range cc.List {
		t := pk.TypesInfo.TypeOf(e)
		if pt, ok := t.(*types.Pointer); ok {
			t = pt.Elem()
		}
		if nt, ok := t.(*types.Named); ok {
			out = append(out, nt.Obj().Name())
		}
	}
	return out
}

func isReturnBool(s ast.Stmt, val string) bool {
	rs, ok := s.(*ast.ReturnStmt)
	if !ok || len(rs.Results) != 1 {
		return false
	}
	id, ok := rs.Results[0].(*ast.Ident)
	return ok && id.Name == val
}

// returnsIn collects the return expressions of a statement list (not descending into closures).
func returnsIn(stmts []ast.Stmt) []ast.Expr {
	var out []ast.Expr
	for _, s := range stmts {
		ast.Inspect(s, func(n ast.Node) bool {
			switch x := n.(type) {
			case *ast.FuncLit:
				return false
			case *ast.ReturnStmt:
				if len(x.Results) == 1 {
					out = append(out, x.Results[0])
				}
			}
			return true
		})
	}
	return out
}

func exprCalls(e ast.Expr, callee string, argSuffix string) bool {
	found := false
	ast.Inspect(e, func(n ast.Node) bool {
		c, ok := n.(*ast.CallExpr)
		if !ok {
			return true
		}
		name := ""
		switch f := c.Fun.(type) {
		case *ast.SelectorExpr:
			name = f.Sel.Name
		case *ast.Ident:
			name = f.Name
		}
		if name == callee {
			if argSuffix == "" {
				found = true
			} else {
				for _, a := range c.Args {
					if strings.HasSuffix(types.ExprString(a), argSuffix) {
						found = true
					}
				}
			}
		}
		return true
	})
	return found
}

func c04PurityTable(p *Prog) *RuleResult {
	r := NewRule("C04/R1 purity-table", "the purity classifier says 'removable' unconditionally, or 'removable if the operands are', only for the kinds and operators of the ECMAScript-derived table")
	pk := p.ByPath[modPath+"/internal/js_ast"]
	if !r.Anchor("package js_ast", pk != nil) {
		return r
	}
	fd := findFuncDecl(pk, "HelperContext", "ExprCanBeRemovedIfUnused")
	if !r.Anchor("js_ast.(HelperContext).ExprCanBeRemovedIfUnused", fd != nil) {
		return r
	}
	pos := func(n ast.Node) string { return p.Pos(n.Pos()) }
	// conservative default
	r.Instances++
	if n := len(fd.Body.List); n > 0 && isReturnBool(fd.Body.List[n-1], "false") {
		r.OK("ExprCanBeRemovedIfUnused default", true, "falls through to `return false`")
	} else {
		r.Fail("ExprCanBeRemovedIfUnused default", pos(fd), "the classifier no longer ends with the conservative `return false`")
	}
	var ts *ast.TypeSwitchStmt
	for _, s := range fd.Body.List {
		if t, ok := s.(*ast.TypeSwitchStmt); ok {
			ts = t
		}
	}
	if !r.Anchor("ExprCanBeRemovedIfUnused type switch", ts != nil) {
		return r
	}
	seenUn, seenBin := map[string]bool{}, map[string]bool{}
	for _, c := range ts.Body.List {
		cc := c.(*ast.CaseClause)
		kinds := caseTypeNames(pk, cc)
		if cc.List == nil {
			r.Instances++
			rets := returnsIn(cc.Body)
			bad := false
			for _, e := range rets {
				if id, ok := e.(*ast.Ident); !ok || id.Name != "false" {
					bad = true
				}
			}
			if bad {
				r.Fail("ExprCanBeRemovedIfUnused default clause", pos(cc), "the default clause can return something other than false")
			} else {
				r.OK("ExprCanBeRemovedIfUnused default clause", true, "returns false")
			}
			continue
		}
		uncond := len(cc.Body) > 0 && isReturnBool(cc.Body[0], "true")
		for _, k := range kinds {
			switch {
			case uncond:
				r.Instances++
				key := "ExprCanBeRemovedIfUnused unconditional " + k
				if why, ok := c04UnconditionalExprs[k]; ok {
					r.OK(key, true, "in the table of effect-free kinds: "+why)
				} else {
					r.Fail(key, pos(cc), "expression kind "+k+" is classified as removable without inspecting it, but it is not in the table of effect-free kinds (evaluating it can run code or throw)")
				}
			case k == "EUnary" || k == "EBinary":
				table := c04UnaryOps
				seen := seenUn
				operands := []string{".Value"}
				if k == "EBinary" {
					table, seen, operands = c04BinaryOps, seenBin, []string{".Left", ".Right"}
				}
				var sw *ast.SwitchStmt
				for _, s := range cc.Body {
					if x, ok := s.(*ast.SwitchStmt); ok {
						sw = x
					}
				}
				if sw == nil {
					r.Instances++
					r.Fail("ExprCanBeRemovedIfUnused "+k+" operator switch", pos(cc), "operator switch not found")
					continue
				}
				// statements outside the operator switch must not return true
				for _, s := range cc.Body {
					if s == ast.Stmt(sw) {
						continue
					}
					for _, e := range returnsIn([]ast.Stmt{s}) {
						if id, ok := e.(*ast.Ident); !ok || id.Name != "false" {
							r.Instances++
							r.Fail("ExprCanBeRemovedIfUnused "+k+" outside operator switch", pos(s), "a return outside the operator switch can classify any "+k+" as removable")
						}
					}
				}
				for _, ic := range sw.Body.List {
					icc := ic.(*ast.CaseClause)
					var ops []string
					for _, e := range icc.List {
						ops = append(ops, types.ExprString(e))
					}
					if icc.List == nil {
						ops = []string{"default"}
					}
					rets := returnsIn(icc.Body)
					for _, op := range ops {
						r.Instances++
						seen[op] = true
						key := "ExprCanBeRemovedIfUnused " + k + " " + op
						mode, ok := table[op]
						if !ok {
							// a case that can only return false is fine
							onlyFalse := true
							for _, e := range rets {
								if id, ok := e.(*ast.Ident); !ok || id.Name != "false" {
									onlyFalse = false
								}
							}
							if onlyFalse {
								r.OK(key+" (never removable)", false, "")
							} else {
								r.Fail(key, pos(icc), "operator "+op+" can be classified as removable but is not in the table of coercion-free, non-throwing operators")
							}
							continue
						}
						good := true
						why := ""
						for _, e := range rets {
							if id, ok := e.(*ast.Ident); ok && id.Name == "false" {
								continue
							}
							if strings.HasPrefix(mode, "special") {
								continue
							}
							if id, ok := e.(*ast.Ident); ok && id.Name == "true" {
								// only allowed directly under an `if` inside the case (the documented typeof special case)
								if op != "UnOpTypeof" {
									good, why = false, "returns true without consulting the operands"
								}
								continue
							}
							for _, o := range operands {
								if !exprCalls(e, "ExprCanBeRemovedIfUnused", o) {
									good, why = false, "a return does not require operand "+o+" to be removable"
								}
							}
							if strings.HasPrefix(mode, "guard:") && !exprCalls(e, strings.TrimPrefix(mode, "guard:"), "") {
								// the guard may be evaluated in a preceding statement of the same case
								inCase := false
								for _, s := range icc.Body {
									ast.Inspect(s, func(n ast.Node) bool {
										if ce, ok := n.(ast.Expr); ok && exprCalls(ce, strings.TrimPrefix(mode, "guard:"), "") {
											inCase = true
										}
										return !inCase
									})
								}
								if !inCase {
									good, why = false, "the guard "+strings.TrimPrefix(mode, "guard:")+" is missing"
								}
							}
						}
						if good {
							r.OK(key, true, "mode "+mode)
						} else {
							r.Fail(key, pos(icc), "operator "+op+" ("+mode+"): "+why)
						}
					}
				}
			case k == "ETemplate":
				r.Instances++
				ok := false
				for _, s := range cc.Body {
					ast.Inspect(s, func(n ast.Node) bool {
						if e, isE := n.(ast.Expr); isE && exprCalls(e, "KnownPrimitiveType", "") {
							ok = true
						}
						return true
					})
				}
				if ok {
					r.OK("ExprCanBeRemovedIfUnused ETemplate", true, "requires every substitution to have a known primitive type (ToString without side effects)")
				} else {
					r.Fail("ExprCanBeRemovedIfUnused ETemplate", pos(cc), "template substitutions are no longer required to be known primitives: ToString on an object can run user code")
				}
			}
		}
	}
	// every table operator is still there (else the table went stale silently)
	var missing []string
	for op := range c04UnaryOps {
		if !seenUn[op] {
			missing = append(missing, op)
		}
	}
	for op := range c04BinaryOps {
		if !seenBin[op] {
			missing = append(missing, op)
		}
	}
	sort.Strings(missing)
	if len(missing) > 0 {
		r.Note("table operators without a case today (stale table entries): %v", missing)
	}
	// statements
	sd := findFuncDecl(pk, "HelperContext", "StmtsCanBeRemovedIfUnused")
	if r.Anchor("js_ast.(HelperContext).StmtsCanBeRemovedIfUnused", sd != nil) {
		var sts *ast.TypeSwitchStmt
		ast.Inspect(sd.Body, func(n ast.Node) bool {
			if t, ok := n.(*ast.TypeSwitchStmt); ok && sts == nil {
				sts = t
			}
			return sts == nil
		})
		if r.Anchor("StmtsCanBeRemovedIfUnused type switch", sts != nil) {
			for _, c := range sts.Body.List {
				cc := c.(*ast.CaseClause)
				if cc.List == nil {
					r.Instances++
					if len(cc.Body) > 0 && isReturnBool(cc.Body[len(cc.Body)-1], "false") {
						r.OK("StmtsCanBeRemovedIfUnused default clause", true, "returns false")
					} else {
						r.Fail("StmtsCanBeRemovedIfUnused default clause", pos(cc), "statements that are not special-cased are no longer assumed to have side effects")
					}
					continue
				}
				for _, k := range caseTypeNames(pk, cc) {
					if len(cc.Body) != 0 {
						continue
					}
					r.Instances++
					key := "StmtsCanBeRemovedIfUnused unconditional " + k
					if why, ok := c04UnconditionalStmts[k]; ok {
						r.OK(key, true, why)
					} else {
						r.Fail(key, pos(cc), "statement kind "+k+" is accepted as removable without any check but is not in the table")
					}
				}
			}
		}
	}
	_ = token.NoPos
	_ = fmt.Sprint
	r.Floor(30)
	return r
}
