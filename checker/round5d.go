package main

import (
	"fmt"
	"strings"

	"golang.org/x/tools/go/ssa"
)

// ---------------------------------------------------------------------------------------------
// C19/R7 import-kind-matches-printed-form.
//
// The metafile's "kind" of an output's import is written by printPath from its importKind argument.
// What the output file really contains is whatever the printer printed just before: `require(`,
// `import(`, `require.resolve(`, or an import/export statement. An `import()` that is lowered to
// `Promise.resolve().then(() => require(…))` is a require-call in the emitted file, whatever the
// import record says about the source. Rule: at every printPath call the kind is a constant (or a
// phi of constants), and for each constant the nearest keyword printed before it on every path
// agrees with it.
func c19KindMatchesForm(p *Prog) *RuleResult {
	r := NewRule("C19/R7 import-kind-matches-printed-form", "the import kind the JS printer records for the metafile is the kind of the construct it just printed (require( → require-call, import( → dynamic-import, require.resolve( → require-resolve, statement → import-statement), never the kind stored in the import record")
	ap := p.ByPath[modPath+"/internal/ast"]
	target := p.FindFunc("js_printer.(*printer).printPath")
	if !r.Anchor("package ast", ap != nil) || !r.Anchor("js_printer.(*printer).printPath", target != nil) {
		return r
	}
	kinds := constsOfType(ap.Types, "ImportKind")
	nameOf := map[int64]string{}
	for n, v := range kinds {
		nameOf[v] = n
	}
	if !r.Anchor("ast.ImportKind constants", len(kinds) >= 5) {
		return r
	}
	// classify a printed constant / identifier event
	classify := func(in ssa.Instruction) string {
		c, ok := in.(*ssa.Call)
		if !ok {
			return ""
		}
		name := calleeFullName(c)
		if strings.HasSuffix(name, "js_printer.(*printer).print") && len(c.Call.Args) == 2 {
			if s, ok := constString(c.Call.Args[1]); ok {
				switch {
				case strings.Contains(s, "require.resolve"):
					return "ImportRequireResolve"
				case strings.Contains(s, "require"):
					return "ImportRequire"
				case strings.HasPrefix(s, "import(") || strings.HasPrefix(s, "import."):
					return "ImportDynamic"
				case s == "import" || s == "from" || s == "export" || strings.HasPrefix(s, "import ") || strings.HasPrefix(s, "export "):
					return "ImportStmt"
				}
			}
		}
		return ""
	}
	isRuntimeRequire := func(in ssa.Instruction) bool {
		fa, ok := in.(*ssa.FieldAddr)
		return ok && fieldAddrName(fa) == "RuntimeRequireRef"
	}
	// nearest classified events walking backwards from (block, index)
	nearest := func(b *ssa.BasicBlock, idx int) map[string]bool {
		out := map[string]bool{}
		type pt struct {
			b *ssa.BasicBlock
			i int
		}
		seen := map[*ssa.BasicBlock]bool{}
		work := []pt{{b, idx}}
		for len(work) > 0 {
			w := work[len(work)-1]
			work = work[:len(work)-1]
			found := false
			for i := w.i - 1; i >= 0; i-- {
				in := w.b.Instrs[i]
				if k := classify(in); k != "" {
					out[k] = true
					found = true
					break
				}
				if isRuntimeRequire(in) {
					out["ImportRequire"] = true
					found = true
					break
				}
			}
			if found {
				continue
			}
			if len(w.b.Preds) == 0 {
				out["(function entry)"] = true
			}
			for _, pr := range w.b.Preds {
				if !seen[pr] {
					seen[pr] = true
					work = append(work, pt{pr, len(pr.Instrs)})
				}
			}
		}
		return out
	}
	n := 0
	for _, fn := range p.ModuleFuncs() {
		if pkgPathOf(fn) != modPath+"/internal/js_printer" {
			continue
		}
		k := 0
		eachInstr(fn, func(b *ssa.BasicBlock, in ssa.Instruction) {
			c, ok := in.(*ssa.Call)
			if !ok || c.Call.StaticCallee() != target {
				return
			}
			n++
			k++
			kindArg := c.Call.Args[len(c.Call.Args)-1]
			type item struct {
				k   int64
				b   *ssa.BasicBlock
				idx int
			}
			var items []item
			idxOf := func(b *ssa.BasicBlock, in ssa.Instruction) int {
				for i, x := range b.Instrs {
					if x == in {
						return i
					}
				}
				return len(b.Instrs)
			}
			nonConst := false
			var expand func(v ssa.Value, b *ssa.BasicBlock, idx int, depth int)
			expand = func(v ssa.Value, bb *ssa.BasicBlock, idx int, depth int) {
				if kv, ok := constInt(v); ok {
					items = append(items, item{kv, bb, idx})
					return
				}
				if ph, ok := v.(*ssa.Phi); ok && depth < 6 {
					for i, e := range ph.Edges {
						pr := ph.Block().Preds[i]
						expand(e, pr, len(pr.Instrs), depth+1)
					}
					return
				}
				nonConst = true
			}
			expand(kindArg, b, idxOf(b, c), 0)
			r.Instances++
			key := fmt.Sprintf("%s printPath call #%d", FuncName(fn), k)
			if nonConst {
				r.Fail(key, p.Pos(c.Pos()), "the import kind recorded for the metafile is not a constant decided by the branch that printed the construct (it is "+ssaExpr(kindArg, 0)+"): the kind of the import record describes the source, not what was emitted — an import() lowered to require() is a require-call in the output file")
				return
			}
			var bad []string
			for _, it := range items {
				want := nameOf[it.k]
				got := nearest(it.b, it.idx)
				for g := range got {
					if g == "(function entry)" {
						continue // nothing printed on that path inside this function
					}
					if g != want {
						bad = append(bad, fmt.Sprintf("kind %s is recorded where the construct printed before it is a %s", want, g))
					}
				}
			}
			if len(bad) == 0 {
				r.OK(key, true, fmt.Sprintf("%d constant kind(s), each agreeing with the keyword printed before it on every path", len(items)))
			} else {
				r.Fail(key, p.Pos(c.Pos()), bad[0]+": the metafile's import kind differs from the import the output file really contains")
			}
		})
	}
	if !r.Anchor("printPath call sites", n >= 5) {
		return r
	}
	r.Floor(5)
	return r
}
