package main

import (
	"fmt"
	"go/ast"
	"go/token"
	"go/types"
	"sort"
	"strings"

	"golang.org/x/tools/go/packages"
)

// E-EQ: field coverage of an equality function.
//
// For a function/method comparing two operands A and B of (pointer to) struct type T, collect every
// access path (chain of field selectors, with index/deref/slice steps elided) read through each
// operand, following local aliases (x := a.F, for _, x := range a.F, x, ok := b.(*T)).
// A use of a path is "whole" when the value at that path escapes into a comparison with a non-nil
// value, a call argument, a method receiver or any other expression; it is "shallow" when it only
// feeds len(), a nil comparison, or is the base of a longer path / index / range.
// Obligation per field F of T: F is whole-read on both operands, or F's type is (a slice/pointer/array
// of) a struct declared in the module and the obligation holds recursively for its fields, or F's
// type is an ignored type (locations), or a slice of ignored elements whose len() is read on both
// sides, or F is in the ignore table.

type eqSide int

type eqUse struct {
	whole   bool
	shallow bool
}

type eqAnalysis struct {
	pkg    *packages.Package
	sides  map[types.Object][2]interface{} // obj -> {side int, path string}
	uses   [2]map[string]*eqUse
	selfFn types.Object
}

func (ea *eqAnalysis) use(side int, path string, whole bool) {
	u := ea.uses[side][path]
	if u == nil {
		u = &eqUse{}
		ea.uses[side][path] = u
	}
	if whole {
		u.whole = true
	} else {
		u.shallow = true
	}
}

// rootOf resolves an expression to (side, path) if it is rooted at an operand.
func (ea *eqAnalysis) rootOf(e ast.Expr) (int, string, bool) {
	switch x := e.(type) {
	case *ast.Ident:
		obj := ea.pkg.TypesInfo.Uses[x]
		if obj == nil {
			obj = ea.pkg.TypesInfo.Defs[x]
		}
		if s, ok := ea.sides[obj]; ok {
			return s[0].(int), s[1].(string), true
		}
	case *ast.ParenExpr:
		return ea.rootOf(x.X)
	case *ast.StarExpr:
		return ea.rootOf(x.X)
	case *ast.UnaryExpr:
		if x.Op == token.AND {
			return ea.rootOf(x.X)
		}
	case *ast.IndexExpr:
		return ea.rootOf(x.X)
	case *ast.SliceExpr:
		return ea.rootOf(x.X)
	case *ast.TypeAssertExpr:
		return ea.rootOf(x.X)
	case *ast.SelectorExpr:
		if sel, ok := ea.pkg.TypesInfo.Selections[x]; ok && sel.Kind() == types.FieldVal {
			if s, p, ok := ea.rootOf(x.X); ok {
				// include embedded path components
				cur := sel.Recv()
				path := p
				for _, idx := range sel.Index() {
					st := structOf(cur)
					if st == nil {
						break
					}
					f := st.Field(idx)
					if path == "" {
						path = f.Name()
					} else {
						path = path + "." + f.Name()
					}
					cur = f.Type()
				}
				return s, path, true
			}
		}
	}
	return 0, "", false
}

func structOf(t types.Type) *types.Struct {
	for {
		switch u := t.Underlying().(type) {
		case *types.Pointer:
			t = u.Elem()
			continue
		case *types.Struct:
			return u
		}
		return nil
	}
}

func isNilExpr(pkg *packages.Package, e ast.Expr) bool {
	if tv, ok := pkg.TypesInfo.Types[e]; ok && tv.IsNil() {
		return true
	}
	return false
}

// walk visits the expression; ctxWhole tells whether the value of e itself is consumed wholly.
func (ea *eqAnalysis) walk(e ast.Expr, shallowCtx bool) {
	if e == nil {
		return
	}
	if s, p, ok := ea.rootOf(e); ok {
		// record use for the path of this expression
		if p != "" {
			ea.use(s, p, !shallowCtx)
			// every proper prefix is used structurally (shallow)
			parts := strings.Split(p, ".")
			for i := 1; i < len(parts); i++ {
				ea.use(s, strings.Join(parts[:i], "."), false)
			}
		} else if !shallowCtx {
			// whole operand used (e.g. *a == *b, a == b): covers everything
			ea.use(s, "", true)
		}
		// still walk index expressions inside
		ast.Inspect(e, func(n ast.Node) bool {
			if ie, ok := n.(*ast.IndexExpr); ok {
				ea.walk(ie.Index, false)
			}
			return true
		})
		return
	}
	switch x := e.(type) {
	case *ast.ParenExpr:
		ea.walk(x.X, shallowCtx)
	case *ast.BinaryExpr:
		if (x.Op == token.EQL || x.Op == token.NEQ) && (isNilExpr(ea.pkg, x.X) || isNilExpr(ea.pkg, x.Y)) {
			ea.walk(x.X, true)
			ea.walk(x.Y, true)
		} else {
			ea.walk(x.X, false)
			ea.walk(x.Y, false)
		}
	case *ast.UnaryExpr:
		ea.walk(x.X, false)
	case *ast.StarExpr:
		ea.walk(x.X, false)
	case *ast.CallExpr:
		if id, ok := x.Fun.(*ast.Ident); ok && (id.Name == "len" || id.Name == "cap") {
			if _, isBuiltin := ea.pkg.TypesInfo.Uses[id].(*types.Builtin); isBuiltin {
				for _, a := range x.Args {
					ea.walk(a, true)
				}
				return
			}
		}
		// method call receiver
		if sel, ok := x.Fun.(*ast.SelectorExpr); ok {
			if s, ok2 := ea.pkg.TypesInfo.Selections[sel]; ok2 && (s.Kind() == types.MethodVal) {
				ea.walk(sel.X, false)
			} else {
				ea.walk(x.Fun, false)
			}
		} else {
			ea.walk(x.Fun, false)
		}
		for _, a := range x.Args {
			ea.walk(a, false)
		}
	case *ast.SelectorExpr:
		ea.walk(x.X, false)
	case *ast.IndexExpr:
		ea.walk(x.X, true)
		ea.walk(x.Index, false)
	case *ast.SliceExpr:
		ea.walk(x.X, false)
	case *ast.TypeAssertExpr:
		ea.walk(x.X, false)
	case *ast.CompositeLit:
		for _, el := range x.Elts {
			if kv, ok := el.(*ast.KeyValueExpr); ok {
				ea.walk(kv.Value, false)
			} else {
				ea.walk(el, false)
			}
		}
	case *ast.FuncLit:
		ea.walkStmt(x.Body)
	case *ast.KeyValueExpr:
		ea.walk(x.Value, false)
	}
}

func (ea *eqAnalysis) alias(lhs ast.Expr, rhs ast.Expr) bool {
	id, ok := lhs.(*ast.Ident)
	if !ok || id.Name == "_" {
		return false
	}
	obj := ea.pkg.TypesInfo.Defs[id]
	if obj == nil {
		obj = ea.pkg.TypesInfo.Uses[id]
	}
	if obj == nil {
		return false
	}
	if s, p, ok := ea.rootOf(rhs); ok {
		ea.sides[obj] = [2]interface{}{s, p}
		return true
	}
	return false
}

func (ea *eqAnalysis) walkStmt(s ast.Stmt) {
	switch x := s.(type) {
	case nil:
	case *ast.BlockStmt:
		for _, st := range x.List {
			ea.walkStmt(st)
		}
	case *ast.ExprStmt:
		ea.walk(x.X, false)
	case *ast.AssignStmt:
		if len(x.Lhs) == len(x.Rhs) {
			for i := range x.Lhs {
				if ea.alias(x.Lhs[i], x.Rhs[i]) {
					// structural use
					ea.walk(x.Rhs[i], true)
				} else {
					ea.walk(x.Rhs[i], false)
				}
			}
		} else if len(x.Rhs) == 1 {
			// v, ok := b.(*T)
			if ta, ok := x.Rhs[0].(*ast.TypeAssertExpr); ok && ea.alias(x.Lhs[0], ta.X) {
				ea.walk(ta.X, true)
			} else {
				ea.walk(x.Rhs[0], false)
			}
		}
	case *ast.DeclStmt:
		if gd, ok := x.Decl.(*ast.GenDecl); ok {
			for _, sp := range gd.Specs {
				if vs, ok := sp.(*ast.ValueSpec); ok {
					for i, v := range vs.Values {
						if i < len(vs.Names) && ea.alias(vs.Names[i], v) {
							ea.walk(v, true)
						} else {
							ea.walk(v, false)
						}
					}
				}
			}
		}
	case *ast.ReturnStmt:
		for _, r := range x.Results {
			ea.walk(r, false)
		}
	case *ast.IfStmt:
		ea.walkStmt(x.Init)
		ea.walk(x.Cond, false)
		ea.walkStmt(x.Body)
		ea.walkStmt(x.Else)
	case *ast.ForStmt:
		ea.walkStmt(x.Init)
		ea.walk(x.Cond, false)
		ea.walkStmt(x.Post)
		ea.walkStmt(x.Body)
	case *ast.RangeStmt:
		if x.Value != nil && ea.alias(x.Value, x.X) {
			ea.walk(x.X, true)
		} else {
			ea.walk(x.X, true)
		}
		ea.walkStmt(x.Body)
	case *ast.SwitchStmt:
		ea.walkStmt(x.Init)
		ea.walk(x.Tag, false)
		ea.walkStmt(x.Body)
	case *ast.TypeSwitchStmt:
		ea.walkStmt(x.Init)
		ea.walkStmt(x.Assign)
		ea.walkStmt(x.Body)
	case *ast.CaseClause:
		for _, e := range x.List {
			ea.walk(e, false)
		}
		for _, st := range x.Body {
			ea.walkStmt(st)
		}
	case *ast.IncDecStmt:
		ea.walk(x.X, false)
	case *ast.LabeledStmt:
		ea.walkStmt(x.Stmt)
	}
}

type eqSpec struct {
	pkgPath string
	fn      *ast.FuncDecl
	pkg     *packages.Package
	name    string // semantic name
	typ     *types.Named
	objA    types.Object
	objB    types.Object
	// bIsIface: operand B is an interface that is type-asserted to *T
}

func namedOf(t types.Type) *types.Named {
	if p, ok := t.(*types.Pointer); ok {
		t = p.Elem()
	}
	n, _ := t.(*types.Named)
	return n
}

// analyseEq runs the analysis on one function with receiver/first operand objA and second operand objB.
func analyseEq(pkg *packages.Package, fn *ast.FuncDecl, objA, objB types.Object) *eqAnalysis {
	ea := &eqAnalysis{pkg: pkg, sides: map[types.Object][2]interface{}{}}
	ea.uses[0] = map[string]*eqUse{}
	ea.uses[1] = map[string]*eqUse{}
	ea.sides[objA] = [2]interface{}{0, ""}
	ea.sides[objB] = [2]interface{}{1, ""}
	ea.walkStmt(fn.Body)
	return ea
}

type eqIgnore struct {
	ignoredTypes map[string]bool // fully-qualified type names whose content is not semantic
	table        ExcTable        // key: "<funcname> <Type>.<path>"
}

func typeKey(t types.Type) string {
	if n, ok := t.(*types.Named); ok && n.Obj().Pkg() != nil {
		return shortPkg(n.Obj().Pkg().Path()) + "." + n.Obj().Name()
	}
	return t.String()
}

func elemType(t types.Type) (types.Type, bool) {
	switch u := t.Underlying().(type) {
	case *types.Slice:
		return u.Elem(), true
	case *types.Array:
		return u.Elem(), true
	case *types.Pointer:
		return u.Elem(), true
	}
	return nil, false
}

// checkEqCoverage emits one obligation per (transitively reachable) field of T.
func checkEqCoverage(r *RuleResult, p *Prog, fname string, ea *eqAnalysis, T *types.Named, ign *eqIgnore, pos string) {
	if u := ea.uses[0][""]; u != nil && u.whole {
		if v := ea.uses[1][""]; v != nil && v.whole {
			r.OK(fname+" "+typeKey(T)+".*", true, "whole-struct comparison covers every field")
			return
		}
	}
	var visit func(t types.Type, prefix string, depth int)
	visit = func(t types.Type, prefix string, depth int) {
		st := structOf(t)
		if st == nil || depth > 6 {
			return
		}
		for i := 0; i < st.NumFields(); i++ {
			f := st.Field(i)
			path := f.Name()
			if prefix != "" {
				path = prefix + "." + f.Name()
			}
			key := fmt.Sprintf("%s %s.%s", fname, typeKey(T), path)
			ft := f.Type()
			if ign.ignoredTypes[typeKey(ft)] {
				continue
			}
			ua, ub := ea.uses[0][path], ea.uses[1][path]
			if _, listed := ign.table[key]; listed {
				r.CheckExc(ign.table, key)
				continue
			}
			if ua != nil && ub != nil && ua.whole && ub.whole {
				r.OK(key, true, "read through both operands")
				continue
			}
			if et, ok := elemType(ft); ok {
				if ign.ignoredTypes[typeKey(et)] {
					if ua != nil && ub != nil {
						r.OK(key, true, "length of location-only slice compared on both operands")
						continue
					}
				}
			}
			// recurse into module struct types
			inner := ft
			for {
				if et, ok := elemType(inner); ok {
					inner = et
					continue
				}
				break
			}
			if n, ok := inner.(*types.Named); ok && n.Obj().Pkg() != nil && strings.HasPrefix(n.Obj().Pkg().Path(), modPath) && structOf(n) != nil && (hasSubpath(ea.uses[0], path) || hasSubpath(ea.uses[1], path)) {
				if _, isStruct := n.Underlying().(*types.Struct); isStruct {
					visit(n, path, depth+1)
					continue
				}
			}
			if r.CheckExc(ign.table, key) {
				continue
			}
			side := "neither operand"
			switch {
			case ua != nil && ua.whole:
				side = "only the first operand (second: " + useDesc(ub) + ")"
			case ub != nil && ub.whole:
				side = "only the second operand (first: " + useDesc(ua) + ")"
			case ua != nil || ub != nil:
				side = "no operand by content (first: " + useDesc(ua) + ", second: " + useDesc(ub) + ")"
			}
			r.Fail(key, pos, fmt.Sprintf("field %s of %s is read through %s in %s, so two values differing only in it compare equal", path, typeKey(T), side, fname))
		}
	}
	visit(T, "", 0)
}

func hasSubpath(m map[string]*eqUse, path string) bool {
	for k := range m {
		if strings.HasPrefix(k, path+".") {
			return true
		}
	}
	return false
}

func useDesc(u *eqUse) string {
	if u == nil {
		return "never read"
	}
	if u.whole {
		return "content read"
	}
	return "only nil/len/structural reads"
}

// fieldsRead returns the set of top-level paths read (any use) through the receiver in fn.
func fieldsRead(pkg *packages.Package, fn *ast.FuncDecl, obj types.Object) []string {
	ea := &eqAnalysis{pkg: pkg, sides: map[types.Object][2]interface{}{}}
	ea.uses[0] = map[string]*eqUse{}
	ea.uses[1] = map[string]*eqUse{}
	ea.sides[obj] = [2]interface{}{0, ""}
	ea.walkStmt(fn.Body)
	var out []string
	for p, u := range ea.uses[0] {
		if p != "" && u.whole {
			out = append(out, p)
		}
	}
	sort.Strings(out)
	return out
}

// findEqOperands determines operand objects for an Equal-like FuncDecl: receiver + first param
// (if the param is an interface, it is the operand that gets type-asserted).
func findEqOperands(pkg *packages.Package, fd *ast.FuncDecl) (a, b types.Object, T *types.Named) {
	if fd.Recv == nil || len(fd.Recv.List) == 0 || len(fd.Recv.List[0].Names) == 0 {
		return nil, nil, nil
	}
	a = pkg.TypesInfo.Defs[fd.Recv.List[0].Names[0]]
	if a == nil {
		return nil, nil, nil
	}
	T = namedOf(a.Type())
	if fd.Type.Params == nil || len(fd.Type.Params.List) == 0 || len(fd.Type.Params.List[0].Names) == 0 {
		return a, nil, T
	}
	b = pkg.TypesInfo.Defs[fd.Type.Params.List[0].Names[0]]
	return a, b, T
}
