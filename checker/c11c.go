package main

import (
	"strings"

	"golang.org/x/tools/go/ssa"
)

// C11/R4 real-path provenance.
//
// Node resolves every module to its real path (fs.realpath) and continues the node_modules walk
// from there. esbuild caches, per directory entry, the real path of an entry that is a symlink
// (realFS.kind → Entry.symlink); the resolver uses it as the canonical location of the file and of
// every directory below it (dirInfo.absRealPath). The value is only canonical if it is the result
// of full symlink evaluation of the entry's path: a one-hop readlink target (chains of links, a
// relative link inside a linked directory) is not, and the resolver then looks for packages next
// to an intermediate link, where Node looks next to the real file.
// Rule: the non-empty values realFS.kind returns as `symlink` are, without further processing, the
// first result of goFilepath.evalSymlinks.
func c11RealPathProvenance(p *Prog) *RuleResult {
	r := NewRule("C11/R4 real-path-provenance", "the real path cached for a symlinked directory entry is the result of full symlink evaluation (evalSymlinks), never a one-hop link target")
	fn := p.FindFunc("fs.(*realFS).kind")
	if !r.Anchor("fs.(*realFS).kind", fn != nil) {
		return r
	}
	n := 0
	for _, b := range fn.Blocks {
		if !isReturnBlock(b) {
			continue
		}
		ret := b.Instrs[len(b.Instrs)-1].(*ssa.Return)
		if len(ret.Results) < 1 {
			continue
		}
		// collect the leaves of the first result
		var leaves []ssa.Value
		seen := map[ssa.Value]bool{}
		var walk func(v ssa.Value)
		walk = func(v ssa.Value) {
			if v == nil || seen[v] {
				return
			}
			seen[v] = true
			switch x := v.(type) {
			case *ssa.Phi:
				for _, e := range x.Edges {
					walk(e)
				}
			case *ssa.UnOp:
				// named result spilled to a cell (the function has a defer): every value stored to it
				if al, ok := x.X.(*ssa.Alloc); ok && al.Referrers() != nil {
					for _, rf := range *al.Referrers() {
						if st, ok := rf.(*ssa.Store); ok && st.Addr == ssa.Value(al) {
							walk(st.Val)
						}
					}
					return
				}
				leaves = append(leaves, v)
			default:
				leaves = append(leaves, v)
			}
		}
		walk(ret.Results[0])
		for _, lf := range leaves {
			if s, ok := constString(lf); ok && s == "" {
				continue
			}
			n++
			r.Instances++
			key := "realFS.kind symlink value"
			if ex, ok := lf.(*ssa.Extract); ok && ex.Index == 0 {
				if c, ok := ex.Tuple.(*ssa.Call); ok && strings.HasSuffix(FuncNameOf(c), "goFilepath).evalSymlinks") {
					r.OK(key, true, "the first result of evalSymlinks, unprocessed")
					continue
				}
			}
			r.Fail(key, p.Pos(lf.Pos()), "the real path recorded for a symlinked entry is "+ssaExpr(lf, 0)+", not the result of evalSymlinks: a link whose target is itself reached through links (npm link chains, a relative link inside a linked directory) gets a non-canonical 'real' path, and packages are then looked up next to the intermediate link")
		}
	}
	r.Anchor("a symlink value returned by realFS.kind", n >= 1)
	return r
}
