package main

import (
	"go/types"
	"sort"
	"strings"

	"golang.org/x/tools/go/ssa"
)

// E-WMC helpers: enumerate call sites of a target set of (standard library) functions.

type callSite struct {
	Caller *ssa.Function
	Callee string // full name, e.g. os.ReadFile or (*os.File).Write
	Instr  ssa.CallInstruction
}

func stdCalleeName(c ssa.CallInstruction) string {
	cc := c.Common()
	if cc.IsInvoke() {
		return ""
	}
	f := cc.StaticCallee()
	if f == nil || f.Object() == nil {
		return ""
	}
	fo, ok := f.Object().(*types.Func)
	if !ok || fo.Pkg() == nil {
		return ""
	}
	if strings.HasPrefix(fo.Pkg().Path(), modPath) {
		return ""
	}
	return fo.FullName()
}

// sitesOf returns all call sites (in module functions) whose static callee's full name satisfies match.
func (p *Prog) sitesOf(match func(name string) bool) []callSite {
	var out []callSite
	for _, fn := range p.ModuleFuncs() {
		eachInstr(fn, func(b *ssa.BasicBlock, in ssa.Instruction) {
			c, ok := in.(ssa.CallInstruction)
			if !ok {
				return
			}
			n := stdCalleeName(c)
			if n != "" && match(n) {
				out = append(out, callSite{fn, n, c})
			}
			// method values / function values referenced without a call (e.g. passing os.Remove)
		})
	}
	sort.SliceStable(out, func(i, j int) bool {
		a, b := FuncName(out[i].Caller), FuncName(out[j].Caller)
		if a != b {
			return a < b
		}
		return out[i].Callee < out[j].Callee
	})
	return out
}

// funcValueRefs finds places where a std function matching `match` is used as a value (not called).
func (p *Prog) funcValueRefs(match func(name string) bool) []callSite {
	var out []callSite
	for _, fn := range p.ModuleFuncs() {
		eachInstr(fn, func(b *ssa.BasicBlock, in ssa.Instruction) {
			var ops []*ssa.Value
			ops = in.Operands(ops)
			for i, op := range ops {
				if op == nil || *op == nil {
					continue
				}
				f, ok := (*op).(*ssa.Function)
				if !ok || f.Object() == nil {
					continue
				}
				if c, isCall := in.(ssa.CallInstruction); isCall && i == 0 && c.Common().Value == f {
					continue // the callee position
				}
				fo, ok := f.Object().(*types.Func)
				if !ok || fo.Pkg() == nil || strings.HasPrefix(fo.Pkg().Path(), modPath) {
					continue
				}
				if match(fo.FullName()) {
					out = append(out, callSite{fn, fo.FullName(), nil})
				}
			}
		})
	}
	return out
}
