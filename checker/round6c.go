package main

import (
	"fmt"
	"go/token"
	"os"
	"sort"
	"strings"

	"golang.org/x/tools/go/ssa"
)

// ---------------------------------------------------------------------------------------------
// C13/R12 fixed-child-levels.
//
// printExpr(child, level, …) parenthesises the child when the child's own precedence is not above
// `level`. Where the grammar fixes what may stand in a position, the level passed there is fixed
// too. The table lists such positions with the level the ECMAScript grammar requires; the rule
// compares it with the constant the printer passes. (Binary operands are decided by C13/R1 from the
// operator table; this rule covers the positions that pass a literal level.)
//
// key: <node type>.<field> ; value: required level constant name(s) of js_ast.L
var c13ChildLevels = map[string][]string{
	"js_ast.Class.ExtendsOrNil": {"LPostfix"},                   // ClassHeritage: extends LeftHandSideExpression — `B++`, `-x`, `a+b`, `await x` need parentheses
	"js_ast.EAwait.Value":       {"LExponentiation"},            // await UnaryExpression: `await (a ** b)`
	"js_ast.EUnary.Value":       {"LExponentiation", "LPrefix"}, // prefix operators take a UnaryExpression (`-(a ** b)`); postfix update takes a LeftHandSideExpression
	"js_ast.ESpread.Value":      {"LComma"},                     // ...AssignmentExpression
	"js_ast.EIf.Test":           {"LConditional"},               // ShortCircuitExpression ? … : …
	"js_ast.ECall.Target":       {"LPostfix"},                   // CallExpression: a MemberExpression / CallExpression before the arguments
	"js_ast.EDot.Target":        {"LPostfix"},                   // MemberExpression . IdentifierName
	"js_ast.EIndex.Target":      {"LPostfix"},                   // MemberExpression [ Expression ]
	"js_ast.SForOf.Value":       {"LComma"},                     // for (… of AssignmentExpression)
	"js_ast.EImportCall.Expr":   {"LComma"},                     // import(AssignmentExpression)
	"js_ast.ENew.Target":        {"LNew"},                       // new MemberExpression(...) — a call in the target needs parentheses
}

func c13FixedChildLevels(p *Prog) *RuleResult {
	r := NewRule("C13/R12 fixed-child-levels", "at the positions where the grammar fixes the syntactic category of a child (class heritage, operand of await / unary / spread, the test of a conditional, the targets of new / call / member access, the iterable of for-of, the argument of import()) the printer passes the precedence level that category requires")
	ap := p.ByPath[modPath+"/internal/js_ast"]
	target := p.FindFunc("js_printer.(*printer).printExpr")
	if !r.Anchor("package js_ast", ap != nil) || !r.Anchor("js_printer.(*printer).printExpr", target != nil) {
		return r
	}
	levels := constsOfType(ap.Types, "L")
	nameOf := map[int64]string{}
	for n, v := range levels {
		nameOf[v] = n
	}
	if !r.Anchor("js_ast.L constants", len(levels) >= 20) {
		return r
	}
	found := map[string]map[string]string{} // key -> level name -> pos
	for _, fn := range p.ModuleFuncs() {
		if pkgPathOf(fn) != modPath+"/internal/js_printer" {
			continue
		}
		eachInstr(fn, func(b *ssa.BasicBlock, in ssa.Instruction) {
			c, ok := in.(*ssa.Call)
			if !ok || c.Call.StaticCallee() != target || len(c.Call.Args) < 3 {
				return
			}
			k, ok := constInt(c.Call.Args[2])
			if !ok {
				return
			}
			owner, field, ok := loadedField(c.Call.Args[1])
			if !ok {
				return
			}
			key := owner + "." + field
			if found[key] == nil {
				found[key] = map[string]string{}
			}
			found[key][nameOf[k]] = p.Pos(c.Pos())
		})
	}
	if os.Getenv("ESVERIF_DEBUG") != "" {
		var ks []string
		for k := range found {
			ks = append(ks, k)
		}
		sort.Strings(ks)
		for _, k := range ks {
			fmt.Println("DBG level", k, found[k])
		}
	}
	var keys []string
	for k := range c13ChildLevels {
		keys = append(keys, k)
	}
	sort.Strings(keys)
	for _, key := range keys {
		want := c13ChildLevels[key]
		got := found[key]
		r.Instances++
		okey := "printExpr level for " + key
		if len(got) == 0 {
			r.Fail(okey, "-", "no printExpr call with a constant level was found for this position (the table entry is stale or the printer no longer passes a literal level there)")
			continue
		}
		var bad []string
		pos := ""
		for lv, ps := range got {
			okLevel := false
			for _, w := range want {
				if w == lv {
					okLevel = true
				}
			}
			if !okLevel {
				bad = append(bad, lv)
				pos = ps
			}
		}
		sort.Strings(bad)
		if len(bad) == 0 {
			var gs []string
			for lv := range got {
				gs = append(gs, lv)
			}
			sort.Strings(gs)
			r.OK(okey, true, "passes "+strings.Join(gs, ", "))
		} else {
			r.Fail(okey, pos, "the printer passes level "+strings.Join(bad, ", ")+" for "+key+" where the grammar requires "+strings.Join(want, " / ")+": a child that needs parentheses in this position is printed without them (or the other way round) and the output is not the program that was parsed — for the class heritage, `class A extends (B++) {}` is printed as `class A extends B++ {}`, a syntax error")
		}
	}
	r.Floor(len(keys))
	return r
}

// ---------------------------------------------------------------------------------------------
// C13/R13 (= C03/R13) else-presence-as-printed.
//
// With minify-syntax the printer removes an `else` branch whose only statement is an expression that
// simplifies to nothing at print time (a call of a known empty function). Whether an inner `if` has
// an `else` decides whether the outer `if` must wrap it in braces (the dangling-else ambiguity). A
// function of the printer that tests `SIf.NoOrNil.Data == nil` to make such a decision must look at
// the branch as it will be printed, i.e. also consult simplifyUnusedExpr — as printIf itself does.
func elsePresenceAsPrinted(p *Prog, rule string) *RuleResult {
	r := NewRule(rule, "every function of the JS printer that tests whether an if statement has an else branch also accounts for the branch being removed at print time (simplifyUnusedExpr)")
	n := 0
	for _, fn := range p.ModuleFuncs() {
		if pkgPathOf(fn) != modPath+"/internal/js_printer" {
			continue
		}
		tests := false
		var pos ssa.Instruction
		eachInstr(fn, func(b *ssa.BasicBlock, in ssa.Instruction) {
			bo, ok := in.(*ssa.BinOp)
			if !ok {
				return
			}
			if c, isC := bo.Y.(*ssa.Const); !isC || c.Value != nil {
				return
			}
			// bo.X: (a phi of) a load of <SIf>.NoOrNil.Data
			operandSlice(bo.X, func(v ssa.Value) bool {
				if _, isCall := v.(*ssa.Call); isCall {
					return false
				}
				fa, ok := v.(*ssa.FieldAddr)
				if !ok || fieldAddrName(fa) != "Data" {
					return true
				}
				if fa2, ok := fa.X.(*ssa.FieldAddr); ok && fieldAddrName(fa2) == "NoOrNil" && namedTypeName(fa2.X.Type()) == "js_ast.SIf" {
					tests = true
					pos = bo
				}
				return true
			})
		})
		if !tests {
			continue
		}
		n++
		r.Instances++
		key := FuncName(fn) + " tests for the presence of an else branch"
		consults := false
		for _, f := range withClosures(fn) {
			eachInstr(f, func(b *ssa.BasicBlock, in ssa.Instruction) {
				if c, ok := in.(*ssa.Call); ok && strings.HasSuffix(calleeFullName(c), "js_printer.printer).simplifyUnusedExpr") {
					consults = true
				}
			})
		}
		if consults {
			r.OK(key, true, "the function also consults simplifyUnusedExpr")
		} else {
			r.Fail(key, p.Pos(pos.Pos()), "the decision is taken on the AST's else branch, but printIf removes an else branch that simplifies to nothing at print time (`else empty();`): the inner `if` is then printed without its `else`, the outer one was not wrapped in braces, and the outer `else` attaches to the inner `if`")
		}
	}
	if !r.Anchor("functions of the printer that test SIf.NoOrNil.Data against nil", n >= 1) {
		return r
	}
	r.Floor(1)
	return r
}

// ---------------------------------------------------------------------------------------------
// C16/R14 no-must-compile-on-computed-pattern.
//
// regexp.MustCompile panics when the pattern does not compile. A pattern assembled from input text
// (a package.json "sideEffects" entry, the constant parts of a glob-style dynamic import) can carry
// bytes the regexp parser rejects — a lone surrogate in a JSON string becomes invalid UTF-8 — and
// the panic surfaces as an internal error for an ordinary input. Rule: every regexp.MustCompile
// call in the module has a constant argument; computed patterns go through regexp.Compile.
func c16NoMustCompileComputed(p *Prog) *RuleResult {
	r := NewRule("C16/R14 no-must-compile-on-computed-pattern", "regexp.MustCompile is only called with constant patterns (a pattern built from input text may fail to compile, and MustCompile panics)")
	n := 0
	seen := map[string]int{}
	for _, fn := range p.ModuleFuncs() {
		eachInstr(fn, func(b *ssa.BasicBlock, in ssa.Instruction) {
			c, ok := in.(*ssa.Call)
			if !ok || (calleeFullName(c) != "regexp.MustCompile" && calleeFullName(c) != "regexp.MustCompilePOSIX") {
				return
			}
			n++
			r.Instances++
			base := FuncName(TopFunc(fn)) + " regexp.MustCompile"
			seen[base]++
			key := base
			if seen[base] > 1 {
				key = fmt.Sprintf("%s #%d", base, seen[base])
			}
			if _, ok := constString(c.Call.Args[0]); ok {
				r.OK(key, true, "constant pattern")
			} else {
				r.Fail(key, p.Pos(c.Pos()), "the pattern is computed ("+ssaExpr(c.Call.Args[0], 0)+"): text taken from the input can make it uncompilable (a lone surrogate in a JSON string is invalid UTF-8), and MustCompile then panics — an internal error instead of a diagnostic")
			}
		})
	}
	// a module without any MustCompile is fine too; the rule is then trivially true
	if n == 0 {
		r.Instances++
		r.OK("no regexp.MustCompile in the module", true, "")
	}
	return r
}

// ---------------------------------------------------------------------------------------------
// C06/R11 enum-inlining-not-on-write-targets.
//
// The printer replaces `E.member` / `E["member"]` by the member's constant when E is a TypeScript
// enum imported from another module. The replacement is only meaningful where the access is *read*:
// as the target of an assignment, an update or `delete` it produces `0 /* A */ = 5`. The parser's
// same-file inlining knows about assignment targets; the print-time inlining has to as well. Rule:
// the direct inlining sites of printExpr (the EDot and EIndex arms) are conditional on the flags
// that say the expression is being written or deleted.
// isOwnNodeOfExprParam: v is `n.F` where n was type-asserted from the Data field of the function's
// parameter `expr` itself (no other type assertion in between, which would make n a child node).
func isOwnNodeOfExprParam(v ssa.Value) bool {
	ld, ok := v.(*ssa.UnOp)
	if !ok || ld.Op != token.MUL {
		return false
	}
	fa, ok := ld.X.(*ssa.FieldAddr)
	if !ok {
		return false
	}
	var ta *ssa.TypeAssert
	switch b := fa.X.(type) {
	case *ssa.TypeAssert:
		ta = b
	case *ssa.Extract:
		ta, _ = b.Tuple.(*ssa.TypeAssert)
	}
	if ta == nil {
		return false
	}
	own := false
	operandSlice(ta.X, func(x ssa.Value) bool {
		switch y := x.(type) {
		case *ssa.TypeAssert:
			return false
		case *ssa.Parameter:
			if y.Name() == "expr" {
				own = true
			}
		case *ssa.Alloc:
			if y.Comment == "expr" {
				own = true
			}
		}
		return true
	})
	return own
}

func c06EnumInliningNotOnTargets(p *Prog) *RuleResult {
	r := NewRule("C06/R11 enum-inlining-not-on-write-targets", "the print-time inlining of cross-module enum members in the EDot / EIndex arms of printExpr is conditional on the access not being an assignment, update or delete target")
	fn := p.FindFunc("js_printer.(*printer).printExpr")
	if !r.Anchor("js_printer.(*printer).printExpr", fn != nil) {
		return r
	}
	var flagsParam *ssa.Parameter
	for _, prm := range fn.Params {
		if namedTypeName(prm.Type()) == "js_printer.printExprFlags" {
			flagsParam = prm
		}
	}
	if !r.Anchor("the flags parameter of printExpr", flagsParam != nil) {
		return r
	}
	n := 0
	eachInstr(fn, func(b *ssa.BasicBlock, in ssa.Instruction) {
		c, ok := in.(*ssa.Call)
		if !ok || c.Call.StaticCallee() == nil || !strings.HasPrefix(c.Call.StaticCallee().Name(), "tryToGetImportedEnumValue") {
			return
		}
		// only the sites whose result is printed in place of the access itself: the first argument is
		// the Target field of the node under the type switch (EDot / EIndex), not of a nested node
		owner, field, ok := loadedField(c.Call.Args[1])
		if !ok || field != "Target" || (owner != "js_ast.EDot" && owner != "js_ast.EIndex") {
			return
		}
		// exclude sites inside the template / index sub-cases that look at a *child* node: the node whose
		// Target is passed is the one asserted from the Data of printExpr's own expression parameter
		if !isOwnNodeOfExprParam(c.Call.Args[1]) {
			return
		}
		arm := ""
		for _, f := range factsAt(b) {
			if ta, ok := f.Cond.(*ssa.Extract); ok && f.True {
				if t, ok := ta.Tuple.(*ssa.TypeAssert); ok {
					arm = namedTypeName(t.AssertedType)
				}
			}
		}
		_ = arm
		// the printing that follows: the call's block must lead to a printNumber / printQuotedUTF16
		// (directly, or a helper of the printer that is handed the value found)
		printsValue := func(c2 *ssa.Call) bool {
			if c2.Call.StaticCallee() == nil || pkgPathOf(c2.Call.StaticCallee()) != modPath+"/internal/js_printer" || strings.HasPrefix(c2.Call.StaticCallee().Name(), "tryToGetImportedEnumValue") {
				return false
			}
			derived := false
			for _, a := range c2.Call.Args {
				backSlice(a, func(x ssa.Value) bool {
					if x == ssa.Value(c) {
						derived = true
					}
					return true
				})
			}
			return derived
		}
		prints := false
		for _, later := range instrsAfter(c) {
			if c2, ok := later.(*ssa.Call); ok && printsValue(c2) && b.Dominates(c2.Block()) {
				prints = true
			}
		}
		if !prints {
			return
		}
		n++
		r.Instances++
		key := fmt.Sprintf("printExpr inlines a cross-module enum member in place of an %s access", strings.TrimPrefix(owner, "js_ast."))
		// the block that prints the constant must be control dependent on a test of the flags parameter
		var printBlock *ssa.BasicBlock
		for _, later := range instrsAfter(c) {
			if c2, ok := later.(*ssa.Call); ok && printsValue(c2) && b.Dominates(c2.Block()) && printBlock == nil {
				printBlock = c2.Block()
			}
		}
		usesFlags := false
		for _, ifi := range controlDepIfsTransitive(printBlock) {
			if !b.Dominates(ifi.Block()) && ifi.Block() != b {
				continue
			}
			var vals []ssa.Value
			condsOfBoolValue(ifi.Cond, &vals, 0)
			for _, v := range vals {
				operandSlice(v, func(x ssa.Value) bool {
					if x == ssa.Value(flagsParam) {
						usesFlags = true
					}
					if ph, ok := x.(*ssa.Phi); ok && ph.Comment == "flags" {
						usesFlags = true
					}
					return true
				})
			}
		}
		if usesFlags {
			r.OK(key, true, "conditional on the flags of the enclosing expression")
		} else {
			r.Fail(key, p.Pos(c.Pos()), "the member's constant is printed in place of the access whatever the context: as an assignment, update or delete target the output is `0 /* A */ = 5` (a syntax error), and the enum object the statement meant to modify has been dropped by the linker because every use 'will be inlined'")
		}
	})
	if !r.Anchor("direct enum-inlining sites of printExpr", n >= 2) {
		return r
	}
	r.Floor(2)
	return r
}

// ---------------------------------------------------------------------------------------------
// C14/R12 regexp-escape-scan-covers-classes.
//
// isUnsupportedRegularExpression scans a regular expression for syntax the target lacks. A Unicode
// property escape `\p{…}` is such syntax, and it may occur at top level *and* inside a character
// class (`[\p{L}\d]`). The scanner has two places that consume a backslash escape (one per context);
// each of them has to look for the property escape before skipping the escaped character. Rule:
// from every `c == '\\'` test of the function a HasPrefix(…, "p{") test is reached before the scan
// moves on.
// looksForPropertyEscape: the call is strings.HasPrefix(…, "p{" / "P{"), or a call of a predicate of
// the module that makes that test (the condition hoisted into a named function).
func looksForPropertyEscape(c *ssa.Call, depth int) bool {
	if calleeFullName(c) == "strings.HasPrefix" && len(c.Call.Args) == 2 {
		if s, ok := constString(c.Call.Args[1]); ok && (s == "p{" || s == "P{") {
			return true
		}
	}
	callee := c.Call.StaticCallee()
	if callee == nil || depth >= 2 || !strings.HasPrefix(pkgPathOf(callee), modPath) {
		return false
	}
	found := false
	eachInstr(callee, func(_ *ssa.BasicBlock, in ssa.Instruction) {
		if c2, ok := in.(*ssa.Call); ok && looksForPropertyEscape(c2, depth+1) {
			found = true
		}
	})
	return found
}

func c14RegexpEscapeScan(p *Prog) *RuleResult {
	r := NewRule("C14/R12 regexp-escape-scan-covers-classes", "every place where the regular-expression feature scan consumes a backslash escape first looks for a Unicode property escape (inside character classes too)")
	fn := p.FindFunc("js_parser.(*parser).isUnsupportedRegularExpression")
	if !r.Anchor("js_parser.(*parser).isUnsupportedRegularExpression", fn != nil) {
		return r
	}
	loops := naturalLoops(fn)
	n := 0
	for _, b := range fn.Blocks {
		if len(b.Instrs) == 0 || len(b.Succs) != 2 {
			continue
		}
		ifi, ok := b.Instrs[len(b.Instrs)-1].(*ssa.If)
		if !ok {
			continue
		}
		bo, ok := ifi.Cond.(*ssa.BinOp)
		if !ok || bo.Op != token.EQL {
			continue
		}
		if k, ok := constInt(bo.Y); !ok || k != '\\' {
			continue
		}
		n++
		r.Instances++
		key := fmt.Sprintf("isUnsupportedRegularExpression backslash case #%d", n)
		found := false
		seen := map[*ssa.BasicBlock]bool{}
		work := []*ssa.BasicBlock{b.Succs[0]}
		for len(work) > 0 && !found {
			x := work[len(work)-1]
			work = work[:len(work)-1]
			if seen[x] {
				continue
			}
			seen[x] = true
			if _, isHeader := loops[x]; isHeader {
				continue
			}
			for _, in := range x.Instrs {
				if c, ok := in.(*ssa.Call); ok && looksForPropertyEscape(c, 0) {
					found = true
				}
			}
			work = append(work, x.Succs...)
		}
		if found {
			r.OK(key, true, "looks for p{ / P{ before skipping the escaped character")
		} else {
			r.Fail(key, p.Pos(bo.Pos()), "this backslash case skips the escaped character without looking for a Unicode property escape: `/[\\p{L}]/u` is passed through unchanged for a target without property escapes (outside a class the same escape is lowered to `new RegExp(…)` or reported)")
		}
	}
	if !r.Anchor("backslash cases in isUnsupportedRegularExpression", n >= 2) {
		return r
	}
	r.Floor(2)
	return r
}

// ---------------------------------------------------------------------------------------------
// C14/R13 object-rest-detectors-look-through-array-rest.
//
// An object rest pattern can sit inside an array rest element: `let [...{...x}] = y`. In expression
// form the array rest element is an ESpread node. The two detectors that decide whether a pattern
// needs object-rest lowering (exprHasObjectRest, and the marking scan of lowerObjectRestHelper) must
// look through it, or the pattern is emitted unlowered for a target without object rest, with no
// diagnostic.
func c14ObjectRestThroughArrayRest(p *Prog) *RuleResult {
	r := NewRule("C14/R13 object-rest-detectors-look-through-array-rest", "the detectors of object rest patterns look through an array rest element (ESpread)")
	type det struct{ name, find string }
	n := 0
	for _, d := range []det{{"exprHasObjectRest", "js_parser.exprHasObjectRest"}, {"the marking scan of lowerObjectRestHelper", "js_parser.(*parser).lowerObjectRestHelper$1"}} {
		fn := p.FindFunc(d.find)
		if strings.HasSuffix(d.find, "$1") {
			// the marking scan: the closure of lowerObjectRestHelper that updates a map and returns a bool
			fn = nil
			if top := p.FindFunc(strings.TrimSuffix(d.find, "$1")); top != nil {
				for _, cl := range withClosures(top) {
					if cl == top || cl.Signature.Results().Len() != 1 || cl.Signature.Results().At(0).Type().String() != "bool" {
						continue
					}
					marks := false
					eachInstr(cl, func(b *ssa.BasicBlock, in ssa.Instruction) {
						if _, ok := in.(*ssa.MapUpdate); ok {
							marks = true
						}
					})
					if marks {
						fn = cl
					}
				}
			}
		}
		if !r.Anchor(d.find, fn != nil) {
			continue
		}
		n++
		r.Instances++
		key := d.name + " handles ESpread"
		has := false
		eachInstr(fn, func(b *ssa.BasicBlock, in ssa.Instruction) {
			if ta, ok := in.(*ssa.TypeAssert); ok && namedTypeName(ta.AssertedType) == "js_ast.ESpread" {
				has = true
			}
		})
		if has {
			r.OK(key, true, "has a case for *js_ast.ESpread")
		} else {
			r.Fail(key, p.Pos(fn.Pos()), "the detector has no case for an array rest element: `let [...{...x}] = y` (also as an assignment target and as a parameter) is emitted unchanged for a target without object rest, and nothing is reported")
		}
	}
	r.Floor(2)
	return r
}

// ---------------------------------------------------------------------------------------------
// C17/R8 extension-validation-rejects-separators.
//
// An output extension is appended to the output's base name. If it may contain a path separator
// (`.x/../../victim.js`) the output lands outside the output directory although no name template
// contains a parent-directory segment. Rule: the predicate that validates extensions rejects both
// `/` and `\`.
func c17ExtensionNoSeparators(p *Prog) *RuleResult {
	r := NewRule("C17/R8 extension-validation-rejects-separators", "isValidExtension rejects extensions that contain a path separator")
	fn := p.FindFunc("pkg/api.isValidExtension")
	if !r.Anchor("pkg/api.isValidExtension", fn != nil) {
		return r
	}
	r.Instances++
	key := "isValidExtension rejects `/` and `\\`"
	seen := map[rune]bool{}
	eachInstr(fn, func(b *ssa.BasicBlock, in ssa.Instruction) {
		switch x := in.(type) {
		case *ssa.Call:
			if strings.HasPrefix(calleeFullName(x), "strings.") {
				for _, a := range x.Call.Args[1:] {
					if s, ok := constString(a); ok {
						for _, ch := range s {
							seen[ch] = true
						}
					} else if k, ok := constInt(a); ok {
						seen[rune(k)] = true
					}
				}
			}
		case *ssa.BinOp:
			if k, ok := constInt(x.Y); ok && (x.Op == token.EQL || x.Op == token.NEQ) {
				seen[rune(k)] = true
			}
		}
	})
	if seen['/'] && seen['\\'] {
		r.OK(key, true, "both separators are tested")
	} else {
		r.Fail(key, p.Pos(fn.Pos()), "an output extension may contain a path separator: `--out-extension:.js=.x/../../victim.js` writes the output outside the output directory (next to, or over, other files) without any parent-directory segment in a name template")
	}
	r.Floor(1)
	return r
}
