claim("C12", "field-coverage analysis of equality methods (type-checked AST, alias-following)",
      "Decides a necessary structural condition: every semantic field of every css_ast node type is read through both operands by the Equal methods used for rule merging and duplicate removal, pointer fields by content, and hashed fields are a subset of compared fields. Does not decide the cascade itself.",
      "", "DESIGN.md §3 C12")
claim("C09", "write-set (type-path) analysis over SSA + VTA call graph; equality field coverage; who-may-call layering; CFG must-pass-through",
      "Decides the cache contract's structural conditions on every path: AST cache key covers every parser option and guards every hit; no post-parse store into uncloned AST memory (clone steps checked to exist); build paths observe the FS only through internal/fs; FS observations are recorded for the watcher on every path and every watch state has a change predicate; the global runtime cache depends only on its key. Necessary conditions of rebuild==clean build, not the behaviour.",
      "", "DESIGN.md §3 C09")
