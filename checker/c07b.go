package main

import (
	"fmt"
	"go/token"
	"strings"

	"golang.org/x/tools/go/ssa"
)

// C07/R5 running-state carry.
//
// Source-map chunks of the files of one output are produced independently, each as if the VLQ
// decoder started from the zero state; generateSourceMapForChunk joins them and carries the
// decoder's running state (SourceMapState) from one chunk to the next so that AppendSourceMapChunk
// can rewrite the first deltas. The `names` index is special: a chunk may contain no name at all,
// in which case the decoder's running name index does not move while the chunk's own EndState
// says 0. So whenever the running state is overwritten with a chunk's EndState, its OriginalName
// must be re-established before the next chunk is appended: either rebased (end state + number of
// names emitted so far) or restored to what it was before the overwrite. Structural rule: every
// path from the overwrite to the next loop iteration passes a store to <state>.OriginalName whose
// value is computed from the state's own OriginalName (the rebase reads it after the overwrite,
// the restore before). A path without such a store makes every later name index in the map wrong.

func c07StateCarry(p *Prog) *RuleResult {
	r := NewRule("C07/R5 running-state-carry", "when the source-map joiner overwrites its running decoder state with a chunk's end state, the running name index is rebased or restored on every path to the next chunk")
	fn := p.FindFunc("linker.(*linkerContext).generateSourceMapForChunk")
	if !r.Anchor("linker.(*linkerContext).generateSourceMapForChunk", fn != nil) {
		return r
	}
	// the running state: the local SourceMapState whose value is passed as prevEndState (arg 1) to AppendSourceMapChunk
	cells := map[*ssa.Alloc]bool{}
	eachInstr(fn, func(b *ssa.BasicBlock, in ssa.Instruction) {
		c, ok := in.(*ssa.Call)
		if !ok || FuncNameOf(c) != "sourcemap.AppendSourceMapChunk" || len(c.Call.Args) < 3 {
			return
		}
		if u, ok := c.Call.Args[1].(*ssa.UnOp); ok && u.Op == token.MUL {
			if al, ok := u.X.(*ssa.Alloc); ok && namedTypeName(al.Type()) == "sourcemap.SourceMapState" {
				cells[al] = true
			}
		}
	})
	if !r.Anchor("local running SourceMapState passed to AppendSourceMapChunk", len(cells) == 1) {
		return r
	}
	var cell *ssa.Alloc
	for c := range cells {
		cell = c
	}
	loops := naturalLoops(fn)
	// overwrites: whole-struct stores into the cell whose value comes from a field named EndState
	var overwrites []*ssa.Store
	fixBlocks := map[*ssa.BasicBlock]bool{}
	eachInstr(fn, func(b *ssa.BasicBlock, in ssa.Instruction) {
		st, ok := in.(*ssa.Store)
		if !ok {
			return
		}
		if st.Addr == ssa.Value(cell) {
			fromEnd := false
			backSlice(st.Val, func(v ssa.Value) bool {
				if _, n, ok := loadedField(v); ok && n == "EndState" {
					fromEnd = true
				}
				if fa, ok := v.(*ssa.FieldAddr); ok && fieldAddrName(fa) == "EndState" {
					fromEnd = true
				}
				return !fromEnd
			})
			if fromEnd {
				overwrites = append(overwrites, st)
			}
			return
		}
		if fa, ok := st.Addr.(*ssa.FieldAddr); ok && fa.X == ssa.Value(cell) && fieldAddrName(fa) == "OriginalName" {
			// value computed from the cell's own OriginalName (directly or through a saved copy)
			own := false
			backSlice(st.Val, func(v ssa.Value) bool {
				if u, ok := v.(*ssa.UnOp); ok && u.Op == token.MUL {
					if f2, ok := u.X.(*ssa.FieldAddr); ok && f2.X == ssa.Value(cell) && fieldAddrName(f2) == "OriginalName" {
						own = true
					}
				}
				return !own
			})
			if own {
				fixBlocks[b] = true
			}
		}
	})
	if !r.Anchor("overwrite of the running state with a chunk's EndState", len(overwrites) > 0) {
		return r
	}
	for i, ow := range overwrites {
		r.Instances++
		key := fmt.Sprintf("overwrite #%d of the running state", i+1)
		ob := ow.Block()
		headers := map[*ssa.BasicBlock]bool{}
		for h, body := range loops {
			if body[ob] {
				headers[h] = true
			}
		}
		if len(headers) == 0 {
			r.OK(key, false, "not inside the per-chunk loop")
			continue
		}
		// a fix later in the same block discharges immediately
		fixedHere := false
		after := false
		for _, in := range ob.Instrs {
			if in == ssa.Instruction(ow) {
				after = true
				continue
			}
			if st, ok := in.(*ssa.Store); ok && after {
				if fa, ok := st.Addr.(*ssa.FieldAddr); ok && fa.X == ssa.Value(cell) && fieldAddrName(fa) == "OriginalName" && fixBlocks[ob] {
					fixedHere = true
				}
			}
		}
		if fixedHere {
			r.OK(key, true, "OriginalName re-established in the same block")
			continue
		}
		path, found := c04Search(ob, func(b *ssa.BasicBlock) bool { return false }, headers,
			func(b *ssa.BasicBlock) bool { return b != ob && fixBlocks[b] },
			func(b *ssa.BasicBlock, si int) bool { return false })
		if found {
			var bs []string
			for _, b := range path {
				bs = append(bs, fmt.Sprint(b.Index))
			}
			r.Fail(key, p.Pos(ow.Pos()), "after the running decoder state is overwritten with the chunk's EndState there is a path to the next chunk (blocks "+strings.Join(bs, " ")+") on which OriginalName is neither rebased nor restored: for a chunk without names the running name index becomes 0 and every later name index in the joined map is wrong")
		} else {
			r.OK(key, true, "every path to the next chunk rebases or restores OriginalName")
		}
	}
	r.Floor(1)
	return r
}

// C07/R6 offset hand-over.
//
// generateChunkJS / generateChunkCSS accumulate in `prevOffset` the lines and columns of everything
// appended to the chunk since the last *mapped* file, save the value as the file's generatedOffset
// and hand it to the source-map joiner with the file's entry. The joiner adds the offsets of the
// entries up. The accumulator therefore has to be reset exactly when an entry takes its value:
// an entry that carries an offset while the accumulator keeps running (the "null entry" of a file
// without mappings) makes the next mapped file count the same lines twice, and every later mapping
// of the chunk lands too low. Rule: on every path from the save of generatedOffset to an append of
// an entry whose generatedOffset field is set, prevOffset is reset to its zero value.
func c07OffsetHandover(p *Prog) *RuleResult {
	r := NewRule("C07/R6 offset-handover", "a source-map entry carries the accumulated generated offset only on paths that reset the accumulator (otherwise the lines since the last mapped file are counted twice)")
	for _, name := range []string{"linker.(*linkerContext).generateChunkJS", "linker.(*linkerContext).generateChunkCSS"} {
		fn := p.FindFunc(name)
		if !r.Anchor(name, fn != nil) {
			continue
		}
		var acc *ssa.Alloc
		eachInstr(fn, func(b *ssa.BasicBlock, in ssa.Instruction) {
			if al, ok := in.(*ssa.Alloc); ok && al.Comment == "prevOffset" && namedTypeName(al.Type()) == "sourcemap.LineColumnOffset" {
				acc = al
			}
		})
		if !r.Anchor(name+": the running offset prevOffset", acc != nil) {
			continue
		}
		resets := map[*ssa.BasicBlock]bool{}
		var saves []*ssa.Store
		var carries []*ssa.Store
		eachInstr(fn, func(b *ssa.BasicBlock, in ssa.Instruction) {
			st, ok := in.(*ssa.Store)
			if !ok {
				return
			}
			if st.Addr == ssa.Value(acc) {
				if cv, ok := st.Val.(*ssa.Const); ok && cv.Value == nil && b != acc.Block() {
					resets[b] = true
				}
				return
			}
			fa, ok := st.Addr.(*ssa.FieldAddr)
			if !ok || fieldAddrName(fa) != "generatedOffset" {
				return
			}
			// the save: compileResult.generatedOffset = prevOffset
			if u, ok := st.Val.(*ssa.UnOp); ok && u.X == ssa.Value(acc) {
				saves = append(saves, st)
				return
			}
			// an entry literal that takes an offset
			if al, ok := fa.X.(*ssa.Alloc); ok && al.Comment == "complit" {
				if cv, ok := st.Val.(*ssa.Const); ok && cv.Value == nil {
					return // explicitly zero
				}
				carries = append(carries, st)
			}
		})
		if !r.Anchor(name+": save of generatedOffset from prevOffset", len(saves) >= 1) || !r.Anchor(name+": an entry that carries the offset", len(carries) >= 1) || !r.Anchor(name+": a reset of prevOffset", len(resets) >= 1) {
			continue
		}
		for i, cst := range carries {
			r.Instances++
			key := fmt.Sprintf("%s entry #%d carrying generatedOffset", FuncName(fn), i+1)
			bad := ""
			for _, sv := range saves {
				target := cst.Block()
				if path, reach := reachesExitAvoiding(sv.Block(), func(x *ssa.BasicBlock) bool { return x == target }, func(x *ssa.BasicBlock) bool { return resets[x] }, true); reach {
					bad = blockPath(path)
				}
			}
			if bad != "" {
				r.Fail(key, p.Pos(cst.Pos()), "an entry is handed the accumulated offset on a path that does not reset prevOffset ("+bad+"): the next mapped file's offset still contains these lines, so the joiner counts them twice and every later mapping in the chunk is shifted")
			} else {
				r.OK(key, true, "every path from the save to this entry resets prevOffset")
			}
		}
	}
	r.Floor(2)
	return r
}

// C07/R7 the stripped first mapping is rebased field by field.
//
// AppendSourceMapChunk joins the mappings of one file onto those of the previous file. Mappings
// are delta encoded, so it strips the chunk's first mapping, decodes its four fields (generated
// column, source index, original line, original column) and re-encodes them relative to the end
// state of the previous chunk by adding each decoded delta to the matching field of startState.
// A chunk's first mapping can carry a non-zero source index (a file with an input source map of
// several sources), so no field may be dropped: a dropped delta shifts that file's and every
// later file's mappings to the wrong source / line / column.
// Rule: every DecodeVLQ value decoded in AppendSourceMapChunk is used, and each of the four
// position fields of startState is updated with a value that derives from a decoded delta.
func c07FirstMappingRebase(p *Prog) *RuleResult {
	r := NewRule("C07/R7 first-mapping-rebase", "AppendSourceMapChunk adds every decoded field of a chunk's first mapping (generated column, source index, original line, original column) to the matching field of the start state; no decoded delta is discarded")
	fn := p.FindFunc("sourcemap.AppendSourceMapChunk")
	if !r.Anchor("sourcemap.AppendSourceMapChunk", fn != nil) {
		return r
	}
	decoded := map[ssa.Value]bool{}
	nDecode := 0
	eachInstr(fn, func(b *ssa.BasicBlock, in ssa.Instruction) {
		c, ok := in.(*ssa.Call)
		if !ok || FuncNameOf(c) != "sourcemap.DecodeVLQ" {
			return
		}
		nDecode++
		r.Instances++
		key := fmt.Sprintf("AppendSourceMapChunk DecodeVLQ #%d value used", nDecode)
		used := false
		if c.Referrers() != nil {
			for _, rf := range *c.Referrers() {
				if ex, ok := rf.(*ssa.Extract); ok && ex.Index == 0 {
					decoded[ex] = true
					if ex.Referrers() != nil && len(*ex.Referrers()) > 0 {
						used = true
					}
				}
			}
		}
		if used {
			r.OK(key, true, "the decoded value is used")
		} else {
			r.Fail(key, p.Pos(c.Pos()), "a field of the chunk's first mapping is decoded and thrown away: the re-encoded mapping, and every later mapping of the chunk and of the files after it, is off by that delta (for the source index: mappings name the wrong source file)")
		}
	})
	if !r.Anchor("DecodeVLQ calls in AppendSourceMapChunk", nDecode >= 4) {
		return r
	}
	updated := map[string]bool{}
	eachInstr(fn, func(b *ssa.BasicBlock, in ssa.Instruction) {
		st, ok := in.(*ssa.Store)
		if !ok {
			return
		}
		fa, ok := st.Addr.(*ssa.FieldAddr)
		if !ok || namedTypeName(fa.X.Type()) != "sourcemap.SourceMapState" {
			return
		}
		backSlice(st.Val, func(v ssa.Value) bool {
			if decoded[v] {
				updated[fieldAddrName(fa)] = true
			}
			if ph, ok := v.(*ssa.Phi); ok {
				for _, e := range ph.Edges {
					if decoded[e] {
						updated[fieldAddrName(fa)] = true
					}
				}
			}
			return true
		})
	})
	for _, f := range []string{"GeneratedColumn", "SourceIndex", "OriginalLine", "OriginalColumn"} {
		r.Instances++
		key := "AppendSourceMapChunk rebases startState." + f
		if updated[f] {
			r.OK(key, true, "updated with a decoded delta of the first mapping")
		} else {
			r.Fail(key, p.Pos(fn.Pos()), "startState."+f+" is not updated with the decoded "+f+" delta of the chunk's first mapping")
		}
	}
	return r
}
