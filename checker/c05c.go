package main

import (
	"fmt"
	"sort"
	"strings"

	"golang.org/x/tools/go/ssa"
)

// C05/R6 hoist-first-evaluated.
//
// When instance fields are lowered, insertStmtsAfterSuperCall rewrites `S[ super(args) ]` into
// `before; super(args); <field initialisers>; S[ after ]`, i.e. it hoists the call (and everything
// findFirstTopLevelSuperCall says is evaluated before it *inside the expression it is given*) in
// front of the whole statement S. That preserves the order of evaluation only if the expression
// handed to findFirstTopLevelSuperCall is the first thing S evaluates, and evaluates exactly once.
// The table below is the ECMAScript evaluation order of the statement kinds (which child is
// evaluated first, once). A call site that passes any other child — a later declarator of a
// `let`, the update expression of a `for`, the test of a `while` — reorders side effects.
var c05FirstEvaluated = map[string]string{
	"SExpr.Value":                       "ExpressionStatement: the expression",
	"SReturn.ValueOrNil":                "return: the operand",
	"SThrow.Value":                      "throw: the operand",
	"SIf.Test":                          "if: the test is evaluated first, once",
	"SSwitch.Test":                      "switch: the discriminant is evaluated first, once",
	"SWith.Value":                       "with: the object is evaluated first, once",
	"SFor.InitOrNil.Data.(SExpr).Value": "for(init;;): the initialiser expression is evaluated first, once",
	"SFor.InitOrNil.Data.(SLocal).Decls[0].ValueOrNil": "for(let x = init;;): the first declarator's initialiser is evaluated first, once",
	"SLocal.Decls[0].ValueOrNil":                       "let/const/var: the first declarator's initialiser (later declarators run after earlier ones)",
	"SForIn.Value":                                     "for-in: the object is evaluated before the loop, once",
	"SForOf.Value":                                     "for-of: the iterable is evaluated before the loop, once",
}

func c05StmtChildPath(v ssa.Value) string {
	steps := addrChain(v)
	// render root-first, starting at the root-most assertion to a statement kind
	var parts []string
	started := false
	for i := len(steps) - 1; i >= 0; i-- {
		s := steps[i]
		switch s.Kind {
		case "assert":
			n := strings.TrimPrefix(strings.TrimPrefix(s.Name, "*"), "js_ast.")
			if !started {
				if strings.HasPrefix(n, "S") {
					started = true
					parts = append(parts, n)
				}
				continue
			}
			parts = append(parts, ".("+n+")")
		case "field":
			if started {
				parts = append(parts, "."+s.Name)
			}
		case "index":
			if !started {
				continue
			}
			idx := "*"
			switch x := s.Val.(type) {
			case *ssa.IndexAddr:
				if k, ok := constInt(x.Index); ok && k == 0 {
					idx = "0"
				}
			case *ssa.Index:
				if k, ok := constInt(x.Index); ok && k == 0 {
					idx = "0"
				}
			}
			parts = append(parts, "["+idx+"]")
		}
	}
	return strings.Join(parts, "")
}

func c05HoistFirstEvaluated(p *Prog) *RuleResult {
	r := NewRule("C05/R6 hoist-first-evaluated", "the expression from which a super() call is hoisted in front of its statement is the child that the statement evaluates first and exactly once")
	target := p.FindFunc("js_parser.findFirstTopLevelSuperCall")
	if !r.Anchor("js_parser.findFirstTopLevelSuperCall", target != nil) {
		return r
	}
	n := 0
	seen := map[string]int{}
	var fails []func()
	for _, fn := range p.ModuleFuncs() {
		if fn == target || TopFunc(fn) == target {
			continue
		}
		eachInstr(fn, func(b *ssa.BasicBlock, in ssa.Instruction) {
			c, ok := in.(*ssa.Call)
			if !ok || c.Call.StaticCallee() != target || len(c.Call.Args) == 0 {
				return
			}
			n++
			path := c05StmtChildPath(c.Call.Args[0])
			seen[path]++
			key := FuncName(fn) + " hoists from " + path
			if seen[path] > 1 {
				key += fmt.Sprintf(" #%d", seen[path])
			}
			pos := p.Pos(c.Pos())
			if why, ok := c05FirstEvaluated[path]; ok {
				r.Instances++
				r.OK(key, true, why)
				return
			}
			r.Instances++
			if path == "" {
				path = "an expression that is not a child of the statement under the type switch"
			}
			pp := path
			fails = append(fails, func() {
				r.Fail(key, pos, "super() is hoisted in front of the statement from "+pp+", which is not the child the statement evaluates first and exactly once: side effects of what the statement evaluates earlier (or repeatedly) are reordered after super() and the lowered field initialisers")
			})
		})
	}
	sort.SliceStable(fails, func(i, j int) bool { return false })
	for _, f := range fails {
		f()
	}
	if !r.Anchor("call sites of findFirstTopLevelSuperCall outside itself", n >= 3) {
		return r
	}
	r.Floor(3)
	return r
}
