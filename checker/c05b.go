package main

import (
	"fmt"
	"go/token"
	"sort"
	"strings"

	"golang.org/x/tools/go/ssa"
)

// C05/R2 object-rest-exclusion.
//
// Lowering `let {a: {...x}, b, ...rest} = src` has to split the pattern at the first property whose
// value contains a nested rest, and the final `...rest` must exclude every property that came
// before it: rest = __objRest(src, ["a", "b"]). In js_parser lowerObjectRestHelper the visitor
// walks the properties, captures each key (captureKeyForObjectRest, appended to capturedKeys)
// when the pattern ends in a rest element, and hands capturedKeys to splitObjectPattern /
// lowerObjectRestPattern. Structural necessary condition: inside one iteration of the property
// loop, every path from the start of the iteration to a call that passes the property on as part
// of "the properties up to the split" (splitObjectPattern) goes through the key capture, or
// through the edge on which the pattern was found not to end in a rest element. A property that
// reaches the split without its key captured stays enumerable in `rest`.

func c05ObjectRestExclusion(p *Prog) *RuleResult {
	r := NewRule("C05/R2 object-rest-exclusion", "in the object-pattern visitor of lowerObjectRestHelper every property handed to splitObjectPattern had its key captured for the trailing rest element's exclusion list (or the pattern has no trailing rest)")
	parent := p.FindFunc("js_parser.(*parser).lowerObjectRestHelper")
	if !r.Anchor("js_parser.(*parser).lowerObjectRestHelper", parent != nil) {
		return r
	}
	var visit *ssa.Function
	var captures []*ssa.Call
	for _, fn := range withClosures(parent) {
		if fn == parent {
			continue
		}
		var cs []*ssa.Call
		eachInstr(fn, func(b *ssa.BasicBlock, in ssa.Instruction) {
			if c, ok := in.(*ssa.Call); ok && FuncNameOf(c) == "js_parser.(*parser).captureKeyForObjectRest" {
				cs = append(cs, c)
			}
		})
		if len(cs) > 0 {
			if visit != nil {
				r.Fail("visitor", p.Pos(fn.Pos()), "more than one closure of lowerObjectRestHelper captures keys; the rule's anchor is ambiguous")
				return r
			}
			visit, captures = fn, cs
		}
	}
	if !r.Anchor("closure of lowerObjectRestHelper that calls captureKeyForObjectRest", visit != nil) {
		return r
	}
	// calls of the captured closure variable splitObjectPattern
	var splits []*ssa.Call
	eachInstr(visit, func(b *ssa.BasicBlock, in ssa.Instruction) {
		c, ok := in.(*ssa.Call)
		if !ok || c.Call.IsInvoke() {
			return
		}
		if u, ok := c.Call.Value.(*ssa.UnOp); ok && u.Op == token.MUL {
			if fv, ok := u.X.(*ssa.FreeVar); ok && fv.Name() == "splitObjectPattern" {
				splits = append(splits, c)
			}
		}
	})
	if !r.Anchor("call of splitObjectPattern in the visitor", len(splits) > 0) {
		return r
	}
	loops := naturalLoops(visit)
	captureBlocks := map[*ssa.BasicBlock]bool{}
	// the edge on which the pattern does not end in a rest element: the false edge of the test
	// that guards the capture
	guardFalse := map[[2]int]bool{}
	for _, c := range captures {
		cb := c.Block()
		captureBlocks[cb] = true
		// the result must be appended to what is passed on: the second result flows into an append
		for d := cb.Idom(); d != nil; d = d.Idom() {
			if len(d.Instrs) == 0 {
				continue
			}
			ifi, ok := d.Instrs[len(d.Instrs)-1].(*ssa.If)
			if !ok {
				continue
			}
			if edgeDominates(d, 0, cb) && !edgeDominates(d, 1, cb) {
				// only a test of a plain boolean (the "ends with rest" flag), not of the property
				if _, isCall := ifi.Cond.(*ssa.Call); !isCall {
					guardFalse[[2]int{d.Index, 1}] = true
				}
				break
			}
		}
	}
	for i, sc := range splits {
		r.Instances++
		key := fmt.Sprintf("splitObjectPattern call #%d", i+1)
		sb := sc.Block()
		// the iteration the call belongs to: the innermost loop-body entry that dominates the call
		// (the call is followed by a return, so it is not itself part of the natural loop)
		var header, start *ssa.BasicBlock
		for h, body := range loops {
			for _, s := range h.Succs {
				if body[s] && s.Dominates(sb) && (start == nil || start.Dominates(s)) {
					header, start = h, s
				}
			}
		}
		if start == nil {
			r.Fail(key, p.Pos(sc.Pos()), "the call is not dominated by the body of the property loop; cannot relate it to one property")
			continue
		}
		path, found := reachesExitAvoidingEdges(start,
			func(b *ssa.BasicBlock) bool { return b == sb },
			func(b *ssa.BasicBlock) bool { return captureBlocks[b] || b == header },
			func(b *ssa.BasicBlock, si int) bool { return guardFalse[[2]int{b.Index, si}] })
		if found {
			var bs []string
			for _, b := range path {
				bs = append(bs, fmt.Sprint(b.Index))
			}
			r.Fail(key, p.Pos(sc.Pos()), "a property can reach splitObjectPattern (blocks "+strings.Join(bs, " ")+") without its key having been captured for the trailing ...rest: the lowered rest object would still contain that property")
		} else {
			r.OK(key, true, "every path from the start of the iteration passes captureKeyForObjectRest or the no-trailing-rest edge")
		}
	}
	r.Floor(1)
	return r
}

// C05/R3 synthesised `this` in lowered super accesses.
//
// When `super.x` cannot be kept (async functions, static fields and other lowered contexts) the
// parser rewrites it to a runtime helper call that takes the receiver explicitly:
// __superGet(Class.prototype, this, 'x'), …call(this, …). The `this` it writes is synthesised — it
// does not come from the source — so the two pieces of bookkeeping that visiting a real `this`
// performs have to be done by the helper itself, and the four helper functions have to agree:
//
//	(a) inside a lowered static field initialiser `this` must be replaced by the class reference
//	    (fnOnlyDataVisit.shouldReplaceThisWithInnerClassNameRef), otherwise the emitted `this` is
//	    the `this` of the surrounding code, not the class;
//	(b) the enclosing function must be told that it uses `this` (fnOnlyDataVisit.hasThisUsage),
//	    otherwise a lowered async arrow forwards `null` as its receiver (__async(null, …)) and the
//	    synthesised `this` inside the generated generator is null.
//
// Rule (sibling agreement): every function of js_parser whose name mentions "SuperProperty" and that
// builds an expression from js_ast.EThisShared — itself or through a small helper it calls (static
// callees in the package that load EThisShared, two levels) — reads flag (a) and sets flag (b),
// there or in that helper. The two obligations are keyed by what is lowered, not by the name of the
// function that does it, so moving the code into a helper does not change the verdict.
func c05SynthesisedThis(p *Prog) *RuleResult {
	r := NewRule("C05/R3 synthesised-this", "every helper that lowers a super property access and writes a synthesised `this` replaces it by the class reference inside lowered static field initialisers and marks the enclosing function as using `this`")
	type facts struct {
		usesThis, readsReplace, setsUsage bool
		pos                               token.Pos
	}
	direct := map[*ssa.Function]*facts{}
	factsOf := func(fn *ssa.Function) *facts {
		if f, ok := direct[fn]; ok {
			return f
		}
		f := &facts{}
		direct[fn] = f
		eachInstr(fn, func(b *ssa.BasicBlock, in ssa.Instruction) {
			switch x := in.(type) {
			case *ssa.UnOp:
				if g, ok := x.X.(*ssa.Global); ok && g.Name() == "EThisShared" {
					f.usesThis = true
					f.pos = x.Pos()
				}
				if _, name, ok := loadedField(x); ok && name == "shouldReplaceThisWithInnerClassNameRef" {
					f.readsReplace = true
				}
			case *ssa.Store:
				if fa, ok := x.Addr.(*ssa.FieldAddr); ok && fieldAddrName(fa) == "hasThisUsage" && isConstBool(x.Val, true) {
					f.setsUsage = true
				}
			}
		})
		return f
	}
	var closure func(fn *ssa.Function, depth int, seen map[*ssa.Function]bool) facts
	closure = func(fn *ssa.Function, depth int, seen map[*ssa.Function]bool) facts {
		out := *factsOf(fn)
		if depth >= 2 {
			return out
		}
		seen[fn] = true
		eachInstr(fn, func(b *ssa.BasicBlock, in ssa.Instruction) {
			c, ok := in.(ssa.CallInstruction)
			if !ok {
				return
			}
			callee := c.Common().StaticCallee()
			if callee == nil || seen[callee] || callee.Blocks == nil || pkgPathOf(callee) != modPath+"/internal/js_parser" {
				return
			}
			if strings.HasPrefix(callee.Name(), "visit") || strings.HasPrefix(callee.Name(), "parse") || strings.HasPrefix(callee.Name(), "lower") || strings.HasPrefix(callee.Name(), "maybeLower") || strings.HasPrefix(callee.Name(), "call") {
				return // general passes and the sibling lowering helpers are judged on their own
			}
			sub := closure(callee, depth+1, seen)
			if !sub.usesThis {
				return // only helpers that make the `this` expression belong to the lowering step
			}
			out.usesThis = true
			if out.pos == token.NoPos {
				out.pos = c.Pos()
			}
			out.readsReplace = out.readsReplace || sub.readsReplace
			out.setsUsage = out.setsUsage || sub.setsUsage
		})
		return out
	}
	n := 0
	var noReplace, noUsage []string
	var posReplace, posUsage token.Pos
	for _, fn := range p.ModuleFuncs() {
		if pkgPathOf(fn) != modPath+"/internal/js_parser" || fn.Parent() != nil || !strings.Contains(fn.Name(), "SuperProperty") {
			continue
		}
		f := closure(fn, 0, map[*ssa.Function]bool{})
		if !f.usesThis {
			continue
		}
		n++
		r.Instances++
		if !f.readsReplace {
			noReplace = append(noReplace, FuncName(fn))
			if posReplace == token.NoPos {
				posReplace = f.pos
			}
		}
		if !f.setsUsage {
			noUsage = append(noUsage, FuncName(fn))
			if posUsage == token.NoPos {
				posUsage = f.pos
			}
		}
	}
	if !r.Anchor("super-lowering helpers that synthesise `this`", n >= 3) {
		return r
	}
	sort.Strings(noReplace)
	sort.Strings(noUsage)
	if len(noReplace) == 0 {
		r.OK("lowered super property access: static-field receiver", true, fmt.Sprintf("all %d helpers consult shouldReplaceThisWithInnerClassNameRef", n))
	} else {
		r.Fail(fmt.Sprintf("lowered super property access: static-field receiver (%d helper)", len(noReplace)), p.Pos(posReplace), "writes a synthesised `this` without consulting shouldReplaceThisWithInnerClassNameRef (the sibling helpers do): in a lowered static field initialiser `static x = super.m()` becomes __superGet(C, C, 'm').call(this) with the `this` of the surrounding module/function instead of the class — in "+strings.Join(noReplace, ", "))
	}
	if len(noUsage) == 0 {
		r.OK("lowered super property access: this-usage", true, fmt.Sprintf("all %d helpers set hasThisUsage", n))
	} else {
		usageKey := fmt.Sprintf("lowered super property access: this-usage (%d of %d helpers)", len(noUsage), n)
		if len(noUsage) == n {
			usageKey = "lowered super property access: this-usage (none of the helpers)"
		}
		r.Fail(usageKey, p.Pos(posUsage), "writes a synthesised `this` into the enclosing function without setting hasThisUsage: a lowered async arrow then forwards null as its receiver (`async () => super.foo()` becomes __async(null, null, function*(){ __superGet(C.prototype, this, 'foo').call(this) }) and `this` is null at run time) — in "+strings.Join(noUsage, ", "))
	}
	return r
}

// C05/R4 cannot-throw table.
//
// When an async function is lowered, its parameter list stays on the outer (synchronous) wrapper
// only if binding the parameters cannot throw; otherwise the list moves onto the inner generator so
// that the error rejects the returned promise, as it does natively, instead of escaping from the
// call. The licence is couldPotentiallyThrow(defaultValue). Its behaviour is a finite table over
// node kinds (E-ENUM, lenient): it may answer "cannot throw" (false, or anything but the constant
// true) only for kinds whose evaluation never throws and never runs user code: the primitive
// literals and function/arrow expressions. In particular an identifier can throw (temporal dead
// zone — also of a later parameter —, unbound name), a template literal calls toString, a property
// access calls getters.
var c05CannotThrowKinds = map[string]bool{"ENull": true, "EUndefined": true, "EBoolean": true, "ENumber": true, "EBigInt": true, "EString": true, "EFunction": true, "EArrow": true}

func c05CannotThrow(p *Prog) *RuleResult {
	r := NewRule("C05/R4 cannot-throw-table", "couldPotentiallyThrow answers 'cannot throw' only for primitive literals and function/arrow expressions (the kinds whose evaluation can neither throw nor run user code)")
	var fn *ssa.Function
	for _, f := range p.ModuleFuncs() {
		if pkgPathOf(f) == modPath+"/internal/js_parser" && f.Parent() == nil && f.Name() == "couldPotentiallyThrow" {
			fn = f
		}
	}
	if !r.Anchor("js_parser couldPotentiallyThrow", fn != nil) {
		return r
	}
	cfg := &enumCfg{recursive: map[string]bool{}, inlined: map[string]func() []enumOutcome{}, lenient: true, opConsts: map[int64]string{}, opField: "Op"}
	outs, problems := enumEvaluate(p, fn, cfg)
	for _, pr := range problems {
		r.Instances++
		r.Fail("undecidable: "+pr, "", "couldPotentiallyThrow is no longer a finite table over node kinds at "+pr)
	}
	byKind := map[string]string{}
	pos := map[string]token.Pos{}
	for _, o := range outs {
		if len(o.results) != 1 {
			continue
		}
		k := o.kind
		if k == "" {
			k = "(any other kind)"
		}
		res := o.results[0]
		verdict := "could throw"
		if !res.known {
			verdict = "depends on run-time data (" + strings.Join(o.labels, ",") + ")"
		} else if res.val == 0 {
			verdict = "cannot throw"
		}
		if prev, ok := byKind[k]; !ok || prev == "could throw" {
			byKind[k] = verdict
			pos[k] = o.pos
		}
	}
	var kinds []string
	for k := range byKind {
		kinds = append(kinds, k)
	}
	sort.Strings(kinds)
	safe := 0
	for _, k := range kinds {
		r.Instances++
		v := byKind[k]
		switch {
		case v == "could throw":
			r.OK("couldPotentiallyThrow "+k, false, "")
		case c05CannotThrowKinds[k]:
			safe++
			r.OK("couldPotentiallyThrow "+k, true, "answers "+v+"; evaluating this kind never throws")
		default:
			r.Fail("couldPotentiallyThrow "+k, p.Pos(pos[k]), "answers '"+v+"' for "+k+", whose evaluation can throw or run user code (for an identifier: temporal dead zone of a later parameter or of the parameter itself, or an unbound name): a lowered async function then throws synchronously where the native one returns a rejected promise")
		}
	}
	r.Anchor("kinds for which couldPotentiallyThrow answers 'cannot throw'", safe >= 4)
	return r
}

// C05/R5 (also C14/R8) implied feature bits are applied unmasked.
//
// The lowering passes test one feature bit each (`for await` looks at ForAwait, `yield*` in an async
// generator at AsyncGenerator, …) and rely on bundler.fixInvalidUnsupportedJSFeatureOverrides
// having closed the set under implication: if async functions are unsupported, async generators,
// for-await and top-level await are unsupported too, whatever the user's `supported` map says about
// them. The implied bits must therefore be OR-ed in as given; masking them by the user's explicit
// overrides leaves `for await` inside the plain generator that replaces a lowered async function.
func c05ImpliedFeaturesUnmasked(p *Prog, name string) *RuleResult {
	r := NewRule(name, "fixInvalidUnsupportedJSFeatureOverrides ORs the implied feature bits into the unsupported set unconditionally and unmasked (lowering passes test single bits and rely on the set being closed under implication)")
	fn := p.FindFunc("bundler.fixInvalidUnsupportedJSFeatureOverrides")
	if !r.Anchor("bundler.fixInvalidUnsupportedJSFeatureOverrides", fn != nil) {
		return r
	}
	var implied *ssa.Parameter
	for _, prm := range fn.Params {
		if prm.Name() == "implied" {
			implied = prm
		}
	}
	if !r.Anchor("parameter implied", implied != nil) {
		return r
	}
	n := 0
	eachInstr(fn, func(b *ssa.BasicBlock, in ssa.Instruction) {
		st, ok := in.(*ssa.Store)
		if !ok {
			return
		}
		fa, ok := st.Addr.(*ssa.FieldAddr)
		if !ok || fieldAddrName(fa) != "UnsupportedJSFeatures" {
			return
		}
		n++
		r.Instances++
		key := "fixInvalidUnsupportedJSFeatureOverrides update of UnsupportedJSFeatures"
		bo, ok := st.Val.(*ssa.BinOp)
		if ok && bo.Op == token.OR && (bo.X == ssa.Value(implied) || bo.Y == ssa.Value(implied)) {
			r.OK(key, true, "unsupported |= implied, with the parameter itself")
		} else {
			r.Fail(key, p.Pos(st.Pos()), "the unsupported-feature set is not updated with the implied bits as given ("+ssaExpr(st.Val, 0)+"): a dependent feature the user listed as supported stays on although the feature it needs is off, and the pass that lowers the base feature emits the dependent syntax into code where it is invalid")
		}
	})
	r.Anchor("the update of UnsupportedJSFeatures", n >= 1)
	return r
}
