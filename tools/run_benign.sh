#!/bin/bash
# Runs all twenty checks on every behaviour-preserving refactoring in benign/*.diff (scratch copy,
# static only) and writes benign/RESULTS.md. Every line must say SILENT.
cd "$(dirname "$0")/.."
out=benign/RESULTS.md
echo "| refactoring | result |" > $out
echo "|---|---|" >> $out
for f in benign/*.diff; do
  res=$(tools/benign.sh $f 2>&1 | head -3 | tr '\n' ' ' | cut -c1-300)
  echo "| $(basename $f .diff) | $res |" >> $out
done
grep -c SILENT $out
