package main

import (
	"fmt"
	"go/ast"
	"go/constant"
	"go/token"
	"go/types"
	"golang.org/x/tools/go/callgraph"
	"os"
	"sort"
	"strings"

	"golang.org/x/tools/go/ssa"
)

// E-GATE: syntax-introducing construction sites and their feature gates.

type synSite struct {
	fn      *ssa.Function
	instr   ssa.Instruction
	what    string // e.g. "EBinary{Op: BinOpNullishCoalescing}"
	feature string // compat.JSFeature constant name
}

// constant tables resolved from the type-checked packages
type c14Consts struct {
	opFeature   map[int64][2]string // OpCode value -> {name, feature}
	chainConsts map[int64]string    // OptionalChainStart/Continue values
	localKinds  map[int64][2]string // LocalKind value -> {name, feature}
	propSpread  int64
	features    map[string]int64 // JSFeature name -> value
}

func lookupConst(pk *types.Package, name string) (int64, bool) {
	c, ok := pk.Scope().Lookup(name).(*types.Const)
	if !ok {
		return 0, false
	}
	if c.Val().Kind() != constant.Int {
		return 0, false
	}
	// big constants (1<<63) do not fit: use Uint64
	if v, ok := constant.Int64Val(c.Val()); ok {
		return v, true
	}
	if u, ok := constant.Uint64Val(c.Val()); ok {
		return int64(u), true
	}
	return 0, false
}

func loadC14Consts(p *Prog, r *RuleResult) *c14Consts {
	ja := p.ByPath[modPath+"/internal/js_ast"]
	cp := p.ByPath[modPath+"/internal/compat"]
	if !r.Anchor("packages js_ast, compat", ja != nil && cp != nil) {
		return nil
	}
	c := &c14Consts{opFeature: map[int64][2]string{}, chainConsts: map[int64]string{}, localKinds: map[int64][2]string{}, features: map[string]int64{}}
	for name, feat := range map[string]string{
		"BinOpNullishCoalescing": "NullishCoalescing", "BinOpNullishCoalescingAssign": "LogicalAssignment", "BinOpLogicalOrAssign": "LogicalAssignment", "BinOpLogicalAndAssign": "LogicalAssignment",
		"BinOpPow": "ExponentOperator", "BinOpPowAssign": "ExponentOperator",
	} {
		v, ok := lookupConst(ja.Types, name)
		if r.Anchor("js_ast."+name, ok) {
			c.opFeature[v] = [2]string{name, feat}
		}
	}
	for _, name := range []string{"OptionalChainStart", "OptionalChainContinue"} {
		v, ok := lookupConst(ja.Types, name)
		if r.Anchor("js_ast."+name, ok) {
			c.chainConsts[v] = name
		}
	}
	for name, feat := range map[string]string{"LocalLet": "ConstAndLet", "LocalConst": "ConstAndLet", "LocalUsing": "Using", "LocalAwaitUsing": "Using"} {
		v, ok := lookupConst(ja.Types, name)
		if r.Anchor("js_ast."+name, ok) {
			c.localKinds[v] = [2]string{name, feat}
		}
	}
	if v, ok := lookupConst(ja.Types, "PropertySpread"); r.Anchor("js_ast.PropertySpread", ok) {
		c.propSpread = v
	}
	for _, n := range cp.Types.Scope().Names() {
		if k, ok := cp.Types.Scope().Lookup(n).(*types.Const); ok {
			if nt, ok := k.Type().(*types.Named); ok && nt.Obj().Name() == "JSFeature" {
				if u, ok := constant.Uint64Val(k.Val()); ok {
					c.features[n] = int64(u)
				}
			}
		}
	}
	r.Anchor("compat.JSFeature constants", len(c.features) > 40)
	return c
}

// node allocations that are syntax of a feature by themselves
var c14AllocFeature = map[string]string{
	"js_ast.EArrow":    "Arrow",
	"js_ast.EBigInt":   "Bigint",
	"js_ast.ESpread":   "ArraySpread",
	"js_ast.EAwait":    "AsyncAwait",
	"js_ast.EYield":    "Generator",
	"js_ast.SForOf":    "ForOf",
	"js_ast.ETemplate": "TemplateLiteral",
}

func isParsePass(fn *ssa.Function) bool {
	top := TopFunc(fn)
	pp := pkgPathOf(top)
	if pp != modPath+"/internal/js_parser" {
		return false
	}
	n := top.Name()
	for _, pre := range []string{"parse", "skip", "trySkip", "lex", "convertExprTo", "forbid", "markExprAs", "validate", "checkFor", "isType", "nextInside", "declare", "newSymbol", "push", "pop"} {
		if strings.HasPrefix(n, pre) {
			return true
		}
	}
	return false
}

func collectSynSites(p *Prog, c *c14Consts) []synSite {
	var out []synSite
	scopePkgs := map[string]bool{
		modPath + "/internal/js_parser": true, modPath + "/internal/js_ast": true, modPath + "/internal/linker": true,
		modPath + "/internal/bundler": true, modPath + "/internal/js_printer": true, modPath + "/internal/graph": true, modPath + "/internal/renamer": true,
	}
	for _, fn := range p.ModuleFuncs() {
		if !scopePkgs[pkgPathOf(fn)] || isParsePass(fn) {
			continue
		}
		eachInstr(fn, func(b *ssa.BasicBlock, in ssa.Instruction) {
			switch x := in.(type) {
			case *ssa.Alloc:
				tn := namedTypeName(x.Type())
				if feat, ok := c14AllocFeature[tn]; ok && x.Heap {
					if tn == "js_ast.ETemplate" {
						// tagged templates are older syntax only when... no: template literals as such
						// are ES2015; tagged or not, the node prints backticks unless lowered
					}
					out = append(out, synSite{fn, in, "&" + tn + "{}", feat})
				}
			case *ssa.Store:
				fa, ok := x.Addr.(*ssa.FieldAddr)
				if !ok {
					return
				}
				owner, name := namedTypeName(fa.X.Type()), fieldAddrName(fa)
				k, isConst := x.Val.(*ssa.Const)
				if !isConst || k.Value == nil {
					return
				}
				switch {
				case owner == "js_ast.EBinary" && name == "Op":
					if v, ok := constant.Int64Val(k.Value); ok {
						if of, ok := c.opFeature[v]; ok {
							out = append(out, synSite{fn, in, "EBinary{Op: " + of[0] + "}", of[1]})
						}
					}
				case name == "OptionalChain" && (owner == "js_ast.EDot" || owner == "js_ast.EIndex" || owner == "js_ast.ECall"):
					if v, ok := constant.Int64Val(k.Value); ok {
						if cn, ok := c.chainConsts[v]; ok {
							out = append(out, synSite{fn, in, strings.TrimPrefix(owner, "js_ast.") + "{OptionalChain: " + cn + "}", "OptionalChain"})
						}
					}
				case owner == "js_ast.SLocal" && name == "Kind":
					if v, ok := constant.Int64Val(k.Value); ok {
						if lk, ok := c.localKinds[v]; ok {
							out = append(out, synSite{fn, in, "SLocal{Kind: " + lk[0] + "}", lk[1]})
						}
					}
				case owner == "js_ast.Property" && name == "Kind":
					if v, ok := constant.Int64Val(k.Value); ok && v == c.propSpread {
						out = append(out, synSite{fn, in, "Property{Kind: PropertySpread}", "ObjectRestSpread"})
					}
				case owner == "js_ast.Fn" && name == "IsAsync":
					if constant.BoolVal(k.Value) {
						out = append(out, synSite{fn, in, "Fn{IsAsync: true}", "AsyncAwait"})
					}
				case owner == "js_ast.Fn" && name == "IsGenerator":
					if constant.BoolVal(k.Value) {
						out = append(out, synSite{fn, in, "Fn{IsGenerator: true}", "Generator"})
					}
				case owner == "js_ast.EArrow" && name == "IsAsync":
					if constant.BoolVal(k.Value) {
						out = append(out, synSite{fn, in, "EArrow{IsAsync: true}", "AsyncAwait"})
					}
				}
			}
		})
	}
	sort.SliceStable(out, func(i, j int) bool {
		a, b := FuncName(out[i].fn), FuncName(out[j].fn)
		if a != b {
			return a < b
		}
		return out[i].what < out[j].what
	})
	return out
}

// gateFact: does a dominating fact say that `feature` is NOT unsupported (Has(feature) == false)?
func hasGateFact(b *ssa.BasicBlock, featVal int64) (bool, string) {
	for _, f := range factsAt(b) {
		if c, ok := f.Cond.(*ssa.Call); ok && strings.HasSuffix(calleeFullName(c), "compat.JSFeature).Has") && len(c.Call.Args) == 2 {
			if k, ok := c.Call.Args[1].(*ssa.Const); ok && k.Value != nil {
				if u, ok := constant.Uint64Val(k.Value); ok && int64(u) == featVal && !f.True {
					return true, "dominated by !Has(feature)"
				}
			}
		}
		// inlined form: (features & F) != 0
		if bo, ok := f.Cond.(*ssa.BinOp); ok && (bo.Op == token.NEQ || bo.Op == token.EQL) {
			if and, ok := bo.X.(*ssa.BinOp); ok && and.Op == token.AND {
				if k, ok := and.Y.(*ssa.Const); ok && k.Value != nil {
					if u, ok := constant.Uint64Val(k.Value); ok && int64(u) == featVal {
						unsupported := (bo.Op == token.NEQ) == f.True
						if !unsupported {
							return true, "dominated by (features & F) == 0"
						}
					}
				}
			}
		}
	}
	return false, ""
}

// preservingFact: the site runs only after a successful type assertion to the same node type, or
// (for operators) the enclosing function was handed a node of that kind.
func preservingFact(b *ssa.BasicBlock, nodeType string) bool {
	for _, f := range factsAt(b) {
		if ex, ok := f.Cond.(*ssa.Extract); ok && ex.Index == 1 && f.True {
			if ta, ok := ex.Tuple.(*ssa.TypeAssert); ok && namedTypeName(ta.AssertedType) == nodeType {
				return true
			}
		}
	}
	return false
}

// functions that take a freshly built node and lower it when the feature is unsupported
var c14GateWrappers = map[string]string{
	"js_parser.(*parser).maybeLowerAwait": "AsyncAwait",
}

func calleeFullNameShort(c ssa.CallInstruction) string {
	if f := c.Common().StaticCallee(); f != nil {
		return FuncName(f)
	}
	return ""
}

func init() {
	for _, k := range []string{
		"js_parser.(*parser).visitAndAppendStmt SLocal{Kind: LocalConst}",
		"js_parser.(*parser).visitAndAppendStmt SLocal{Kind: LocalUsing}",
		"js_parser.(*parser).visitAndAppendStmt SLocal{Kind: LocalUsing} #2",
		"js_parser.(*parser).visitAndAppendStmt SLocal{Kind: LocalUsing} #3",
	} {
		c08Guards[k] = []excGuard{{fn: "js_parser.(*parser).visitAndAppendStmt", callee: modPath + "/internal/js_parser.parser).selectLocalKind", n: 1}}
	}
}

var c14GateExceptions = ExcTable{
	"js_parser.(*parser).visitAndAppendStmt SLocal{Kind: LocalConst}":             "rewrites an existing `using x = null` declaration (same statement the user wrote); the case then passes the kind through p.selectLocalKind, which turns let/const into var when unsupported (verified: --minify-syntax --target=chrome48 prints var)",
	"js_parser.(*parser).visitAndAppendStmt SLocal{Kind: LocalUsing}":             "downgrades an existing `await using` to `using` in dead code / restores `using` after the const optimisation: same Using feature the input already has (the parser gated it), lowered later by lowerUsingDeclarationContext when unsupported",
	"js_parser.(*parser).visitAndAppendStmt SLocal{Kind: LocalUsing} #2":          "downgrades an existing `await using` to `using` in dead code / restores `using` after the const optimisation: same Using feature the input already has (the parser gated it), lowered later by lowerUsingDeclarationContext when unsupported",
	"js_parser.(*parser).visitAndAppendStmt SLocal{Kind: LocalUsing} #3":          "downgrades an existing `await using` to `using` in dead code / restores `using` after the const optimisation: same Using feature the input already has (the parser gated it), lowered later by lowerUsingDeclarationContext when unsupported",
	"js_ast.ConvertBindingToExpr &js_ast.ESpread{}":                               "preserving: built only for the last item of a BArray whose HasSpread is set, i.e. the input already had a rest/spread element there",
	"js_parser.(*parser).captureValueWithPossibleSideEffects$7 &js_ast.EBigInt{}": "preserving: closure created in the `case *js_ast.EBigInt` arm; copies the existing literal",
	"js_parser.(*parser).lowerFunction &js_ast.ESpread{}":                         "preserving: forwards the function's own rest argument (only when *hasRestArg)",
	"js_parser.(*parser).lowerFunction Fn{IsGenerator: true}":                     "lowering target: async functions are lowered to generators only after markLoweredSyntaxFeature(AsyncAwait, ..., Generator) has reported an error when generators are unsupported too",
	"js_parser.(*parser).maybeLowerAwait &js_ast.EYield{}":                        "lowering target of await inside a lowered async function; the enclosing function was turned into a generator under the same check (see lowerFunction)",
	"js_parser.(*parser).maybeLowerAwait &js_ast.EYield{} #2":                     "lowering target of await inside a lowered async function; the enclosing function was turned into a generator under the same check (see lowerFunction)",
	"js_parser.(*parser).insertStmtsAfterSuperCall &js_ast.EArrow{}":              "class-field lowering inside a derived-class constructor (needs class syntax, which every engine/ES target has later than arrows and spread); could only matter under a `supported` override and could not be reproduced",
	"js_parser.(*parser).insertStmtsAfterSuperCall &js_ast.ESpread{}":             "class-field lowering inside a derived-class constructor (needs class syntax, which every engine/ES target has later than arrows and spread); could only matter under a `supported` override and could not be reproduced",
	"js_parser.(*parser).visitStmts SLocal{Kind: LocalLet}":                       "temporaries that may be captured inside a loop; requested only by class lowering (innerClassNameRef), which needs class syntax and therefore `let`; could only matter under a `supported` override and could not be reproduced (a user-written let is rejected first)",
	"linker.(*linkerContext).generateCodeForLazyExport &js_ast.ETemplate{}":       "CSS-modules `composes`: every part is a local-name string after renaming, and the printer folds such templates into a plain string (InlinePrimitivesIntoTemplate) — verified for same-file and cross-file composes with --target=ie11",
}

func init() {
	register(&Property{
		ID:          "C14",
		Explanation: "Decides structural necessary conditions of 'output only uses syntax available in the target': R1 every construction of a newer-syntax node outside the parse pass (nullish/logical-assignment/exponent operators, optional chains, templates, arrows, let/const/using, bigint, spread, async/generator, for-of) is dominated by a test that the matching compat.JSFeature bit is not unsupported — in the function itself, in every caller, through a gate wrapper, or preserves an existing node of the same kind — or is a reviewed entry; R2 markSyntaxFeature reports on every path on which the feature is unsupported and every JSFeature constant is consulted by some gate; R3 the feature tables are complete and `supported` overrides are applied in both directions wherever options are built; R4 the embedded runtime text only uses newer syntax inside feature-conditional branches. R6 export-name-diagnostic-scope: the string-export-name diagnostic is gated on IsEntryPoint(), not on user-specified entry points only. R7 cache-hit-replays-diagnostics (shared with C09/R9). R8 implied-features-unmasked (shared with C05/R5). R9 static-block-assign-gate: the js_ast.Property fields read by the conditions that force lowerAllStaticFields under unsupported ClassStaticBlocks are a subset of those read by the conditions that set staticFieldToBlockAssign. R10 implied-features-follow-effective-set: the condition under which fixInvalidUnsupportedJSFeatureOverrides adds implied bits reads options.UnsupportedJSFeatures. R11 marking-traversal-visits-every-child: the C05/R7 analysis. R12 regexp-escape-scan-covers-classes: every backslash case of isUnsupportedRegularExpression reaches the p{ / P{ test. R13 object-rest-detectors-look-through-array-rest: exprHasObjectRest and the marking scan of lowerObjectRestHelper have a case for ESpread (two known findings). NOT covered: that each lowering emits only older syntax in the JS text of runtime helpers beyond the lexical check; engine-version table values.",
		Run: func(p *Prog, tier string) []*RuleResult {
			return []*RuleResult{c14IntroduceGate(p), c14DiagnoseOrLower(p), c14Tables(p), c14RuntimeText(p), c14RuntimeFeatures(p), c14ExportNameScope(p), c09CacheHitReplay(p, "C14/R7 cache-hit-replays-diagnostics"), c05ImpliedFeaturesUnmasked(p, "C14/R8 implied-features-unmasked"), c14StaticBlockAssignGate(p), c14ImpliedFollowEffective(p), c14RegexpEscapeScan(p), c14ObjectRestThroughArrayRest(p), markingTraversalComplete(p, "C14/R11 marking-traversal-visits-every-child")}
		},
	})
}

func c14IntroduceGate(p *Prog) *RuleResult {
	r := NewRule("C14/R1 introduce-gate", "syntax-introducing constructions outside the parse pass are gated on the matching target-feature bit")
	c := loadC14Consts(p, r)
	if c == nil {
		return r
	}
	sites := collectSynSites(p, c)
	dump := os.Getenv("VERIF_DUMP") != ""
	cg := p.CallGraph()
	seen := map[string]int{}
	for _, s := range sites {
		r.Instances++
		base := FuncName(s.fn) + " " + s.what
		seen[base]++
		key := base
		if seen[base] > 1 {
			key = fmt.Sprintf("%s #%d", base, seen[base])
		}
		fv := c.features[s.feature]
		b := s.instr.Block()
		if ok, why := hasGateFact(b, fv); ok {
			r.OK(key, true, why+" compat."+s.feature)
			continue
		}
		// preserving an existing node of the same kind
		nodeType := ""
		if al, ok := s.instr.(*ssa.Alloc); ok {
			// only when the node type itself is the syntax; a constant operator/flag stored into a
			// node is new syntax even if a node of that type was matched
			nodeType = namedTypeName(al.Type())
		}
		if nodeType != "" && preservingFact(b, nodeType) {
			r.OK(key, true, "built only after a successful type assertion to "+nodeType+" (preserves syntax the input already has)")
			continue
		}
		// the same in a helper: the function is handed a node of that kind (a parameter of type *T —
		// whoever built the argument is judged where it was built), or every call site stands after a
		// successful type assertion to it
		if nodeType != "" && s.fn == TopFunc(s.fn) {
			byParam := false
			for _, prm := range s.fn.Params {
				if pt, ok := prm.Type().(*types.Pointer); ok && namedTypeName(pt.Elem()) == nodeType {
					byParam = true
				}
			}
			if byParam {
				r.OK(key, true, "helper that is handed an existing "+nodeType+" (preserves syntax the input already has)")
				continue
			}
			if node := cg.Nodes[s.fn]; node != nil && len(node.In) > 0 {
				all := true
				for _, e := range node.In {
					if e.Site == nil || e.Site.Block() == nil || !preservingFact(e.Site.Block(), nodeType) {
						all = false
					}
				}
				if all {
					r.OK(key, true, "every call site stands after a successful type assertion to "+nodeType)
					continue
				}
			}
		}
		// caller-gated: every static call site of this (top-level) function is gated
		top := TopFunc(s.fn)
		if node := cg.Nodes[top]; node != nil && len(node.In) > 0 && s.fn == top {
			all := true
			for _, e := range node.In {
				if e.Site == nil || e.Site.Block() == nil {
					all = false
					break
				}
				if e.Caller.Func == top {
					continue // recursion
				}
				if ok, _ := hasGateFact(e.Site.Block(), fv); !ok {
					all = false
					break
				}
			}
			if all {
				r.OK(key, true, "every caller gates the call on compat."+s.feature)
				continue
			}
		}
		// gate wrapper: the new node is handed straight to a function that lowers it when needed
		if al, ok := s.instr.(*ssa.Alloc); ok && al.Referrers() != nil {
			wrapped := false
			for _, rf := range *al.Referrers() {
				if c, ok := rf.(*ssa.Call); ok && c14GateWrappers[calleeFullNameShort(c)] == s.feature {
					wrapped = true
				}
			}
			if wrapped {
				r.OK(key, true, "passed directly to a gate wrapper that lowers the node when compat."+s.feature+" is unsupported")
				continue
			}
		}
		// an `await` the linker generates around a module wrapper call is preserving when it is
		// conditional on IsAsyncOrHasAsyncDependency: that flag is only ever set for files whose own
		// source (or a static dependency's) uses top-level await, which the parser gated with
		// markSyntaxFeature(TopLevelAwait)
		if s.feature == "AsyncAwait" && strings.Contains(s.what, "EAwait") {
			onFlag := false
			for _, ifi := range controlDepIfsTransitive(s.instr.Block()) {
				sliceCond(ifi.Cond, func(v ssa.Value) bool {
					if fa, ok := v.(*ssa.FieldAddr); ok && fieldAddrName(fa) == "IsAsyncOrHasAsyncDependency" {
						onFlag = true
					}
					return true
				})
			}
			if onFlag {
				r.OK(key, true, "preserving: generated only when a module's IsAsyncOrHasAsyncDependency flag is set, i.e. the input itself uses top-level await, which the parser gated with markSyntaxFeature(TopLevelAwait)")
				continue
			}
		}
		if dump {
			fmt.Printf("UNGATED %s [%s] @ %s\n", key, s.feature, p.Pos(s.instr.Pos()))
		}
		if ok, _ := guardedExc(p, r, c14GateExceptions, key); ok {
			continue
		}
		// a helper that was split off a function with a reviewed entry for the same construction: when
		// every in-module caller of this function carries that entry, the reason carries over
		if inherited := c14InheritedException(p, cg, s.fn, s.what); inherited != "" {
			r.OK(key, true, "reviewed for its only caller(s): "+inherited)
			continue
		}
		r.Fail(key, p.Pos(s.instr.Pos()), "constructs "+s.what+" without a dominating check that compat."+s.feature+" is supported by the target")
	}
	r.Floor(40)
	r.StaleCheck(c14GateExceptions)
	return r
}

func isLogCall(in ssa.Instruction) bool {
	c, ok := in.(*ssa.Call)
	if !ok {
		return false
	}
	n := calleeFullName(c)
	return strings.Contains(n, "logger.Log).Add")
}

func c14DiagnoseOrLower(p *Prog) *RuleResult {
	r := NewRule("C14/R2 diagnose-or-lower", "markSyntaxFeature reports a diagnostic on every path on which the feature is unsupported; every JSFeature bit is consulted somewhere outside the compat tables")
	fn := p.FindFunc("js_parser.(*parser).markSyntaxFeature")
	if r.Anchor("js_parser.(*parser).markSyntaxFeature", fn != nil) {
		r.Instances++
		var unsupported *ssa.BasicBlock
		eachInstr(fn, func(b *ssa.BasicBlock, in ssa.Instruction) {
			ifi, ok := in.(*ssa.If)
			if !ok || unsupported != nil {
				return
			}
			c := ifi.Cond
			pol := true
			for {
				if u, ok := c.(*ssa.UnOp); ok && u.Op == token.NOT {
					c = u.X
					pol = !pol
					continue
				}
				break
			}
			if call, ok := c.(*ssa.Call); ok && strings.HasSuffix(calleeFullName(call), "compat.JSFeature).Has") {
				if _, isParam := call.Call.Args[1].(*ssa.Parameter); isParam {
					if pol {
						unsupported = b.Succs[0]
					} else {
						unsupported = b.Succs[1]
					}
				}
			}
		})
		if unsupported == nil {
			r.Fail("markSyntaxFeature unsupported branch", p.Pos(fn.Pos()), "the test unsupportedJSFeatures.Has(feature) was not found")
		} else if path, bad := reachesExitAvoiding(unsupported, isReturnBlock, func(b *ssa.BasicBlock) bool { return blockHas(b, isLogCall) }, false); bad {
			r.Fail("markSyntaxFeature reports every unsupported feature", p.Pos(fn.Pos()), "an unsupported feature can return without any diagnostic: "+blockPath(path))
		} else {
			r.OK("markSyntaxFeature reports every unsupported feature", true, "every path from Has(feature)==true to a return logs an error or one of the two documented warnings")
		}
	}
	// every feature bit consulted outside compat / api tables
	cp := p.ByPath[modPath+"/internal/compat"]
	if r.Anchor("package compat", cp != nil) {
		feats := map[string]uint64{}
		for _, n := range cp.Types.Scope().Names() {
			if k, ok := cp.Types.Scope().Lookup(n).(*types.Const); ok {
				if nt, ok := k.Type().(*types.Named); ok && nt.Obj().Name() == "JSFeature" {
					if u, ok := constant.Uint64Val(k.Val()); ok {
						feats[n] = u
					}
				}
			}
		}
		used := map[string]string{}
		for _, fn := range p.ModuleFuncs() {
			pp := pkgPathOf(fn)
			if pp == modPath+"/internal/compat" || strings.HasSuffix(pp, "/pkg/cli") {
				continue
			}
			eachInstr(fn, func(b *ssa.BasicBlock, in ssa.Instruction) {
				var ops []*ssa.Value
				for _, op := range in.Operands(ops) {
					if op == nil || *op == nil {
						continue
					}
					k, ok := (*op).(*ssa.Const)
					if !ok || k.Value == nil || namedTypeName(k.Type()) != "compat.JSFeature" {
						continue
					}
					u, ok := constant.Uint64Val(k.Value)
					if !ok {
						continue
					}
					for n, v := range feats {
						if u&v != 0 && used[n] == "" {
							used[n] = FuncName(fn)
						}
					}
				}
			})
		}
		var names []string
		for n := range feats {
			names = append(names, n)
		}
		sort.Strings(names)
		for _, n := range names {
			r.Instances++
			if used[n] != "" {
				r.OK("compat."+n+" is consulted", false, "")
			} else if !r.CheckExc(c14UnusedFeatureExceptions, "compat."+n) {
				r.Fail("compat."+n+" is consulted", "-", "no code outside the compat/api tables ever tests compat."+n+": syntax of that feature is emitted whatever the target says")
			}
		}
	}
	r.Floor(50)
	r.StaleCheck(c14UnusedFeatureExceptions)
	return r
}

var c14UnusedFeatureExceptions = ExcTable{}

func c14Tables(p *Prog) *RuleResult {
	r := NewRule("C14/R3 table-completeness", "the name table and the engine-version table cover every JSFeature/CSSFeature constant, and `supported` overrides (values and mask) are applied wherever options are built")
	cp := p.ByPath[modPath+"/internal/compat"]
	if !r.Anchor("package compat", cp != nil) {
		return r
	}
	consts := func(typeName string) map[string]bool {
		out := map[string]bool{}
		for _, n := range cp.Types.Scope().Names() {
			if k, ok := cp.Types.Scope().Lookup(n).(*types.Const); ok {
				if nt, ok := k.Type().(*types.Named); ok && nt.Obj().Name() == typeName {
					out[n] = true
				}
			}
		}
		return out
	}
	// package-level map literals
	lits := map[string]*ast.CompositeLit{}
	for _, f := range cp.Syntax {
		for _, d := range f.Decls {
			gd, ok := d.(*ast.GenDecl)
			if !ok || gd.Tok != token.VAR {
				continue
			}
			for _, sp := range gd.Specs {
				vs := sp.(*ast.ValueSpec)
				for i, nm := range vs.Names {
					if i < len(vs.Values) {
						if cl, ok := vs.Values[i].(*ast.CompositeLit); ok {
							lits[nm.Name] = cl
						}
					}
				}
			}
		}
	}
	check := func(table string, typeName string, byKey bool) {
		cl := lits[table]
		if !r.Anchor("compat."+table, cl != nil) {
			return
		}
		all := consts(typeName)
		seen := map[string]int{}
		for _, el := range cl.Elts {
			kv, ok := el.(*ast.KeyValueExpr)
			if !ok {
				continue
			}
			e := kv.Value
			if byKey {
				e = kv.Key
			}
			if id, ok := e.(*ast.Ident); ok {
				seen[id.Name]++
			}
		}
		var names []string
		for n := range all {
			names = append(names, n)
		}
		sort.Strings(names)
		for _, n := range names {
			r.Instances++
			key := "compat." + table + " has " + n
			switch {
			case seen[n] == 1:
				r.OK(key, false, "")
			case seen[n] == 0:
				r.Fail(key, p.Pos(cl.Pos()), "feature constant "+n+" is missing from "+table)
			default:
				r.Fail(key, p.Pos(cl.Pos()), "feature constant "+n+" appears more than once in "+table)
			}
		}
	}
	check("StringToJSFeature", "JSFeature", false)
	check("jsTable", "JSFeature", true)
	check("StringToCSSFeature", "CSSFeature", false)
	check("cssTable", "CSSFeature", true)
	// overrides applied at every construction of config.Options in pkg/api
	for _, name := range []string{"pkg/api.validateBuildOptions", "pkg/api.transformImpl"} {
		fn := p.FindFunc(name)
		if !r.Anchor(name, fn != nil) {
			continue
		}
		r.Instances++
		var vs *ssa.Call
		applied := map[string]bool{}
		eachInstr(fn, func(b *ssa.BasicBlock, in ssa.Instruction) {
			c, ok := in.(*ssa.Call)
			if !ok {
				return
			}
			n := calleeFullName(c)
			if strings.HasSuffix(n, "pkg/api.validateSupported") {
				vs = c
			}
			if strings.HasSuffix(n, "compat.JSFeature).ApplyOverrides") || strings.HasSuffix(n, "compat.CSSFeature).ApplyOverrides") {
				// both the overrides and the mask must come from validateSupported
				fromVS := 0
				for _, a := range c.Call.Args[1:] {
					if ex, ok := a.(*ssa.Extract); ok {
						if cc, ok := ex.Tuple.(*ssa.Call); ok && strings.HasSuffix(calleeFullName(cc), "pkg/api.validateSupported") {
							fromVS++
						}
					}
				}
				if fromVS == 2 {
					// result must be stored into the Unsupported*Features option
					if refs := c.Referrers(); refs != nil {
						for _, rf := range *refs {
							if st, ok := rf.(*ssa.Store); ok {
								if fa, ok := st.Addr.(*ssa.FieldAddr); ok {
									applied[fieldAddrName(fa)] = true
								}
							}
						}
					}
				}
			}
		})
		if vs != nil && applied["UnsupportedJSFeatures"] && applied["UnsupportedCSSFeatures"] {
			r.OK(name+" applies supported overrides", true, "UnsupportedJS/CSSFeatures = features.ApplyOverrides(overrides, mask) with both values from validateSupported")
		} else {
			r.Fail(name+" applies supported overrides", p.Pos(fn.Pos()), "options are built without applying the `supported` overrides and mask to the unsupported-feature sets")
		}
	}
	// ApplyOverrides itself: (features & ^mask) | (overrides & mask)
	for _, name := range []string{"compat.(JSFeature).ApplyOverrides", "compat.(CSSFeature).ApplyOverrides"} {
		fn := p.FindFunc(name)
		if !r.Anchor(name, fn != nil) {
			continue
		}
		r.Instances++
		ops := map[string]int{}
		eachInstr(fn, func(b *ssa.BasicBlock, in ssa.Instruction) {
			if bo, ok := in.(*ssa.BinOp); ok {
				ops[bo.Op.String()]++
			}
			if u, ok := in.(*ssa.UnOp); ok {
				ops["un"+u.Op.String()]++
			}
		})
		if ops["|"] == 1 && (ops["&"] == 2 || (ops["&"] == 1 && ops["&^"] == 1)) {
			r.OK(name+" shape", true, "(features &^ mask) | (overrides & mask): overrides win in both directions exactly on the masked bits")
		} else {
			r.Fail(name+" shape", p.Pos(fn.Pos()), fmt.Sprintf("unexpected operator shape %v", ops))
		}
	}
	r.Floor(100)
	return r
}

func c14RuntimeText(p *Prog) *RuleResult {
	r := NewRule("C14/R4 runtime-text", "the embedded runtime library uses syntax that esbuild cannot lower (for-of, accessors, generators, classes, bigint, private names, ...) only inside a branch that is taken when the matching feature is supported")
	segs, src := collectRuntimeSegments(p)
	if !r.Anchor("runtime.Source", src != nil && len(segs) > 10) {
		return r
	}
	for i, s := range segs {
		text := stripJSComments(s.text)
		for _, u := range rtUnlowerable {
			loc := u.re.FindStringIndex(text)
			if loc == nil {
				continue
			}
			r.Instances++
			key := fmt.Sprintf("runtime segment %d uses %s", i, u.what)
			if s.requires[u.feature] {
				r.OK(key, true, "inside a branch taken only when compat."+u.feature+" is supported")
			} else {
				r.Fail(fmt.Sprintf("runtime text uses %s unguarded", u.what), p.Pos(s.pos), "runtime text contains a "+u.what+" ("+strings.TrimSpace(text[loc[0]:loc[1]])+") outside a branch guarded by !Has(compat."+u.feature+")")
			}
		}
	}
	r.Note("runtime text segments: %d", len(segs))
	if r.Instances < 3 {
		r.Fail("C14/R4 positive-control", "-", "fewer than 3 guarded unlowerable constructs found in the runtime text (for-of and accessors exist today): the lexer went blind")
	}
	return r
}

// R5: the runtime library is parsed and selected for exactly the build's unsupported-feature set.
func c14RuntimeFeatures(p *Prog) *RuleResult {
	r := NewRule("C14/R5 runtime-feature-set", "the runtime library is lowered for the build's full unsupported-feature set: the runtime cache key takes options.UnsupportedJSFeatures unmodified (no masking or narrowing) and the scanner asks for the runtime with the build's own options")
	fn := p.FindFunc("bundler.(*runtimeCache).parseRuntime")
	if !r.Anchor("bundler.(*runtimeCache).parseRuntime", fn != nil) {
		return r
	}
	found := false
	eachInstr(fn, func(b *ssa.BasicBlock, in ssa.Instruction) {
		st, ok := in.(*ssa.Store)
		if !ok {
			return
		}
		fa, ok := st.Addr.(*ssa.FieldAddr)
		if !ok || namedTypeName(fa.X.Type()) != "bundler.runtimeCacheKey" || fieldAddrName(fa) != "unsupportedJSFeatures" {
			return
		}
		found = true
		r.Instances++
		o, n, isF := loadedField(st.Val)
		if isF && n == "UnsupportedJSFeatures" && o == "config.Options" {
			r.OK("runtime cache key features", true, "key.unsupportedJSFeatures = options.UnsupportedJSFeatures, unmodified")
		} else {
			r.Fail("runtime cache key features", p.Pos(st.Pos()), "the runtime is parsed and lowered for "+ssaExpr(st.Val, 0)+" instead of the build's full unsupported-feature set: helper code can keep syntax the target lacks (a mask must list every feature the runtime text uses, which nothing checks)")
		}
	})
	if !found {
		r.Fail("runtime cache key features", p.Pos(fn.Pos()), "store to runtimeCacheKey.unsupportedJSFeatures not found")
	}
	// callers pass the scanner's/bundle's own options
	if n := p.CallGraph().Nodes[fn]; n != nil {
		for _, e := range n.In {
			r.Instances++
			key := FuncName(e.Caller.Func) + " parseRuntime(options)"
			arg := e.Site.Common().Args[1]
			if al, ok := arg.(*ssa.Alloc); ok && namedTypeName(al.Type()) == "config.Options" {
				r.OK(key, true, "called with the build's options value")
			} else if _, fname, ok := loadedField(arg); ok && fname == "options" {
				r.OK(key, true, "called with the build's options")
			} else if fa, ok := arg.(*ssa.FieldAddr); ok && fieldAddrName(fa) == "options" {
				r.OK(key, true, "called with the build's options")
			} else if fv, ok := arg.(*ssa.FreeVar); ok && fv.Name() == "options" && namedTypeName(fv.Type()) == "config.Options" {
				r.OK(key, true, "called with the enclosing function's options variable")
			} else {
				r.Fail(key, p.Pos(e.Site.Pos()), "parseRuntime is called with "+ssaExpr(arg, 0)+", not the build's options")
			}
		}
	}
	return r
}

// C14/R6 export-name diagnostic scope.
//
// String-literal export names (`export { x as "a b" }`, ES2022) cannot be lowered. In a bundle the
// original export statements are stripped and the only place such a name is emitted is the
// `export { … }` clause the linker generates for a chunk whose file is an entry point — any entry
// point: user-specified ones and, with code splitting, files reached only through import(). The
// one diagnostic for it sits in scanImportsAndExports where the export aliases of a file are
// sorted; it must therefore be gated on IsEntryPoint(), the predicate computeChunks uses to mark a
// chunk as an entry point, not on the narrower IsUserSpecifiedEntryPoint().
func c14ExportNameScope(p *Prog) *RuleResult {
	r := NewRule("C14/R6 export-name-diagnostic-scope", "the diagnostic for string-literal export names of a file's resolved exports is gated on the file being an entry point of any kind (the predicate that decides whether an export clause is generated), never only on user-specified entry points")
	diag := p.FindFunc("linker.(*linkerContext).maybeForbidArbitraryModuleNamespaceIdentifier")
	scan := p.FindFunc("linker.(*linkerContext).scanImportsAndExports")
	if !r.Anchor("linker.(*linkerContext).maybeForbidArbitraryModuleNamespaceIdentifier", diag != nil) || !r.Anchor("linker.(*linkerContext).scanImportsAndExports", scan != nil) {
		return r
	}
	n := 0
	for _, fn := range withClosures(scan) {
		eachInstr(fn, func(b *ssa.BasicBlock, in ssa.Instruction) {
			c, ok := in.(*ssa.Call)
			if !ok || c.Call.StaticCallee() != diag {
				return
			}
			n++
			r.Instances++
			preds := map[string]bool{}
			for _, f := range factsAt(b) {
				backSlice(f.Cond, func(v ssa.Value) bool {
					if cc, ok := v.(*ssa.Call); ok {
						if callee := cc.Call.StaticCallee(); callee != nil && strings.Contains(FuncName(callee), "LinkerFile).Is") {
							preds[callee.Name()] = true
						}
					}
					return true
				})
			}
			key := FuncName(fn) + " export-name diagnostic"
			switch {
			case preds["IsUserSpecifiedEntryPoint"]:
				r.Fail(key, p.Pos(c.Pos()), "the diagnostic is gated on IsUserSpecifiedEntryPoint(): with code splitting a file reached only through import() is an entry point too and gets a generated `export { x as \"…\" }` clause, which is then emitted for targets that do not support it, without an error")
			case preds["IsEntryPoint"]:
				r.OK(key, true, "gated on IsEntryPoint()")
			default:
				r.Fail(key, p.Pos(c.Pos()), "the diagnostic is not gated on the file being an entry point (IsEntryPoint()): cannot relate it to the files that get a generated export clause")
			}
		})
	}
	r.Anchor("the export-name diagnostic in scanImportsAndExports", n >= 1)
	return r
}

// c14InheritedException: fn has at least one in-module caller, and every caller has a reviewed entry
// "<caller> <what>" (possibly with an ordinal) in the gate table; returns the callers, or "".
func c14InheritedException(p *Prog, cg *callgraph.Graph, fn *ssa.Function, what string) string {
	n := cg.Nodes[fn]
	if n == nil || len(n.In) == 0 {
		return ""
	}
	var callers []string
	seen := map[*ssa.Function]bool{}
	for _, e := range n.In {
		caller := e.Caller.Func
		if caller == fn || seen[caller] || !p.InModule(caller) {
			continue
		}
		seen[caller] = true
		base := FuncName(caller) + " " + what
		has := false
		for k := range c14GateExceptions {
			if k == base || strings.HasPrefix(k, base+" #") {
				has = true
			}
		}
		if !has {
			return ""
		}
		callers = append(callers, FuncName(caller))
	}
	if len(callers) == 0 {
		return ""
	}
	sort.Strings(callers)
	return strings.Join(callers, ", ")
}
