package main

import (
	"sort"
	"strings"

	"golang.org/x/tools/go/ssa"
)

// C10/R5 (also registered as C15/R5) renamer-input siblings.
//
// linker.renameSymbolsInChunk feeds the chunk's top-level symbols to one of two renamers: the
// frequency-based MinifyRenamer (AccumulateSymbolCount) or the NumberRenamer (AddTopLevelSymbol).
// A symbol that one branch registers and the other forgets is named by one renamer and printed
// with its unreserved original name by the other — for the symbols a chunk imports from other
// chunks this produces `import {a as x, b as x}` or an import that collides with a local: the
// entry point fails to load. The two branches are siblings: every category of symbol (identified by
// the field the ref is read from: the cross-chunk import list, AST.ExportsRef/ModuleRef/WrapperRef,
// DeclaredSymbol.Ref, …) registered in one branch must be registered in the other, except the
// reviewed asymmetries.

var c10RenamerAsymmetries = ExcTable{}

func c10RenamerSiblings(p *Prog, name string) *RuleResult {
	r := NewRule(name, "the minifying and the numbering branch of renameSymbolsInChunk register the same categories of top-level symbols (cross-chunk imports, exports/module/wrapper refs, declared symbols) with their renamer")
	fn := p.FindFunc("linker.(*linkerContext).renameSymbolsInChunk")
	if !r.Anchor("linker.(*linkerContext).renameSymbolsInChunk", fn != nil) {
		return r
	}
	cats := map[string]map[string]string{"minify": {}, "number": {}}
	for _, f := range withClosures(fn) {
		eachInstr(f, func(b *ssa.BasicBlock, in ssa.Instruction) {
			c, ok := in.(ssa.CallInstruction)
			if !ok {
				return
			}
			callee := c.Common().StaticCallee()
			if callee == nil {
				return
			}
			var ref ssa.Value
			branch := ""
			switch FuncName(callee) {
			case "renamer.(*MinifyRenamer).AccumulateSymbolCount":
				if len(c.Common().Args) > 2 {
					ref, branch = c.Common().Args[2], "minify"
				}
			case "renamer.(*NumberRenamer).AddTopLevelSymbol":
				if len(c.Common().Args) > 1 {
					ref, branch = c.Common().Args[1], "number"
				}
			}
			if branch == "" {
				return
			}
			desc := "?"
			if o, n, ok := loadedField(ref); ok {
				desc = o + "." + n
			} else if fv, ok := ref.(*ssa.Field); ok {
				desc = namedTypeName(fv.X.Type()) + "." + fieldValName(fv)
			}
			// where the ref ultimately comes from: the chunk's cross-chunk import table or the
			// declared symbols of a part (through local slices, sorting and range loops)
			backSlice(ref, func(v ssa.Value) bool {
				if fa, ok := v.(*ssa.FieldAddr); ok {
					switch fieldAddrName(fa) {
					case "importsFromOtherChunks":
						desc = "the chunk's cross-chunk import table (importsFromOtherChunks)"
						return false
					case "DeclaredSymbols":
						desc = "the declared symbols of the live parts (Part.DeclaredSymbols)"
						return false
					}
				}
				if f, ok := v.(*ssa.Field); ok && fieldValName(f) == "DeclaredSymbols" {
					desc = "the declared symbols of the live parts (Part.DeclaredSymbols)"
					return false
				}
				return true
			})
			cats[branch][desc] = p.Pos(c.Pos())
		})
	}
	if !r.Anchor("registrations with both renamers", len(cats["minify"]) >= 3 && len(cats["number"]) >= 3) {
		return r
	}
	// The two branches are structured differently for file-level refs (exports/module/wrapper refs
	// and hoisted import statements of CommonJS-wrapped files reach the MinifyRenamer as declared
	// symbols and through the module scopes), so only the categories both branches take from the same
	// place are compared: the chunk's cross-chunk import list and the declared symbols of live parts.
	for _, k := range []string{"the chunk's cross-chunk import table (importsFromOtherChunks)", "the declared symbols of the live parts (Part.DeclaredSymbols)"} {
		r.Instances++
		_, inM := cats["minify"][k]
		_, inN := cats["number"][k]
		key := "top-level symbols from " + k
		switch {
		case inM && inN:
			r.OK(key, true, "registered with the MinifyRenamer ("+cats["minify"][k]+") and the NumberRenamer ("+cats["number"][k]+")")
		case inM:
			r.Fail(key+" (minify only)", cats["minify"][k], "symbols read from "+k+" are given to the MinifyRenamer but not to the NumberRenamer: without minification they are printed with their original name, which nothing reserves")
		case inN:
			r.Fail(key+" (number only)", cats["number"][k], "symbols read from "+k+" are given to the NumberRenamer but not to the MinifyRenamer: with --minify-identifiers they get no slot and are printed with their original name, which can collide with a minified name or with each other (`import {a as x, b as x}`)")
		default:
			r.Anchor("a registration of "+k+" with either renamer", false)
		}
	}
	var other []string
	for _, m := range cats {
		for k := range m {
			if !strings.Contains(k, "importsFromOtherChunks") && !strings.Contains(k, "DeclaredSymbols") {
				other = append(other, k)
			}
		}
	}
	sort.Strings(other)
	r.Note("other registered categories (not compared): %s", strings.Join(other, ", "))
	r.StaleCheck(c10RenamerAsymmetries)
	_ = strings.TrimSpace
	return r
}
