package main

import (
	"fmt"
	"sort"
	"strings"

	"golang.org/x/tools/go/ssa"
)

type rtRef struct {
	fn   *ssa.Function
	in   ssa.Instruction
	name string // "" when not a compile-time constant
	how  string
}

// constStrings returns the possible constant string values of v (following phis), or ok=false.
func constStrings(v ssa.Value, depth int) ([]string, bool) {
	if depth > 4 {
		return nil, false
	}
	if s, ok := constString(v); ok {
		return []string{s}, true
	}
	if ph, ok := v.(*ssa.Phi); ok {
		var out []string
		for _, e := range ph.Edges {
			ss, ok := constStrings(e, depth+1)
			if !ok {
				return nil, false
			}
			out = append(out, ss...)
		}
		return out, true
	}
	return nil, false
}

func collectRuntimeRefs(p *Prog) []rtRef {
	var out []rtRef
	nameArg := map[string]int{
		"js_parser.(*parser).importFromRuntime":                  2,
		"js_parser.(*parser).callRuntime":                        2,
		"graph.(*LinkerGraph).GenerateRuntimeSymbolImportAndUse": 3,
	}
	for _, fn := range p.ModuleFuncs() {
		eachInstr(fn, func(b *ssa.BasicBlock, in ssa.Instruction) {
			switch x := in.(type) {
			case *ssa.Call:
				if callee := x.Call.StaticCallee(); callee != nil {
					if idx, ok := nameArg[FuncName(callee)]; ok && idx < len(x.Call.Args) {
						if ss, ok := constStrings(x.Call.Args[idx], 0); ok {
							for _, s := range ss {
								out = append(out, rtRef{fn, in, s, FuncName(callee)})
							}
						} else if _, isParam := x.Call.Args[idx].(*ssa.Parameter); isParam && nameArg[FuncName(fn)] != 0 {
							// forwarding wrapper (callRuntime -> importFromRuntime)
						} else if _, n, isF := loadedField(x.Call.Args[idx]); isF && n == "Runtime" {
							// forwarded from js_parser.HelperCall.Runtime: the stores into that field are the references
						} else {
							out = append(out, rtRef{fn, in, "", FuncName(callee)})
						}
					}
				}
			case *ssa.Store:
				if fa, ok := x.Addr.(*ssa.FieldAddr); ok && fieldAddrName(fa) == "Runtime" && namedTypeName(fa.X.Type()) == "js_parser.HelperCall" {
					if ss, ok := constStrings(x.Val, 0); ok {
						for _, s := range ss {
							out = append(out, rtRef{fn, in, s, "js_parser.HelperCall.Runtime"})
						}
					} else {
						out = append(out, rtRef{fn, in, "", "js_parser.HelperCall.Runtime"})
					}
				}
			case *ssa.Lookup:
				if s, ok := constString(x.Index); ok && strings.HasPrefix(s, "__") {
					mt := shortType(x.X.Type())
					if mt == "map[string]js_ast.ScopeMember" || mt == "map[string]js_ast.NamedExport" {
						out = append(out, rtRef{fn, in, s, "lookup in " + mt})
					}
				}
			}
		})
	}
	sort.SliceStable(out, func(i, j int) bool {
		a, b := FuncName(out[i].fn), FuncName(out[j].fn)
		if a != b {
			return a < b
		}
		return out[i].name < out[j].name
	})
	return out
}

// runtimeNamesRule checks the references made from the given packages.
func runtimeNamesRule(p *Prog, ruleName string, pkgs map[string]bool, floor int) *RuleResult {
	r := NewRule(ruleName, "every runtime helper referenced by name from Go code is exported by the embedded runtime library in every feature configuration (a missing name silently yields a zero Ref: the tests run with the runtime omitted)")
	segs, src := collectRuntimeSegments(p)
	if !r.Anchor("runtime.Source", src != nil && len(segs) > 10) {
		return r
	}
	always, partial := runtimeExports(segs)
	r.Note("runtime exports in every configuration: %d; branch-only exports: %d", len(always), len(partial))
	if !r.Anchor("runtime exports >= 40", len(always) >= 40) {
		return r
	}
	for _, ref := range collectRuntimeRefs(p) {
		if !pkgs[shortPkg(pkgPathOf(ref.fn))] {
			continue
		}
		r.Instances++
		if ref.name == "" {
			r.Fail(FuncName(ref.fn)+" dynamic runtime name via "+ref.how, p.Pos(ref.in.Pos()), "runtime helper name is not a compile-time constant: cannot be matched against the runtime library")
			continue
		}
		key := fmt.Sprintf("%s -> %s", FuncName(ref.fn), ref.name)
		switch {
		case always[ref.name]:
			r.OK(key, true, "exported by the runtime text in every feature branch")
		case partial[ref.name] != "":
			r.Fail(key, p.Pos(ref.in.Pos()), "runtime helper "+ref.name+" is exported "+partial[ref.name]+": for other targets the lookup yields a zero Ref")
		default:
			r.Fail(key, p.Pos(ref.in.Pos()), "runtime helper "+ref.name+" is not exported by the runtime library (referenced via "+ref.how+")")
		}
	}
	r.Floor(floor)
	return r
}
