#!/usr/bin/env python3
"""Regenerates /verif/MANIFEST.json from the table below (maintained by hand, not at check time)."""
import json, os, sys

HERE = os.path.dirname(os.path.dirname(os.path.abspath(__file__)))

# id -> (technique, level text, level note, design ref)
CLAIMED = {}

def claim(pid, technique, text, note, ref):
    CLAIMED[pid] = (technique, text, note, ref)

NOTE = ("Trusted base: go/types + go/ssa + VTA call graph of x/tools v0.29.0; the frozen, reviewed exception tables in "
        "/verif/checker. Decides necessary structural conditions on every path of the source; says nothing about run-time values.")

exec(open(os.path.join(HERE, "tools", "claims.py")).read())

PENDING = {}
try:
    PENDING = json.load(open(os.path.join(HERE, "tools", "not_applicable.json")))
except FileNotFoundError:
    pass

checks = []
for pid in sorted(CLAIMED):
    technique, text, note, ref = CLAIMED[pid]
    checks.append({
        "property_id": pid,
        "quick_cmd": f"./run.sh check {pid} --tier quick",
        "thorough_cmd": f"./run.sh check {pid} --tier thorough",
        "evidence_file": f"/verif/evidence/{pid}.json",
        "replay_cmd_template": "./run.sh explain {path}",
        "engine": "esverif",
        "level_claimed": {"category": "other", "text": text, "design_ref": ref},
        "level_note": note or NOTE,
        "technique": technique,
    })

na = [{"property_id": k, "reason": v} for k, v in sorted(PENDING.items()) if k not in CLAIMED]

manifest = {
    "version": 1,
    "setup_cmd": "./run.sh setup",
    "hooks": {
        "guard": "verif",
        "enable": "none needed: the analyser reads /repo's source; no hooks are compiled into esbuild",
        "baseline_off_cmd": "cd /repo && GOFLAGS=-mod=mod go test -vet=off -count=1 ./...",
        "source_commits": [],
        "add_only": True,
    },
    "engines": [{
        "name": "esverif",
        "path": "/verif/checker",
        "serves_properties": sorted(CLAIMED),
        "kind_free_text": "repository-specific static analyser (go/packages + go/types + go/ssa + go/cfg-style dominance + VTA call graph); no execution of esbuild",
    }],
    "checks": checks,
    "not_applicable": na,
    "notes": "All checks are static analyses of /repo's current working tree (level 'other': necessary structural conditions, see DESIGN.md). Known findings: /verif/known_findings.json.",
}
json.dump(manifest, open(os.path.join(HERE, "MANIFEST.json"), "w"), indent=1)
print("wrote MANIFEST.json:", len(checks), "checks,", len(na), "not applicable")
