#!/bin/bash
# usage: tools/mutant.sh <patch.diff> <Cxx> [more Cxx...]
# Applies the patch to a scratch copy of /repo (outside /repo and /verif), checks that it compiles,
# runs the named checks statically against the copy, and removes the copy.
set -u
patch="$(readlink -f "$1")"; shift
cd "$(dirname "$0")/.."
export GOFLAGS=-mod=mod GOPROXY=off GOSUMDB=off GOTOOLCHAIN=local
scratch=$(mktemp -d /tmp/mutant.XXXXXX)
trap 'rm -rf "$scratch"' EXIT
rsync -a --exclude .git --exclude node_modules /repo/ "$scratch/"
(cd "$scratch" && patch -p1 -s < "$patch") || { echo "PATCH FAILED"; exit 3; }
(cd "$scratch" && go build ./... ) || { echo "MUTANT DOES NOT COMPILE"; exit 4; }
rc=0
for prop in "$@"; do
  out=$(VERIF_REPO="$scratch" VERIF_DIR="$scratch/.verifout" bash -c 'mkdir -p "$VERIF_DIR/evidence"; cp known_findings.json properties.jsonl "$VERIF_DIR/"; ${ESVERIF_BIN:-bin/esverif} check '"$prop"' --tier quick' 2>&1)
  if echo "$out" | grep -q "^VIOLATION property=$prop"; then
    echo "CAUGHT $prop: $(echo "$out" | grep -B1 '^VIOLATION' | grep -v '^VIOLATION' | grep -v '^--' | head -3 | cut -c1-300)"
  else
    echo "MISSED $prop"; rc=1
  fi
done
exit $rc
