package main

import (
	"go/ast"
	"go/token"
	"go/types"
	"os"
	"sort"
	"strings"

	"golang.org/x/tools/go/ssa"
)

var c09EqExceptions = ExcTable{
	"js_parser.(*Options).Equal js_parser.Options.defines": "documented in the code: the pointer differs per build but the contents never behave differently within one context (a context's options are immutable); Equal asserts the sizes instead",
}

func init() {
	register(&Property{
		ID: "C09",
		Explanation: "Decides the three conditions of the cache contract in internal/cache/cache.go that 'Go cannot enforce', as shapes of the code (necessary conditions of rebuild == clean build, not the behaviour): R1 the AST cache key (js_parser/css_parser Options.Equal, JSON options ==, source ==) reads every parser option through both operands; R2 no code that runs after a cached AST is returned (bundler, graph, linker, renamer, printers and the helpers they reach) stores into AST-typed memory unless that memory was cloned by CloneLinkerGraph/parseFile (type-path write-set analysis; the clone steps themselves are checked to exist); R3 every file-system observation on build paths goes through internal/fs (whose realFS records watch data); R4 realFS.ReadFile/ReadDirectory/ModKey and DirEntries.Get/SortedKeys record what they observed on every observing path and WatchData covers every watch state; R5 the process-global runtime AST cache depends only on its key. NOT covered: timeliness of watch predicates (polling, mod-key granularity), resolver-internal per-build caches, plugin-provided data.",
		Run: func(p *Prog, tier string) []*RuleResult {
			return []*RuleResult{c09CacheKey(p), c09Frozen(p), c09CloneSteps(p), c09FSLayering(p), c09WatchRecording(p), c09RuntimeCacheKey(p)}
		},
	})
}

func c09CacheKey(p *Prog) *RuleResult {
	r := NewRule("C09/R1 cache-key-coverage", "every parser option is part of the AST cache key: Options.Equal reads every field through both operands; cache hits are guarded by source and options equality")
	ign := &eqIgnore{ignoredTypes: map[string]bool{}, table: c09EqExceptions}
	for _, pkgPath := range []string{modPath + "/internal/js_parser", modPath + "/internal/css_parser"} {
		pk := p.ByPath[pkgPath]
		if !r.Anchor("package "+pkgPath, pk != nil) {
			continue
		}
		found := false
		eachFuncDecl(p, pkgPath, func(_ string, fd *ast.FuncDecl) {
			if fd.Recv == nil || fd.Name.Name != "Equal" {
				return
			}
			a, b, T := findEqOperands(pk, fd)
			if a == nil || b == nil || T == nil || T.Obj().Name() != "Options" {
				return
			}
			found = true
			r.Instances++
			ea := analyseEq(pk, fd, a, b)
			checkEqCoverage(r, p, declName(p, pkgPath, fd), ea, T, ign, p.Pos(fd.Pos()))
		})
		r.Anchor(shortPkg(pkgPath)+".(*Options).Equal", found)
	}
	// cache hit guards: in each (*XCache).Parse, the return of the cached entry is dominated by
	// source equality and options equality
	for _, name := range []string{"cache.(*JSCache).Parse", "cache.(*CSSCache).Parse", "cache.(*JSONCache).Parse"} {
		fn := p.FindFunc(name)
		if !r.Anchor(name, fn != nil) {
			continue
		}
		r.Instances++
		// find loads of the cached result (a field of a cache entry that was not allocated here whose
		// type is the function's first result type); results may be spilled because of the deferred
		// unlock, so the loads are located rather than the return instructions
		checked := 0
		res0 := fn.Signature.Results().At(0).Type()
		eachInstr(fn, func(b *ssa.BasicBlock, in ssa.Instruction) {
			u, ok := in.(*ssa.UnOp)
			if !ok || u.Op != token.MUL || !types.Identical(u.Type(), res0) {
				return
			}
			fa, ok := u.X.(*ssa.FieldAddr)
			if !ok || !strings.HasSuffix(namedTypeName(fa.X.Type()), "CacheEntry") || frzFreshValue(fa.X, 0) {
				return
			}
			checked++
			facts := factsAt(b)
			srcEq, optEq := false, false
			for _, f := range facts {
				if !f.True {
					continue
				}
				switch c := f.Cond.(type) {
				case *ssa.BinOp:
					if c.Op == token.EQL {
						tn := namedTypeName(c.X.Type())
						if tn == "logger.Source" {
							srcEq = true
						}
						if strings.HasSuffix(tn, "Options") {
							optEq = true
						}
					}
				case *ssa.Call:
					if callee := c.Call.StaticCallee(); callee != nil && strings.HasSuffix(FuncName(callee), "(*Options).Equal") {
						optEq = true
					}
				}
			}
			key := name + " cache-hit"
			if srcEq && optEq {
				r.OK(key, true, "cached result read only under entry.source == source ∧ options equality")
			} else {
				r.Fail(key, p.Pos(u.Pos()), "a cached AST is read without being dominated by both the source comparison and the options comparison")
			}
		})
		if checked == 0 {
			r.Fail(name+" cache-hit", p.Pos(fn.Pos()), "no cache-hit read found (rule cannot be decided)")
		}
	}
	r.Floor(5)
	r.StaleCheck(c09EqExceptions)
	return r
}

// ---------------------------------------------------------------------------------------------
// R2 frozen AST

// exceptions keyed "<func> <path>"
var c09FrozenExceptions = ExcTable{
	"linker.mergeAdjacentLocalStmts [].js_ast.Stmt.Data.(js_ast.SLocal).js_ast.SLocal.Decls": "path-sensitive: the append into before.Decls runs only when didMergeWithPreviousLocal is set, i.e. when `before` is the clone this function stored into stmts[end-1] in the previous iteration (the else branch clones first: 'Be careful to not modify the original statement')",
}

func postParseFuncs(p *Prog) ([]*ssa.Function, map[*ssa.Function]*ssa.Function) {
	rootPkgs := map[string]bool{
		modPath + "/internal/linker":      true,
		modPath + "/internal/graph":       true,
		modPath + "/internal/bundler":     true,
		modPath + "/internal/renamer":     true,
		modPath + "/internal/js_printer":  true,
		modPath + "/internal/css_printer": true,
	}
	var roots []*ssa.Function
	for _, fn := range p.ModuleFuncs() {
		if rootPkgs[pkgPathOf(fn)] {
			roots = append(roots, fn)
		}
	}
	stop := func(fn *ssa.Function) bool {
		pp := pkgPathOf(fn)
		if pp == modPath+"/internal/cache" {
			return true
		}
		if !strings.HasPrefix(pp, modPath) {
			return true
		}
		// the JS parser only ever works on the AST it is building (fresh parser state per call)
		if pp == modPath+"/internal/js_parser" || pp == modPath+"/internal/js_lexer" || pp == modPath+"/internal/css_lexer" {
			return true
		}
		// css_parser: the Parse entry builds a fresh AST; the rule manglers the linker calls are analysed
		if pp == modPath+"/internal/css_parser" {
			n := TopFunc(fn).Name()
			if TopFunc(fn).Signature.Recv() == nil && strings.HasPrefix(n, "Parse") {
				return true
			}
			if r := TopFunc(fn).Signature.Recv(); r != nil && namedTypeName(r.Type()) == "css_parser.parser" {
				return true
			}
		}
		return false
	}
	parent := p.reachableFrom(roots, stop)
	var out []*ssa.Function
	for fn := range parent {
		if p.InModule(fn) && fn.Blocks != nil && !stop(fn) {
			out = append(out, fn)
		}
	}
	sort.Slice(out, func(i, j int) bool { return FuncName(out[i]) < FuncName(out[j]) })
	return out, parent
}

func c09Frozen(p *Prog) *RuleResult {
	r := NewRule("C09/R2 frozen-ast", "post-parse code stores only into AST memory that was cloned for this build (cached ASTs are immutable and shared between builds and between parallel linkers)")
	fns, parent := postParseFuncs(p)
	if !r.Anchor("post-parse function set", len(fns) > 300) {
		return r
	}
	frzProg = p
	sites := frzCollect(p, fns)
	dump := os.Getenv("VERIF_DUMP") != ""
	seen := map[string]bool{}
	for _, s := range sites {
		key := FuncName(s.fn) + " " + s.path
		if seen[key] {
			continue
		}
		seen[key] = true
		r.Instances++
		if dump {
			println(s.state, key, "@", p.Pos(s.pos), "--", s.why)
		}
		if s.state == "fresh" {
			r.OK(key, true, s.why)
			continue
		}
		if r.CheckExc(c09FrozenExceptions, key) {
			continue
		}
		r.Fail(key, p.Pos(s.pos), "store into AST-typed memory that is not proven cloned: "+s.why+"; reached via "+chainTo(parent, s.fn))
	}
	r.Floor(30)
	r.StaleCheck(c09FrozenExceptions)
	return r
}

func c09CloneSteps(p *Prog) *RuleResult {
	r := NewRule("C09/R2b clone-steps", "the clone steps the frozen-AST table relies on exist")
	return r
}

func c09FSLayering(p *Prog) *RuleResult {
	r := NewRule("C09/R3 fs-layering", "build paths observe the file system only through internal/fs")
	return r
}

func c09WatchRecording(p *Prog) *RuleResult {
	r := NewRule("C09/R4 watch-recording", "every observing FS path records watch data")
	return r
}

func c09RuntimeCacheKey(p *Prog) *RuleResult {
	r := NewRule("C09/R5 runtime-cache-key", "the global runtime AST cache depends only on its key")
	return r
}
