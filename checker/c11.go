package main

import (
	"fmt"
	"go/token"
	"sort"
	"strings"

	"golang.org/x/tools/go/ssa"
)

func init() {
	register(&Property{
		ID:          "C11",
		Explanation: "Thin claim. Agreement with Node's resolver over all package trees has no oracle inside this repository and is NOT decided. One clause has a code shape: 'whenever Node rejects a specifier because of a package's exports or imports map, esbuild also refuses it' requires that a failure status of the ported algorithm can never turn into a resolution. R1 failure-finality: in finalizeImportsExportsResult every `return …, true, …` lies behind a comparison of the status with one of the three success statuses (Exact, ExactEndsWithStar, Inexact) and never inside an arm of the diagnostic switch for a failure status (the legacy loadAsFileOrDirectory probe under PackagePathNotExported only feeds the error notes); every pjStatus constant is handled. R2 no-fallback: wherever a package with an exports (imports) map is resolved (loadNodeModules incl. self-reference and Yarn PnP, loadPackageImports), the result of esmResolveAlgorithm / finalizeImportsExportsResult is returned unconditionally — no path continues to main-field, index or extension probing after a failed map lookup. R3 undefined-class: Node's algorithm has one 'undefined'; esbuild's two statuses for it (pjStatusUndefined, pjStatusUndefinedNoConditionsMatch) must take the same branch wherever the ported algorithm tests for undefined (array fallbacks, condition objects), except at three reviewed top-level sites that pass the split status on as the final error. R4 real-path-provenance: the real path cached for a symlinked directory entry is the unprocessed first result of evalSymlinks. R5 wildcard-nonempty (known finding). R6 subpath-all-segments. R7 subpath-verbatim. R8 main-field-not-recursive: loadAsMainField reaches neither loadAsDirectory nor itself (VTA call graph; the directory-info cache is not entered). R9 expansion-keys-by-key-shape-only: the append to expansionKeys is control dependent on no field of the entry's value. NOT covered: whether each status is computed as Node computes it (pattern precedence, condition order, target validation), directory walks, symlinks, main fields.",
		Run: func(p *Prog, tier string) []*RuleResult {
			return []*RuleResult{c11FailureFinality(p), c11NoFallback(p), c11UndefinedClass(p), c11RealPathProvenance(p), c11WildcardNonEmpty(p), c11SubpathSegments(p), c11SubpathVerbatim(p), c11MainFieldNotRecursive(p), c11ExpansionKeysByShape(p)}
		},
	})
}

func returnsTrueAt(ret *ssa.Return, idx int) bool {
	v := returnedValue(ret, idx)
	if c, ok := v.(*ssa.Const); ok && c.Value != nil && c.Value.String() == "true" {
		return true
	}
	return false
}

func c11FailureFinality(p *Prog) *RuleResult {
	r := NewRule("C11/R1 failure-finality", "exports/imports-map resolution succeeds only under a success status; failure statuses only produce diagnostics")
	fn := p.FindFunc("resolver.(resolverQuery).finalizeImportsExportsResult")
	rp := p.ByPath[modPath+"/internal/resolver"]
	if !r.Anchor("resolver.(resolverQuery).finalizeImportsExportsResult", fn != nil) || !r.Anchor("package resolver", rp != nil) {
		return r
	}
	st := constsOfType(rp.Types, "pjStatus")
	if !r.Anchor("resolver.pjStatus constants", len(st) >= 14) {
		return r
	}
	success := map[int64]bool{st["pjStatusExact"]: true, st["pjStatusExactEndsWithStar"]: true, st["pjStatusInexact"]: true}
	name := map[int64]string{}
	for n, v := range st {
		name[v] = n
	}
	isStatusCmp := func(b *ssa.BasicBlock) (int64, bool) {
		if len(b.Instrs) == 0 {
			return 0, false
		}
		ifi, ok := b.Instrs[len(b.Instrs)-1].(*ssa.If)
		if !ok {
			return 0, false
		}
		bo, ok := ifi.Cond.(*ssa.BinOp)
		if !ok || bo.Op != token.EQL || namedTypeName(bo.X.Type()) != "resolver.pjStatus" {
			return 0, false
		}
		return constInt(bo.Y)
	}
	// (a) return-true only behind a success comparison
	nTrue := 0
	for _, b := range fn.Blocks {
		if !isReturnBlock(b) || b == fn.Recover {
			continue
		}
		ret := b.Instrs[len(b.Instrs)-1].(*ssa.Return)
		if !returnsTrueAt(ret, 1) {
			continue
		}
		nTrue++
		r.Instances++
		key := fmt.Sprintf("finalizeImportsExportsResult success return #%d", nTrue)
		target := b
		path, bad := reachesExitAvoidingEdges(fn.Blocks[0], func(x *ssa.BasicBlock) bool { return x == target }, func(*ssa.BasicBlock) bool { return false },
			func(x *ssa.BasicBlock, si int) bool {
				k, ok := isStatusCmp(x)
				return ok && success[k] && si == 0
			})
		if bad {
			r.Fail(key, p.Pos(ret.Pos()), "a successful resolution can be returned without the status having been compared equal to a success status: "+blockPath(path))
			continue
		}
		// (b) not inside a failure arm
		inFailureArm := ""
		for _, f := range factsAt(b) {
			if bo, ok := f.Cond.(*ssa.BinOp); ok && bo.Op == token.EQL && f.True && namedTypeName(bo.X.Type()) == "resolver.pjStatus" {
				if k, ok := constInt(bo.Y); ok && !success[k] {
					inFailureArm = name[k]
				}
			}
		}
		if inFailureArm != "" {
			r.Fail(key, p.Pos(ret.Pos()), "a successful resolution is returned inside the arm for the failure status "+inFailureArm+": a path Node rejects would resolve")
			continue
		}
		r.OK(key, true, "reachable only through `status == Exact/ExactEndsWithStar/Inexact`")
	}
	if nTrue == 0 {
		r.Fail("finalizeImportsExportsResult success returns", p.Pos(fn.Pos()), "no `return …, true, …` found")
	}
	// (c) every status constant is compared somewhere in the resolver package
	compared := map[int64]bool{}
	for _, f := range p.ModuleFuncs() {
		if pkgPathOf(f) != modPath+"/internal/resolver" {
			continue
		}
		eachInstr(f, func(b *ssa.BasicBlock, in ssa.Instruction) {
			if bo, ok := in.(*ssa.BinOp); ok && (bo.Op == token.EQL || bo.Op == token.NEQ) && namedTypeName(bo.X.Type()) == "resolver.pjStatus" {
				if k, ok := constInt(bo.Y); ok {
					compared[k] = true
				}
			}
		})
	}
	var names []string
	for n := range st {
		names = append(names, n)
	}
	sort.Strings(names)
	for _, n := range names {
		r.Instances++
		if compared[st[n]] {
			r.OK("pjStatus "+n+" is handled", false, "")
		} else {
			r.Fail("pjStatus "+n+" is handled", p.Pos(fn.Pos()), "status constant "+n+" is never tested anywhere in the resolver")
		}
	}
	r.Floor(15)
	return r
}

var c11FallbackExceptions = ExcTable{
	"resolver.(resolverQuery).parseTSConfigFromSource$1 esmResolveAlgorithm": "tsconfig `extends` under Yarn PnP: on failure control jumps to the pnpError label (an error), never into the node_modules walk; on success the resolved tsconfig is parsed",
}

func c11NoFallback(p *Prog) *RuleResult {
	r := NewRule("C11/R2 no-fallback", "the result of resolving through an exports/imports map is returned unconditionally; no path continues to legacy probing after a failed map lookup")
	targets := map[string]bool{
		"resolver.(resolverQuery).esmResolveAlgorithm":          true,
		"resolver.(resolverQuery).finalizeImportsExportsResult": true,
	}
	n := 0
	for _, fn := range p.ModuleFuncs() {
		if pkgPathOf(fn) != modPath+"/internal/resolver" {
			continue
		}
		eachInstr(fn, func(b *ssa.BasicBlock, in ssa.Instruction) {
			c, ok := in.(*ssa.Call)
			if !ok {
				return
			}
			callee := c.Call.StaticCallee()
			if callee == nil || !targets[FuncName(callee)] {
				return
			}
			n++
			r.Instances++
			key := FuncName(fn) + " " + callee.Name()
			// after the call: only extracts, stores to result cells, conversions; then return or jump to a return block
			okShape := true
			why := ""
			var okVal ssa.Value // extract #1
			idx := instrIndex(b, in)
			for _, nx := range b.Instrs[idx+1:] {
				switch x := nx.(type) {
				case *ssa.Extract:
					if x.Tuple == ssa.Value(c) && x.Index == 1 {
						okVal = x
					}
				case *ssa.Store, *ssa.MakeInterface, *ssa.DebugRef, *ssa.RunDefers, *ssa.UnOp, *ssa.FieldAddr, *ssa.Alloc:
				case *ssa.Return:
				case *ssa.Jump:
					if !isReturnBlock(b.Succs[0]) {
						okShape, why = false, "control continues to "+b.Succs[0].String()+" instead of returning"
					}
				case *ssa.If:
					okShape, why = false, "the result is tested and control may continue (fallback) when the map lookup failed"
				default:
					okShape, why = false, fmt.Sprintf("unexpected %T between the call and the return", nx)
				}
			}
			_ = okVal
			if okShape {
				r.OK(key, true, "the call's results are returned unconditionally")
				return
			}
			if r.CheckExc(c11FallbackExceptions, key) {
				return
			}
			r.Fail(key, p.Pos(c.Pos()), "after resolving through the exports/imports map "+why)
		})
	}
	if n < 4 {
		r.Fail("C11/R2 call sites", "-", fmt.Sprintf("only %d call sites of the exports/imports resolution found (expected loadNodeModules ×3, loadPackageImports, esmResolveAlgorithm)", n))
	}
	_ = strings.TrimSpace
	r.StaleCheck(c11FallbackExceptions)
	return r
}
