package main

import (
	"fmt"
	"go/constant"
	"go/token"
	"go/types"
	"sort"
	"strings"

	"golang.org/x/tools/go/ssa"
)

func init() {
	register(&Property{
		ID:          "C03",
		Explanation: "R3: js_ast.KnownPrimitiveType, MergedKnownPrimitiveTypes and CanChangeStrictToLoose touch their inputs only through type tests, operator comparisons and comparisons of recursive answers with constants, so their behaviour is a finite table; it is extracted from the SSA form by forking on every such test (no execution) and each row (node kind, operator, answers for the operands) must over-approximate the set of run-time types ECMAScript gives the expression; an unsound row (e.g. -x typed 'number' when x may be a bigint) silently licenses === to ==, Number(x) to x and removal of relational operators. Also decides one clause of 'minification never changes behaviour' that is visible in the code's shape: every arithmetic/relational expression esbuild evaluates at compile time is computed by the Go operation whose IEEE-754/int32 semantics equal the ECMAScript operator. R1 for each operator case of js_ast.FoldBinaryOperator the folded value must be exactly the expression the embedded ECMAScript table prescribes (operator, operand order, ToInt32/ToUint32 conversions, the &31 shift mask, UCS-2 string comparison, jsPow for **), and ToInt32/jsPow must keep their guard shape (exact fast path, NaN/Inf → 0, mod 2^32; NaN exponent and |base|=1 with infinite exponent → NaN); R2 every float→integer conversion and every math.Pow/ParseFloat applied to a number that may come from the program is guarded or goes through one of the reviewed wrappers. R8 coercion-tables: complete behaviour tables of ToBooleanWithSideEffects / ToNullOrUndefinedWithSideEffects / TypeofWithoutSideEffects against a three-valued ECMAScript reference (truthiness, nullishness, typeof, side-effect freedom). R9 integer-test-operators: the rewrite licensed by isInt32OrUint32 is applied only under ==, ===, !=, !==. R10 known-function-defaults: IsEmptyFunction / IsIdentityFunction markings are control dependent on a nil test of Arg.DefaultOrNil. R11 flag-equality: HasSameFlagsAs compares every boolean / enumeration field through both operands. R12 substitution-judges-table: the bool-valued module helpers called by substituteSingleUseSymbolInExpr are in the reviewed table. R13 else-presence-as-printed (the C13/R13 analysis). R14 substitution-stops-at-object-spread. R15 substitution-stops-at-template-tostring (known finding). R16 switch-search-stops-at-unknown-equality: the unknown edge of the CheckEqualityIfNoSideEffects result leaves the search loop. NOT covered: all tree rewrites (MangleIfExpr, mangleStmts, inlining, dead-code removal), side-effect ordering, string↔number coercion tables.",
		Run: func(p *Prog, tier string) []*RuleResult {
			return []*RuleResult{c03FoldTable(p), c03NumberHazards(p), c03PrimitiveTransfer(p), c03UnusedOperandCoverage(p), c03LivenessClass(p), c03MergedFunctionSymbols(p), c03LateFoldGuard(p), c03Coercion(p), c03IntegerTestOps(p), c03KnownFunctionDefaults(p), c03FlagEquality(p), c03SubstitutionJudges_(p), elsePresenceAsPrinted(p, "C03/R13 else-presence-as-printed"), c03SubstitutionStopsAtSpread(p), c03SubstitutionStopsAtTemplatePart(p), c03SwitchSearchUnknown(p)}
		},
	})
}

// ssaExpr renders the defining expression of a value in a canonical form.
func ssaExpr(v ssa.Value, depth int) string {
	if depth > 10 {
		return "…"
	}
	switch x := v.(type) {
	case *ssa.Const:
		if x.Value == nil {
			return "nil"
		}
		return x.Value.ExactString()
	case *ssa.BinOp:
		return "(" + ssaExpr(x.X, depth+1) + " " + x.Op.String() + " " + ssaExpr(x.Y, depth+1) + ")"
	case *ssa.UnOp:
		if x.Op == token.MUL {
			if _, n, ok := loadedField(x); ok {
				return "." + n
			}
			return "*" + ssaExpr(x.X, depth+1)
		}
		return x.Op.String() + ssaExpr(x.X, depth+1)
	case *ssa.Convert:
		return types.TypeString(x.Type(), nil) + "(" + ssaExpr(x.X, depth+1) + ")"
	case *ssa.ChangeType:
		return ssaExpr(x.X, depth+1)
	case *ssa.Call:
		n := calleeFullName(x)
		n = n[strings.LastIndex(n, "/")+1:]
		var as []string
		for _, a := range x.Call.Args {
			as = append(as, ssaExpr(a, depth+1))
		}
		return n + "(" + strings.Join(as, ", ") + ")"
	case *ssa.Extract:
		if c, ok := x.Tuple.(*ssa.Call); ok {
			n := calleeFullName(c)
			switch {
			case strings.HasSuffix(n, "extractNumericValues"):
				return []string{"L", "R", "ok"}[x.Index]
			case strings.HasSuffix(n, "extractStringValues"):
				return []string{"LS", "RS", "ok"}[x.Index]
			}
		}
		return fmt.Sprintf("%s#%d", ssaExpr(x.Tuple, depth+1), x.Index)
	case *ssa.Parameter:
		return x.Name()
	case *ssa.Phi:
		return "phi"
	}
	return fmt.Sprintf("<%T>", v)
}

// ECMAScript table: operator -> set of admissible folded-value expressions (numeric; string)
var c03FoldTableSpec = map[string][]string{
	"BinOpAdd":        {"(L + R)", "js_ast.joinStrings(LS, RS)"},
	"BinOpSub":        {"(L - R)"},
	"BinOpMul":        {"(L * R)"},
	"BinOpDiv":        {"(L / R)"},
	"BinOpRem":        {"math.Mod(L, R)"},
	"BinOpPow":        {"js_ast.jsPow(L, R)"},
	"BinOpShl":        {"float64((js_ast.ToInt32(L) << (js_ast.ToUint32(R) & 31)))"},
	"BinOpShr":        {"float64((js_ast.ToInt32(L) >> (js_ast.ToUint32(R) & 31)))"},
	"BinOpUShr":       {"float64((js_ast.ToUint32(L) >> (js_ast.ToUint32(R) & 31)))"},
	"BinOpBitwiseAnd": {"float64((js_ast.ToInt32(L) & js_ast.ToInt32(R)))"},
	"BinOpBitwiseOr":  {"float64((js_ast.ToInt32(L) | js_ast.ToInt32(R)))"},
	"BinOpBitwiseXor": {"float64((js_ast.ToInt32(L) ^ js_ast.ToInt32(R)))"},
	"BinOpLt":         {"(L < R)", "(js_ast.stringCompareUCS2(LS, RS) < 0)"},
	"BinOpGt":         {"(L > R)", "(js_ast.stringCompareUCS2(LS, RS) > 0)"},
	"BinOpLe":         {"(L <= R)", "(js_ast.stringCompareUCS2(LS, RS) <= 0)"},
	"BinOpGe":         {"(L >= R)", "(js_ast.stringCompareUCS2(LS, RS) >= 0)"},
	"BinOpLooseEq":    {"(L == R)", "(js_ast.stringCompareUCS2(LS, RS) == 0)"},
	"BinOpStrictEq":   {"(L == R)", "(js_ast.stringCompareUCS2(LS, RS) == 0)"},
	"BinOpLooseNe":    {"(L != R)", "(js_ast.stringCompareUCS2(LS, RS) != 0)"},
	"BinOpStrictNe":   {"(L != R)", "(js_ast.stringCompareUCS2(LS, RS) != 0)"},
}

func c03FoldTable(p *Prog) *RuleResult {
	r := NewRule("C03/R1 fold-table", "each operator case of FoldBinaryOperator computes exactly the expression the ECMAScript operator table prescribes")
	fn := p.FindFunc("js_ast.FoldBinaryOperator")
	ja := p.ByPath[modPath+"/internal/js_ast"]
	if !r.Anchor("js_ast.FoldBinaryOperator", fn != nil) || !r.Anchor("package js_ast", ja != nil) {
		return r
	}
	ops := constsOfType(ja.Types, "OpCode")
	byVal := map[int64]string{}
	for n, v := range ops {
		if strings.HasPrefix(n, "BinOp") {
			byVal[v] = n
		}
	}
	// case bodies
	found := map[string][]string{}
	pos := map[string]token.Pos{}
	for _, b := range fn.Blocks {
		if len(b.Instrs) == 0 {
			continue
		}
		ifi, ok := b.Instrs[len(b.Instrs)-1].(*ssa.If)
		if !ok {
			continue
		}
		bo, ok := ifi.Cond.(*ssa.BinOp)
		if !ok || bo.Op != token.EQL || namedTypeName(bo.X.Type()) != "js_ast.OpCode" {
			continue
		}
		v, ok := constInt(bo.Y)
		if !ok {
			continue
		}
		name := byVal[v]
		body := b.Succs[0]
		for _, rb := range fn.Blocks {
			if !body.Dominates(rb) {
				continue
			}
			for _, in := range rb.Instrs {
				st, ok := in.(*ssa.Store)
				if !ok {
					continue
				}
				fa, ok := st.Addr.(*ssa.FieldAddr)
				if !ok || fieldAddrName(fa) != "Value" {
					continue
				}
				owner := namedTypeName(fa.X.Type())
				if owner != "js_ast.ENumber" && owner != "js_ast.EBoolean" && owner != "js_ast.EString" {
					continue
				}
				found[name] = append(found[name], ssaExpr(st.Val, 0))
				pos[name] = st.Pos()
			}
		}
	}
	var names []string
	for n := range c03FoldTableSpec {
		names = append(names, n)
	}
	sort.Strings(names)
	for _, n := range names {
		spec := c03FoldTableSpec[n]
		got := found[n]
		for _, want := range spec {
			r.Instances++
			key := "FoldBinaryOperator " + n + " = " + want
			has := false
			for _, g := range got {
				if g == want {
					has = true
				}
			}
			if has {
				r.OK(key, true, "folded value is exactly the prescribed expression")
			} else {
				r.Fail("FoldBinaryOperator "+n, p.Pos(pos[n]), fmt.Sprintf("operator %s: expected the folded value %s, found %v", n, want, got))
			}
		}
		// nothing else may be folded for this operator
		for _, g := range got {
			ok := false
			for _, want := range spec {
				if g == want {
					ok = true
				}
			}
			if !ok {
				r.Instances++
				r.Fail("FoldBinaryOperator "+n+" extra", p.Pos(pos[n]), fmt.Sprintf("operator %s folds to %s, which is not in the ECMAScript table %v", n, g, spec))
			}
		}
	}
	// operators folded but absent from the table
	for n, got := range found {
		if _, ok := c03FoldTableSpec[n]; !ok && n != "" {
			r.Instances++
			r.Fail("FoldBinaryOperator "+n+" not in table", p.Pos(pos[n]), fmt.Sprintf("operator %s is folded (%v) but has no entry in the ECMAScript table", n, got))
		}
	}
	// ToInt32 guard shape
	ti := p.FindFunc("js_ast.ToInt32")
	if r.Anchor("js_ast.ToInt32", ti != nil) {
		r.Instances++
		var exprs []string
		hasNaN, hasInf, hasMod, fast, sign := false, false, false, false, false
		eachInstr(ti, func(b *ssa.BasicBlock, in ssa.Instruction) {
			switch x := in.(type) {
			case *ssa.Call:
				switch calleeFullName(x) {
				case "math.IsNaN":
					hasNaN = true
				case "math.IsInf":
					hasInf = true
				case "math.Signbit":
					sign = true
				case "math.Mod":
					if k, ok := x.Call.Args[1].(*ssa.Const); ok && k.Value != nil && k.Value.ExactString() == "4294967296" {
						hasMod = true
					}
				}
			case *ssa.BinOp:
				if x.Op == token.EQL {
					e := ssaExpr(x, 0)
					exprs = append(exprs, e)
					if e == "(float64(int32(f)) == f)" {
						fast = true
					}
				}
			}
		})
		if hasNaN && hasInf && hasMod && fast && sign {
			r.OK("ToInt32 guard shape", true, "exact fast path float64(int32(f)) == f; NaN/±Inf → 0; |f| mod 2^32 with the sign restored")
		} else {
			r.Fail("ToInt32 guard shape", p.Pos(ti.Pos()), fmt.Sprintf("ToInt32 lost part of its guard shape (NaN:%v Inf:%v mod2^32:%v fastpath:%v sign:%v; comparisons %v)", hasNaN, hasInf, hasMod, fast, sign, exprs))
		}
	}
	jp := p.FindFunc("js_ast.jsPow")
	if r.Anchor("js_ast.jsPow", jp != nil) {
		r.Instances++
		nan, inf, abs1, pow := false, false, false, false
		eachInstr(jp, func(b *ssa.BasicBlock, in ssa.Instruction) {
			switch x := in.(type) {
			case *ssa.Call:
				switch calleeFullName(x) {
				case "math.IsNaN":
					if ssaExpr(x.Call.Args[0], 0) == "exponent" {
						nan = true
					}
				case "math.IsInf":
					if ssaExpr(x.Call.Args[0], 0) == "exponent" {
						inf = true
					}
				case "math.Pow":
					pow = ssaExpr(x, 0) == "math.Pow(base, exponent)"
				}
			case *ssa.BinOp:
				if ssaExpr(x, 0) == "(math.Abs(base) == 1)" {
					abs1 = true
				}
			}
		})
		if nan && inf && abs1 && pow {
			r.OK("jsPow special cases", true, "NaN exponent and |base| = 1 with infinite exponent return NaN before math.Pow(base, exponent)")
		} else {
			r.Fail("jsPow special cases", p.Pos(jp.Pos()), fmt.Sprintf("Number::exponentiate special cases missing (NaN exponent:%v infinite exponent:%v |base|=1:%v pow:%v)", nan, inf, abs1, pow))
		}
	}
	r.Floor(30)
	return r
}

// reviewed float->int conversions / math calls: "<func> <expr kind>"
var c03HazardExceptions = ExcTable{
	"js_ast.ToInt32 uint32(float)":                     "operand is math.Mod(|f|, 2^32) of a finite value (NaN/±Inf returned earlier): always in [0, 2^32), exactly representable",
	"js_ast.approximatePrintedIntCharCount int(float)": "operand is max(0, floor(log10(|x|))) ≤ 308; used only by the size heuristic that decides whether folding makes the output shorter, never for a folded value",
}

func c03NumberHazards(p *Prog) *RuleResult {
	r := NewRule("C03/R2 js-number-hazards", "float→integer conversions (implementation-defined out of range in Go) and math.Pow on values that may come from the program are guarded by a range/integrality test or sit inside a reviewed wrapper")
	pkgs := map[string]bool{modPath + "/internal/js_ast": true, modPath + "/internal/js_parser": true, modPath + "/internal/js_printer": true}
	for _, fn := range p.ModuleFuncs() {
		if !pkgs[pkgPathOf(fn)] {
			continue
		}
		eachInstr(fn, func(b *ssa.BasicBlock, in ssa.Instruction) {
			switch x := in.(type) {
			case *ssa.Convert:
				from, ok1 := x.X.Type().Underlying().(*types.Basic)
				to, ok2 := x.Type().Underlying().(*types.Basic)
				if !ok1 || !ok2 || from.Info()&types.IsFloat == 0 || to.Info()&types.IsInteger == 0 {
					return
				}
				if _, isConst := x.X.(*ssa.Const); isConst {
					return
				}
				r.Instances++
				key := FuncName(fn) + " " + to.Name() + "(float)"
				// guarded when a dominating fact compares the converted operand (or an expression of it)
				guarded := false
				opnd := ssaExpr(x.X, 0)
				for _, f := range factsAt(b) {
					if strings.Contains(ssaExpr(f.Cond, 0), opnd) {
						guarded = true
					}
				}
				// or the result is immediately verified: float64(i) == f
				if !guarded && x.Referrers() != nil {
					for _, rf := range *x.Referrers() {
						if cv, ok := rf.(*ssa.Convert); ok && cv.Referrers() != nil {
							for _, rr := range *cv.Referrers() {
								if bo, ok := rr.(*ssa.BinOp); ok && (bo.Op == token.EQL || bo.Op == token.NEQ) {
									guarded = true
								}
							}
						}
					}
				}
				if guarded {
					r.OK(key, true, "operand is range/integrality-tested by a dominating condition or the round trip float64(i) == f is verified")
					return
				}
				if r.CheckExc(c03HazardExceptions, key) {
					return
				}
				r.Fail(key, p.Pos(x.Pos()), "float→"+to.Name()+" conversion of "+opnd+" without a dominating range/integrality guard (implementation-defined in Go when out of range)")
			case *ssa.Call:
				if calleeFullName(x) == "math.Pow" {
					r.Instances++
					key := FuncName(fn) + " math.Pow"
					if FuncName(fn) == "js_ast.jsPow" {
						r.OK(key, true, "inside the reviewed wrapper jsPow")
						return
					}
					if _, c1 := x.Call.Args[0].(*ssa.Const); c1 {
						if _, c2 := x.Call.Args[1].(*ssa.Const); c2 {
							r.OK(key+" (constants)", false, "")
							return
						}
					}
					if r.CheckExc(c03HazardExceptions, key) {
						return
					}
					r.Fail(key, p.Pos(x.Pos()), "bare math.Pow on program values: differs from Number::exponentiate for NaN exponents and |base| = 1 with infinite exponents")
				}
			}
		})
	}
	_ = constant.MakeInt64
	r.StaleCheck(c03HazardExceptions)
	return r
}
