package main

import (
	"fmt"
	"go/token"
	"go/types"
	"strings"

	"golang.org/x/tools/go/ssa"
)

// C18/R4 transitive-hash-closure.
//
// The bytes finally written for a chunk contain the final paths of the chunks it imports, and those
// paths contain those chunks' hashes, which in turn depend on the chunks they import and on the
// final paths of the assets they reference. So the final hash of a chunk must take, for EVERY chunk
// in its cross-chunk import closure, (i) that chunk's isolated hash and (ii) the final paths of the
// assets that chunk references. The linker does this in one self-recursive visitor over
// crossChunkImports. Structural rule:
//   A. inside the visitor, every path from the "not visited yet" edge to a return writes the
//      visited chunk's isolated hash (waitForIsolatedHash) into the hash and passes the loop over
//      the chunk's output pieces that writes asset paths;
//   B. whatever else the naming loop mixes into the same hash object from chunk state is also
//      reachable from the visitor — a contribution made only at the root covers the chunk being
//      named but not the chunks it imports.

func hasHashParam(fn *ssa.Function) int {
	for i, prm := range fn.Params {
		if n, ok := prm.Type().(*types.Named); ok && n.Obj().Pkg() != nil && n.Obj().Pkg().Path() == "hash" && n.Obj().Name() == "Hash" {
			return i
		}
	}
	return -1
}

func c18TransitiveClosure(p *Prog) *RuleResult {
	r := NewRule("C18/R4 transitive-hash-closure", "the final hash of a chunk takes the isolated hash and the referenced asset paths of every chunk in its cross-chunk import closure: both contributions are made inside the recursive visitor, none only at the root")
	// the visitor: self-recursive linker function with a hash.Hash parameter
	var visitor *ssa.Function
	for _, fn := range p.ModuleFuncs() {
		if pkgPathOf(fn) != modPath+"/internal/linker" || hasHashParam(fn) < 0 {
			continue
		}
		self := false
		eachInstr(fn, func(b *ssa.BasicBlock, in ssa.Instruction) {
			if c, ok := in.(*ssa.Call); ok && calleeOf(c) == fn {
				self = true
			}
		})
		if self {
			if visitor != nil {
				r.Fail("visitor", p.Pos(fn.Pos()), "more than one self-recursive hash visitor; the rule's anchor is ambiguous")
				return r
			}
			visitor = fn
		}
	}
	if !r.Anchor("self-recursive linker function with a hash.Hash parameter", visitor != nil) {
		return r
	}
	hp := visitor.Params[hasHashParam(visitor)]
	// A. contributions inside the visitor
	isoBlocks := map[*ssa.BasicBlock]bool{}
	assetBlocks := map[*ssa.BasicBlock]bool{}
	eachInstr(visitor, func(b *ssa.BasicBlock, in ssa.Instruction) {
		c, ok := in.(ssa.CallInstruction)
		if !ok {
			return
		}
		com := c.Common()
		usesHash := false
		if com.IsInvoke() && com.Value == ssa.Value(hp) {
			usesHash = true
		}
		for _, a := range com.Args {
			if a == ssa.Value(hp) {
				usesHash = true
			}
		}
		if !usesHash || calleeOf(c) == visitor {
			return
		}
		// what is written?
		for _, a := range com.Args {
			backSlice(a, func(v ssa.Value) bool {
				if cc, ok := v.(*ssa.Call); ok && strings.HasSuffix(FuncNameOf(cc), ".waitForIsolatedHash") {
					isoBlocks[b] = true
				}
				if _, n, ok := loadedField(v); ok && n == "waitForIsolatedHash" {
					isoBlocks[b] = true
				}
				return true
			})
		}
		// inside the loop over the chunk's pieces?
		for h, body := range naturalLoops(visitor) {
			_ = h
			if !body[b] {
				continue
			}
			for lb := range body {
				for _, li := range lb.Instrs {
					if ia, ok := li.(*ssa.IndexAddr); ok {
						if _, n, ok := loadedField(ia.X); ok && n == "pieces" {
							assetBlocks[b] = true
						}
					}
				}
			}
		}
	})
	// entry of the traversal body: the block that stores visited[...] = key
	var body *ssa.BasicBlock
	eachInstr(visitor, func(b *ssa.BasicBlock, in ssa.Instruction) {
		if st, ok := in.(*ssa.Store); ok {
			if ia, ok := st.Addr.(*ssa.IndexAddr); ok {
				if prm, ok := ia.X.(*ssa.Parameter); ok && prm.Name() == "visited" && body == nil {
					body = b
				}
			}
		}
	})
	if !r.Anchor("visited[...] = key in the visitor", body != nil) {
		return r
	}
	r.Instances++
	if len(isoBlocks) == 0 {
		r.Fail("visitor writes the isolated hash", p.Pos(visitor.Pos()), "the visitor no longer writes waitForIsolatedHash() of the visited chunk into the hash")
	} else if path, found := reachesExitAvoiding(body, isReturnBlock, func(b *ssa.BasicBlock) bool { return isoBlocks[b] }, true); found && !isoBlocks[body] {
		r.Fail("visitor writes the isolated hash", p.Pos(visitor.Pos()), fmt.Sprintf("a visited chunk can be left without its isolated hash being written (blocks %v)", blockIdx(path)))
	} else {
		r.OK("visitor writes the isolated hash", true, "on every path from the visited-mark to the return")
	}
	r.Instances++
	if len(assetBlocks) == 0 {
		r.Fail("visitor writes referenced asset paths", p.Pos(visitor.Pos()), "the visitor no longer mixes the final paths of the assets referenced by the visited chunk (loop over intermediateOutput.pieces) into the hash: a chunk that imports a chunk referencing a file-loader asset keeps its name when the asset, and with it the imported chunk's name, changes")
	} else {
		r.OK("visitor writes referenced asset paths", true, "loop over the visited chunk's pieces writes into the hash")
	}
	// B. root-only contributions
	cg := p.CallGraph()
	reach := map[*ssa.Function]bool{}
	var dfs func(fn *ssa.Function)
	dfs = func(fn *ssa.Function) {
		if reach[fn] {
			return
		}
		reach[fn] = true
		if n := cg.Nodes[fn]; n != nil {
			for _, e := range n.Out {
				if p.InModule(e.Callee.Func) {
					dfs(e.Callee.Func)
				}
			}
		}
	}
	dfs(visitor)
	roots := 0
	for _, fn := range p.ModuleFuncs() {
		if fn == visitor || reach[fn] && fn != visitor {
			continue
		}
		eachInstr(fn, func(b *ssa.BasicBlock, in ssa.Instruction) {
			c, ok := in.(*ssa.Call)
			if !ok || calleeOf(c) != visitor {
				return
			}
			roots++
			hv := c.Call.Args[hasHashParam(visitor)]
			// every other use of that hash object in this function (through the interface value or
			// the concrete digest it wraps)
			var uses []ssa.CallInstruction
			collect := func(v ssa.Value) {
				if v.Referrers() == nil {
					return
				}
				for _, rf := range *v.Referrers() {
					if oc, ok := rf.(ssa.CallInstruction); ok && oc != ssa.CallInstruction(c) {
						uses = append(uses, oc)
					}
				}
			}
			collect(hv)
			if mi, ok := hv.(*ssa.MakeInterface); ok {
				collect(mi.X)
				if mi.X.Referrers() != nil {
					for _, rf := range *mi.X.Referrers() {
						if m2, ok := rf.(*ssa.MakeInterface); ok && m2 != mi {
							collect(m2)
						}
					}
				}
			}
			for _, oc := range uses {
				com := oc.Common()
				r.Instances++
				name := ""
				var callee *ssa.Function
				if com.IsInvoke() {
					name = com.Method.Name()
				} else if callee = calleeOf(oc); callee != nil {
					name = callee.Name()
				}
				isMethodOnHash := com.IsInvoke() || (callee != nil && callee.Signature.Recv() != nil && !p.InModule(callee)) || (callee != nil && strings.Contains(pkgPathOf(callee), "xxhash"))
				if isMethodOnHash {
					key := fmt.Sprintf("%s: hash.%s at the root", FuncName(fn), name)
					if name == "Sum" || name == "Sum64" || name == "Reset" || name == "Size" || name == "BlockSize" {
						r.OK(key, false, "reads the digest")
					} else {
						r.Fail(key, p.Pos(oc.Pos()), "data is written into the final hash at the root only: it covers the chunk being named but not the chunks in its import closure")
					}
					continue
				}
				key := fmt.Sprintf("%s: %s at the root", FuncName(fn), FuncName(callee))
				if callee != nil && reach[callee] {
					r.OK(key, true, "the same contribution is made for every visited chunk (callee reachable from the visitor)")
				} else {
					r.Fail(key, p.Pos(oc.Pos()), fmt.Sprintf("%s mixes chunk state into the final hash only for the chunk being named; it is not called from the recursive visitor, so the same state of the chunks it imports (transitively) does not influence its name", FuncName(callee)))
				}
			}
		})
	}
	r.Anchor("call of the visitor from the naming loop", roots > 0)
	r.Floor(3)
	return r
}

func blockIdx(path []*ssa.BasicBlock) []int {
	var out []int
	for _, b := range path {
		out = append(out, b.Index)
	}
	return out
}

// C18/R5 dynamic-import edges for every chunk.
//
// The final-hash visitor (R4) follows chunk.crossChunkImports. A chunk's bytes contain the final
// path of every chunk it loads with import(), so those targets must be in crossChunkImports of
// EVERY chunk, entry point or not — otherwise a shared chunk keeps its hashed name while the path
// substituted into it changes. In computeCrossChunkDependencies the per-chunk loop that builds
// crossChunkImports therefore has to reach the "dynamic imports" step on every path through its
// body (only a chunk that is not a JS chunk may skip it).
func c18DynamicImportEdges(p *Prog) *RuleResult {
	r := NewRule("C18/R5 dynamic-import-edges", "in computeCrossChunkDependencies every JS chunk, entry point or not, gets its dynamic-import targets appended to crossChunkImports (the edge list the final hash follows)")
	var fns []*ssa.Function
	if top := p.FindFunc("linker.(*linkerContext).computeCrossChunkDependencies"); top != nil {
		fns = withClosures(top)
	}
	if !r.Anchor("linker.(*linkerContext).computeCrossChunkDependencies", len(fns) > 0) {
		return r
	}
	found := false
	for _, fn := range fns {
		loops := naturalLoops(fn)
		// the step: a nil test of the field dynamicImports whose non-nil side stores into crossChunkImports
		for _, b := range fn.Blocks {
			if len(b.Instrs) == 0 {
				continue
			}
			ifi, ok := b.Instrs[len(b.Instrs)-1].(*ssa.If)
			if !ok {
				continue
			}
			bo, ok := ifi.Cond.(*ssa.BinOp)
			if !ok {
				continue
			}
			isDyn := false
			for _, side := range []ssa.Value{bo.X, bo.Y} {
				if _, n, ok := loadedField(side); ok && n == "dynamicImports" {
					isDyn = true
				}
			}
			if !isDyn {
				continue
			}
			// must lead to a store into crossChunkImports
			stores := false
			for _, sb := range fn.Blocks {
				if !b.Dominates(sb) {
					continue
				}
				for _, in := range sb.Instrs {
					if st, ok := in.(*ssa.Store); ok {
						if fa, ok := st.Addr.(*ssa.FieldAddr); ok && fieldAddrName(fa) == "crossChunkImports" {
							stores = true
						}
					}
				}
			}
			if !stores {
				continue
			}
			// innermost loop containing the step
			var header *ssa.BasicBlock
			for h, body := range loops {
				if body[b] && (header == nil || len(body) < len(loops[header])) {
					header = h
				}
			}
			if header == nil {
				continue
			}
			found = true
			r.Instances++
			var start *ssa.BasicBlock
			for _, s := range header.Succs {
				if loops[header][s] {
					start = s
				}
			}
			// edges on which the chunk turned out not to be a JS chunk
			notJS := func(bb *ssa.BasicBlock, si int) bool {
				if len(bb.Instrs) == 0 {
					return false
				}
				i2, ok := bb.Instrs[len(bb.Instrs)-1].(*ssa.If)
				if !ok {
					return false
				}
				ex, ok := i2.Cond.(*ssa.Extract)
				if !ok || ex.Index != 1 {
					return false
				}
				ta, ok := ex.Tuple.(*ssa.TypeAssert)
				return ok && shortTypeName(ta.AssertedType) == "chunkReprJS" && si == 1
			}
			path, escapes := reachesExitAvoidingEdges(start, func(x *ssa.BasicBlock) bool { return x == header }, func(x *ssa.BasicBlock) bool { return x == b }, notJS)
			if escapes {
				r.Fail("dynamic-import step reached for every chunk", p.Pos(bo.Pos()), fmt.Sprintf("an iteration of the per-chunk loop can finish (blocks %v) without reaching the step that appends the chunk's dynamic-import targets to crossChunkImports: the final hash of such a chunk does not depend on the chunks it loads with import(), although their final paths are written into it", blockIdx(path)))
			} else {
				r.OK("dynamic-import step reached for every chunk", true, "every path through the loop body (except for non-JS chunks) passes the step")
			}
		}
	}
	r.Anchor("the dynamic-imports step of the per-chunk loop", found)
	return r
}

// C18/R7 (also C20/R8) spawn-then-write.
//
// The isolated hash of a chunk is computed on its own goroutine (generateIsolatedHashInParallel
// spawns generateIsolatedHash(chunk, …)), which reads the chunk's pieces, source-map bytes, legal
// comments, … through the chunk pointer. Everything it reads must be complete when the goroutine
// starts: a store into one of those fields after the spawn races with the hash goroutine, and the
// hash — hence the file name — covers either the old or the new value depending on the schedule.
// Rule, for every `go f(p, …)` with a statically known f and a pointer argument p, and for every
// one-level wrapper W(p) that contains such a spawn on its own parameter: in the function that
// makes the spawn (calls the wrapper), no store to a field of *p that f (or its static callees, two
// levels) reads through that parameter is reachable from the spawn.
func spawnThenWrite(p *Prog, name string) *RuleResult {
	r := NewRule(name, "after a goroutine is started on a pointer (directly or through a one-level wrapper) the spawning function no longer stores into the fields of the pointee that the goroutine reads")
	// fields read through parameter k of fn (owner.field), two call levels
	type rk struct {
		fn *ssa.Function
		k  int
	}
	memo := map[rk]map[string]bool{}
	var readSet func(fn *ssa.Function, k int, depth int) map[string]bool
	readSet = func(fn *ssa.Function, k int, depth int) map[string]bool {
		key := rk{fn, k}
		if m, ok := memo[key]; ok {
			return m
		}
		m := map[string]bool{}
		memo[key] = m
		if fn == nil || fn.Blocks == nil || k >= len(fn.Params) {
			return m
		}
		prm := fn.Params[k]
		for _, f := range withClosures(fn) {
			eachInstr(f, func(b *ssa.BasicBlock, in ssa.Instruction) {
				switch x := in.(type) {
				case *ssa.FieldAddr:
					if x.X == ssa.Value(prm) {
						// a read: the field address is loaded (not only stored to)
						if x.Referrers() != nil {
							for _, rf := range *x.Referrers() {
								if _, isStore := rf.(*ssa.Store); !isStore {
									m[namedTypeName(x.X.Type())+"."+fieldAddrName(x)] = true
								}
							}
						}
					}
				case *ssa.Call:
					if depth < 2 {
						if callee := x.Call.StaticCallee(); callee != nil {
							for ai, a := range x.Call.Args {
								if a == ssa.Value(prm) {
									for fk := range readSet(callee, ai, depth+1) {
										m[fk] = true
									}
								}
							}
						}
					}
				}
			})
		}
		return m
	}
	// spawns: (function, instruction, pointer value, read set, description)
	type spawn struct {
		fn   *ssa.Function
		at   ssa.Instruction
		ptr  ssa.Value
		rs   map[string]bool
		desc string
	}
	var spawns []spawn
	wrappers := map[rk]spawn{} // wrapper function + param index
	for _, fn := range p.ModuleFuncs() {
		eachInstr(fn, func(b *ssa.BasicBlock, in ssa.Instruction) {
			g, ok := in.(*ssa.Go)
			if !ok {
				return
			}
			callee := g.Call.StaticCallee()
			if callee == nil || callee.Blocks == nil {
				return
			}
			for ai, a := range g.Call.Args {
				if _, isPtr := a.Type().Underlying().(*types.Pointer); !isPtr {
					continue
				}
				rs := readSet(callee, ai, 0)
				if len(rs) == 0 {
					continue
				}
				sp := spawn{fn, in, a, rs, "go " + FuncName(callee)}
				spawns = append(spawns, sp)
				for pi, prm := range fn.Params {
					if a == ssa.Value(prm) {
						wrappers[rk{fn, pi}] = sp
					}
				}
			}
		})
	}
	for _, fn := range p.ModuleFuncs() {
		eachInstr(fn, func(b *ssa.BasicBlock, in ssa.Instruction) {
			c, ok := in.(*ssa.Call)
			if !ok {
				return
			}
			callee := c.Call.StaticCallee()
			if callee == nil {
				return
			}
			for ai, a := range c.Call.Args {
				if w, ok := wrappers[rk{callee, ai}]; ok {
					spawns = append(spawns, spawn{fn, in, a, w.rs, FuncName(callee) + " (" + w.desc + ")"})
				}
			}
		})
	}
	for _, sp := range spawns {
		r.Instances++
		key := FuncName(sp.fn) + " after " + sp.desc
		// stores into read fields through the same pointer reachable from the spawn
		bad := ""
		after := false
		check := func(in ssa.Instruction) {
			st, ok := in.(*ssa.Store)
			if !ok {
				return
			}
			fa, ok := st.Addr.(*ssa.FieldAddr)
			if !ok || canonPtr(fa.X) != canonPtr(sp.ptr) {
				return
			}
			fk := namedTypeName(fa.X.Type()) + "." + fieldAddrName(fa)
			if sp.rs[fk] && bad == "" {
				bad = fk + " at " + p.Pos(st.Pos())
			}
		}
		blk := sp.at.Block()
		for _, x := range blk.Instrs {
			if x == sp.at {
				after = true
				continue
			}
			if after {
				check(x)
			}
		}
		seen := map[*ssa.BasicBlock]bool{}
		work := append([]*ssa.BasicBlock{}, blk.Succs...)
		for len(work) > 0 {
			x := work[len(work)-1]
			work = work[:len(work)-1]
			if seen[x] {
				continue
			}
			seen[x] = true
			for _, xi := range x.Instrs {
				check(xi)
			}
			work = append(work, x.Succs...)
		}
		if bad != "" {
			r.Fail(key, p.Pos(sp.at.Pos()), "the goroutine started here reads "+bad[:strings.Index(bad, " at ")]+" through the pointer it was given, and the spawning function stores into that field afterwards ("+bad+"): the goroutine sees the old or the new value depending on the schedule (for the isolated hash: the chunk's name then does not cover its source map)")
		} else {
			r.OK(key, true, fmt.Sprintf("no store into the %d field(s) the goroutine reads is reachable from the spawn", len(sp.rs)))
		}
	}
	r.Anchor("goroutines started on a pointer whose fields they read", len(spawns) >= 2)
	return r
}

// canonPtr: a pointer kept in a local variable cell that is assigned once (a variable captured by
// a closure is reloaded from its cell at every use) is the value that was stored into the cell.
func canonPtr(v ssa.Value) ssa.Value {
	if u, ok := v.(*ssa.UnOp); ok && u.Op == token.MUL {
		if al, ok := u.X.(*ssa.Alloc); ok {
			if sv := uniqueStoreTo(al); sv != nil {
				return sv
			}
			return al
		}
	}
	return v
}
