package main

import (
	"go/ast"
	"go/token"
	"regexp"
	"strconv"
	"strings"
)

// Lexical model of internal/runtime.Source: the JS text is assembled from string literals, some of
// them inside `if !unsupportedJSFeatures.Has(compat.X) [&& ...] { ... } else { ... }` statements.

type rtSegment struct {
	text     string
	pos      token.Pos
	requires map[string]bool // features known to be SUPPORTED when this text is included
	lacks    map[string]bool // features known to be UNSUPPORTED when this text is included
	branch   int             // id of the enclosing if statement (0 = unconditional)
	arm      int             // 0 then, 1 else
}

func collectRuntimeSegments(p *Prog) ([]rtSegment, *ast.FuncDecl) {
	pk := p.ByPath[modPath+"/internal/runtime"]
	if pk == nil {
		return nil, nil
	}
	var src *ast.FuncDecl
	for _, f := range pk.Syntax {
		for _, d := range f.Decls {
			if fd, ok := d.(*ast.FuncDecl); ok && fd.Name.Name == "Source" && fd.Recv == nil {
				src = fd
			}
		}
	}
	if src == nil {
		return nil, nil
	}
	var segs []rtSegment
	branchID := 0
	var litsOf func(e ast.Expr) []*ast.BasicLit
	litsOf = func(e ast.Expr) []*ast.BasicLit {
		var out []*ast.BasicLit
		ast.Inspect(e, func(n ast.Node) bool {
			if bl, ok := n.(*ast.BasicLit); ok && bl.Kind == token.STRING {
				out = append(out, bl)
			}
			return true
		})
		return out
	}
	// local booleans defined once from feature tests (supportsForOf := !features.Has(compat.ForOf))
	boolDefs := map[string]ast.Expr{}
	assigned := map[string]int{}
	ast.Inspect(src.Body, func(n ast.Node) bool {
		if as, ok := n.(*ast.AssignStmt); ok {
			for i, lhs := range as.Lhs {
				if id, ok := lhs.(*ast.Ident); ok {
					assigned[id.Name]++
					if as.Tok == token.DEFINE && len(as.Lhs) == len(as.Rhs) {
						boolDefs[id.Name] = as.Rhs[i]
					}
				}
			}
		}
		return true
	})
	// condFeatures: for `!Has(A) && !Has(B)` returns supported={A,B}; for `Has(A)` returns lacks={A}
	var condFeatures func(e ast.Expr, neg bool, sup, lack map[string]bool) bool
	condFeatures = func(e ast.Expr, neg bool, sup, lack map[string]bool) bool {
		switch x := e.(type) {
		case *ast.Ident:
			if def, ok := boolDefs[x.Name]; ok && assigned[x.Name] == 1 {
				return condFeatures(def, neg, sup, lack)
			}
		case *ast.ParenExpr:
			return condFeatures(x.X, neg, sup, lack)
		case *ast.UnaryExpr:
			if x.Op == token.NOT {
				return condFeatures(x.X, !neg, sup, lack)
			}
		case *ast.BinaryExpr:
			if x.Op == token.LAND && !neg {
				a := condFeatures(x.X, neg, sup, lack)
				b := condFeatures(x.Y, neg, sup, lack)
				return a && b
			}
			return false
		case *ast.CallExpr:
			if sel, ok := x.Fun.(*ast.SelectorExpr); ok && sel.Sel.Name == "Has" && len(x.Args) == 1 {
				if fs, ok := x.Args[0].(*ast.SelectorExpr); ok {
					if neg {
						sup[fs.Sel.Name] = true
					} else {
						lack[fs.Sel.Name] = true
					}
					return true
				}
			}
		}
		return false
	}
	var walk func(stmts []ast.Stmt, sup, lack map[string]bool, branch, arm int)
	cp := func(m map[string]bool) map[string]bool {
		c := map[string]bool{}
		for k := range m {
			c[k] = true
		}
		return c
	}
	walk = func(stmts []ast.Stmt, sup, lack map[string]bool, branch, arm int) {
		for _, s := range stmts {
			switch x := s.(type) {
			case *ast.AssignStmt:
				for _, rhs := range x.Rhs {
					for _, bl := range litsOf(rhs) {
						t, err := strconv.Unquote(bl.Value)
						if err != nil {
							continue
						}
						segs = append(segs, rtSegment{t, bl.Pos(), cp(sup), cp(lack), branch, arm})
					}
				}
			case *ast.IfStmt:
				branchID++
				id := branchID
				s2, l2 := cp(sup), cp(lack)
				tsup, tlack := map[string]bool{}, map[string]bool{}
				ok := condFeatures(x.Cond, false, tsup, tlack)
				if ok {
					for k := range tsup {
						s2[k] = true
					}
					for k := range tlack {
						l2[k] = true
					}
				}
				walk(x.Body.List, s2, l2, id, 0)
				if x.Else != nil {
					// in the else arm of `!Has(A) && !Has(B)` nothing definite is known
					es, el := cp(sup), cp(lack)
					if ok && len(tsup) == 1 && len(tlack) == 0 {
						for k := range tsup {
							el[k] = true
						}
					}
					if ok && len(tlack) == 1 && len(tsup) == 0 {
						for k := range tlack {
							es[k] = true
						}
					}
					if blk, ok := x.Else.(*ast.BlockStmt); ok {
						walk(blk.List, es, el, id, 1)
					} else if ei, ok := x.Else.(*ast.IfStmt); ok {
						walk([]ast.Stmt{ei}, es, el, id, 1)
					}
				}
			case *ast.BlockStmt:
				walk(x.List, sup, lack, branch, arm)
			case *ast.DeclStmt:
				if gd, ok := x.Decl.(*ast.GenDecl); ok {
					for _, sp := range gd.Specs {
						if vs, ok := sp.(*ast.ValueSpec); ok {
							for _, v := range vs.Values {
								for _, bl := range litsOf(v) {
									if t, err := strconv.Unquote(bl.Value); err == nil {
										segs = append(segs, rtSegment{t, bl.Pos(), cp(sup), cp(lack), branch, arm})
									}
								}
							}
						}
					}
				}
			}
		}
	}
	walk(src.Body.List, map[string]bool{}, map[string]bool{}, 0, 0)
	return segs, src
}

var rtExportRe = regexp.MustCompile(`(?m)^\s*export\s+(?:var|let|const|function\*?|async function)\s+([A-Za-z_$][\w$]*)`)

// runtimeExports returns the names exported by the runtime text in every feature configuration
// (names exported unconditionally, plus names exported by both arms of every branch).
func runtimeExports(segs []rtSegment) (always map[string]bool, partial map[string]string) {
	always = map[string]bool{}
	partial = map[string]string{}
	type armSet map[string]bool
	byBranch := map[int][2]armSet{}
	for _, s := range segs {
		for _, m := range rtExportRe.FindAllStringSubmatch(s.text, -1) {
			if s.branch == 0 {
				always[m[1]] = true
				continue
			}
			b := byBranch[s.branch]
			if b[s.arm] == nil {
				b[s.arm] = armSet{}
			}
			b[s.arm][m[1]] = true
			byBranch[s.branch] = b
		}
	}
	for _, b := range byBranch {
		for n := range b[0] {
			if b[1] != nil && b[1][n] {
				always[n] = true
			} else {
				partial[n] = "only in the then-arm of a feature branch"
			}
		}
		for n := range b[1] {
			if b[0] == nil || !b[0][n] {
				partial[n] = "only in the else-arm of a feature branch"
			}
		}
	}
	return
}

// unlowerable syntax and the feature that must be known supported where it appears
var rtUnlowerable = []struct {
	re      *regexp.Regexp
	feature string
	what    string
}{
	{regexp.MustCompile(`\bfor\s*\([^;)]*\bof\b`), "ForOf", "for-of loop"},
	{regexp.MustCompile(`\bfor\s+await\b`), "ForAwait", "for-await loop"},
	{regexp.MustCompile(`(?:[{,]\s*)(?:get|set)\s+[\[\w$]`), "ObjectAccessors", "getter/setter in an object literal"},
	{regexp.MustCompile(`\bfunction\s*\*|\byield\b`), "Generator", "generator syntax"},
	{regexp.MustCompile(`\bclass\s+[\w${]`), "Class", "class syntax"},
	{regexp.MustCompile(`\b\d+n\b`), "Bigint", "bigint literal"},
	{regexp.MustCompile(`\bimport\.meta\b`), "ImportMeta", "import.meta"},
	{regexp.MustCompile(`[^\w$"'` + "`" + `]#[A-Za-z_]\w*`), "ClassPrivateField", "private name"},
	{regexp.MustCompile(`\bnew\.target\b`), "NewTarget", "new.target"},
}

func stripJSComments(s string) string {
	// remove // line comments and /* */ comments (the runtime text has no strings containing them)
	s = regexp.MustCompile(`(?s)/\*.*?\*/`).ReplaceAllString(s, " ")
	var out []string
	for _, line := range strings.Split(s, "\n") {
		if i := strings.Index(line, "//"); i >= 0 {
			line = line[:i]
		}
		out = append(out, line)
	}
	return strings.Join(out, "\n")
}
