package main

import (
	"fmt"
	"go/token"
	"go/types"
	"strings"

	"golang.org/x/tools/go/ssa"
)

// ---------------------------------------------------------------------------------------------
// C09/R11 plugin-watch-paths-always-recorded.
//
// A plugin callback may return extra files and directories to watch. They reach the watcher only
// by being read through the file-system layer, and they must reach it whatever else the result
// says — in particular when the callback also reported an error: the file named there is the one
// whose repair has to trigger the next rebuild. Rule: after every call that returns a plugin result
// (a struct with AbsWatchFiles / AbsWatchDirs), each of the two fields is read on every path to a
// return of the function or to the next callback.
func c09PluginWatchPaths(p *Prog) *RuleResult {
	r := NewRule("C09/R11 plugin-watch-paths-always-recorded", "the watch files and directories a plugin callback returns are handed to the file-system layer on every path after the callback, including the paths that stop because the callback reported an error")
	n := 0
	for _, fn := range p.ModuleFuncs() {
		if pkgPathOf(fn) != modPath+"/internal/bundler" {
			continue
		}
		k := 0
		eachInstr(fn, func(b *ssa.BasicBlock, in ssa.Instruction) {
			c, ok := in.(*ssa.Call)
			if !ok || c.Call.StaticCallee() != nil || c.Call.IsInvoke() {
				return
			}
			st, ok := c.Type().Underlying().(*types.Struct)
			if !ok {
				return
			}
			has := map[string]bool{}
			for i := 0; i < st.NumFields(); i++ {
				has[st.Field(i).Name()] = true
			}
			if !has["AbsWatchFiles"] || !has["AbsWatchDirs"] {
				return
			}
			k++
			for _, field := range []string{"AbsWatchFiles", "AbsWatchDirs"} {
				n++
				r.Instances++
				key := fmt.Sprintf("%s plugin callback #%d: %s is read on every path", FuncName(fn), k, field)
				// cells holding the result
				cells := map[ssa.Value]bool{c: true}
				if c.Referrers() != nil {
					for _, rf := range *c.Referrers() {
						if s, ok := rf.(*ssa.Store); ok && s.Val == ssa.Value(c) {
							cells[s.Addr] = true
						}
					}
				}
				reads := map[*ssa.BasicBlock]bool{}
				eachInstr(fn, func(b2 *ssa.BasicBlock, in2 ssa.Instruction) {
					switch x := in2.(type) {
					case *ssa.FieldAddr:
						if cells[x.X] && fieldAddrName(x) == field {
							reads[b2] = true
						}
					case *ssa.Field:
						if cells[x.X] && fieldValName(x) == field {
							reads[b2] = true
						}
					}
				})
				if len(reads) == 0 {
					r.Fail(key, p.Pos(c.Pos()), "the plugin result's "+field+" is never read: the paths are not handed to the watcher")
					continue
				}
				if reads[b] {
					r.OK(key, true, "read in the block of the call")
					continue
				}
				path, found := reachesExitAvoiding(b, func(x *ssa.BasicBlock) bool { return isReturnBlock(x) }, func(x *ssa.BasicBlock) bool { return reads[x] }, true)
				// (x == b as exit: the loop came back to the next callback)
				if !found {
					// the start block itself is never "reached" by the search; look for a cycle explicitly
					for _, s := range b.Succs {
						if reads[s] {
							continue
						}
						if pp, ok := reachesExitAvoiding(s, func(x *ssa.BasicBlock) bool { return x == b }, func(x *ssa.BasicBlock) bool { return reads[x] }, false); ok {
							path, found = pp, true
						}
					}
				}
				if found {
					last := path[len(path)-1]
					what := "the next callback"
					if isReturnBlock(last) {
						what = "the return at " + p.Pos(firstPos(last))
					}
					r.Fail(key, p.Pos(c.Pos()), "a path from the plugin callback to "+what+" does not read the result's "+field+": on that path (an early exit, typically the one taken when the callback reported an error) the paths the plugin asked to watch are not registered, so watch mode never notices the edit that repairs the error")
				} else {
					r.OK(key, true, "every path to a return or to the next callback reads the field")
				}
			}
		})
	}
	if !r.Anchor("plugin callbacks returning watch paths in internal/bundler", n >= 4) {
		return r
	}
	r.Floor(4)
	return r
}

// ---------------------------------------------------------------------------------------------
// C10/R7 generated-export-getter-symbol-use.
//
// createExportsForFile generates `__export(ns, { name: () => binding })`. The binding may live in
// another file and, with code splitting, in another chunk; the only thing that makes the chunk of
// the namespace object import it is the SymbolUses entry of the generated part
// (computeCrossChunkDependencies walks SymbolUses, not Dependencies). Rule: in every function that
// fills a js_ast.Part's SymbolUses from a local map, every identifier node whose Ref is read from a
// resolved export/import record (graph.ExportData / graph.ImportData) has a SymbolUses update with a
// Ref read from the same record, and that update is executed whenever the identifier is created.
func c10GetterSymbolUse(p *Prog) *RuleResult {
	r := NewRule("C10/R7 generated-export-getter-symbol-use", "every binding a generated export getter refers to is recorded in the generated part's SymbolUses whenever the getter is generated (cross-chunk imports are derived from SymbolUses)")
	n := 0
	for _, fn := range p.ModuleFuncs() {
		if pkgPathOf(fn) != modPath+"/internal/linker" {
			continue
		}
		// the local map stored into Part.SymbolUses
		var useMap ssa.Value
		eachInstr(fn, func(b *ssa.BasicBlock, in ssa.Instruction) {
			st, ok := in.(*ssa.Store)
			if !ok {
				return
			}
			if fa, ok := st.Addr.(*ssa.FieldAddr); ok && fieldAddrName(fa) == "SymbolUses" && namedTypeName(fa.X.Type()) == "js_ast.Part" {
				if mk, ok := st.Val.(*ssa.MakeMap); ok {
					useMap = mk
				}
			}
		})
		if useMap == nil {
			continue
		}
		refCell := func(v ssa.Value) (ssa.Value, bool) {
			// v is a load of <cell>.Ref where cell is an ExportData/ImportData
			u, ok := v.(*ssa.UnOp)
			if !ok || u.Op != token.MUL {
				return nil, false
			}
			fa, ok := u.X.(*ssa.FieldAddr)
			if !ok || fieldAddrName(fa) != "Ref" {
				return nil, false
			}
			owner := namedTypeName(fa.X.Type())
			if owner != "graph.ExportData" && owner != "graph.ImportData" {
				return nil, false
			}
			return fa.X, true
		}
		// updates of the map keyed by such refs
		updates := map[ssa.Value][]*ssa.BasicBlock{}
		eachInstr(fn, func(b *ssa.BasicBlock, in ssa.Instruction) {
			mu, ok := in.(*ssa.MapUpdate)
			if !ok || mu.Map != useMap {
				return
			}
			if cell, ok := refCell(mu.Key); ok {
				updates[cell] = append(updates[cell], b)
			}
		})
		k := 0
		eachInstr(fn, func(b *ssa.BasicBlock, in ssa.Instruction) {
			st, ok := in.(*ssa.Store)
			if !ok {
				return
			}
			fa, ok := st.Addr.(*ssa.FieldAddr)
			if !ok || fieldAddrName(fa) != "Ref" {
				return
			}
			node := namedTypeName(fa.X.Type())
			if node != "js_ast.EIdentifier" && node != "js_ast.EImportIdentifier" {
				return
			}
			cell, ok := refCell(st.Val)
			if !ok {
				return
			}
			n++
			k++
			r.Instances++
			key := fmt.Sprintf("%s %s #%d refers to a resolved export: symbol use recorded", FuncName(fn), strings.TrimPrefix(node, "js_ast."), k)
			ubs := updates[cell]
			if len(ubs) == 0 {
				r.Fail(key, p.Pos(st.Pos()), "the generated part refers to the binding but never records a use of it in its SymbolUses")
				return
			}
			isUpd := map[*ssa.BasicBlock]bool{}
			for _, ub := range ubs {
				isUpd[ub] = true
			}
			if isUpd[b] {
				r.OK(key, true, "recorded in the same block")
				return
			}
			// every path from the identifier's creation to the end of the iteration / function passes an update
			loops := naturalLoops(fn)
			var header *ssa.BasicBlock
			var body map[*ssa.BasicBlock]bool
			for h, bd := range loops {
				if bd[b] && (body == nil || len(bd) < len(body)) {
					header, body = h, bd
				}
			}
			path, found := reachesExitAvoiding(b, func(x *ssa.BasicBlock) bool {
				return isReturnBlock(x) || x == header || (body != nil && !body[x])
			}, func(x *ssa.BasicBlock) bool { return isUpd[x] }, true)
			if found {
				r.Fail(key, p.Pos(st.Pos()), "the getter's binding is recorded in SymbolUses only under a further condition (path avoiding the update ends at "+p.Pos(firstPos(path[len(path)-1]))+"): when the condition fails the part still refers to the binding but, with code splitting, the chunk that holds it gets no cross-chunk import for it (ReferenceError at run time)")
			} else {
				r.OK(key, true, "every path from the identifier to the end of the iteration passes the SymbolUses update")
			}
		})
	}
	if !r.Anchor("identifier nodes for resolved exports in parts with generated SymbolUses", n >= 2) {
		return r
	}
	r.Floor(2)
	return r
}
