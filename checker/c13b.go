package main

import (
	"fmt"
	"go/token"
	"go/types"
	"os"
	"sort"
	"strings"

	"golang.org/x/tools/go/ssa"
)

// C13/R2 in-operator containment.
//
// In the initialiser of a `for (init; …; …)` statement the grammar is Expression[~In]: an `in`
// operator may only appear inside brackets. The printer tracks this with the forbidIn flag: a
// binary `in` printed while forbidIn is set gets parentheses. The flag has to survive every
// recursive printExpr call that (a) asks for a precedence level below the level of `in`
// (js_ast.LCompare) — at or above it the child `in` expression is parenthesised by precedence
// anyway — and (b) does not itself sit between brackets printed by the caller. Rule: in every
// js_printer function that has the caller's flags in hand (a printExprFlags parameter or the
// binaryExprVisitor's flags field), each call of printExpr / printExprWithoutLeadingNewline whose
// level argument is not a constant >= LCompare passes flags computed with the forbidIn bit
// (flags & forbidIn, possibly or'ed with others), unless the site is in the reviewed table of
// bracketed children. Sites are keyed by enclosing function, AST case and child, not by line.

type c13Site struct {
	fn      *ssa.Function
	call    *ssa.Call
	kind    string // dominating type-switch case (AST node type) or ""
	child   string // field path of the printed child below that node
	level   string
	carries bool
	key     string
}

func c13ForbidInSites(p *Prog) ([]*c13Site, int64, int64, bool) {
	pk := p.ByPath[modPath+"/internal/js_printer"]
	ja := p.ByPath[modPath+"/internal/js_ast"]
	if pk == nil || ja == nil {
		return nil, 0, 0, false
	}
	var forbidIn int64 = -1
	if c, ok := pk.Types.Scope().Lookup("forbidIn").(*types.Const); ok {
		if v, ok := constInt64(c); ok {
			forbidIn = v
		}
	}
	levels := constsOfType(ja.Types, "L")
	lcompare, ok := levels["LCompare"]
	if forbidIn <= 0 || !ok {
		return nil, 0, 0, false
	}
	levelName := map[int64]string{}
	for n, v := range levels {
		levelName[v] = n
	}
	var sites []*c13Site
	for _, fn := range p.ModuleFuncs() {
		if pkgPathOf(fn) != modPath+"/internal/js_printer" {
			continue
		}
		// does the function have flags in hand?
		hasFlags := false
		for _, prm := range fn.Params {
			if namedTypeName(prm.Type()) == "js_printer.printExprFlags" {
				hasFlags = true
			}
		}
		if recv := fn.Signature.Recv(); recv != nil && strings.HasSuffix(namedTypeName(recv.Type()), "binaryExprVisitor") {
			hasFlags = true
		}
		if !hasFlags {
			continue
		}
		eachInstr(fn, func(b *ssa.BasicBlock, in ssa.Instruction) {
			c, ok := in.(*ssa.Call)
			if !ok {
				return
			}
			name := FuncNameOf(c)
			if name != "js_printer.(*printer).printExpr" && name != "js_printer.(*printer).printExprWithoutLeadingNewline" {
				return
			}
			args := c.Call.Args // p, expr, level, flags
			if len(args) != 4 {
				return
			}
			s := &c13Site{fn: fn, call: c}
			if lv, ok := constInt(args[2]); ok {
				if lv >= lcompare {
					return // a child `in` expression is parenthesised by precedence
				}
				s.level = levelName[lv]
			} else {
				s.level = "dynamic"
			}
			s.carries = c13Carries(p, args[3], forbidIn, map[ssa.Value]bool{})
			// child description: field path below the dominating type-assert value
			root, path := purePath(args[1])
			desc := strings.Join(path, ".")
			if ex, ok := root.(*ssa.Extract); ok {
				if ta, ok := ex.Tuple.(*ssa.TypeAssert); ok {
					s.kind = shortTypeName(ta.AssertedType)
				}
			} else if al, ok := root.(*ssa.Alloc); ok {
				desc = al.Comment + dotJoin(path)
			} else if prm, ok := root.(*ssa.Parameter); ok {
				desc = prm.Name() + dotJoin(path)
			} else if ia, ok := root.(*ssa.IndexAddr); ok {
				r2, p2 := purePath(ia.X)
				if ex, ok := r2.(*ssa.Extract); ok {
					if ta, ok := ex.Tuple.(*ssa.TypeAssert); ok {
						s.kind = shortTypeName(ta.AssertedType)
					}
				}
				desc = strings.Join(p2, ".") + "[]" + dotJoin(path)
			}
			if s.kind == "" {
				s.kind = c13CaseKind(b)
			}
			s.child = desc
			sites = append(sites, s)
		})
	}
	// keys
	cnt := map[string]int{}
	sort.SliceStable(sites, func(i, j int) bool { return sites[i].call.Pos() < sites[j].call.Pos() })
	for _, s := range sites {
		base := fmt.Sprintf("%s %s.%s @%s", FuncName(s.fn), s.kind, s.child, s.level)
		cnt[base]++
		s.key = base
		if cnt[base] > 1 {
			s.key = fmt.Sprintf("%s #%d", base, cnt[base])
		}
	}
	return sites, forbidIn, lcompare, true
}

// c13CaseKind: the case of the function's type switch on its `expr` parameter that contains block b
func c13CaseKind(b *ssa.BasicBlock) string {
	kind := ""
	for d := b.Idom(); d != nil; d = d.Idom() {
		if len(d.Instrs) == 0 {
			continue
		}
		ifi, ok := d.Instrs[len(d.Instrs)-1].(*ssa.If)
		if !ok || !edgeDominates(d, 0, b) {
			continue
		}
		ex, ok := ifi.Cond.(*ssa.Extract)
		if !ok || ex.Index != 1 {
			continue
		}
		ta, ok := ex.Tuple.(*ssa.TypeAssert)
		if !ok {
			continue
		}
		root, path := purePath(ta.X)
		isExpr := false
		if al, ok := root.(*ssa.Alloc); ok && al.Comment == "expr" {
			isExpr = true
		}
		if prm, ok := root.(*ssa.Parameter); ok && prm.Name() == "expr" {
			isExpr = true
		}
		if isExpr && len(path) == 1 && path[0] == "Data" {
			kind = shortTypeName(ta.AssertedType) // keep walking: the outermost such assert wins
		}
	}
	return kind
}

// c13Carries: may the value have the forbidIn bit set because the caller's flags had it?
func c13Carries(p *Prog, v ssa.Value, bit int64, seen map[ssa.Value]bool) bool {
	if seen[v] {
		return false
	}
	seen[v] = true
	switch x := v.(type) {
	case *ssa.Const:
		cv, ok := constInt(x)
		return ok && cv&bit != 0
	case *ssa.Parameter:
		return namedTypeName(x.Type()) == "js_printer.printExprFlags"
	case *ssa.BinOp:
		switch x.Op {
		case token.OR:
			return c13Carries(p, x.X, bit, seen) || c13Carries(p, x.Y, bit, seen)
		case token.AND:
			return c13Carries(p, x.X, bit, seen) && c13Carries(p, x.Y, bit, seen)
		case token.AND_NOT:
			if cv, ok := constInt(x.Y); ok && cv&bit != 0 {
				return false
			}
			return c13Carries(p, x.X, bit, seen)
		}
		return false
	case *ssa.Phi:
		for _, e := range x.Edges {
			if c13Carries(p, e, bit, seen) {
				return true
			}
		}
		return false
	case *ssa.UnOp:
		if x.Op != token.MUL {
			return false
		}
		switch a := x.X.(type) {
		case *ssa.Alloc:
			// local flags variable: any store that carries
			if a.Referrers() != nil {
				for _, rf := range *a.Referrers() {
					if st, ok := rf.(*ssa.Store); ok && st.Addr == ssa.Value(a) && c13Carries(p, st.Val, bit, seen) {
						return true
					}
				}
			}
			return false
		case *ssa.FieldAddr:
			if namedTypeName(a.X.Type()) != "js_printer.binaryExprVisitor" {
				return false
			}
			f := fieldAddrName(a)
			if f == "flags" {
				return true // the flags the visitor was created with
			}
			// another flags field of the visitor: every store to it in the package must carry
			all, any := true, false
			for _, fn := range p.ModuleFuncs() {
				if pkgPathOf(fn) != modPath+"/internal/js_printer" {
					continue
				}
				eachInstr(fn, func(b *ssa.BasicBlock, in ssa.Instruction) {
					st, ok := in.(*ssa.Store)
					if !ok {
						return
					}
					fa, ok := st.Addr.(*ssa.FieldAddr)
					if !ok || namedTypeName(fa.X.Type()) != "js_printer.binaryExprVisitor" || fieldAddrName(fa) != f {
						return
					}
					any = true
					if !c13Carries(p, st.Val, bit, map[ssa.Value]bool{}) {
						all = false
					}
				})
			}
			return any && all
		}
	}
	return false
}

var c13Bracketed = ExcTable{
	"js_printer.(*printer).printExpr ESpread.Value @LComma":                      "a spread element only occurs as an array item, a call/new argument or an object property, i.e. between [ ], ( ) or { } printed by its parent",
	"js_printer.(*printer).printExpr EJSXElement.property.ValueOrNil @LComma":    "preserved JSX: `{...expr}` attribute spread, between braces",
	"js_printer.(*printer).printExpr EJSXElement.property.ValueOrNil @LComma #2": "preserved JSX: `{...expr}` attribute spread, between braces",
	"js_printer.(*printer).printExpr EJSXElement.property.Key @LComma":           "preserved JSX: computed key emulation `{...{[key]: value}}`, between brackets",
	"js_printer.(*printer).printExpr EJSXElement.property.ValueOrNil @LComma #3": "preserved JSX: value inside `{...{[key]: value}}`, between braces",
	"js_printer.(*printer).printExpr EJSXElement.property.ValueOrNil @LLowest":   "preserved JSX: the attribute value is type-tested to be a JSX element, which prints as <…> and cannot expose an `in` operator",
	"js_printer.(*printer).printExpr EJSXElement.property.ValueOrNil @LComma #4": "preserved JSX: attribute value `={expr}`, between braces",
	"js_printer.(*printer).printExpr EJSXElement.childOrNil @LLowest":            "preserved JSX: the child is type-tested to be a JSX element",
	"js_printer.(*printer).printExpr EJSXElement.childOrNil @LComma":             "preserved JSX: expression child `{expr}`, between braces",
	"js_printer.(*printer).printExpr ENew.Args[] @LComma":                        "constructor arguments, between parentheses",
	"js_printer.(*printer).printExpr ECall.Args[] @LComma":                       "call arguments, between parentheses",
	"js_printer.(*printer).printExpr EImportCall.Expr @LComma":                   "import(…) argument, between parentheses",
	"js_printer.(*printer).printExpr EImportCall.OptionsOrNil @LComma":           "import(…) second argument, between parentheses",
	"js_printer.(*printer).printExpr EIndex.Index @LLowest":                      "index expression, between [ ]",
	"js_printer.(*printer).printExpr EIf.Yes @LYield":                            "the middle operand of ?: is AssignmentExpression[+In] in the grammar (ECMA-262 §13.14): `in` is allowed there even inside a for initialiser",
	"js_printer.(*printer).printExpr EArray.item @LComma":                        "array literal items, between [ ]",
	"js_printer.(*printer).printExpr ETemplate.TagOrNil @LLowest":                "tag printed as `(0, tag)`, between parentheses",
	"js_printer.(*printer).printExpr ETemplate.TagOrNil @LLowest #2":             "optional-chain tag printed as `(tag)`, between parentheses",
	"js_printer.(*printer).printExpr ETemplate.part.Value @LLowest":              "template substitution, between ${ }",
}

func c13InContainment(p *Prog) *RuleResult {
	r := NewRule("C13/R2 in-operator-containment", "every recursive printExpr call below the precedence of `in`, made where the caller's flags are in hand, forwards the forbidIn bit or prints its child between brackets (reviewed table)")
	sites, _, _, ok := c13ForbidInSites(p)
	if !r.Anchor("js_printer forbidIn / js_ast.LCompare", ok) {
		return r
	}
	dump := os.Getenv("VERIF_DUMP") != ""
	for _, s := range sites {
		r.Instances++
		if dump {
			fmt.Printf("  site %-110s carries=%v %s\n", s.key, s.carries, p.Pos(s.call.Pos()))
		}
		if s.carries {
			r.OK(s.key, true, "flags argument is computed with the forbidIn bit")
			continue
		}
		if r.CheckExc(c13Bracketed, s.key) {
			continue
		}
		r.Fail(s.key, p.Pos(s.call.Pos()), "this child is printed below the precedence of `in` without the caller's forbidIn bit and is not in the reviewed table of bracketed children: inside a for-loop initialiser an `in` expression in this position is printed without parentheses and the output no longer parses (or parses as a for-in loop)")
	}
	r.StaleCheck(c13Bracketed)
	// the propagating sites confirmed by hand: conditional test and else-branch, concise arrow body,
	// yield operand, binary left and right operands, declaration initialisers, for-init expression
	r.Floor(30)
	return r
}

// C13/R3 start-hazard consultation.
//
// Some tokens may not come first in certain positions because the grammar gives them another
// meaning there (ECMA-262 lookahead restrictions):
//
//	expression statement:  `{`, `function`, `async function`, `class`, `let [`
//	export default:        `function`, `async function`, `class`
//	concise arrow body:    `{`
//	for-of head:           `let`, `async of`
//	for / for-in head:     `let [`
//
// The printer records where such a position starts (stmtStart, exportDefaultStart, arrowExprStart,
// forOfInitStart, forInitStart) and the printing code of each node kind that begins with one of
// those tokens compares the current output length with the marker and adds parentheses. Rule: the
// printExpr case of every (kind, marker) pair of the table reads that marker in a comparison.
var c13StartHazards = []struct{ where, kind, marker, why string }{
	{"js_printer.(*printer).printExpr", "EObject", "stmtStart", "`{` at the start of a statement is a block"},
	{"js_printer.(*printer).printExpr", "EObject", "arrowExprStart", "`{` at the start of a concise arrow body is a function body"},
	{"js_printer.(*printer).printExpr", "EFunction", "stmtStart", "`function` / `async function` at the start of a statement is a declaration"},
	{"js_printer.(*printer).printExpr", "EFunction", "exportDefaultStart", "`export default function` is a declaration"},
	{"js_printer.(*printer).printExpr", "EClass", "stmtStart", "`class` at the start of a statement is a declaration"},
	{"js_printer.(*printer).printExpr", "EClass", "exportDefaultStart", "`export default class` is a declaration"},
	{"js_printer.(*printer).printExpr", "EIdentifier", "stmtStart", "`let [` at the start of a statement is a declaration"},
	{"js_printer.(*printer).printExpr", "EIdentifier", "forOfInitStart", "`for (let …` / `for (async of` are not expressions"},
	{"js_printer.(*printer).printExpr", "EIdentifier", "forInitStart", "`for (let [` is a declaration"},
	{"js_printer.(*binaryExprVisitor).checkAndPrepare", "", "stmtStart", "a destructuring assignment `{…} = x` at the start of a statement must be parenthesised as a whole"},
	{"js_printer.(*binaryExprVisitor).checkAndPrepare", "", "arrowExprStart", "a destructuring assignment at the start of a concise arrow body must be parenthesised as a whole"},
}

func c13StartHazardRule(p *Prog) *RuleResult {
	r := NewRule("C13/R3 start-hazard-consultation", "the printing code of every node kind that begins with a token the grammar restricts at a statement / export-default / arrow-body / for-head start compares the output position with that start marker")
	for _, h := range c13StartHazards {
		r.Instances++
		key := h.kind + " consults " + h.marker
		if h.kind == "" {
			key = h.where[strings.LastIndex(h.where, ".")+1:] + " consults " + h.marker
		}
		fn := p.FindFunc(h.where)
		if fn == nil {
			r.Fail(key, "", "function "+h.where+" not found")
			continue
		}
		found := false
		eachInstr(fn, func(b *ssa.BasicBlock, in ssa.Instruction) {
			bo, ok := in.(*ssa.BinOp)
			if !ok || (bo.Op != token.EQL && bo.Op != token.NEQ) {
				return
			}
			for _, side := range []ssa.Value{bo.X, bo.Y} {
				if _, name, ok := loadedField(side); ok && name == h.marker {
					if h.kind == "" || c13CaseKind(b) == h.kind {
						found = true
					}
				}
			}
		})
		if found {
			r.OK(key, true, h.why)
		} else {
			r.Fail(key, p.Pos(fn.Pos()), "the "+h.marker+" position is no longer consulted when printing "+h.kind+": "+h.why+", so the output changes meaning or stops parsing")
		}
	}
	return r
}

// C13/R4 no look-behind escape test.
//
// In every grammar esbuild scans (JS strings, templates and regular expressions, CSS, JSON) a
// backslash escapes the character after it — including another backslash. Whether a delimiter is
// escaped can therefore only be decided by scanning forward and skipping the character after each
// backslash; "the byte before the delimiter is a backslash" is wrong for `\\]`, `\\"`, `\\/`.
// A secondary scanner that makes that mistake disagrees with the lexer about where a token or
// character class ends and rejects (or mis-reads) valid input. Rule: no comparison of
// `s[i-k]` (k a positive constant) with the backslash character anywhere in the module, except
// the reviewed sites where the backslash is not an escape character.
func c13NoLookBehindEscape(p *Prog) *RuleResult {
	r := NewRule("C13/R4 no-look-behind-escape", "no scanner decides that a delimiter is escaped by testing whether the preceding byte is a backslash (a backslash can itself be escaped); escapes are skipped forwards")
	exc := ExcTable{
		"helpers.ParseGlobPattern #1": "Windows path separator in a glob pattern (`**\\`), not an escape character",
	}
	total := 0
	for _, fn := range p.ModuleFuncs() {
		k := 0
		eachInstr(fn, func(b *ssa.BasicBlock, in ssa.Instruction) {
			bo, ok := in.(*ssa.BinOp)
			if !ok || (bo.Op != token.EQL && bo.Op != token.NEQ) {
				return
			}
			for i, side := range []ssa.Value{bo.X, bo.Y} {
				other := bo.Y
				if i == 1 {
					other = bo.X
				}
				if cv, ok := constInt(other); !ok || cv != '\\' {
					continue
				}
				var idx ssa.Value
				switch x := side.(type) {
				case *ssa.UnOp:
					if ia, ok := x.X.(*ssa.IndexAddr); ok && x.Op == token.MUL {
						idx = ia.Index
					}
				case *ssa.Lookup:
					idx = x.Index
				case *ssa.Index:
					idx = x.Index
				case *ssa.Convert:
					if lk, ok := x.X.(*ssa.Lookup); ok {
						idx = lk.Index
					}
				}
				if idx == nil {
					continue
				}
				sub, ok := idx.(*ssa.BinOp)
				if !ok || sub.Op != token.SUB {
					continue
				}
				if cv, ok := constInt(sub.Y); !ok || cv <= 0 {
					continue
				}
				k++
				total++
				r.Instances++
				key := fmt.Sprintf("%s #%d", FuncName(fn), k)
				if r.CheckExc(exc, key) {
					continue
				}
				r.Fail(key, p.Pos(bo.Pos()), "a delimiter is treated as escaped because the byte before it is a backslash; a backslash can itself be escaped (`\\\\]`, `\\\\\"`), so this scanner disagrees with the lexer about where the token or character class ends")
			}
		})
	}
	r.StaleCheck(exc)
	r.Note(fmt.Sprintf("%d look-behind comparisons with a backslash in the module", total))
	return r
}
