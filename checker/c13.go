package main

import (
	"fmt"
	"go/ast"
	"go/token"
	"go/types"
	"sort"
	"strconv"
	"strings"

	"golang.org/x/tools/go/ssa"
)

func init() {
	register(&Property{
		ID:          "C13",
		Explanation: "Decides a structural necessary condition of the fixed-point clause of 'valid, stable output': the parser and the printer agree on operator precedence, associativity and spelling. The printer parenthesises from js_ast.OpTable[op].Level; for every binary operator the parser builds in parseSuffix, the level at which it stops (`if level >= L { return left }`), the level it parses the right operand at, and OpTable's level for that operator must be consistent (right operand at L for left-associative operators, L-1 for right-associative and assignment operators); OpTable must have exactly one positional entry per OpCode constant and mark exactly the alphabetic operator texts as keywords. If they disagree, print∘parse regroups some expression. R2 (in-operator containment): in a for-loop initialiser an `in` operator may only appear inside brackets; every recursive printExpr/printExprWithoutLeadingNewline call whose level argument is below js_ast.LCompare, made in a function that has the caller's flags in hand, must pass flags computed with the forbidIn bit (bit-level dataflow through |, &, &^, phis and the binary visitor's fields) or be one of the reviewed children printed between brackets. R3 (start-hazard consultation): the printExpr case of each node kind that begins with `{`, `function`, `class`, `let`/`async` reads the start marker (stmtStart, exportDefaultStart, arrowExprStart, forOfInitStart, forInitStart) that the grammar's lookahead restriction requires. R5 visit-order: for every statement/expression kind the visit pass visits the children in the order the parse pass parsed them. R6 escape-denotation: the C01/R3 analysis. R7 shape-tests-unwrap-inlined-enum: every type test that decides parentheses around the left operand of `**` is made on the value that passed through the EInlinedEnum unwrapping. R8 line-terminator-set-complete: the C01/R7 analysis. R9 token-enum-vs-character: the C06/R7 lint. R10 escaped-identifier-end-is-guarded: the C01/R8 analysis. R11 dot-after-expression-guarded: every path from the printExpr call that printed a target to a print of `.` consults needSpaceBeforeDot. R12 fixed-child-levels: eleven grammar-fixed child positions are printed with the level constant their category requires. R13 else-presence-as-printed: printer functions that compare SIf.NoOrNil.Data with nil also consult simplifyUnusedExpr. NOT covered: acceptance of the full grammar, ASI and token gluing in the printer (a typestate rule for that was tried and dropped, see DESIGN.md), validity of output beyond this clause.",
		Run: func(p *Prog, tier string) []*RuleResult {
			return []*RuleResult{c13Precedence(p), c13InContainment(p), c13StartHazardRule(p), c13NoLookBehindEscape(p), c13VisitOrder(p), c13ShapeTestsUnwrap(p), renamed(c01LineTerminators(p), "C13/R8 line-terminator-set-complete", "a block comment or whitespace run whose only line terminator is U+2028 or U+2029 is a line break: programs that rely on automatic semicolon insertion there (`var a = 1 /*\u2028*/ var b = 2`) are valid and must be accepted, and `return /*\u2028*/ 1` must stay `return; 1` (same analysis as C01/R7)"), renamed(c01EscapeDenotation(p), "C13/R6 escape-denotation", "a string or template escape the printer emits must be valid wherever the literal can be printed: `\\0` directly before a decimal digit (8 and 9 included) is a legacy octal escape, a syntax error in strict code and in every template literal (same analysis as C01/R3)"), tokenVsCharacter(p, "C13/R9 token-enum-vs-character"), escapedIdentifierEndGuarded(p, "C13/R10 escaped-identifier-end-is-guarded"), dotAfterExpressionGuarded(p, "C13/R11 dot-after-expression-guarded"), c13FixedChildLevels(p), elsePresenceAsPrinted(p, "C13/R13 else-presence-as-printed")}
		},
	})
}

type opEntry struct {
	text      string
	level     int64
	levelName string
	isKeyword bool
}

func c13Precedence(p *Prog) *RuleResult {
	r := NewRule("C13/R1 precedence-agreement", "parser stop level, right-operand level and OpTable level agree for every binary operator; OpTable is positional and complete")
	ja := p.ByPath[modPath+"/internal/js_ast"]
	if !r.Anchor("package js_ast", ja != nil) {
		return r
	}
	// OpTable literal
	var lit *ast.CompositeLit
	for _, f := range ja.Syntax {
		for _, d := range f.Decls {
			if gd, ok := d.(*ast.GenDecl); ok && gd.Tok == token.VAR {
				for _, sp := range gd.Specs {
					vs := sp.(*ast.ValueSpec)
					for i, n := range vs.Names {
						if n.Name == "OpTable" && i < len(vs.Values) {
							lit, _ = vs.Values[i].(*ast.CompositeLit)
						}
					}
				}
			}
		}
	}
	if !r.Anchor("js_ast.OpTable literal", lit != nil) {
		return r
	}
	var table []opEntry
	for _, el := range lit.Elts {
		cl, ok := el.(*ast.CompositeLit)
		if !ok || len(cl.Elts) < 3 {
			r.Fail("OpTable entry shape", p.Pos(el.Pos()), "OpTable entry is not a positional {text, level, isKeyword} literal")
			return r
		}
		var e opEntry
		if bl, ok := cl.Elts[0].(*ast.BasicLit); ok {
			e.text, _ = strconv.Unquote(bl.Value)
		}
		if tv, ok := ja.TypesInfo.Types[cl.Elts[1]]; ok && tv.Value != nil {
			e.level, _ = constInt64FromValue(tv)
			e.levelName = types.ExprString(cl.Elts[1])
		}
		if id, ok := cl.Elts[2].(*ast.Ident); ok {
			e.isKeyword = id.Name == "true"
		}
		table = append(table, e)
	}
	ops := constsOfType(ja.Types, "OpCode")
	byVal := map[int64]string{}
	maxv := int64(-1)
	for n, v := range ops {
		byVal[v] = n
		if v > maxv {
			maxv = v
		}
	}
	r.Instances++
	if int64(len(table)) == maxv+1 && len(ops) == len(table) {
		r.OK("OpTable has one positional entry per OpCode", true, fmt.Sprintf("%d entries for %d constants", len(table), len(ops)))
	} else {
		r.Fail("OpTable has one positional entry per OpCode", p.Pos(lit.Pos()), fmt.Sprintf("OpTable has %d entries but there are %d OpCode constants (max value %d): the positional table is shifted", len(table), len(ops), maxv))
		return r
	}
	for i, e := range table {
		r.Instances++
		alpha := e.text != "" && ((e.text[0] >= 'a' && e.text[0] <= 'z') || (e.text[0] >= 'A' && e.text[0] <= 'Z'))
		key := "OpTable[" + byVal[int64(i)] + "] keyword flag"
		if alpha == e.isKeyword {
			r.OK(key, false, "")
		} else {
			r.Fail(key, p.Pos(lit.Pos()), fmt.Sprintf("operator %q: IsKeyword=%v but the text is alphabetic=%v (the printer decides on spaces from this flag)", e.text, e.isKeyword, alpha))
		}
	}
	// parser side
	fn := p.FindFunc("js_parser.(*parser).parseSuffix")
	if !r.Anchor("js_parser.(*parser).parseSuffix", fn != nil) {
		return r
	}
	var levelParam *ssa.Parameter
	for _, prm := range fn.Params {
		if prm.Name() == "level" {
			levelParam = prm
		}
	}
	if !r.Anchor("parseSuffix parameter level", levelParam != nil) {
		return r
	}
	type site struct {
		op    int64
		stop  []int64
		right []int64
		pos   token.Pos
	}
	var sites []site
	eachInstr(fn, func(b *ssa.BasicBlock, in ssa.Instruction) {
		st, ok := in.(*ssa.Store)
		if !ok {
			return
		}
		fa, ok := st.Addr.(*ssa.FieldAddr)
		if !ok || namedTypeName(fa.X.Type()) != "js_ast.EBinary" || fieldAddrName(fa) != "Op" {
			return
		}
		v, ok := constInt(st.Val)
		if !ok {
			return
		}
		s := site{op: v, pos: st.Pos()}
		for _, f := range factsAt(b) {
			if bo, ok := f.Cond.(*ssa.BinOp); ok && bo.X == ssa.Value(levelParam) {
				if k, ok := constInt(bo.Y); ok {
					// level >= k is false  => stop level k ; level < k is true => stop level k
					if (bo.Op == token.GEQ && !f.True) || (bo.Op == token.LSS && f.True) {
						s.stop = append(s.stop, k)
					}
					if (bo.Op == token.GTR && !f.True) || (bo.Op == token.LEQ && f.True) {
						s.stop = append(s.stop, k+1)
					}
				}
			}
		}
		// the Right operand of the same literal
		if al, ok := fa.X.(*ssa.Alloc); ok && al.Referrers() != nil {
			for _, rf := range *al.Referrers() {
				fr, ok := rf.(*ssa.FieldAddr)
				if !ok || fieldAddrName(fr) != "Right" || fr.Referrers() == nil {
					continue
				}
				for _, rr := range *fr.Referrers() {
					if st2, ok := rr.(*ssa.Store); ok && st2.Addr == fr {
						backSlice(st2.Val, func(v ssa.Value) bool {
							if c, ok := v.(*ssa.Call); ok && strings.HasSuffix(calleeFullName(c), "parser).parseExpr") {
								if k, ok := constInt(c.Call.Args[1]); ok {
									s.right = append(s.right, k)
								}
								return false
							}
							return true
						})
					}
				}
			}
		}
		sites = append(sites, s)
	})
	// "=" is built through the helper js_ast.Assign(left, right)
	eachInstr(fn, func(b *ssa.BasicBlock, in ssa.Instruction) {
		c, ok := in.(*ssa.Call)
		if !ok || !strings.HasSuffix(calleeFullName(c), "js_ast.Assign") {
			return
		}
		s := site{op: ops["BinOpAssign"], pos: c.Pos()}
		for _, f := range factsAt(b) {
			if bo, ok := f.Cond.(*ssa.BinOp); ok && bo.X == ssa.Value(levelParam) {
				if k, ok := constInt(bo.Y); ok && ((bo.Op == token.GEQ && !f.True) || (bo.Op == token.LSS && f.True)) {
					s.stop = append(s.stop, k)
				}
			}
		}
		backSlice(c.Call.Args[1], func(v ssa.Value) bool {
			if cc, ok := v.(*ssa.Call); ok && strings.HasSuffix(calleeFullName(cc), "parser).parseExpr") {
				if k, ok := constInt(cc.Call.Args[1]); ok {
					s.right = append(s.right, k)
				}
				return false
			}
			return true
		})
		sites = append(sites, s)
	})
	sort.SliceStable(sites, func(i, j int) bool { return sites[i].op < sites[j].op })
	seen := map[int64]bool{}
	for _, s := range sites {
		name := byVal[s.op]
		if seen[s.op] {
			name += " (second site)"
		}
		seen[s.op] = true
		r.Instances++
		e := table[s.op]
		rightAssoc := strings.HasSuffix(byVal[s.op], "Assign") || byVal[s.op] == "BinOpPow"
		key := "parseSuffix " + name
		if len(s.stop) == 0 {
			if !r.CheckExc(c13PrecExceptions, key+" stop level") {
				r.Fail(key+" stop level", p.Pos(s.pos), "no `level >= L` guard dominates the construction of this operator: cannot relate it to OpTable level "+e.levelName)
			}
			continue
		}
		stopOK := false
		for _, k := range s.stop {
			if k == e.level {
				stopOK = true
			}
		}
		wantRight := e.level
		if rightAssoc {
			wantRight = e.level - 1
		}
		rightOK := len(s.right) > 0
		for _, k := range s.right {
			if k != wantRight {
				rightOK = false
			}
		}
		switch {
		case !stopOK:
			r.Fail(key, p.Pos(s.pos), fmt.Sprintf("the parser stops at level(s) %v for %q but the printer's OpTable says %s (=%d): print∘parse would regroup", s.stop, e.text, e.levelName, e.level))
		case !rightOK:
			if r.CheckExc(c13PrecExceptions, key+" right operand") {
				continue
			}
			r.Fail(key, p.Pos(s.pos), fmt.Sprintf("right operand of %q parsed at level(s) %v, expected %d (%s-associative, OpTable %s)", e.text, s.right, wantRight, map[bool]string{true: "right", false: "left"}[rightAssoc], e.levelName))
		default:
			r.OK(key, true, fmt.Sprintf("stop level = OpTable level = %s; right operand at %d (%s-associative)", e.levelName, wantRight, map[bool]string{true: "right", false: "left"}[rightAssoc]))
		}
	}
	// every binary OpCode is built by parseSuffix
	var names []string
	for n := range ops {
		if strings.HasPrefix(n, "BinOp") {
			names = append(names, n)
		}
	}
	sort.Strings(names)
	for _, n := range names {
		if !seen[ops[n]] {
			r.Instances++
			if !r.CheckExc(c13PrecExceptions, "parseSuffix builds "+n) {
				r.Fail("parseSuffix builds "+n, p.Pos(fn.Pos()), "binary operator "+n+" is never constructed by parseSuffix")
			}
		}
	}
	r.Floor(60)
	r.StaleCheck(c13PrecExceptions)
	return r
}

var c13PrecExceptions = ExcTable{}
