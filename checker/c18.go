package main

import (
	"fmt"
	"go/token"
	"sort"
	"strings"

	"golang.org/x/tools/go/ssa"
)

func init() {
	register(&Property{
		ID:          "C18",
		Explanation: "Decides structural necessary conditions of 'hashed names identify content; references resolve' (not injectivity of the hash): R1 every field of a chunk whose value reaches the bytes of an output file that is named after the chunk's hashed path (the chunk itself, its source map, its legal-comments file) is an input of the chunk hash (read by generateIsolatedHash / appendIsolatedHashesForImportedChunks), the hash's own outputs excepted; R2 hash.Write in the linker is only reached through the length-prefixing helpers or with fixed-width digests, so variable-length inputs cannot be re-split; R3 intermediate outputs (text with unique-key placeholders) are created only by the two piece-splitting functions, the final bytes of every chunk pass through substituteFinalPaths, and unique keys are minted only at the reviewed sites. R4 the final hash takes, for every chunk in the cross-chunk import closure, that chunk's isolated hash and the final paths of the assets it references: both are written inside the self-recursive visitor on every path from the visited-mark to the return, and nothing else is mixed into the same hash object by the naming loop unless it is also reachable from the visitor. R6 goroutine-private-slots (E-SLOT, shared with C08/R9 and C20/R6). R7 spawn-then-write: no store into a chunk field the isolated-hash goroutine reads is reachable from its spawn. R8 post-hash-appends-hashed: every config.Options field on which an append to the chunk's contents after substituteFinalPaths is control or data dependent is an input (data or control) of a hash write in generateIsolatedHash. R9 hash-test-on-substituted-template: the template tested with HasPlaceholder(·, HashPlaceholder) is the value passed to SubstituteTemplate. R10 chunk-data-hashed-unconditionally: no hash write of chunkInfo data in generateIsolatedHash is control dependent on a config.Options field. NOT covered: that every emitted reference resolves, hash collisions, propagation through anything other than cross-chunk imports and asset references.",
		Run: func(p *Prog, tier string) []*RuleResult {
			return []*RuleResult{c18HashCoverage(p), c18LengthPrefix(p), c18Placeholders(p), c18TransitiveClosure(p), c18DynamicImportEdges(p), goroutinePrivateSlots(p, "C18/R6 goroutine-private-slots"), spawnThenWrite(p, "C18/R7 spawn-then-write"), c18PostHashAppends(p), c18HashTestSameTemplate(p), c18ChunkDataHashedUnconditionally(p)}
		},
	})
}

// chunkFieldsRead returns the chunkInfo fields loaded in fn (with closures).
func chunkFieldsRead(fns []*ssa.Function) map[string]token.Pos {
	out := map[string]token.Pos{}
	for _, fn := range fns {
		eachInstr(fn, func(b *ssa.BasicBlock, in ssa.Instruction) {
			switch x := in.(type) {
			case *ssa.FieldAddr:
				if namedTypeName(x.X.Type()) == "linker.chunkInfo" {
					out[fieldAddrName(x)] = x.Pos()
				}
			case *ssa.Field:
				if namedTypeName(x.X.Type()) == "linker.chunkInfo" {
					out[fieldValName(x)] = x.Pos()
				}
			}
		})
	}
	return out
}

var c18HashExceptions = ExcTable{
	"chunkInfo.finalRelPath": "the hash's own output (the final path contains the hash); it only places link comments relative to the chunk",
	"chunkInfo.chunkRepr":    "selects the comment syntax and lists the assets to copy (each asset has its own content-hashed name); the files and part ranges it holds are hashed by generateIsolatedHash via partsInChunkInOrder",
}

func c18HashCoverage(p *Prog) *RuleResult {
	r := NewRule("C18/R1 hash-input-coverage", "every chunk field that contributes bytes to an output named after the chunk's hashed path is an input of the chunk hash")
	gen := p.FindFunc("linker.(*linkerContext).generateChunksInParallel")
	iso := p.FindFunc("linker.(*linkerContext).generateIsolatedHash")
	app := p.FindFunc("linker.(*linkerContext).appendIsolatedHashesForImportedChunks")
	if !r.Anchor("linker.(*linkerContext).generateChunksInParallel", gen != nil) || !r.Anchor("linker.(*linkerContext).generateIsolatedHash", iso != nil) || !r.Anchor("linker.(*linkerContext).appendIsolatedHashesForImportedChunks", app != nil) {
		return r
	}
	// inputs of the hash: chunk fields in the data slice of a hash write (a field that is merely read
	// in the hashing function — in a condition, say — is not hashed)
	hashed := map[string]token.Pos{}
	for _, hf := range append(withClosures(iso), withClosures(app)...) {
		eachInstr(hf, func(b *ssa.BasicBlock, in ssa.Instruction) {
			c, ok := in.(*ssa.Call)
			if !ok {
				return
			}
			name := calleeFullName(c)
			if !strings.HasSuffix(name, "linker.hashWriteUint32") && !strings.HasSuffix(name, "linker.hashWriteLengthPrefixed") && name != "invoke (hash.Hash).Write" && name != "invoke (io.Writer).Write" && !strings.HasSuffix(name, "xxhash.Digest).Write") {
				return
			}
			for _, a := range c.Call.Args {
				backSlice(a, func(v ssa.Value) bool {
					switch x := v.(type) {
					case *ssa.FieldAddr:
						if namedTypeName(x.X.Type()) == "linker.chunkInfo" {
							hashed[fieldAddrName(x)] = x.Pos()
						}
					case *ssa.Field:
						if namedTypeName(x.X.Type()) == "linker.chunkInfo" {
							hashed[fieldValName(x)] = x.Pos()
						}
					}
					return true
				})
			}
		})
	}
	// the emission closure: the closure of generateChunksInParallel that stores OutputFile.Contents
	var emit *ssa.Function
	var contentStores []*ssa.Store
	for _, fn := range gen.AnonFuncs {
		var cs []*ssa.Store
		eachInstr(fn, func(b *ssa.BasicBlock, in ssa.Instruction) {
			if st, ok := in.(*ssa.Store); ok {
				if fa, ok := st.Addr.(*ssa.FieldAddr); ok && namedTypeName(fa.X.Type()) == "graph.OutputFile" && fieldAddrName(fa) == "Contents" {
					cs = append(cs, st)
				}
			}
		})
		if len(cs) > len(contentStores) {
			emit, contentStores = fn, cs
		}
	}
	if !r.Anchor("emission closure with OutputFile.Contents stores", emit != nil && len(contentStores) >= 2) {
		return r
	}
	// W: chunkInfo fields in the backward slice of any Contents store (joiner mutations included)
	written := map[string]token.Pos{}
	for _, st := range contentStores {
		backSliceWithMutators(st.Val, func(v ssa.Value) bool {
			switch x := v.(type) {
			case *ssa.FieldAddr:
				if namedTypeName(x.X.Type()) == "linker.chunkInfo" {
					written[fieldAddrName(x)] = x.Pos()
				}
			case *ssa.Field:
				if namedTypeName(x.X.Type()) == "linker.chunkInfo" {
					written[fieldValName(x)] = x.Pos()
				}
			}
			return true
		})
	}
	if !r.Anchor("chunk fields reaching output bytes >= 3", len(written) >= 3) {
		return r
	}
	var names []string
	for n := range written {
		names = append(names, n)
	}
	sort.Strings(names)
	for _, n := range names {
		r.Instances++
		key := "chunkInfo." + n
		if _, ok := hashed[n]; ok {
			r.OK(key+" is hashed", true, "reaches output bytes and is read by generateIsolatedHash/appendIsolatedHashesForImportedChunks")
			continue
		}
		if r.CheckExc(c18HashExceptions, key) {
			continue
		}
		r.Fail(key, p.Pos(written[n]), "chunk field "+n+" contributes bytes to an output file named after the chunk's hash but is not an input of that hash: two builds can emit the same file name with different bytes")
	}
	r.StaleCheck(c18HashExceptions)
	return r
}

// backSliceWithMutators is backSlice that additionally follows, for local cells, the arguments of
// calls that receive the cell's address (methods mutating a local joiner/builder).
func backSliceWithMutators(v ssa.Value, visit func(ssa.Value) bool) {
	seen := map[ssa.Value]bool{}
	var walk func(v ssa.Value, depth int)
	walk = func(v ssa.Value, depth int) {
		if v == nil || seen[v] || depth > 60 {
			return
		}
		seen[v] = true
		if !visit(v) {
			return
		}
		if al, ok := v.(*ssa.Alloc); ok && al.Referrers() != nil {
			for _, rf := range *al.Referrers() {
				switch x := rf.(type) {
				case *ssa.Store:
					if x.Addr == al {
						walk(x.Val, depth+1)
					}
				case ssa.CallInstruction:
					for _, a := range x.Common().Args {
						if a != ssa.Value(al) {
							walk(a, depth+1)
						}
					}
				case *ssa.IndexAddr, *ssa.FieldAddr:
					if refs := x.(ssa.Value).Referrers(); refs != nil {
						for _, rr := range *refs {
							if st, ok := rr.(*ssa.Store); ok && st.Addr == x.(ssa.Value) {
								walk(st.Val, depth+1)
							}
						}
					}
				}
			}
		}
		in, ok := v.(ssa.Instruction)
		if !ok {
			return
		}
		var ops []*ssa.Value
		for _, op := range in.Operands(ops) {
			if op != nil && *op != nil {
				walk(*op, depth+1)
			}
		}
	}
	walk(v, 0)
}

func c18LengthPrefix(p *Prog) *RuleResult {
	r := NewRule("C18/R2 length-prefix-discipline", "hash.Write in the linker is reached only through hashWriteUint32/hashWriteLengthPrefixed or with a fixed-width digest")
	n := 0
	for _, fn := range p.ModuleFuncs() {
		if pkgPathOf(fn) != modPath+"/internal/linker" {
			continue
		}
		eachInstr(fn, func(b *ssa.BasicBlock, in ssa.Instruction) {
			c, ok := in.(*ssa.Call)
			if !ok {
				return
			}
			name := calleeFullName(c)
			if name != "invoke (io.Writer).Write" && name != "invoke (hash.Hash).Write" && !strings.HasSuffix(name, "xxhash.Digest).Write") {
				return
			}
			if !strings.Contains(c.Call.Value.Type().String(), "hash") && !strings.Contains(name, "xxhash") {
				return
			}
			n++
			r.Instances++
			key := FuncName(fn) + " hash.Write"
			top := TopFunc(fn).Name()
			switch {
			case top == "hashWriteUint32" || top == "hashWriteLengthPrefixed":
				r.OK(key, true, "inside a length-prefixing helper")
			default:
				// fixed-width digest: the argument is the result of waitForIsolatedHash() / Sum
				arg := c.Call.Args[len(c.Call.Args)-1]
				fixed := false
				if cc, ok := arg.(*ssa.Call); ok {
					if _, fn2, ok := loadedField(cc.Call.Value); ok && fn2 == "waitForIsolatedHash" {
						fixed = true
					}
					if strings.HasSuffix(calleeFullName(cc), ").Sum") {
						fixed = true
					}
				}
				if fixed {
					r.OK(key+" (digest)", true, "argument is a fixed-width digest of another chunk")
				} else {
					r.Fail(key, p.Pos(c.Pos()), "variable-length data written to the hash without a length prefix: two different input splits can hash alike")
				}
			}
		})
	}
	if n < 3 {
		r.Fail("C18/R2 positive-control", "-", fmt.Sprintf("only %d hash.Write sites found in the linker (expected the two helpers and the digest mix-in)", n))
	}
	return r
}

var c18KeyMinters = ExcTable{
	"bundler.parseFile":                     "unique key of a file/copy-loader asset: <prefix>A<source index>",
	"linker.(*linkerContext).computeChunks": "unique key of a chunk: <prefix>C<chunk index>",
}

func c18Placeholders(p *Prog) *RuleResult {
	r := NewRule("C18/R3 placeholder-elimination", "intermediate outputs are only produced by the piece-splitting functions, chunk bytes pass through substituteFinalPaths, unique keys are minted only at the reviewed sites")
	// (a) intermediateOutput composite literals
	for _, fn := range p.ModuleFuncs() {
		if pkgPathOf(fn) != modPath+"/internal/linker" {
			continue
		}
		eachInstr(fn, func(b *ssa.BasicBlock, in ssa.Instruction) {
			al, ok := in.(*ssa.Alloc)
			if !ok || namedTypeName(al.Type()) != "linker.intermediateOutput" || al.Comment != "complit" {
				return
			}
			r.Instances++
			n := TopFunc(fn).Name()
			key := FuncName(fn) + " builds intermediateOutput"
			if n == "breakJoinerIntoPieces" || n == "breakOutputIntoPieces" {
				r.OK(key, true, "one of the two piece-splitting functions")
			} else {
				r.Fail(key, p.Pos(al.Pos()), "an intermediate output is constructed outside breakJoinerIntoPieces/breakOutputIntoPieces: its placeholders would not be split into pieces and would survive or be hashed")
			}
		})
	}
	// (b) the chunk's Contents comes from substituteFinalPaths
	gen := p.FindFunc("linker.(*linkerContext).generateChunksInParallel")
	if r.Anchor("linker.(*linkerContext).generateChunksInParallel", gen != nil) {
		for _, fn := range gen.AnonFuncs {
			eachInstr(fn, func(b *ssa.BasicBlock, in ssa.Instruction) {
				st, ok := in.(*ssa.Store)
				if !ok {
					return
				}
				fa, ok := st.Addr.(*ssa.FieldAddr)
				if !ok || namedTypeName(fa.X.Type()) != "graph.OutputFile" || fieldAddrName(fa) != "Contents" {
					return
				}
				// only the chunk itself (value is the joiner's Done())
				c, ok := st.Val.(*ssa.Call)
				if !ok || !strings.HasSuffix(calleeFullName(c), "helpers.Joiner).Done") {
					return
				}
				r.Instances++
				through := false
				backSliceWithMutators(st.Val, func(v ssa.Value) bool {
					if cc, ok := v.(*ssa.Call); ok && strings.HasSuffix(calleeFullName(cc), "linkerContext).substituteFinalPaths") {
						through = true
					}
					return true
				})
				if through {
					r.OK("chunk Contents from substituteFinalPaths", true, "the joiner whose Done() becomes the chunk's bytes is the result of substituteFinalPaths")
				} else {
					r.Fail("chunk Contents from substituteFinalPaths", p.Pos(st.Pos()), "chunk bytes are emitted without path substitution: placeholders survive into the output")
				}
			})
		}
	}
	// (c) unique keys minted only by the owners: fmt.Sprintf with a format starting "%sA" / "%sC"
	for _, fn := range p.ModuleFuncs() {
		eachInstr(fn, func(b *ssa.BasicBlock, in ssa.Instruction) {
			c, ok := in.(*ssa.Call)
			if !ok || calleeFullName(c) != "fmt.Sprintf" {
				return
			}
			f, ok := constString(c.Call.Args[0])
			if !ok || !(strings.HasPrefix(f, "%sA%08d") || strings.HasPrefix(f, "%sC%08d")) {
				return
			}
			r.Instances++
			key := FuncName(TopFunc(fn))
			if !r.CheckExc(c18KeyMinters, key) {
				r.Fail(key+" mints a unique key", p.Pos(c.Pos()), "a placeholder key is created outside the reviewed sites")
			}
		})
	}
	// reads of the prefix: only the linker context construction and the splitter/contains tests
	r.Floor(5)
	r.StaleCheck(c18KeyMinters)
	return r
}
