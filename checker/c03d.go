package main

import (
	"go/ast"
	"go/types"
)

// C03/R11 flag equality of merged expressions.
//
// js_ast.ValuesLookTheSame licenses the merging of two expressions by the minifier
// (`a ? b : b` → `a, b`; adjacent `if (c) return X; if (d) return X` → `if (c || d) return X`; …).
// For property accesses and calls it delegates the non-operand part of the comparison to the
// node's HasSameFlagsAs method. Every flag of the node changes what the expression does when it
// is evaluated or how it must be printed: ECall.Kind is the only record that `(0, o.f)(x)` is a
// call *without* receiver, OptionalChain decides short-circuiting, the "can be removed / unwrapped"
// flags decide what later passes may drop. Two nodes that differ in a flag are not the same value.
// Rule (E-EQ field coverage): every field of boolean or enumeration (named integer) type of a node
// type that has a HasSameFlagsAs method is compared through both operands by that method, except
// reviewed fields that are presentation only.
var c03FlagEqExceptions = ExcTable{
	"js_ast.(*ECall).HasSameFlagsAs ECall.IsMultiLine": "presentation only: whether the argument list is printed on several lines",
}

func c03FlagEquality(p *Prog) *RuleResult {
	r := NewRule("C03/R11 flag-equality", "HasSameFlagsAs (the flag part of ValuesLookTheSame, which licenses merging two expressions into one) compares every boolean and enumeration field of the node through both operands")
	pkgPath := modPath + "/internal/js_ast"
	pk := p.ByPath[pkgPath]
	if !r.Anchor("package js_ast", pk != nil) {
		return r
	}
	n := 0
	eachFuncDecl(p, pkgPath, func(_ string, fd *ast.FuncDecl) {
		if fd.Recv == nil || fd.Name.Name != "HasSameFlagsAs" {
			return
		}
		a, b, T := findEqOperands(pk, fd)
		if a == nil || b == nil || T == nil {
			return
		}
		st := structOf(T)
		if st == nil {
			return
		}
		n++
		ea := analyseEq(pk, fd, a, b)
		name := declName(p, pkgPath, fd)
		for i := 0; i < st.NumFields(); i++ {
			f := st.Field(i)
			isFlag := false
			switch u := f.Type().Underlying().(type) {
			case *types.Basic:
				if u.Kind() == types.Bool {
					isFlag = true
				}
				if u.Info()&types.IsInteger != 0 {
					if _, named := f.Type().(*types.Named); named {
						isFlag = true // an enumeration (OptionalChain, CallKind, ...)
					}
				}
			}
			if !isFlag {
				continue
			}
			r.Instances++
			key := name + " " + T.Obj().Name() + "." + f.Name()
			ua, ub := ea.uses[0][f.Name()], ea.uses[1][f.Name()]
			if ua != nil && ub != nil {
				r.OK(key, true, "compared through both operands")
				continue
			}
			if !r.CheckExc(c03FlagEqExceptions, key) {
				r.Fail(key, p.Pos(fd.Pos()), "the flag "+T.Obj().Name()+"."+f.Name()+" is not compared: two expressions that differ in it are treated as the same value and merged by the minifier (for ECall.Kind: `c ? (0, o.f)(1) : o.f(1)` becomes a single call, and one branch gains or loses its `this`)")
			}
		}
	})
	r.Anchor("HasSameFlagsAs methods", n >= 3)
	r.StaleCheck(c03FlagEqExceptions)
	return r
}
