package main

import (
	"go/token"
	"go/types"
	"strings"

	"golang.org/x/tools/go/ssa"
)

func isFSMutator(n string) bool {
	switch n {
	case "os.Remove", "os.RemoveAll", "os.Rename", "os.Mkdir", "os.MkdirAll", "os.MkdirTemp", "os.Create", "os.CreateTemp", "os.OpenFile", "os.WriteFile", "os.Chmod", "os.Chown", "os.Chtimes",
		"os.Truncate", "os.Symlink", "os.Link", "io/ioutil.WriteFile", "io/ioutil.TempFile", "io/ioutil.TempDir",
		"(*os.File).Write", "(*os.File).WriteString", "(*os.File).WriteAt", "(*os.File).Truncate", "(*os.File).Chmod", "(*os.File).ReadFrom",
		"syscall.Unlink", "syscall.Rename", "syscall.Mkdir", "syscall.Rmdir", "syscall.Open", "os.Chdir":
		return true
	}
	return false
}

var c17MutatorOwners = ExcTable{
	"pkg/api.rebuildImpl$1 io/ioutil.WriteFile":                             "the build's output writer (gated by C17/R2)",
	"pkg/api.rebuildImpl$2 os.Remove":                                       "deletion of stale outputs of the previous build of the same context (provenance: C17/R3)",
	"fs.mkdirAll os.Mkdir":                                                  "creates missing output directories; called only from the three writers (rebuildImpl, CLI metafile, CLI mangle cache)",
	"pkg/cli.runImpl$1 io/ioutil.WriteFile":                                 "CLI --metafile=<path>: written only when the build returned a metafile (no errors)",
	"pkg/cli.runImpl$2 io/ioutil.WriteFile":                                 "CLI --mangle-cache=<path>: written only when the build returned a mangle cache (no errors)",
	"cmd/esbuild.createCpuprofileFile os.Create":                            "CLI --cpuprofile=<path> (explicit debugging flag)",
	"cmd/esbuild.createHeapFile os.Create":                                  "CLI --heap=<path> (explicit debugging flag)",
	"cmd/esbuild.createTraceFile os.Create":                                 "CLI --trace=<path> (explicit debugging flag)",
	"cmd/esbuild.(*serviceType).handleTransformRequest io/ioutil.WriteFile": "stdio protocol for large transforms: writes <inputFS>.code/.map next to the temp file the JS client created, only when the client asked for it (outputFS)",
	"cmd/esbuild.(*serviceType).handleTransformRequest os.Remove":           "stdio protocol for large transforms: removes the temp input file the JS client created and named in the request",
	"logger.writeStringWithColor (*os.File).WriteString":                    "terminal output; the only callers pass os.Stderr",
}

// receiverIsStdStream: the *os.File receiver is loaded from the global os.Stdout / os.Stderr.
func receiverIsStdStream(c ssa.CallInstruction) bool {
	args := c.Common().Args
	if len(args) == 0 {
		return false
	}
	if u, ok := args[0].(*ssa.UnOp); ok && u.Op == token.MUL {
		if g, ok := u.X.(*ssa.Global); ok && g.Pkg.Pkg.Path() == "os" && (g.Name() == "Stdout" || g.Name() == "Stderr") {
			return true
		}
	}
	return false
}

func init() {
	register(&Property{
		ID:          "C17",
		Explanation: "Decides structural necessary conditions of 'builds never clobber inputs; failed builds write nothing' on every path: R1 file-mutating calls of the standard library exist only at the reviewed owner sites (nothing in bundler, linker, resolver, cache, parsers or printers can touch the file system); R2 the build's WriteFile/MkdirAll are dominated by 'no errors' (shouldWriteFiles = !log.HasErrors(), computed after Compile and the cancel check), by args.write and by not-stdout; stdout output and result.Metafile/MangleCache are set only without errors; R3 the argument of os.Remove comes only from keys of the previous build's own hash table that are absent from the new one, and that table is only ever assigned from rebuildImpl's result; R4 Compile runs the input-collision check on every path that returns output files unless AllowOverwrite/WriteToStdout, both sides canonicalised by the same function, and AllowOverwrite is forced on only when not writing. R4 also decides that every file-namespace input is inserted into the input-path set unconditionally (no filter between the gates and the insert). R5 options-after-plugins: direct copies of BuildOptions fields into rebuildArgs are loaded after loadPlugins returned (one reviewed exception: the working directory). R6 skipped-write-is-verified (shared with C20/R10). R7 dotdot-scan-covers-last-segment: the string scanned for leading ../ segments has a separator appended, or a bare .. is tested. R8 extension-validation-rejects-separators: isValidExtension tests for `/` and `\\`. NOT covered: path arithmetic (whether a name template escapes outdir), symlink/case aliasing on a real file system, user-chosen --metafile/--mangle-cache paths.",
		Run: func(p *Prog, tier string) []*RuleResult {
			return []*RuleResult{c17Mutators(p), c17WriteGate(p), c17DeleteProvenance(p), c17OverwriteCheck(p), c17OptionsAfterPlugins(p), skippedWriteVerified(p, "C17/R6 skipped-write-is-verified"), c17DotDotScan(p), c17ExtensionNoSeparators(p)}
		},
	})
}

func c17Mutators(p *Prog) *RuleResult {
	r := NewRule("C17/R1 mutator-ownership", "file-mutating standard-library calls occur only at reviewed owner sites")
	inner := 0
	for _, s := range p.sitesOf(isFSMutator) {
		r.Instances++
		key := FuncName(s.Caller) + " " + s.Callee
		if strings.HasPrefix(s.Callee, "(*os.File).") && receiverIsStdStream(s.Instr) {
			r.OK(key+" (std stream)", false, "")
			continue
		}
		pp := pkgPathOf(s.Caller)
		if strings.Contains(pp, "/internal/") && pp != modPath+"/internal/fs" && pp != modPath+"/internal/logger" {
			inner++
		}
		if _, listed := c17MutatorOwners[key]; !listed {
			// a helper split off a reviewed owner: every in-module caller is the reviewed owner of this
			// very call, and the helper is not used as a value
			if from := excInheritedFromCallers(p, c17MutatorOwners, s.Caller, key); from != "" && !p.addressTaken(s.Caller) {
				r.Exceptions++
				r.OK(key, true, "called only from the reviewed owner(s) "+from)
				continue
			}
		}
		if !r.CheckExc(c17MutatorOwners, key) {
			r.Fail(key, p.Pos(s.Instr.Pos()), "file-mutating call outside the reviewed owner table")
		}
	}
	for _, s := range p.funcValueRefs(isFSMutator) {
		r.Instances++
		r.Fail(FuncName(s.Caller)+" value "+s.Callee, p.Pos(s.Caller.Pos()), "file-mutating function used as a value")
	}
	// only callers of fs.MkdirAll
	mk := p.FindFunc("fs.MkdirAll")
	if r.Anchor("fs.MkdirAll", mk != nil) {
		allowed := map[string]bool{"pkg/api.rebuildImpl$1": true, "pkg/cli.runImpl$1": true, "pkg/cli.runImpl$2": true}
		for _, e := range p.CallGraph().Nodes[mk].In {
			r.Instances++
			n := FuncName(e.Caller.Func)
			viaWriter := false
			if !allowed[n] && !p.addressTaken(e.Caller.Func) && len(e.Caller.In) > 0 {
				// a helper called only from the writers
				viaWriter = true
				for _, e2 := range e.Caller.In {
					if !allowed[FuncName(e2.Caller.Func)] {
						viaWriter = false
					}
				}
			}
			if allowed[n] {
				r.OK("fs.MkdirAll caller "+n, true, "one of the three writers")
			} else if viaWriter {
				r.OK("fs.MkdirAll caller "+n, true, "a helper called only from the three writers")
			} else {
				r.Fail("fs.MkdirAll caller "+n, p.Pos(e.Site.Pos()), "directory creation from a function that is not one of the reviewed writers")
			}
		}
	}
	r.Floor(12)
	r.StaleCheck(c17MutatorOwners)
	return r
}

// isHasErrorsCall: v is the result of calling the HasErrors func field of a logger.Log.
func isHasErrorsCall(v ssa.Value) bool {
	c, ok := v.(*ssa.Call)
	if !ok {
		return false
	}
	_, n, ok := loadedField(c.Call.Value)
	return ok && n == "HasErrors"
}

// boolDef resolves a boolean variable load to the unique value stored in its cell.
func boolDef(v ssa.Value) ssa.Value {
	if u, ok := v.(*ssa.UnOp); ok && u.Op == token.MUL {
		if cell := varCell(u.X); cell != nil {
			if vals, ok := storesToCell(cell); ok && len(vals) == 1 {
				return vals[0]
			}
		}
	}
	return v
}

// c17After, when set, is the instruction (the Compile call in rebuildImpl) after which an error
// check must have been evaluated to count: errors reported by the link stage are only visible to a
// HasErrors() call that runs after Compile returned.
var c17After ssa.Instruction

// knownNoErrors: the facts at block b imply !log.HasErrors() (possibly through shouldWriteFiles),
// evaluated after c17After.
func knownNoErrors(b *ssa.BasicBlock) (bool, string) {
	for _, f := range factsAt(b) {
		c := f.Cond
		pol := f.True
		d := boolDef(c)
		for {
			if u, ok := d.(*ssa.UnOp); ok && u.Op == token.NOT {
				d = u.X
				pol = !pol
				continue
			}
			break
		}
		if isHasErrorsCall(d) && !pol {
			hc := d.(*ssa.Call)
			if c17After != nil && hc.Parent() == c17After.Parent() && canRunBefore(hc, c17After) {
				continue // checked before Compile ran: says nothing about link-stage errors
			}
			return true, "dominated by !log.HasErrors() evaluated after Compile"
		}
	}
	return false, ""
}

func fieldCondFact(b *ssa.BasicBlock, field string) (val bool, ok bool) {
	for _, f := range factsAt(b) {
		if _, n, isF := loadedField(f.Cond); isF && n == field {
			return f.True, true
		}
	}
	return false, false
}

func c17IsWriteCall(n string) bool {
	return n == "io/ioutil.WriteFile" || n == "os.WriteFile" || n == modPath+"/internal/fs.MkdirAll" || n == "os.Create" || n == "os.OpenFile"
}

// c17WritesIn counts the file-writing calls in fn and (two levels deep) in the functions of its
// package it calls.
func c17WritesIn(fn *ssa.Function, depth int) int {
	n := 0
	eachInstr(fn, func(_ *ssa.BasicBlock, in ssa.Instruction) {
		c, ok := in.(ssa.CallInstruction)
		if !ok {
			return
		}
		if c17IsWriteCall(calleeFullName(c)) {
			n++
		} else if callee := c.Common().StaticCallee(); callee != nil && callee.Parent() == nil && depth < 2 && callee != fn && pkgPathOf(callee) == pkgPathOf(fn) && len(callee.Blocks) > 0 {
			n += c17WritesIn(callee, depth+1)
		}
	})
	return n
}

func c17WriteGate(p *Prog) *RuleResult {
	r := NewRule("C17/R2 write-gate", "every file write of a build is dominated by 'no errors ∧ writing enabled ∧ not stdout'; result fields that drive later writes are set only without errors")
	rb := p.FindFunc("pkg/api.rebuildImpl")
	if !r.Anchor("pkg/api.rebuildImpl", rb != nil) {
		return r
	}
	c17After = nil
	eachInstr(rb, func(b *ssa.BasicBlock, in ssa.Instruction) {
		if c, ok := in.(*ssa.Call); ok && strings.HasSuffix(calleeFullName(c), "bundler.Bundle).Compile") {
			c17After = in
		}
	})
	if !r.Anchor("rebuildImpl calls (*Bundle).Compile", c17After != nil) {
		return r
	}
	// the writer closure(s): any closure of rebuildImpl calling WriteFile / MkdirAll
	nwrites := 0
	for _, fn := range withClosures(rb) {
		eachInstr(fn, func(b *ssa.BasicBlock, in ssa.Instruction) {
			c, ok := in.(ssa.CallInstruction)
			if !ok {
				return
			}
			n := calleeFullName(c)
			if !c17IsWriteCall(n) {
				// a helper of the package that does the writing: the gate has to hold where it is called
				callee := c.Common().StaticCallee()
				if callee == nil || callee.Parent() != nil || pkgPathOf(callee) != pkgPathOf(rb) || c17WritesIn(callee, 0) == 0 {
					return
				}
				nwrites += c17WritesIn(callee, 0) - 1
			}
			nwrites++
			r.Instances++
			key := FuncName(fn) + " " + n[strings.LastIndex(n, "/")+1:]
			if ok, why := knownNoErrors(b); ok {
				r.OK(key+" no-errors", true, why)
			} else {
				r.Fail(key+" no-errors", p.Pos(c.Pos()), "output write not dominated by a check that the build has no errors")
			}
		})
	}
	if nwrites < 2 {
		r.Fail("pkg/api.rebuildImpl writer", p.Pos(rb.Pos()), "expected WriteFile and MkdirAll call sites in rebuildImpl's closures")
	}
	// the definition of shouldWriteFiles happens after Compile and after the cancel check: the
	// HasErrors() call feeding it must be dominated by the Compile call block or follow it
	var compileCall, cancelCall ssa.Instruction
	var swfCall ssa.Instruction
	eachInstr(rb, func(b *ssa.BasicBlock, in ssa.Instruction) {
		if c, ok := in.(*ssa.Call); ok {
			n := calleeFullName(c)
			if strings.HasSuffix(n, "bundler.Bundle).Compile") {
				compileCall = in
			}
			if strings.HasSuffix(n, "CancelFlag).DidCancel") {
				cancelCall = in
			}
		}
		if st, ok := in.(*ssa.Store); ok {
			if al, ok := st.Addr.(*ssa.Alloc); ok && al.Comment == "shouldWriteFiles" {
				swfCall = in
			}
		}
	})
	r.Instances++
	if compileCall == nil || swfCall == nil {
		r.Fail("rebuildImpl shouldWriteFiles after Compile", p.Pos(rb.Pos()), "anchors not found (Compile call / shouldWriteFiles store)")
	} else {
		// no path from shouldWriteFiles' store to Compile (i.e. Compile cannot run after the decision)
		path, bad := reachesExitAvoiding(swfCall.Block(), func(b *ssa.BasicBlock) bool { return b == compileCall.Block() }, func(*ssa.BasicBlock) bool { return false }, true)
		if bad && swfCall.Block() != compileCall.Block() {
			r.Fail("rebuildImpl shouldWriteFiles after Compile", p.Pos(swfCall.Pos()), "Compile can run after the write decision was taken: "+blockPath(path))
		} else {
			r.OK("rebuildImpl shouldWriteFiles after Compile", true, "the write decision is taken after Compile (and the cancel check) on every path")
		}
		if cancelCall != nil {
			path, bad := reachesExitAvoiding(swfCall.Block(), func(b *ssa.BasicBlock) bool { return b == cancelCall.Block() }, func(*ssa.BasicBlock) bool { return false }, true)
			r.Instances++
			if bad && swfCall.Block() != cancelCall.Block() {
				r.Fail("rebuildImpl shouldWriteFiles after cancel check", p.Pos(swfCall.Pos()), "the cancel check can run after the write decision: "+blockPath(path))
			} else {
				r.OK("rebuildImpl shouldWriteFiles after cancel check", true, "cancellation is turned into an error before the write decision")
			}
		} else {
			r.Fail("rebuildImpl cancel check", p.Pos(rb.Pos()), "CancelFlag.DidCancel() is no longer consulted in rebuildImpl")
		}
	}
	// the spawn of writers is dominated by args.write and !WriteToStdout
	eachInstr(rb, func(b *ssa.BasicBlock, in ssa.Instruction) {
		g, ok := in.(*ssa.Go)
		if !ok {
			return
		}
		r.Instances++
		key := "rebuildImpl go " + FuncName(calleeOfGo(g))
		w, okw := fieldCondFact(b, "write")
		s, oks := fieldCondFact(b, "WriteToStdout")
		if okw && w && oks && !s {
			r.OK(key, true, "spawned only under args.write ∧ !WriteToStdout")
		} else {
			r.Fail(key, p.Pos(g.Pos()), "file operation goroutine not dominated by args.write ∧ !options.WriteToStdout")
		}
	})
	// stdout: the bytes printed to stdout are chosen only without errors
	eachInstr(rb, func(b *ssa.BasicBlock, in ssa.Instruction) {
		st, ok := in.(*ssa.Store)
		if !ok {
			return
		}
		if al, ok := st.Addr.(*ssa.Alloc); ok && al.Comment == "toWriteToStdout" {
			if c, isC := st.Val.(*ssa.Const); isC && c.Value == nil {
				return
			}
			r.Instances++
			if ok, why := knownNoErrors(b); ok {
				r.OK("rebuildImpl toWriteToStdout", true, why)
			} else {
				r.Fail("rebuildImpl toWriteToStdout", p.Pos(st.Pos()), "stdout output selected without a dominating no-errors check")
			}
		}
		// result.Metafile / result.OutputFiles / newHashes
		if fa, ok := st.Addr.(*ssa.FieldAddr); ok && namedTypeName(fa.X.Type()) == "pkg/api.BuildResult" {
			n := fieldAddrName(fa)
			if n == "Metafile" || n == "OutputFiles" {
				r.Instances++
				if ok, why := knownNoErrors(b); ok {
					r.OK("rebuildImpl result."+n, true, why)
				} else {
					r.Fail("rebuildImpl result."+n, p.Pos(st.Pos()), "result."+n+" is set without a dominating no-errors check (the CLI writes the metafile whenever it is non-empty)")
				}
			}
		}
	})
	// CLI writers: gated by their argument being non-empty / non-nil
	for _, spec := range []struct{ fn, what string }{{"pkg/cli.runImpl$1", "metafile"}, {"pkg/cli.runImpl$2", "mangle cache"}} {
		fn := p.FindFunc(spec.fn)
		if !r.Anchor(spec.fn, fn != nil) {
			continue
		}
		eachInstr(fn, func(b *ssa.BasicBlock, in ssa.Instruction) {
			c, ok := in.(ssa.CallInstruction)
			if !ok || calleeFullName(c) != "io/ioutil.WriteFile" {
				return
			}
			r.Instances++
			key := spec.fn + " WriteFile (" + spec.what + ")"
			gated := false
			for _, f := range factsAt(b) {
				if bo, ok := f.Cond.(*ssa.BinOp); ok && (bo.Op == token.EQL || bo.Op == token.NEQ) {
					if _, isParam := bo.X.(*ssa.Parameter); isParam {
						empty := (bo.Op == token.EQL) == f.True
						if !empty {
							gated = true
						}
					}
				}
			}
			if gated {
				r.OK(key, true, "written only when the build handed over a non-empty "+spec.what+" (which rebuildImpl sets only without errors)")
			} else {
				r.Fail(key, p.Pos(c.Pos()), "CLI writes the "+spec.what+" without checking that the build produced one")
			}
		})
	}
	r.Floor(8)
	return r
}

func calleeOfGo(g *ssa.Go) *ssa.Function {
	if c := g.Call.StaticCallee(); c != nil {
		return c
	}
	if mc, ok := g.Call.Value.(*ssa.MakeClosure); ok {
		f, _ := mc.Fn.(*ssa.Function)
		return f
	}
	return nil
}

func c17DeleteProvenance(p *Prog) *RuleResult {
	r := NewRule("C17/R3 delete-provenance", "os.Remove is only ever applied to keys of the previous build's own output table that are absent from the new build's table; that table is only assigned from rebuildImpl's result")
	rb := p.FindFunc("pkg/api.rebuildImpl")
	if !r.Anchor("pkg/api.rebuildImpl", rb != nil) {
		return r
	}
	c17After = nil
	eachInstr(rb, func(b *ssa.BasicBlock, in ssa.Instruction) {
		if c, ok := in.(*ssa.Call); ok && strings.HasSuffix(calleeFullName(c), "bundler.Bundle).Compile") {
			c17After = in
		}
	})
	var oldHashes *ssa.Parameter
	for _, prm := range rb.Params {
		if prm.Name() == "oldHashes" {
			oldHashes = prm
		}
	}
	if !r.Anchor("rebuildImpl parameter oldHashes", oldHashes != nil) {
		return r
	}
	// 1. os.Remove argument is the closure's own parameter
	for _, fn := range withClosures(rb) {
		eachInstr(fn, func(b *ssa.BasicBlock, in ssa.Instruction) {
			c, ok := in.(ssa.CallInstruction)
			if !ok || (calleeFullName(c) != "os.Remove" && calleeFullName(c) != "os.RemoveAll") {
				return
			}
			r.Instances++
			key := FuncName(fn) + " os.Remove argument"
			prm, isParam := c.Common().Args[0].(*ssa.Parameter)
			if !isParam || fn.Parent() != rb {
				r.Fail(key, p.Pos(c.Pos()), "os.Remove argument is not the deleting goroutine's own path parameter")
				return
			}
			// 2. at the go site the argument is an element of toDelete
			okSite := false
			eachInstr(rb, func(b2 *ssa.BasicBlock, in2 ssa.Instruction) {
				g, ok := in2.(*ssa.Go)
				if !ok || calleeOfGo(g) != fn {
					return
				}
				idx := -1
				for i, fp := range fn.Params {
					if fp == prm {
						idx = i
					}
				}
				if idx < 0 || idx >= len(g.Call.Args) {
					return
				}
				arg := g.Call.Args[idx]
				// element of the slice variable toDelete: *(&toDelete[i])
				src := ""
				if u, ok := arg.(*ssa.UnOp); ok && u.Op == token.MUL {
					if ia, ok := u.X.(*ssa.IndexAddr); ok {
						switch base := ia.X.(type) {
						case *ssa.Phi:
							src = base.Comment
						case *ssa.UnOp:
							if al, ok := base.X.(*ssa.Alloc); ok {
								src = al.Comment
							}
						}
					}
				}
				if src == "toDelete" {
					okSite = true
				}
			})
			if okSite {
				r.OK(key, true, "the goroutine's parameter is bound to an element of toDelete")
			} else {
				r.Fail(key, p.Pos(c.Pos()), "deleted path does not come from the toDelete list")
			}
		})
	}
	// 3. toDelete only receives range keys of oldHashes, under `_, ok := newHashes[k]; !ok`
	eachInstr(rb, func(b *ssa.BasicBlock, in ssa.Instruction) {
		c, ok := in.(*ssa.Call)
		if !ok {
			return
		}
		bi, ok := c.Call.Value.(*ssa.Builtin)
		if !ok || bi.Name() != "append" {
			return
		}
		// is this append stored into toDelete?
		into := false
		if refs := c.Referrers(); refs != nil {
			for _, rf := range *refs {
				if ph, ok := rf.(*ssa.Phi); ok && ph.Comment == "toDelete" {
					into = true
				}
				if st, ok := rf.(*ssa.Store); ok {
					if al, ok := st.Addr.(*ssa.Alloc); ok && al.Comment == "toDelete" {
						into = true
					}
				}
			}
		}
		if !into {
			return
		}
		r.Instances++
		key := "rebuildImpl toDelete element"
		fromOld := false
		if len(c.Call.Args) == 2 {
			// the appended element is exactly the range key of oldHashes (no arithmetic on it)
			elems := varargElems(c.Call.Args[1])
			fromOld = len(elems) > 0
			for _, e := range elems {
				ex, ok := e.(*ssa.Extract)
				if !ok || ex.Index != 1 {
					fromOld = false
					break
				}
				nx, ok := ex.Tuple.(*ssa.Next)
				if !ok {
					fromOld = false
					break
				}
				if rg, ok := nx.Iter.(*ssa.Range); !ok || boolDef(rg.X) != ssa.Value(oldHashes) {
					fromOld = false
				}
			}
		}
		absent := false
		for _, f := range factsAt(b) {
			if ex, ok := f.Cond.(*ssa.Extract); ok && ex.Index == 1 && !f.True {
				if lk, ok := ex.Tuple.(*ssa.Lookup); ok {
					if al := boolDef(lk.X); al != nil {
						_ = al
					}
					absent = true
				}
			}
		}
		if fromOld && absent {
			r.OK(key, true, "a key of oldHashes that is absent from newHashes")
		} else {
			r.Fail(key, p.Pos(c.Pos()), "toDelete receives a path that is not (a key of oldHashes absent from newHashes)")
		}
	})
	// 4. every caller passes ctx.latestHashes (or nil), and latestHashes is assigned only from rebuildImpl's result
	for _, e := range p.CallGraph().Nodes[rb].In {
		if e.Site == nil {
			continue
		}
		r.Instances++
		idx := -1
		for i, prm := range rb.Params {
			if prm == oldHashes {
				idx = i
			}
		}
		arg := e.Site.Common().Args[idx]
		key := FuncName(e.Caller.Func) + " rebuildImpl(oldHashes)"
		if c, ok := arg.(*ssa.Const); ok && c.Value == nil {
			r.OK(key, true, "nil: a one-shot build deletes nothing")
			continue
		}
		ok := false
		backSlice(arg, func(v ssa.Value) bool {
			if _, n, isF := loadedField(v); isF && n == "latestHashes" {
				ok = true
				return false
			}
			return true
		})
		if ok {
			r.OK(key, true, "the context's own latestHashes")
		} else {
			r.Fail(key, p.Pos(e.Site.Pos()), "rebuildImpl is given an oldHashes table that is not the context's latestHashes")
		}
	}
	// stores to latestHashes
	for _, fn := range p.ModuleFuncs() {
		eachInstr(fn, func(b *ssa.BasicBlock, in ssa.Instruction) {
			st, ok := in.(*ssa.Store)
			if !ok {
				return
			}
			fa, ok := st.Addr.(*ssa.FieldAddr)
			if !ok || fieldAddrName(fa) != "latestHashes" {
				return
			}
			r.Instances++
			key := FuncName(fn) + " store latestHashes"
			fromRebuild := false
			backSlice(st.Val, func(v ssa.Value) bool {
				if c, ok := v.(*ssa.Call); ok {
					if strings.HasSuffix(calleeFullName(c), "pkg/api.rebuildImpl") {
						fromRebuild = true
					}
					// rebuildImpl is called through a closure returning its state: accept a
					// result struct field named latestHashes too
				}
				if _, n, isF := loadedField(v); isF && (n == "latestHashes" || n == "newHashes") {
					fromRebuild = true
				}
				return true
			})
			if fromRebuild {
				r.OK(key, true, "assigned from rebuildImpl's returned hash table")
			} else {
				r.Fail(key, p.Pos(st.Pos()), "latestHashes assigned from something other than rebuildImpl's result")
			}
		})
	}
	// 5. newHashes entries only under no errors
	eachInstr(rb, func(b *ssa.BasicBlock, in ssa.Instruction) {
		mu, ok := in.(*ssa.MapUpdate)
		if !ok {
			return
		}
		name := ""
		if u, ok := mu.Map.(*ssa.UnOp); ok {
			if al, ok := u.X.(*ssa.Alloc); ok {
				name = al.Comment
			}
		}
		if name != "newHashes" {
			return
		}
		r.Instances++
		if ok, why := knownNoErrors(b); ok {
			r.OK("rebuildImpl newHashes entry", true, why)
		} else {
			r.Fail("rebuildImpl newHashes entry", p.Pos(mu.Pos()), "an output is recorded as written although the build may have errors")
		}
	})
	r.Floor(5)
	return r
}

func c17OverwriteCheck(p *Prog) *RuleResult {
	r := NewRule("C17/R4 overwrite-check", "Compile compares every output path with every input path (same canonicalisation on both sides) on every path that returns outputs unless AllowOverwrite/WriteToStdout; AllowOverwrite is forced on only when not writing")
	cf := p.FindFunc("bundler.(*Bundle).Compile")
	if !r.Anchor("bundler.(*Bundle).Compile", cf != nil) {
		return r
	}
	canon := modPath + "/internal/bundler.canonicalFileSystemPathForWindows"
	var gateAllow, gateStdout *ssa.BasicBlock
	var refuse ssa.Instruction
	eachInstr(cf, func(b *ssa.BasicBlock, in ssa.Instruction) {
		if ifi, ok := in.(*ssa.If); ok {
			c := ifi.Cond
			for {
				if u, ok := c.(*ssa.UnOp); ok && u.Op == token.NOT {
					c = u.X
					continue
				}
				break
			}
			if _, n, ok := loadedField(c); ok {
				if n == "AllowOverwrite" {
					gateAllow = b
				}
				if n == "WriteToStdout" && gateStdout == nil {
					gateStdout = b
				}
			}
		}
		if c, ok := in.(*ssa.Call); ok {
			if strings.HasSuffix(calleeFullName(c), "logger.Log).AddError") {
				for _, a := range c.Call.Args {
					backSlice(a, func(v ssa.Value) bool {
						if s, ok := constString(v); ok && strings.HasPrefix(s, "Refusing to overwrite input file") {
							refuse = in
						}
						return true
					})
				}
			}
		}
	})
	if !r.Anchor("Compile: AllowOverwrite test", gateAllow != nil) || !r.Anchor("Compile: WriteToStdout test", gateStdout != nil) || !r.Anchor("Compile: 'Refusing to overwrite input file' error", refuse != nil) {
		return r
	}
	// every path from the not-stdout successor to a return passes the AllowOverwrite test
	r.Instances++
	var notStdout *ssa.BasicBlock
	{
		ifi := gateStdout.Instrs[len(gateStdout.Instrs)-1].(*ssa.If)
		pol := true
		c := ifi.Cond
		for {
			if u, ok := c.(*ssa.UnOp); ok && u.Op == token.NOT {
				c = u.X
				pol = !pol
				continue
			}
			break
		}
		if pol {
			notStdout = gateStdout.Succs[1]
		} else {
			notStdout = gateStdout.Succs[0]
		}
	}
	// the map consulted by the refuse check; its creation marks "the check is being performed"
	var checkMap ssa.Value
	for _, f := range factsAt(refuse.Block()) {
		if ex, ok := f.Cond.(*ssa.Extract); ok && ex.Index == 1 && f.True {
			if lk, ok := ex.Tuple.(*ssa.Lookup); ok {
				checkMap = lk.X
			}
		}
	}
	mm, _ := checkMap.(*ssa.MakeMap)
	if mm == nil {
		r.Fail("Compile input-collision check on every path", p.Pos(cf.Pos()), "the input-path map consulted by the overwrite check was not found")
	} else {
		allowIf := gateAllow.Instrs[len(gateAllow.Instrs)-1].(*ssa.If)
		allowTrueEdge := 0
		{
			c := allowIf.Cond
			for {
				if u, ok := c.(*ssa.UnOp); ok && u.Op == token.NOT {
					c = u.X
					allowTrueEdge = 1 - allowTrueEdge
					continue
				}
				break
			}
		}
		path, bad := reachesExitAvoidingEdges(notStdout, isReturnBlock,
			func(b *ssa.BasicBlock) bool { return b == mm.Block() },
			func(b *ssa.BasicBlock, si int) bool { return b == gateAllow && si == allowTrueEdge })
		if bad {
			r.Fail("Compile input-collision check on every path", p.Pos(cf.Pos()), "outputs can be returned for writing without the input-collision check although AllowOverwrite is off: "+blockPath(path))
		} else {
			r.OK("Compile input-collision check on every path", true, "every non-stdout path to a return builds the input-path map and runs the check, unless it leaves through AllowOverwrite == true")
		}
	}
	// returns that do not pass the stdout gate return no files
	for _, b := range cf.Blocks {
		if !isReturnBlock(b) || gateStdout.Dominates(b) || b == cf.Recover {
			continue
		}
		r.Instances++
		ret := b.Instrs[len(b.Instrs)-1].(*ssa.Return)
		if c, ok := returnedValue(ret, 0).(*ssa.Const); ok && c.Value == nil {
			r.OK("Compile early return", true, "returns no output files")
		} else {
			r.Fail("Compile early return", p.Pos(ret.Pos()), "returns output files without running the collision checks")
		}
	}
	// the error is raised under !AllowOverwrite and a successful lookup whose map keys and lookup key
	// are both canonicalised by the same function
	r.Instances++
	{
		b := refuse.Block()
		allowFalse, found := fieldCondFact(b, "AllowOverwrite")
		lookupOK := false
		sameCanon := false
		for _, f := range factsAt(b) {
			if ex, ok := f.Cond.(*ssa.Extract); ok && ex.Index == 1 && f.True {
				if lk, ok := ex.Tuple.(*ssa.Lookup); ok {
					lookupOK = true
					keyCanon := false
					if c, ok := lk.Index.(*ssa.Call); ok && calleeFullName(c) == canon {
						keyCanon = true
					}
					// the map's updates
					insCanon := false
					eachInstr(cf, func(_ *ssa.BasicBlock, in ssa.Instruction) {
						if mu, ok := in.(*ssa.MapUpdate); ok && mu.Map == lk.X {
							if c, ok := mu.Key.(*ssa.Call); ok && calleeFullName(c) == canon {
								insCanon = true
							}
						}
					})
					sameCanon = keyCanon && insCanon
				}
			}
		}
		if found && !allowFalse && lookupOK && sameCanon {
			r.OK("Compile refuse-overwrite condition", true, "raised under !AllowOverwrite when the canonicalised output path is a key of the canonicalised input-path map")
		} else {
			r.Fail("Compile refuse-overwrite condition", p.Pos(refuse.Pos()), "the overwrite error is not raised under (!AllowOverwrite ∧ canonical(output) ∈ canonical(inputs))")
		}
	}
	// every input of the "file" namespace is remembered: the insert into the input-path map sits
	// under nothing but the two option gates, the loop over the reachable files and the namespace
	// test. Any further condition is a filter, and an output can then land on an input the check no
	// longer knows (name templates may contain "../", so outputs are not confined to the out dir).
	if mm != nil {
		eachInstr(cf, func(b *ssa.BasicBlock, in ssa.Instruction) {
			mu, ok := in.(*ssa.MapUpdate)
			if !ok || mu.Map != ssa.Value(mm) {
				return
			}
			r.Instances++
			key := "Compile remembers every input path"
			var extra []string
			for _, f := range factsAt(b) {
				c := f.Cond
				if _, n, ok := loadedField(c); ok && (n == "AllowOverwrite" || n == "WriteToStdout") {
					continue
				}
				// conditions decided before the stdout gate select whether Compile gets here at all
				// (early returns); only what lies between the gate and the insert can filter inputs
				if ci, ok := c.(ssa.Instruction); ok && ci.Block() != nil && !gateStdout.Dominates(ci.Block()) {
					continue
				}
				if bo, ok := c.(*ssa.BinOp); ok {
					// the range loop's own bound test
					if ph, ok := bo.X.(*ssa.BinOp); ok && bo.Op == token.LSS && ph.Op == token.ADD {
						if q, ok := ph.X.(*ssa.Phi); ok && q.Comment == "rangeindex" {
							continue
						}
					}
					if bo.Op == token.EQL || bo.Op == token.NEQ {
						var other ssa.Value
						if sv, ok := constString(bo.Y); ok && sv == "file" {
							other = bo.X
						} else if sv, ok := constString(bo.X); ok && sv == "file" {
							other = bo.Y
						}
						if other != nil && f.True == (bo.Op == token.EQL) {
							if _, path := purePath(other); len(path) > 0 && path[len(path)-1] == "Namespace" {
								continue
							}
						}
					}
				}
				extra = append(extra, p.Pos(c.Pos())+" "+c.String())
			}
			if len(extra) == 0 {
				r.OK(key, true, "the insert is conditional only on the option gates, the loop over reachable files and Namespace == \"file\"")
			} else {
				r.Fail(key, p.Pos(mu.Pos()), "an input path is recorded for the overwrite check only under a further condition ("+strings.Join(extra, "; ")+"): inputs failing it can be overwritten without an error")
			}
		})
	}
	// AllowOverwrite forced on only when not writing
	for _, fn := range p.ModuleFuncs() {
		eachInstr(fn, func(b *ssa.BasicBlock, in ssa.Instruction) {
			st, ok := in.(*ssa.Store)
			if !ok {
				return
			}
			fa, ok := st.Addr.(*ssa.FieldAddr)
			if !ok || fieldAddrName(fa) != "AllowOverwrite" || namedTypeName(fa.X.Type()) != "config.Options" {
				return
			}
			r.Instances++
			key := FuncName(fn) + " store Options.AllowOverwrite"
			if c, ok := st.Val.(*ssa.Const); ok {
				if c.Value != nil && c.Value.String() == "true" {
					w, okw := fieldCondFact(b, "Write")
					if okw && !w {
						r.OK(key+" = true", true, "forced on only under !buildOpts.Write")
					} else {
						r.Fail(key+" = true", p.Pos(st.Pos()), "AllowOverwrite is forced on while the build may write files")
					}
				} else {
					r.OK(key+" = false", false, "")
				}
				return
			}
			// from the user's option
			user := false
			backSlice(st.Val, func(v ssa.Value) bool {
				if _, n, ok := loadedField(v); ok && n == "AllowOverwrite" {
					user = true
				}
				return true
			})
			if user {
				r.OK(key+" = user option", true, "copied from the user's AllowOverwrite")
			} else {
				r.Fail(key, p.Pos(st.Pos()), "AllowOverwrite set from something other than the user's option")
			}
		})
	}
	_ = types.Typ
	r.Floor(6)
	return r
}

// returnedValue resolves result i of a return: when results are spilled to a local cell (functions
// with defer), the value is the one stored to that cell by the return's predecessors.
func returnedValue(ret *ssa.Return, i int) ssa.Value {
	v := ret.Results[i]
	u, ok := v.(*ssa.UnOp)
	if !ok || u.Op != token.MUL {
		return v
	}
	al, ok := u.X.(*ssa.Alloc)
	if !ok {
		return v
	}
	// search backwards from the return through single-predecessor chains for the last store
	b := ret.Block()
	for steps := 0; steps < 8 && b != nil; steps++ {
		for j := len(b.Instrs) - 1; j >= 0; j-- {
			if st, ok := b.Instrs[j].(*ssa.Store); ok && st.Addr == al {
				return st.Val
			}
		}
		if len(b.Preds) != 1 {
			break
		}
		b = b.Preds[0]
	}
	return v
}

// varargElems returns the values stored into the varargs array behind a `slice t[:]` argument.
func varargElems(v ssa.Value) []ssa.Value {
	sl, ok := v.(*ssa.Slice)
	if !ok {
		return nil
	}
	al, ok := sl.X.(*ssa.Alloc)
	if !ok || al.Referrers() == nil {
		return nil
	}
	var out []ssa.Value
	for _, rf := range *al.Referrers() {
		if ia, ok := rf.(*ssa.IndexAddr); ok && ia.Referrers() != nil {
			for _, rr := range *ia.Referrers() {
				if st, ok := rr.(*ssa.Store); ok && st.Addr == ia {
					out = append(out, st.Val)
				}
			}
		}
	}
	return out
}

// canRunBefore: can instruction a execute and instruction b execute later (b reachable from a)?
func canRunBefore(a, b ssa.Instruction) bool {
	if a.Block() == b.Block() {
		if instrIndex(a.Block(), a) < instrIndex(b.Block(), b) {
			return true
		}
	}
	target := b.Block()
	seen := map[*ssa.BasicBlock]bool{}
	work := append([]*ssa.BasicBlock{}, a.Block().Succs...)
	for len(work) > 0 {
		x := work[len(work)-1]
		work = work[:len(work)-1]
		if seen[x] {
			continue
		}
		seen[x] = true
		if x == target {
			return true
		}
		work = append(work, x.Succs...)
	}
	return false
}

// C17/R5 options are read after the plugins ran.
//
// Plugins may change build.InitialOptions in their setup callback (loadPlugins passes &buildOpts).
// Everything the context keeps from the options must therefore be read after loadPlugins returned:
// a value captured before — `write` in particular — can disagree with what validateBuildOptions
// saw afterwards (a plugin that sets Write = false makes validation force AllowOverwrite on and
// skip the input/output collision check, while a stale write = true still writes every file).
// Rule: in contextImpl, every load of a BuildOptions field whose value is stored into a rebuildArgs
// field is dominated by the call of loadPlugins.
var c17EarlyOptionReads = ExcTable{
	"contextImpl rebuildArgs.absWorkingDir from BuildOptions.AbsWorkingDir": "the working directory is fixed before the plugins run on purpose (the file system and the plugins are created with it); contextImpl panics ('Mutating \"AbsWorkingDir\" is not allowed') if a plugin changed it",
}

func c17OptionsAfterPlugins(p *Prog) *RuleResult {
	r := NewRule("C17/R5 options-after-plugins", "every build option the context keeps (write, mangle cache, …) is read from the options after the plugins' setup callbacks had the chance to change them")
	fn := p.FindFunc("pkg/api.contextImpl")
	if !r.Anchor("pkg/api.contextImpl", fn != nil) {
		return r
	}
	var lp *ssa.Call
	eachInstr(fn, func(b *ssa.BasicBlock, in ssa.Instruction) {
		if c, ok := in.(*ssa.Call); ok && strings.HasSuffix(FuncNameOf(c), "pkg/api.loadPlugins") {
			lp = c
		}
	})
	if !r.Anchor("contextImpl: call of loadPlugins", lp != nil) {
		return r
	}
	n := 0
	eachInstr(fn, func(b *ssa.BasicBlock, in ssa.Instruction) {
		st, ok := in.(*ssa.Store)
		if !ok {
			return
		}
		fa, ok := st.Addr.(*ssa.FieldAddr)
		if !ok || namedTypeName(fa.X.Type()) != "pkg/api.rebuildArgs" {
			return
		}
		// a direct copy of a BuildOptions field (values computed from the options before the plugins
		// ran — log options, the working directory, which plugins may not change — are not copies)
		val := st.Val
		for {
			if cv, ok := val.(*ssa.Convert); ok {
				val = cv.X
				continue
			}
			if cv, ok := val.(*ssa.ChangeType); ok {
				val = cv.X
				continue
			}
			break
		}
		func(v ssa.Value) bool {
			u, ok := v.(*ssa.UnOp)
			if !ok || u.Op != token.MUL {
				return true
			}
			src, ok := u.X.(*ssa.FieldAddr)
			if !ok || namedTypeName(src.X.Type()) != "pkg/api.BuildOptions" {
				return true
			}
			n++
			r.Instances++
			key := "contextImpl rebuildArgs." + fieldAddrName(fa) + " from BuildOptions." + fieldAddrName(src)
			after := false
			if u.Block() == lp.Block() {
				for _, x := range u.Block().Instrs {
					if x == ssa.Instruction(lp) {
						after = true
					}
					if x == ssa.Instruction(u) {
						break
					}
				}
			} else {
				after = lp.Block().Dominates(u.Block())
			}
			if after {
				r.OK(key, true, "read after loadPlugins returned")
			} else if r.CheckExc(c17EarlyOptionReads, key) {
			} else {
				r.Fail(key, p.Pos(u.Pos()), "BuildOptions."+fieldAddrName(src)+" is read before the plugins' setup callbacks ran (loadPlugins may change it through build.InitialOptions): the context keeps a value that disagrees with the validated options — for Write, validation forces AllowOverwrite on for Write=false and skips the overwrite check while the stale write=true still writes the files")
			}
			return false
		}(val)
	})
	r.Anchor("rebuildArgs fields read from BuildOptions", n >= 2)
	r.StaleCheck(c17EarlyOptionReads)
	return r
}
