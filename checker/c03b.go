package main

import (
	"fmt"
	"go/token"
	"sort"
	"strings"

	"golang.org/x/tools/go/ssa"
)

// C03/R3 primitive-type transfer.
//
// js_ast.KnownPrimitiveType is the licence for several minify-syntax rewrites (=== to ==,
// Number(x) to x, dropping ToString of template parts, comparing with typeof results, removing
// relational operators). It is an abstract interpreter over the lattice
// {Unknown ⊒ Mixed ⊒ Null, Undefined, Boolean, Number, String, BigInt}. The rewrites are sound only
// if its answer over-approximates the set of types the expression can have at run time.
// Because the function touches its inputs only through type tests, operator comparisons and
// comparisons of recursive answers with constants, its whole behaviour is a finite table, which
// E-ENUM (enumeval.go) extracts from the SSA form. Every row is compared with the type transfer
// function of the ECMAScript operator (ToPrimitive / ToNumeric / string concatenation rules,
// ECMA-262 §13.5, §13.15, §7.1). Only soundness is required (the answer may be less precise).

const (
	jtNull = 1 << iota
	jtUndef
	jtBool
	jtNum
	jtStr
	jtBig
	jtSym
	jtObj
	jtAllPrim = jtNull | jtUndef | jtBool | jtNum | jtStr | jtBig | jtSym
	jtAll     = jtAllPrim | jtObj
)

func jtString(set int) string {
	names := []string{"null", "undefined", "boolean", "number", "string", "bigint", "symbol", "object"}
	var out []string
	for i, n := range names {
		if set&(1<<i) != 0 {
			out = append(out, n)
		}
	}
	if len(out) == 0 {
		return "{} (always throws)"
	}
	return "{" + strings.Join(out, ",") + "}"
}

func jtBits(set int) []int {
	var out []int
	for i := 0; i < 8; i++ {
		if set&(1<<i) != 0 {
			out = append(out, 1<<i)
		}
	}
	return out
}

func jtToPrimitive(t int) int {
	if t == jtObj {
		return jtAllPrim
	}
	return t
}

// jtToNumeric: result types of ToNumeric on a value of concrete type t (empty = throws)
func jtToNumeric(t int) int {
	switch t {
	case jtBig:
		return jtBig
	case jtSym:
		return 0
	case jtObj:
		return jtNum | jtBig
	}
	return jtNum
}

func jtArith(x, y int, bigOK bool) int {
	out := 0
	for _, a := range jtBits(x) {
		for _, b := range jtBits(y) {
			na, nb := jtToNumeric(a), jtToNumeric(b)
			if na&jtNum != 0 && nb&jtNum != 0 {
				out |= jtNum
			}
			if bigOK && na&jtBig != 0 && nb&jtBig != 0 {
				out |= jtBig
			}
		}
	}
	return out
}

func jtAdd(x, y int) int {
	out := 0
	for _, a := range jtBits(x) {
		for _, b := range jtBits(y) {
			for _, pa := range jtBits(jtToPrimitive(a)) {
				for _, pb := range jtBits(jtToPrimitive(b)) {
					if pa == jtStr || pb == jtStr {
						out |= jtStr
						continue
					}
					out |= jtArith(pa, pb, true)
				}
			}
		}
	}
	return out
}

var c03CompareOps = map[string]bool{"BinOpStrictEq": true, "BinOpStrictNe": true, "BinOpLooseEq": true, "BinOpLooseNe": true, "BinOpLt": true, "BinOpGt": true, "BinOpLe": true, "BinOpGe": true, "BinOpInstanceof": true, "BinOpIn": true}
var c03ArithOps = map[string]bool{"BinOpSub": true, "BinOpMul": true, "BinOpDiv": true, "BinOpRem": true, "BinOpPow": true, "BinOpBitwiseAnd": true, "BinOpBitwiseOr": true, "BinOpBitwiseXor": true, "BinOpShl": true, "BinOpShr": true}

// c03TypeSem: the set of run-time types of an expression of this kind/operator whose operands
// have the given run-time type sets. ok=false: no reference semantics for this kind.
func c03TypeSem(kind, op string, labels []string, in map[string]int) (int, bool) {
	has := func(l string) bool {
		for _, x := range labels {
			if x == l {
				return true
			}
		}
		return false
	}
	switch kind {
	case "":
		return jtAll, true
	case "ENull":
		return jtNull, true
	case "EUndefined":
		return jtUndef, true
	case "EBoolean":
		return jtBool, true
	case "ENumber":
		return jtNum, true
	case "EString":
		return jtStr, true
	case "EBigInt":
		return jtBig, true
	case "ETemplate":
		if has("TagOrNil==nil") {
			return jtStr, true
		}
		return jtAll, true
	case "EAnnotation", "EInlinedEnum":
		return in["Value"], true
	case "EIf":
		return in["Yes"] | in["No"], true
	case "EUnary":
		v := in["Value"]
		switch op {
		case "":
			return jtAll, true
		case "UnOpVoid":
			return jtUndef, true
		case "UnOpTypeof":
			return jtStr, true
		case "UnOpNot", "UnOpDelete":
			return jtBool, true
		case "UnOpPos":
			return jtNum, true
		case "UnOpNeg", "UnOpCpl", "UnOpPreDec", "UnOpPreInc", "UnOpPostDec", "UnOpPostInc":
			out := 0
			for _, a := range jtBits(v) {
				out |= jtToNumeric(a)
			}
			return out, true
		}
		return 0, false
	case "EBinary":
		l, r := in["Left"], in["Right"]
		base := strings.TrimSuffix(op, "Assign")
		isAssignForm := strings.HasSuffix(op, "Assign") && op != "BinOpAssign"
		if isAssignForm {
			l = jtAll // the target's current value is not described by the type of the reference expression
		}
		switch {
		case op == "":
			return jtAll, true
		case c03CompareOps[op]:
			return jtBool, true
		case base == "BinOpLogicalOr" || base == "BinOpLogicalAnd":
			return l | r, true
		case base == "BinOpNullishCoalescing":
			out := l &^ (jtNull | jtUndef)
			if l&(jtNull|jtUndef) != 0 {
				out |= r
			}
			return out, true
		case base == "BinOpAdd":
			return jtAdd(l, r), true
		case c03ArithOps[base]:
			return jtArith(l, r, true), true
		case base == "BinOpUShr":
			return jtArith(l, r, false), true
		case op == "BinOpAssign" || op == "BinOpComma":
			return r, true
		}
		return 0, false
	}
	return 0, false
}

func c03PrimitiveTransfer(p *Prog) *RuleResult {
	r := NewRule("C03/R3 primitive-type-transfer", "every row of KnownPrimitiveType's finite behaviour table (node kind × operator × operand answers) over-approximates the ECMAScript type-transfer function of that operator; CanChangeStrictToLoose answers true only for two equal single primitive types")
	pk := p.ByPath[modPath+"/internal/js_ast"]
	if !r.Anchor("package js_ast", pk != nil) {
		return r
	}
	prim := constsOfType(pk.Types, "PrimitiveType")
	opc := constsOfType(pk.Types, "OpCode")
	need := []string{"PrimitiveUnknown", "PrimitiveMixed", "PrimitiveNull", "PrimitiveUndefined", "PrimitiveBoolean", "PrimitiveNumber", "PrimitiveString", "PrimitiveBigInt"}
	gammaOf := map[int64]int{}
	nameOf := map[int64]string{}
	bits := []int{jtAll, jtAllPrim, jtNull, jtUndef, jtBool, jtNum, jtStr, jtBig}
	var domain []int64
	for i, n := range need {
		v, ok := prim[n]
		if !r.Anchor("constant js_ast."+n, ok) {
			return r
		}
		gammaOf[v] = bits[i]
		nameOf[v] = strings.TrimPrefix(n, "Primitive")
		domain = append(domain, v)
	}
	if !r.Anchor("PrimitiveType has exactly the eight known values", len(prim) == len(need)) {
		return r
	}
	opNames := map[int64]string{}
	for n, v := range opc {
		if strings.HasPrefix(n, "UnOp") || strings.HasPrefix(n, "BinOp") {
			opNames[v] = n
		}
	}
	kpt := p.FindFunc("js_ast.KnownPrimitiveType")
	merged := p.FindFunc("js_ast.MergedKnownPrimitiveTypes")
	strict := p.FindFunc("js_ast.CanChangeStrictToLoose")
	if !r.Anchor("js_ast.KnownPrimitiveType", kpt != nil) || !r.Anchor("js_ast.MergedKnownPrimitiveTypes", merged != nil) || !r.Anchor("js_ast.CanChangeStrictToLoose", strict != nil) {
		return r
	}
	var mergedOut []enumOutcome
	mergedDone := false
	var mergedProblems []string
	mergedTable := func() []enumOutcome {
		if !mergedDone {
			mergedDone = true
			cfg := &enumCfg{recursive: map[string]bool{"js_ast.KnownPrimitiveType": true}, domain: domain, opConsts: opNames, opField: "Op"}
			mergedOut, mergedProblems = enumEvaluate(p, merged, cfg)
		}
		return mergedOut
	}
	cfg := &enumCfg{
		recursive: map[string]bool{"js_ast.KnownPrimitiveType": true},
		inlined:   map[string]func() []enumOutcome{"js_ast.MergedKnownPrimitiveTypes": mergedTable},
		domain:    domain, opConsts: opNames, opField: "Op",
	}
	outs, problems := enumEvaluate(p, kpt, cfg)
	strictOuts, strictProblems := enumEvaluate(p, strict, cfg)
	mergedTable()
	for _, pr := range append(append(problems, mergedProblems...), strictProblems...) {
		r.Instances++
		r.Fail("undecidable: "+pr, "", "the classifier is no longer a finite table over type tests and enum comparisons at "+pr+"; its soundness cannot be decided by this rule")
	}

	rolesFor := map[string][]string{"EUnary": {"Value"}, "EBinary": {"Left", "Right"}, "EIf": {"Yes", "No"}, "EAnnotation": {"Value"}, "EInlinedEnum": {"Value"}}
	type rowKey struct{ kind, op, labels string }
	rows := map[rowKey][]enumOutcome{}
	for _, o := range outs {
		k := rowKey{o.kind, o.op, strings.Join(o.labels, ",")}
		rows[k] = append(rows[k], o)
	}
	var keys []rowKey
	for k := range rows {
		keys = append(keys, k)
	}
	sort.Slice(keys, func(i, j int) bool {
		return keys[i].kind+"|"+keys[i].op+"|"+keys[i].labels < keys[j].kind+"|"+keys[j].op+"|"+keys[j].labels
	})
	// expand the operand roles an outcome did not consult over the whole domain
	var expand func(roles []string, have map[string]int64, f func(map[string]int))
	expand = func(roles []string, have map[string]int64, f func(map[string]int)) {
		cur := map[string]int{}
		var rec func(i int)
		rec = func(i int) {
			if i == len(roles) {
				f(cur)
				return
			}
			if v, ok := have[roles[i]]; ok {
				cur[roles[i]] = gammaOf[v]
				rec(i + 1)
				return
			}
			for _, dv := range domain {
				cur[roles[i]] = gammaOf[dv]
				rec(i + 1)
			}
		}
		rec(0)
	}
	for _, k := range keys {
		r.Instances++
		name := "KnownPrimitiveType " + k.kind
		if k.kind == "" {
			name = "KnownPrimitiveType (any other kind)"
		}
		if k.op != "" {
			name += " " + k.op
		} else if k.kind == "EUnary" || k.kind == "EBinary" {
			name += " (any other operator)"
		}
		if k.labels != "" {
			name += " [" + k.labels + "]"
		}
		bad := ""
		badPos := ""
		noRef := false
		combos := 0
		for _, o := range rows[k] {
			expand(rolesFor[o.kind], o.roles, func(in map[string]int) {
				combos++
				S, ok := c03TypeSem(o.kind, o.op, o.labels, in)
				if !ok {
					if gammaOf[o.result] != jtAll {
						noRef = true
						badPos = p.Pos(o.pos)
					}
					return
				}
				if S&^gammaOf[o.result] != 0 && bad == "" {
					var ins []string
					for _, rn := range rolesFor[o.kind] {
						ins = append(ins, rn+" ∈ "+jtString(in[rn]))
					}
					bad = fmt.Sprintf("answers %s when %s, but the expression can then be %s", nameOf[o.result], strings.Join(ins, " and "), jtString(S))
					badPos = p.Pos(o.pos)
				}
			})
		}
		switch {
		case noRef:
			r.Fail(name, badPos, "KnownPrimitiveType gives a definite answer for a kind/operator that has no entry in the reference type-transfer table; add its ECMAScript semantics to the checker before trusting it")
		case bad != "":
			r.Fail(name, badPos, "unsound type answer: "+bad+" (rewrites such as === to ==, Number(x) to x and removal of relational operators trust this answer)")
		default:
			r.OK(name, k.kind != "", fmt.Sprintf("%d operand-type combinations, each answer ⊒ the ECMAScript result types", combos))
		}
	}
	// MergedKnownPrimitiveTypes on its own
	r.Instances++
	{
		bad := ""
		for _, o := range mergedOut {
			expand([]string{"param0", "param1"}, o.roles, func(in map[string]int) {
				S := in["param0"] | in["param1"]
				if S&^gammaOf[o.result] != 0 && bad == "" {
					bad = fmt.Sprintf("answers %s for operands %s / %s", nameOf[o.result], jtString(in["param0"]), jtString(in["param1"]))
				}
			})
		}
		if bad != "" {
			r.Fail("MergedKnownPrimitiveTypes", p.Pos(merged.Pos()), "unsound join: "+bad)
		} else {
			r.OK("MergedKnownPrimitiveTypes", true, fmt.Sprintf("%d rows, each answer ⊒ the union of the operand types", len(mergedOut)))
		}
	}
	// CanChangeStrictToLoose
	r.Instances++
	{
		bad := ""
		trueRows := 0
		for _, o := range strictOuts {
			if !o.isBool {
				bad = "does not return a boolean"
				break
			}
			if o.result == 0 {
				continue
			}
			trueRows++
			expand([]string{"param0", "param1"}, o.roles, func(in map[string]int) {
				a, b := in["param0"], in["param1"]
				single := func(x int) bool { return x != 0 && x&(x-1) == 0 }
				if !(single(a) && a == b) && bad == "" {
					bad = fmt.Sprintf("answers true for operands of types %s and %s, for which == and === can differ", jtString(a), jtString(b))
				}
			})
		}
		switch {
		case bad != "":
			r.Fail("CanChangeStrictToLoose", p.Pos(strict.Pos()), bad)
		case trueRows == 0:
			r.Fail("CanChangeStrictToLoose", p.Pos(strict.Pos()), "no row answers true: the table extraction went blind")
		default:
			r.OK("CanChangeStrictToLoose", true, fmt.Sprintf("%d rows answer true, all for two equal single primitive types", trueRows))
		}
	}
	r.Floor(50)
	return r
}

// C03/R4 unused-expression operand coverage.
//
// SimplifyUnusedExpr rewrites an expression whose value is unused into one that keeps only its
// side effects. Whatever it returns, every child of the node that is evaluated with it must have
// been taken into account: passed to a recursive simplification, joined into the result, kept in a
// rebuilt node, type-tested to a kind without effects — or the original expression is returned
// unchanged. A child that is not even read on some path to a return has been dropped together with
// its side effects. Same engine as C04/R2 in "use coverage" mode (c04b.go).
var c03SimplifyEscapes = map[string]c04Escape{
	"EAnnotation.Value":         {"has:Flags:CanBeRemovedIfUnusedFlag", "dropped only under the CanBeRemovedIfUnused flag that the parser sets after judging the annotated value"},
	"EDot.Target":               {"flag:CanBeRemovedIfUnused", "dropped only when the parser classified the property read as side-effect free"},
	"ECall.Target":              {"flag:CanBeUnwrappedIfUnused", "a /* @__PURE__ */ call: the annotation tells esbuild to ignore the target (documented)"},
	"ENew.Target":               {"flag:CanBeUnwrappedIfUnused", "a /* @__PURE__ */ construction: the annotation tells esbuild to ignore the target (documented)"},
	"ETemplate.TagOrNil":        {"flag:CanBeUnwrappedIfUnused", "a tagged template marked pure: the tag is ignored as for ECall"},
	"Property.Key":              {"", "computed keys are kept (ToString via `key + ''`), other keys are not evaluated code"},
	"Property.ClassStaticBlock": {"", "object literal properties are never static blocks"},
	"Property.Decorators":       {"", "object literal properties cannot carry decorators"},
	"Property.InitializerOrNil": {"", "only exists in destructuring patterns, which are assignment targets and never simplified as unused values"},
	"EFunction.Fn":              {"", "an immediately-invoked function is only deleted when its body has no statements (len tests); otherwise creating a closure evaluates nothing"},
	"EArrow.Args":               {"", "an immediately-invoked arrow is only unwrapped when it has no parameters (len test)"},
	"EArrow.Body":               {"", "creating a closure evaluates nothing; an immediately-invoked arrow is only unwrapped to its single statement's expression (which is returned) or deleted when the body is empty"},
	"ESpread.Value":             {"", "a spread element is never dropped: an array containing one is rebuilt from all items, and simplifying the spread element itself returns it unchanged"},
}

func c03UnusedOperandCoverage(p *Prog) *RuleResult {
	return runCoverage(p, covConfig{
		rule:   "C03/R4 unused-operand-coverage",
		doc:    "SimplifyUnusedExpr returns something other than the original expression only on paths where every evaluated child of the node was passed on (simplified recursively, joined into the result, kept in a rebuilt node) or type-tested away",
		funcs:  []string{"js_ast.(HelperContext).SimplifyUnusedExpr"},
		judges: map[string][]int{}, escapes: c03SimplifyEscapes, variants: map[string]c04Variant{}, useMode: true, floor: 20,
	})
}

// C03/R5 liveness class.
//
// Dead-case elimination for `switch` is a may-analysis with three answers: alwaysDead,
// livenessUnknown (depends on run-time values) and alwaysLive. Whatever is done because a case
// "can be entered" — propagating reachability along fall-through, keeping the body — must be
// done for livenessUnknown exactly as for alwaysLive; only "everything after a case that is
// certainly taken is dead" may single out alwaysLive. Rule (E-CLASS, shared with C11/R3): every
// equality branch on alwaysLive is shared with livenessUnknown, except the reviewed sites.
var c03LiveOnly = ExcTable{
	"js_parser.analyzeSwitchCasesForLiveness #1": "`maxStatus == alwaysLive`: once an earlier case is certainly taken every later case is dead — that conclusion needs certainty, so it must not be drawn for livenessUnknown",
}

func c03LivenessClass(p *Prog) *RuleResult {
	r := NewRule("C03/R5 liveness-class", "in the switch dead-case analysis every branch taken for alwaysLive (a case that can be entered) is also taken for livenessUnknown, except where certainty is required")
	_, ok := checkEnumClass(p, r, "/internal/js_parser", "livenessStatus", "alwaysLive", "livenessUnknown", c03LiveOnly,
		"a decision of the switch liveness analysis is taken for alwaysLive but not for livenessUnknown: a case whose test depends on run-time values can be entered too, so what it falls through into (or its body) is then treated as dead code and deleted", "")
	if !ok {
		return r
	}
	r.StaleCheck(c03LiveOnly)
	r.Floor(1)
	return r
}

// C03/R6 merged function symbols are marked mutable.
//
// Calls of a function that is known to be empty are deleted and calls of a known identity
// function are unwrapped (IsEmptyFunction / IsIdentityFunction), unless the symbol carries
// CouldPotentiallyBeMutated. Besides assignment expressions there is one more way to give a
// function symbol another value: hoisting merges a nested `var f`, a `for (var f of …)` or a
// sloppy-mode block-level `function f` into an existing function symbol of the same name
// (hoistSymbols links the merged symbol to it). Rule: in hoistSymbols no path leads from a point
// where the existing symbol is known to be a function (true edge of Kind.IsFunction()) to the
// store that links another symbol to it without passing a store that ors CouldPotentiallyBeMutated
// into a symbol's Flags.
func c03MergedFunctionSymbols(p *Prog) *RuleResult {
	r := NewRule("C03/R6 merged-function-mutable", "when hoisting merges a variable into an existing function symbol, that symbol is marked CouldPotentiallyBeMutated before the link is made (so 'known empty/identity function' call rewrites do not fire for it)")
	fn := p.FindFunc("js_parser.(*parser).hoistSymbols")
	ap := p.ByPath[modPath+"/internal/ast"]
	if !r.Anchor("js_parser.(*parser).hoistSymbols", fn != nil) || !r.Anchor("package ast", ap != nil) {
		return r
	}
	mut, ok := constsOfType(ap.Types, "SymbolFlags")["CouldPotentiallyBeMutated"]
	if !r.Anchor("ast.CouldPotentiallyBeMutated", ok) {
		return r
	}
	flagBlocks := map[*ssa.BasicBlock]bool{}
	var linkStores []*ssa.Store
	testedSymbols := map[ssa.Value]bool{} // the symbols whose Kind is tested with IsFunction()
	isFnEdgesTrue := [][2]int{}
	isFnFalse := map[[2]int]bool{}
	eachInstr(fn, func(b *ssa.BasicBlock, in ssa.Instruction) {
		switch x := in.(type) {
		case *ssa.Store:
			fa, ok := x.Addr.(*ssa.FieldAddr)
			if !ok || namedTypeName(fa.X.Type()) != "ast.Symbol" {
				return
			}
			switch fieldAddrName(fa) {
			case "Link":
				linkStores = append(linkStores, x)
			case "Flags":
				if bo, ok := x.Val.(*ssa.BinOp); ok && bo.Op == token.OR {
					if cv, ok := constInt(bo.Y); ok && cv&mut != 0 {
						flagBlocks[b] = true
					}
				}
			}
		case *ssa.If:
			if c, ok := x.Cond.(*ssa.Call); ok && FuncNameOf(c) == "ast.(SymbolKind).IsFunction" {
				isFnEdgesTrue = append(isFnEdgesTrue, [2]int{b.Index, 0})
				isFnFalse[[2]int{b.Index, 1}] = true
				if root, path := purePath(c.Call.Args[0]); len(path) == 1 && path[0] == "Kind" {
					testedSymbols[root] = true
				}
			}
		}
	})
	if !r.Anchor("a Kind.IsFunction() test and a store to Symbol.Link in hoistSymbols", len(isFnEdgesTrue) > 0 && len(linkStores) > 0) {
		return r
	}
	loops := naturalLoops(fn)
	for i, ls := range linkStores {
		r.Instances++
		key := fmt.Sprintf("hoistSymbols link store #%d", i+1)
		lb := ls.Block()
		bad := ""
		// a store that links the tested symbol itself away (it is being replaced, nothing is merged into it)
		if testedSymbols[ls.Addr.(*ssa.FieldAddr).X] {
			r.OK(key, false, "links the existing symbol to the new one, not the other way round")
			continue
		}
		for _, e := range isFnEdgesTrue {
			start := fn.Blocks[e[0]].Succs[e[1]]
			if flagBlocks[start] {
				continue
			}
			// a new iteration of the scope walk looks at a different existing symbol
			headers := map[*ssa.BasicBlock]bool{}
			for h, body := range loops {
				if body[start] {
					headers[h] = true
				}
			}
			path, escapes := reachesExitAvoidingEdges(start, func(b *ssa.BasicBlock) bool { return b == lb }, func(b *ssa.BasicBlock) bool { return (flagBlocks[b] && b != lb) || headers[b] }, func(b *ssa.BasicBlock, si int) bool { return isFnFalse[[2]int{b.Index, si}] })
			if escapes && !(flagBlocks[lb] && storeBefore(lb, ls, mut)) {
				bad = fmt.Sprintf("blocks %v", blockIdx(path))
			}
		}
		if bad != "" {
			r.Fail(key, p.Pos(ls.Pos()), "a symbol is linked (merged) into an existing symbol that is known to be a function without that function symbol being marked CouldPotentiallyBeMutated ("+bad+"): `function f(){} { var f = g } f()` then loses the call because f still counts as a known empty function")
		} else {
			r.OK(key, true, "every path from 'the existing symbol is a function' to the link passes the mutation mark (or cannot reach it)")
		}
	}
	return r
}

// storeBefore: does block b store the mutation flag before instruction at?
func storeBefore(b *ssa.BasicBlock, at ssa.Instruction, mut int64) bool {
	for _, in := range b.Instrs {
		if in == at {
			return false
		}
		if st, ok := in.(*ssa.Store); ok {
			if bo, ok := st.Val.(*ssa.BinOp); ok && bo.Op == token.OR {
				if cv, ok := constInt(bo.Y); ok && cv&mut != 0 {
					return true
				}
			}
		}
	}
	return false
}

// C03/R7 print-time substitutions are guarded.
//
// The printer replaces some expressions while printing (inlined empty/identity functions, folded
// cross-module constants). When the replaced expression sits in a call-target, template-tag or
// delete-operand position, a property access or `eval` that moves into that position changes the
// `this` value, turns an indirect eval into a direct one, or changes what delete does; the helper
// guardAgainstBehaviorChangeDueToSubstitution wraps those in `(0, …)`. Rule: in printExpr the
// result of lateConstantFoldUnaryOrBinaryOrIfExpr never becomes the expression being printed
// (stored into the `expr` variable or handed to printExpr) except through that guard.
func c03LateFoldGuard(p *Prog) *RuleResult {
	r := NewRule("C03/R7 late-fold-guard", "an expression produced by the print-time constant fold replaces the expression being printed only after passing guardAgainstBehaviorChangeDueToSubstitution (call target / template tag / delete operand positions)")
	fn := p.FindFunc("js_printer.(*printer).printExpr")
	if !r.Anchor("js_printer.(*printer).printExpr", fn != nil) {
		return r
	}
	n := 0
	eachInstr(fn, func(b *ssa.BasicBlock, in ssa.Instruction) {
		c, ok := in.(*ssa.Call)
		if !ok || FuncNameOf(c) != "js_printer.(*printer).lateConstantFoldUnaryOrBinaryOrIfExpr" {
			return
		}
		n++
		r.Instances++
		key := fmt.Sprintf("printExpr late fold #%d", n)
		bad := ""
		seen := map[ssa.Value]bool{}
		var follow func(v ssa.Value)
		follow = func(v ssa.Value) {
			if seen[v] || v.Referrers() == nil {
				return
			}
			seen[v] = true
			for _, rf := range *v.Referrers() {
				switch x := rf.(type) {
				case *ssa.Store:
					if x.Val != v {
						continue
					}
					if al, ok := x.Addr.(*ssa.Alloc); ok {
						if al.Comment == "expr" {
							bad = "the folded expression is stored straight into the expression being printed"
							return
						}
						// another local: follow its loads
						for _, lr := range *al.Referrers() {
							if u, ok := lr.(*ssa.UnOp); ok && u.Op == token.MUL {
								follow(u)
							}
						}
					}
				case *ssa.Call:
					name := FuncNameOf(x)
					if name == "js_printer.(*printer).guardAgainstBehaviorChangeDueToSubstitution" {
						continue
					}
					if name == "js_printer.(*printer).printExpr" || name == "js_printer.(*printer).printExprWithoutLeadingNewline" {
						bad = "the folded expression is printed without the guard"
						return
					}
				case *ssa.Phi:
					follow(x)
				}
			}
		}
		follow(c)
		if bad != "" {
			r.Fail(key, p.Pos(c.Pos()), bad+": `(T ? a.b : c)()` with a cross-module constant T is printed as `a.b()`, which changes the this value of the call (and `(T ? eval : f)(s)` becomes a direct eval)")
		} else {
			r.OK(key, true, "the result only reaches the printed expression through the guard")
		}
	})
	r.Anchor("call of lateConstantFoldUnaryOrBinaryOrIfExpr in printExpr", n > 0)
	return r
}
