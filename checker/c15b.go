package main

import (
	"fmt"
	"go/token"
	"go/types"
	"sort"
	"strings"

	"golang.org/x/tools/go/ssa"
)

// C15/R4 symbol-registered.
//
// The renamers only see symbols that hang off the scope tree: NumberRenamer and MinifyRenamer walk
// Scope.Members and Scope.Generated; a symbol that is in neither is never assigned a name and
// NameForSymbol falls back to its original name, which is not reserved against anything — two
// distinct bindings can then print with one name. The parser's convention is that every
// p.newSymbol(...) is followed by a registration of the new ref:
//     scope.Generated = append(scope.Generated, ref)      or      scope.Members[name] = ScopeMember{Ref: ref}
// The rule enumerates every newSymbol call of js_parser and requires, in the same function, on
// every path from the call to a normal return, a registration whose registered value is the call's
// result (directly, or reloaded from the place the result was stored in). Call sites whose ref is
// registered elsewhere or is deliberately never renamed are in a reviewed table (one reason each).

var c15SymbolRegisteredExceptions = ExcTable{
	"js_parser.(*parser).declareSymbol newSymbol(?)":                               "the symbol is allocated before the collision check; on the merge paths (keep existing / forbidden) the existing symbol's ref is returned and the fresh one is never referenced by any node",
	"js_parser.(*parser).findSymbol newSymbol(SymbolOther)":                        "lazily generated alias for a sibling TypeScript namespace member: carries a NamespaceAlias and is always printed as the property access ns.name, never as an identifier of its own; the unbound-symbol allocation in the same function is registered in moduleScope.Members",
	"js_parser.(*parser).findLabelSymbol newSymbol(SymbolUnbound)":                 "error path only ('There is no containing label named ...' was just logged): the build fails, nothing is printed",
	"js_parser.(*parser).visitAndAppendStmt newSymbol(SymbolLabel)":                "label symbol: labels live in their own namespace (ScopeLabel.Label), are reached by the renamers through Scope.Label and can never capture or be captured by a variable",
	"js_parser.(*parser).makePromiseRef newSymbol(SymbolUnbound) \"Promise\"":      "unbound global used only by the import(non-string) lowering, which also imports __toESM from the runtime; the runtime module's own scope always holds the unbound symbol Promise (the __async helper), which reserves the name for every chunk that contains it",
	"js_parser.(*parser).parseClassExpr newSymbol(SymbolOther)":                    "class expression name: visitClass registers the inner class name symbol under this name in the class-name scope's Members and merges it into this symbol (MergeSymbols), so the renamers reach it through that member",
	"js_parser.(*parser).parseFnExpr newSymbol(SymbolHoistedFunction)":             "function expression named `arguments`: the binding is shadowed by the implicit arguments object and cannot be referenced; all other function expression names go through declareSymbol",
	"js_parser.(*parser).parseProperty newSymbol(SymbolOther)":                     "getter/setter function names of a lowered private auto-accessor: kept in p.privateGetters / p.privateSetters and declared as top-level or temp symbols by the class lowering that emits them (lowerPrivateMethod registers the refs it emits)",
	"js_parser.(*parser).prepareForVisitPass newSymbol(SymbolUnbound) \"require\"": "pass-through mode: `require` must print as written and is never renamed; in bundling modes the symbol is declared through declareCommonJSSymbol",
	"js_parser.(*parser).prepareForVisitPass newSymbol(SymbolHoisted) \"exports\"": "ESM-style file: the ref is handed to the linker as AST.ExportsRef, which declares it as a top-level symbol of the file's wrapper/exports part; files with CommonJS-style exports go through declareCommonJSSymbol",
	"js_parser.(*parser).prepareForVisitPass newSymbol(SymbolHoisted) \"module\"":  "ESM-style file: handed to the linker as AST.ModuleRef (see exports)",
	"js_parser.(*parser).symbolForMangledProp newSymbol(SymbolMangledProp)":        "SymbolMangledProp is a property name, not a binding: it is named by the mangle-props pass, never by the scope renamers",
	"js_parser.(*parser).toAST newSymbol(SymbolOther)":                             "the file's wrapper symbol (require_x / init_x): handed to the linker as AST.WrapperRef, which declares it as a top-level symbol of the wrapper part",
	"js_parser.(*parser).visitClass newSymbol(SymbolConst)":                        "inner class name of an anonymous class (`_this` / `_file_default`): declared through recordDeclaredSymbol; it is only printed if the class is given that name at top level (a declared top-level symbol of the part) or replaced by a temp ref in nested scopes; named classes register the symbol in Members in the same function",
	"js_parser.(*lowerClassContext).processProperties newSymbol(?)":                "storage name of a lowered auto-accessor: a private name flagged PrivateSymbolMustBeLowered, always lowered to a WeakMap and never printed as #name",
	"js_parser.LazyExportAST newSymbol(SymbolUnbound)":                             "unbound global of a lazy-export helper call in a synthetic one-expression file that has no bindings of its own",
	"js_parser.Parse newSymbol(SymbolInjected)":                                    "injected export with a dotted alias (`a.b.c`): matched through p.injectedDotNames and the symbol for the whole dotted name is imported like any injected symbol; identifier aliases are registered in moduleScope.Members in the same function",
}

func c15SymbolRegistered(p *Prog) *RuleResult {
	r := NewRule("C15/R4 symbol-registered", "every symbol the parser creates is registered in a scope (Scope.Generated or Scope.Members) on every path, so that the renamers see it; otherwise it prints with its unreserved original name")
	newSym := p.FindFunc("js_parser.(*parser).newSymbol")
	if !r.Anchor("js_parser.(*parser).newSymbol", newSym != nil) {
		return r
	}
	n := 0
	kindNames := map[int64]string{}
	if apk := p.ByPath[modPath+"/internal/ast"]; apk != nil {
		for nm, v := range constsOfType(apk.Types, "SymbolKind") {
			kindNames[v] = nm
		}
	}
	for _, fn := range p.ModuleFuncs() {
		if pkgPathOf(fn) != modPath+"/internal/js_parser" {
			continue
		}
		// registration sinks of this function
		type sink struct {
			in  ssa.Instruction
			val ssa.Value
		}
		var sinks []sink
		eachInstr(fn, func(b *ssa.BasicBlock, in ssa.Instruction) {
			switch x := in.(type) {
			case *ssa.Store:
				// X.Generated = append(X.Generated, v...)
				fa, ok := x.Addr.(*ssa.FieldAddr)
				if !ok || fieldAddrName(fa) != "Generated" || namedTypeName(fa.X.Type()) != "js_ast.Scope" {
					return
				}
				// append(X.Generated, refs...) or a fresh []ast.Ref{...} of a new scope
				sinks = append(sinks, sink{in, x.Val})
			case *ssa.MapUpdate:
				root, path := purePath(x.Map)
				_ = root
				if len(path) > 0 && path[len(path)-1] == "Members" {
					sinks = append(sinks, sink{in, x.Value})
				}
			}
		})
		eachInstr(fn, func(b *ssa.BasicBlock, in ssa.Instruction) {
			call, ok := in.(*ssa.Call)
			if !ok || call.Call.StaticCallee() != newSym {
				return
			}
			n++
			r.Instances++
			kind := "?"
			if len(call.Call.Args) >= 2 {
				if cv, ok := constInt(call.Call.Args[1]); ok {
					kind = fmt.Sprint(cv)
					if nm, ok := kindNames[cv]; ok {
						kind = nm
					}
				}
			}
			_ = kind
			nameArg := ""
			if len(call.Call.Args) >= 3 {
				if sv, ok := constString(call.Call.Args[2]); ok {
					nameArg = " \"" + sv + "\""
				}
			}
			key := FuncName(fn) + " newSymbol(" + kind + ")" + nameArg
			// aliases: the call result, and loads of every place it is stored into
			alias := map[ssa.Value]bool{call: true}
			stored := map[string]bool{}
			var grow func(v ssa.Value, depth int)
			grow = func(v ssa.Value, depth int) {
				if depth > 6 || v.Referrers() == nil {
					return
				}
				for _, rf := range *v.Referrers() {
					switch x := rf.(type) {
					case *ssa.Store:
						if x.Val == v {
							ps := slotPathKey(x.Addr)
							if ps != "" {
								stored[ps] = true
							}
						}
					case *ssa.Convert, *ssa.ChangeType, *ssa.Phi, *ssa.MakeInterface:
						vv := rf.(ssa.Value)
						if !alias[vv] {
							alias[vv] = true
							grow(vv, depth+1)
						}
					}
				}
			}
			grow(call, 0)
			isAlias := func(v ssa.Value) bool {
				hit := false
				backSlice(v, func(x ssa.Value) bool {
					if hit {
						return false
					}
					if alias[x] {
						hit = true
						return false
					}
					if u, ok := x.(*ssa.UnOp); ok && u.Op == token.MUL {
						if ps := slotPathKey(u.X); ps != "" && stored[ps] {
							hit = true
							return false
						}
					}
					if c, ok := x.(*ssa.Call); ok {
						if _, isBuiltin := c.Call.Value.(*ssa.Builtin); !isBuiltin {
							return false
						}
					}
					return true
				})
				return hit
			}
			sinkBlocks := map[*ssa.BasicBlock]bool{}
			sameBlockAfter := false
			for _, s := range sinks {
				if !isAlias(s.val) {
					continue
				}
				if s.in.Block() == b {
					// must come after the call within the block
					after := false
					for _, bi := range b.Instrs {
						if bi == in {
							after = true
						}
						if bi == s.in && after {
							sameBlockAfter = true
						}
					}
					continue
				}
				sinkBlocks[s.in.Block()] = true
			}
			if sameBlockAfter {
				r.OK(key, true, "registered in the same basic block")
				return
			}
			if len(sinkBlocks) == 0 {
				// registered elsewhere: the ref is kept in a struct field that some registration in the
				// package reads back, or it is handed to the callers, all of which register it
				if via := c15RegisteredElsewhere(p, fn, call, 0); via != "" {
					r.OK(key, true, via)
					return
				}
				if !r.CheckExc(c15SymbolRegisteredExceptions, key) {
					r.Fail(key, p.Pos(call.Pos()), "the new symbol is not registered in any scope in this function (no append to Scope.Generated and no Scope.Members entry holds it): the renamers never see it, so it is printed with its original name, which nothing reserves")
				}
				return
			}
			path, bad := reachesExitAvoiding(b, isReturnBlock, func(x *ssa.BasicBlock) bool { return sinkBlocks[x] }, true)
			if bad {
				if !r.CheckExc(c15SymbolRegisteredExceptions, key) {
					r.Fail(key, p.Pos(call.Pos()), "the new symbol is registered in a scope only on some paths; unregistered path: "+blockPath(path))
				}
				return
			}
			r.OK(key, true, "every path from the call to a return passes a registration of the new ref")
		})
	}
	r.Anchor("newSymbol call sites", n >= 40)
	r.StaleCheck(c15SymbolRegisteredExceptions)
	var _ = sort.Strings
	var _ = strings.TrimSpace
	return r
}

// slotPathKey: a printable identity of an address (root value name + field path), "" if unknown.
func slotPathKey(addr ssa.Value) string {
	steps := addrChain(addr)
	root := rootOfChain(steps)
	if root == nil {
		root = addr
	}
	name := root.Name()
	if u, ok := root.(*ssa.UnOp); ok && u.Op == token.MUL {
		// a pointer loaded from a field of the receiver: identify by its own path
		r2, p2 := purePath(u)
		name = r2.Name() + "/" + strings.Join(p2, ".")
	}
	return name + ":" + pathString(steps)
}

// c15Sinks: every registration in js_parser: (function, registered value).
type c15Sink struct {
	fn  *ssa.Function
	val ssa.Value
}

var c15SinkCache []c15Sink
var c15SinkProg *Prog

func c15AllSinks(p *Prog) []c15Sink {
	if c15SinkProg == p {
		return c15SinkCache
	}
	var out []c15Sink
	for _, fn := range p.ModuleFuncs() {
		if pkgPathOf(fn) != modPath+"/internal/js_parser" {
			continue
		}
		eachInstr(fn, func(b *ssa.BasicBlock, in ssa.Instruction) {
			switch x := in.(type) {
			case *ssa.Store:
				fa, ok := x.Addr.(*ssa.FieldAddr)
				if !ok || fieldAddrName(fa) != "Generated" || namedTypeName(fa.X.Type()) != "js_ast.Scope" {
					return
				}
				out = append(out, c15Sink{fn, x.Val})
			case *ssa.MapUpdate:
				_, path := purePath(x.Map)
				if len(path) > 0 && path[len(path)-1] == "Members" {
					out = append(out, c15Sink{fn, x.Value})
				}
			}
		})
	}
	c15SinkProg, c15SinkCache = p, out
	return out
}

// c15RegisteredElsewhere: the value v (a new symbol's ref made in fn) reaches a registration outside
// the straight-line pattern: through a struct field or map that a registration reads, or through the
// function's result in every caller.
func c15RegisteredElsewhere(p *Prog, fn *ssa.Function, v ssa.Value, depth int) string {
	if depth > 2 || v.Referrers() == nil {
		return ""
	}
	// (1) fields / maps the value (or its address) is stored into
	fields := map[string]bool{}
	returned := false
	var visit func(x ssa.Value, d int)
	seen := map[ssa.Value]bool{}
	visit = func(x ssa.Value, d int) {
		if d > 6 || seen[x] || x.Referrers() == nil {
			return
		}
		seen[x] = true
		for _, rf := range *x.Referrers() {
			switch y := rf.(type) {
			case *ssa.Store:
				if y.Val != x {
					continue
				}
				// the innermost field of a parser-owned struct (generic carriers such as
				// EIdentifier.Ref or LocRef.Ref identify nothing)
				for _, st := range addrChain(y.Addr) {
					if st.Kind == "field" {
						if strings.HasPrefix(st.Owner, "js_parser.") {
							fields[st.Owner+"."+st.Name] = true
						}
						break
					}
				}
				// a local cell whose address is then stored (ref := …; p.f = &ref) or read back
				if al, ok := y.Addr.(*ssa.Alloc); ok {
					visit(al, d+1)
					if al.Referrers() != nil {
						for _, r2 := range *al.Referrers() {
							if u, ok := r2.(*ssa.UnOp); ok && u.Op == token.MUL {
								visit(u, d+1)
							}
						}
					}
				}
				if fa, ok := y.Addr.(*ssa.FieldAddr); ok {
					// a field of a local struct value that is then returned / stored whole
					if al, ok := fa.X.(*ssa.Alloc); ok && al.Referrers() != nil {
						for _, r2 := range *al.Referrers() {
							if u, ok := r2.(*ssa.UnOp); ok && u.Op == token.MUL {
								visit(u, d+1)
							}
						}
					}
				}
			case *ssa.MapUpdate:
				if y.Value == x {
					_, path := purePath(y.Map)
					if len(path) > 0 {
						fields["map:"+path[len(path)-1]] = true
					}
				}
			case *ssa.Return:
				returned = true
			case *ssa.Convert, *ssa.ChangeType, *ssa.Phi, *ssa.MakeInterface:
				visit(rf.(ssa.Value), d+1)
			}
		}
	}
	visit(v, 0)
	for _, s := range c15AllSinks(p) {
		hit := ""
		backSlice(s.val, func(x ssa.Value) bool {
			if hit != "" {
				return false
			}
			switch y := x.(type) {
			case *ssa.FieldAddr:
				k := namedTypeName(y.X.Type()) + "." + fieldAddrName(y)
				if fields[k] {
					hit = k
				}
			case *ssa.Field:
				k := namedTypeName(y.X.Type()) + "." + fieldValName(y)
				if fields[k] {
					hit = k
				}
			case *ssa.Lookup:
				_, path := purePath(y.X)
				if len(path) > 0 && fields["map:"+path[len(path)-1]] {
					hit = "map " + path[len(path)-1]
				}
			case *ssa.Call:
				if _, isBuiltin := y.Call.Value.(*ssa.Builtin); !isBuiltin {
					return false
				}
			}
			return true
		})
		if hit != "" {
			return "kept in " + hit + ", which " + FuncName(s.fn) + " registers in a scope"
		}
	}
	// (2) returned: every static caller registers the result
	if returned {
		callers := 0
		var missing []string
		for _, caller := range p.ModuleFuncs() {
			eachInstr(caller, func(b *ssa.BasicBlock, in ssa.Instruction) {
				c, ok := in.(*ssa.Call)
				if !ok || c.Call.StaticCallee() != fn {
					return
				}
				callers++
				ok2 := false
				// straight-line registration in the caller
				for _, s := range c15AllSinks(p) {
					if s.fn != caller {
						continue
					}
					backSlice(s.val, func(x ssa.Value) bool {
						if x == ssa.Value(c) {
							ok2 = true
						}
						if ex, isEx := x.(*ssa.Extract); isEx && ex.Tuple == ssa.Value(c) {
							ok2 = true
						}
						return !ok2
					})
				}
				if !ok2 && c15RegisteredElsewhere(p, caller, c, depth+1) == "" {
					missing = append(missing, FuncName(caller))
				}
			})
		}
		if callers > 0 && len(missing) == 0 {
			return fmt.Sprintf("returned to %d caller(s), each of which registers it in a scope", callers)
		}
	}
	return ""
}

// C15/R6 every binding of a hoisted import statement is registered.
//
// When a CommonJS-wrapped file is emitted into an ESM-format chunk, its external `import` /
// `export … from` statements are hoisted out of the wrapper closure to the top level of the chunk.
// Their bindings are then top-level names of the chunk and must be registered as such with the
// NumberRenamer (AddTopLevelSymbol); a binding that is only known as a member of the wrapped file's
// own (nested) scope can be given the same name as the hoisted binding of another wrapped file:
// two declarations of one name in one scope.
// Rule (field coverage): in renameSymbolsInChunk, for each statement type that is type-tested there
// (SImport, SExportStar, SExportFrom), every field of the type that carries a symbol reference
// (ast.Ref, ast.LocRef, clause items) flows into a registration call of the renamer.
func c15HoistedImportBindings(p *Prog) *RuleResult {
	r := NewRule("C15/R6 hoisted-import-bindings", "every symbol-bearing field of the import/export-from statements hoisted out of a CommonJS wrapper (namespace ref, default name, clause items) is registered as a top-level symbol of the chunk")
	fn := p.FindFunc("linker.(*linkerContext).renameSymbolsInChunk")
	if !r.Anchor("linker.(*linkerContext).renameSymbolsInChunk", fn != nil) {
		return r
	}
	var hasRef func(t types.Type, depth int) bool
	hasRef = func(t types.Type, depth int) bool {
		if depth > 4 {
			return false
		}
		if namedTypeName(t) == "ast.Ref" {
			return true
		}
		switch u := t.Underlying().(type) {
		case *types.Pointer:
			return hasRef(u.Elem(), depth+1)
		case *types.Slice:
			return hasRef(u.Elem(), depth+1)
		case *types.Struct:
			for i := 0; i < u.NumFields(); i++ {
				if hasRef(u.Field(i).Type(), depth+1) {
					return true
				}
			}
		}
		return false
	}
	// registration arguments
	var regArgs []ssa.Value
	for _, f := range withClosures(fn) {
		eachInstr(f, func(b *ssa.BasicBlock, in ssa.Instruction) {
			if c, ok := in.(ssa.CallInstruction); ok {
				if callee := c.Common().StaticCallee(); callee != nil && FuncName(callee) == "renamer.(*NumberRenamer).AddTopLevelSymbol" && len(c.Common().Args) > 1 {
					regArgs = append(regArgs, c.Common().Args[1])
				}
			}
		})
	}
	if !r.Anchor("AddTopLevelSymbol registrations in renameSymbolsInChunk", len(regArgs) >= 3) {
		return r
	}
	n := 0
	for _, f := range withClosures(fn) {
		eachInstr(f, func(b *ssa.BasicBlock, in ssa.Instruction) {
			ta, ok := in.(*ssa.TypeAssert)
			if !ok || !ta.CommaOk {
				return
			}
			kind := shortTypeName(ta.AssertedType)
			if kind != "SImport" && kind != "SExportStar" && kind != "SExportFrom" {
				return
			}
			pt, ok := ta.AssertedType.Underlying().(*types.Pointer)
			if !ok {
				return
			}
			st, ok := pt.Elem().Underlying().(*types.Struct)
			if !ok {
				return
			}
			var node ssa.Value
			for _, rf := range *ta.Referrers() {
				if e0, ok := rf.(*ssa.Extract); ok && e0.Index == 0 {
					node = e0
				}
			}
			if node == nil {
				return
			}
			n++
			for i := 0; i < st.NumFields(); i++ {
				fld := st.Field(i)
				if !hasRef(fld.Type(), 0) {
					continue
				}
				r.Instances++
				key := kind + "." + fld.Name() + " registered as top-level"
				found := false
				for _, a := range regArgs {
					backSlice(a, func(v ssa.Value) bool {
						if fa, ok := v.(*ssa.FieldAddr); ok && fa.X == node && fieldAddrName(fa) == fld.Name() {
							found = true
						}
						return !found
					})
					if found {
						break
					}
				}
				if found {
					r.OK(key, true, "flows into NumberRenamer.AddTopLevelSymbol")
				} else {
					r.Fail(key, p.Pos(ta.Pos()), "the symbols in "+kind+"."+fld.Name()+" of a hoisted statement are not registered as top-level symbols of the chunk: two CommonJS-wrapped files that both have such a binding under one name produce two top-level declarations of that name (`import fs from \"node:fs\"` twice)")
				}
			}
		})
	}
	r.Anchor("type tests of hoisted import/export statements", n >= 3)
	return r
}
