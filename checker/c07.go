package main

import (
	"fmt"
	"go/token"
	"sort"
	"strings"

	"golang.org/x/tools/go/ssa"
)

func init() {
	register(&Property{
		ID:          "C07",
		Explanation: "Decides structural necessary conditions of 'source maps point every generated token at its true origin' (not the truth of individual mappings): R1 offset pairing — in generateChunkJS/generateChunkCSS every byte string appended to the chunk before or between the mapped files (hashbang, banner, directives, IIFE prologue, cross-chunk prefix, path comments, unmapped files) is matched by an advance of the running generated offset with the very same value, or by the reset that follows a mapped file's own bytes; a prologue emitted without advancing the offset shifts every mapping of the next file, and bundler snapshots contain no mappings; R2 the four routines that turn bytes into generated line/column positions (LineColumnOffset.AdvanceBytes, .AdvanceString, ChunkBuilder.updateGeneratedLineAndColumn, GenerateLineOffsetTables) use the same line-terminator set {CR, LF, U+2028, U+2029}, the same CR-LF coalescing test and the same UTF-16 width threshold; R4 substituteFinalPaths records a source-map shift for exactly the pieces it substitutes, advancing `Before` by the placeholder and `After` by the replacement that was written. R5 in generateSourceMapForChunk, after the running decoder state is overwritten with a chunk's EndState every path to the next chunk stores an OriginalName computed from the state's own OriginalName (rebase or restore), so a chunk without names does not reset the running name index. R6 offset-handover: a source-map entry carries the accumulated generated offset only on paths that reset the accumulator. R7 first-mapping-rebase: every DecodeVLQ value of AppendSourceMapChunk is used and each position field of the start state is updated from a decoded delta. R8 vlq-delta-accumulated: in every VLQ decoding loop each decoded and used delta is added to a running total on every path that stays in the loop (decoder-failure edges pruned). R9 nested-name-wins: the read of inputSourceMap.Names in appendMapping is not control dependent on the incoming name. NOT covered: truth of each mapping, VLQ arithmetic, composition through input source maps, sourcesContent.",
		Run: func(p *Prog, tier string) []*RuleResult {
			return []*RuleResult{c07OffsetPairing(p), c07NewlineSiblings(p), c07ShiftSibling(p), c07StateCarry(p), c07OffsetHandover(p), c07FirstMappingRebase(p), c07VLQDeltaAccumulated(p), c07NestedNameWins(p)}
		},
	})
}

func stripConvert(v ssa.Value) ssa.Value {
	for {
		switch x := v.(type) {
		case *ssa.Convert:
			v = x.X
		case *ssa.ChangeType:
			v = x.X
		default:
			return v
		}
	}
}

func sameDatum(a, b ssa.Value) bool {
	a, b = stripConvert(a), stripConvert(b)
	if a == b {
		return true
	}
	ea, eb := ssaExpr(a, 0), ssaExpr(b, 0)
	if strings.Contains(ea, "<") || strings.Contains(ea, "phi") {
		return false
	}
	return ea == eb
}

func c07OffsetPairing(p *Prog) *RuleResult {
	r := NewRule("C07/R1 offset-pairing", "bytes appended to a chunk ahead of a mapped file advance the generated offset by exactly those bytes")
	for _, name := range []string{"linker.(*linkerContext).generateChunkJS", "linker.(*linkerContext).generateChunkCSS"} {
		fn := p.FindFunc(name)
		if !r.Anchor(name, fn != nil) {
			continue
		}
		// the joiner and the offset cells
		var joiner, offset *ssa.Alloc
		eachInstr(fn, func(b *ssa.BasicBlock, in ssa.Instruction) {
			if al, ok := in.(*ssa.Alloc); ok {
				switch {
				case al.Comment == "j" && namedTypeName(al.Type()) == "helpers.Joiner":
					joiner = al
				case al.Comment == "prevOffset":
					offset = al
				}
			}
		})
		if !r.Anchor(name+" locals j and prevOffset", joiner != nil && offset != nil) {
			continue
		}
		// blocks that store generatedOffset (the point where the running offset is consumed)
		consume := map[*ssa.BasicBlock]bool{}
		eachInstr(fn, func(b *ssa.BasicBlock, in ssa.Instruction) {
			if st, ok := in.(*ssa.Store); ok {
				if fa, ok := st.Addr.(*ssa.FieldAddr); ok && fieldAddrName(fa) == "generatedOffset" {
					consume[b] = true
				}
			}
		})
		if !r.Anchor(name+" generatedOffset store", len(consume) > 0) {
			continue
		}
		type adv struct {
			in  ssa.Instruction
			arg ssa.Value
		}
		advances := map[*ssa.BasicBlock][]adv{}
		resets := map[*ssa.BasicBlock]bool{}
		var adds []adv
		eachInstr(fn, func(b *ssa.BasicBlock, in ssa.Instruction) {
			switch x := in.(type) {
			case *ssa.Call:
				n := calleeFullName(x)
				if len(x.Call.Args) == 2 && x.Call.Args[0] == ssa.Value(offset) && (strings.HasSuffix(n, "LineColumnOffset).AdvanceString") || strings.HasSuffix(n, "LineColumnOffset).AdvanceBytes")) {
					advances[b] = append(advances[b], adv{in, x.Call.Args[1]})
				}
				if len(x.Call.Args) == 2 && x.Call.Args[0] == ssa.Value(joiner) && (strings.HasSuffix(n, "helpers.Joiner).AddString") || strings.HasSuffix(n, "helpers.Joiner).AddBytes")) {
					adds = append(adds, adv{in, x.Call.Args[1]})
				}
			case *ssa.Store:
				if x.Addr == ssa.Value(offset) {
					resets[b] = true
				}
			}
		})
		n := 0
		for _, a := range adds {
			b := a.in.Block()
			// only appends from which a later generatedOffset store is reachable matter
			reach := consume[b] && false
			if _, ok := reachesExitAvoiding(b, func(x *ssa.BasicBlock) bool { return consume[x] }, func(*ssa.BasicBlock) bool { return false }, true); ok {
				reach = true
			}
			if consume[b] {
				// same block as the store: matters only if the append comes before the store... the
				// mapped file's own bytes come after it and are handled by the successors
				reach = true
			}
			if !reach {
				continue
			}
			n++
			r.Instances++
			key := fmt.Sprintf("%s append %s", strings.TrimPrefix(name, "linker.(*linkerContext)."), ssaExpr(stripConvert(a.arg), 0))
			paired := false
			for _, ad := range advances[b] {
				if sameDatum(ad.arg, a.arg) {
					paired = true
				}
			}
			if !paired {
				// the mapped file's own bytes: every successor either advances by the same datum or resets
				all := len(b.Succs) > 0
				for _, s := range b.Succs {
					ok := resets[s]
					for _, ad := range advances[s] {
						if sameDatum(ad.arg, a.arg) {
							ok = true
						}
					}
					if !ok {
						all = false
					}
				}
				paired = all
			}
			if paired {
				r.OK(key, true, "the running offset is advanced by the same value (or reset after a mapped file)")
			} else {
				r.Fail(key, p.Pos(a.in.Pos()), "bytes are appended to the chunk ahead of a mapped file without advancing the generated offset by the same value: every mapping of the following file is shifted")
			}
		}
		if n < 4 {
			r.Fail(name+" appends before mapped files", p.Pos(fn.Pos()), fmt.Sprintf("only %d relevant joiner appends found", n))
		}
	}
	r.Floor(10)
	return r
}

// newlineSummary extracts the rune constants a function compares for equality and its <= thresholds.
func newlineSummary(fn *ssa.Function) (eq []int64, le []int64) {
	seenEq, seenLe := map[int64]bool{}, map[int64]bool{}
	eachInstr(fn, func(b *ssa.BasicBlock, in ssa.Instruction) {
		bo, ok := in.(*ssa.BinOp)
		if !ok {
			return
		}
		k, isK := constInt(bo.Y)
		if !isK {
			return
		}
		t := bo.X.Type().String()
		if t != "rune" && t != "int32" && t != "byte" && t != "uint8" {
			return
		}
		switch bo.Op {
		case token.EQL, token.NEQ:
			seenEq[k] = true
		case token.LEQ:
			seenLe[k] = true
		case token.LSS:
			seenLe[k-1] = true
		case token.GTR:
			seenLe[k] = true
		}
	})
	for k := range seenEq {
		eq = append(eq, k)
	}
	for k := range seenLe {
		le = append(le, k)
	}
	sort.Slice(eq, func(i, j int) bool { return eq[i] < eq[j] })
	sort.Slice(le, func(i, j int) bool { return le[i] < le[j] })
	return
}

func c07NewlineSiblings(p *Prog) *RuleResult {
	r := NewRule("C07/R2 newline-siblings", "all routines that convert bytes to generated line/column positions agree on the line terminators, CR-LF coalescing and UTF-16 width rule")
	names := []string{
		"sourcemap.(*LineColumnOffset).AdvanceBytes",
		"sourcemap.(*LineColumnOffset).AdvanceString",
		"sourcemap.(*ChunkBuilder).updateGeneratedLineAndColumn",
		"sourcemap.GenerateLineOffsetTables",
	}
	want := []int64{10, 13, 0x2028, 0x2029}
	for _, n := range names {
		fn := p.FindFunc(n)
		if !r.Anchor(n, fn != nil) {
			continue
		}
		r.Instances++
		eq, le := newlineSummary(fn)
		// 0 may appear (column/length tests on int32 counters); any other rune constant must be a terminator
		var terms []int64
		for _, k := range eq {
			if k != 0 {
				terms = append(terms, k)
			}
		}
		okEq := fmt.Sprint(terms) == fmt.Sprint(want)
		okLe := false
		for _, k := range le {
			if k == 0xFFFF {
				okLe = true
			}
		}
		if okEq && okLe {
			r.OK(n, true, "terminators {LF, CR, U+2028, U+2029}, CR-LF test on LF, width threshold 0xFFFF")
		} else {
			r.Fail(n, p.Pos(fn.Pos()), fmt.Sprintf("line/column rule differs from its siblings: compares runes %v (expected %v), width thresholds %v (expected 65535)", eq, want, le))
		}
	}
	return r
}

func c07ShiftSibling(p *Prog) *RuleResult {
	r := NewRule("C07/R4 shift-sibling", "substituteFinalPaths records one source-map shift per substituted piece: Before advanced by the placeholder, After by the replacement that was written")
	fn := p.FindFunc("linker.(*linkerContext).substituteFinalPaths")
	if !r.Anchor("linker.(*linkerContext).substituteFinalPaths", fn != nil) {
		return r
	}
	lk := p.ByPath[modPath+"/internal/linker"]
	consts := constsOfType(lk.Types, "outputPieceIndexKind")
	for _, b := range fn.Blocks {
		if len(b.Instrs) == 0 {
			continue
		}
		ifi, ok := b.Instrs[len(b.Instrs)-1].(*ssa.If)
		if !ok {
			continue
		}
		bo, ok := ifi.Cond.(*ssa.BinOp)
		if !ok || bo.Op != token.EQL || namedTypeName(bo.X.Type()) != "linker.outputPieceIndexKind" {
			continue
		}
		v, _ := constInt(bo.Y)
		kind := ""
		for n, k := range consts {
			if k == v {
				kind = n
			}
		}
		r.Instances++
		var added ssa.Value
		var before, after ssa.Value
		appended := false
		for _, rb := range fn.Blocks {
			if !edgeDominates(b, 0, rb) {
				continue
			}
			for _, in := range rb.Instrs {
				c, ok := in.(*ssa.Call)
				if !ok {
					continue
				}
				n := calleeFullName(c)
				switch {
				case strings.HasSuffix(n, "helpers.Joiner).AddString"):
					added = c.Call.Args[1]
				case strings.HasSuffix(n, "LineColumnOffset).AdvanceString"):
					if fa, ok := c.Call.Args[0].(*ssa.FieldAddr); ok {
						if fieldAddrName(fa) == "Before" {
							before = c.Call.Args[1]
						}
						if fieldAddrName(fa) == "After" {
							after = c.Call.Args[1]
						}
					}
				default:
					if bi, ok := c.Call.Value.(*ssa.Builtin); ok && bi.Name() == "append" && strings.Contains(c.Type().String(), "SourceMapShift") {
						appended = true
					}
				}
			}
		}
		key := "substituteFinalPaths " + kind
		switch {
		case added == nil || before == nil || after == nil || !appended:
			r.Fail(key, p.Pos(fn.Pos()), fmt.Sprintf("piece kind %s: path written=%v, shift.Before advanced=%v, shift.After advanced=%v, shift appended=%v", kind, added != nil, before != nil, after != nil, appended))
		case !sameDatum(added, after):
			r.Fail(key, p.Pos(fn.Pos()), "shift.After is advanced by "+ssaExpr(after, 0)+" but the bytes written are "+ssaExpr(added, 0))
		case sameDatum(before, after):
			r.Fail(key, p.Pos(fn.Pos()), "shift.Before is advanced by the replacement instead of the placeholder")
		default:
			_, fname, _ := loadedField(before)
			r.OK(key, true, "After advanced by the written path, Before by the placeholder ("+fname+"), shift appended")
		}
	}
	if r.Instances < 2 {
		r.Fail("substituteFinalPaths piece kinds", p.Pos(fn.Pos()), "expected two substituted piece kinds")
	}
	return r
}
