package main

import (
	"fmt"
	"go/ast"
	"go/token"
	"go/types"
	"strings"

	"golang.org/x/tools/go/packages"
)

// E-ORD: classification of `for ... range <map>` loops.
//
// A loop is order-insensitive when every effect of its body is commutative and idempotent with
// respect to iteration order:
//   - m[k] = v / m[k] op= v where the index is the loop's own key variable (distinct per iteration),
//     or a set insertion m[x] = <constant>
//   - delete(m, k)
//   - integer/boolean accumulation: n++, n += e, n |= e, b = b || e, b = true/false constant
//   - assignments to variables declared inside the loop body
//   - if/else, nested for/range/switch whose bodies satisfy the same rule; continue; break is NOT
//     allowed (which element stops the loop depends on order) unless nothing order-dependent was
//     done before; `return <constants>` (existence tests)
//   - s = append(s, ...) into a slice that is sorted after the loop in the same function
//     (collect-then-sort)
//   - logger Add* calls with a non-nil location (the logger totally orders located messages)
//   - calls to functions in the pure table (len, strings.*, ...)
// Anything else makes the loop "unresolved": it needs a reviewed table entry or is a violation.

type mapLoop struct {
	pkg      *packages.Package
	fnName   string
	fnDecl   ast.Node // FuncDecl or FuncLit (outermost FuncDecl for keys)
	body     *ast.BlockStmt
	rng      *ast.RangeStmt
	key      string
	problems []string
	sorted   []string // slices collected and sorted afterwards
	kind     string
}

type ordCtx struct {
	prog      *Prog
	pur       *purity
	pkg       *packages.Package
	loop      *ast.RangeStmt
	keyObj    types.Object
	keyObjs   map[types.Object]bool
	valObj    types.Object
	single    int // >0 while inside a branch that at most one iteration can take
	localObjs map[types.Object]bool
	appended  map[types.Object]token.Pos
	problems  []string
	sawEffect bool
	loggerOK  int
	inCallee  int // >0 while the body of a called helper is classified (callLogsOnly)
}

func (c *ordCtx) problem(n ast.Node, format string, a ...interface{}) {
	if c.single > 0 {
		return // at most one iteration reaches this branch: nothing to reorder
	}
	pos := c.pkg.Fset.Position(n.Pos())
	c.problems = append(c.problems, fmt.Sprintf("line %d: %s", pos.Line, fmt.Sprintf(format, a...)))
}

func (c *ordCtx) objOf(e ast.Expr) types.Object {
	if id, ok := e.(*ast.Ident); ok {
		if o := c.pkg.TypesInfo.Uses[id]; o != nil {
			return o
		}
		return c.pkg.TypesInfo.Defs[id]
	}
	return nil
}

func (c *ordCtx) isLocal(e ast.Expr) bool {
	// x, x.f, x[i] where x is declared inside the loop
	for {
		switch v := e.(type) {
		case *ast.Ident:
			o := c.objOf(v)
			return o != nil && c.localObjs[o]
		case *ast.SelectorExpr:
			e = v.X
		case *ast.IndexExpr:
			e = v.X
		case *ast.ParenExpr:
			e = v.X
		case *ast.StarExpr:
			e = v.X
		default:
			return false
		}
	}
}

func isConstExpr(pkg *packages.Package, e ast.Expr) bool {
	if tv, ok := pkg.TypesInfo.Types[e]; ok && tv.Value != nil {
		return true
	}
	if id, ok := e.(*ast.Ident); ok && (id.Name == "true" || id.Name == "false" || id.Name == "nil") {
		return true
	}
	if cl, ok := e.(*ast.CompositeLit); ok && len(cl.Elts) == 0 {
		return true // struct{}{}
	}
	return false
}

var ordPureFuncs = map[string]bool{
	"len": true, "cap": true, "string": true, "uint32": true, "int": true, "uint": true, "int32": true, "uint8": true, "uint16": true, "float64": true, "int64": true, "uint64": true, "make": true, "new": true, "min": true, "max": true,
}

var ordPurePkgs = map[string]bool{
	"strings": true, "strconv": true, "unicode/utf8": true, "unicode": true, "bytes": true, "path": true, "math": true, "fmt.Sprintf": true, "sort.SearchStrings": true, "regexp": true,
}

// exprIsPure: conservatively, expression evaluation has no order-relevant side effects.
func (c *ordCtx) exprPure(e ast.Expr) bool {
	pure := true
	ast.Inspect(e, func(n ast.Node) bool {
		switch x := n.(type) {
		case *ast.CallExpr:
			if !c.callPure(x) {
				pure = false
			}
		case *ast.FuncLit:
			return false
		case *ast.UnaryExpr:
			if x.Op == token.ARROW {
				pure = false
			}
		}
		return pure
	})
	return pure
}

func (c *ordCtx) callPure(call *ast.CallExpr) bool {
	// conversions
	if tv, ok := c.pkg.TypesInfo.Types[call.Fun]; ok && tv.IsType() {
		return true
	}
	switch f := call.Fun.(type) {
	case *ast.Ident:
		if _, isB := c.pkg.TypesInfo.Uses[f].(*types.Builtin); isB {
			return ordPureFuncs[f.Name]
		}
	case *ast.SelectorExpr:
		if fn, ok := c.pkg.TypesInfo.Uses[f.Sel].(*types.Func); ok {
			if fn.Pkg() != nil && (ordPurePkgs[fn.Pkg().Path()] || ordPurePkgs[fn.Pkg().Path()+"."+fn.Name()]) {
				return true
			}
		}
	}
	if sel, ok := call.Fun.(*ast.SelectorExpr); ok {
		if fn, ok := c.pkg.TypesInfo.Uses[sel.Sel].(*types.Func); ok && pureIfaceMethods[fn.FullName()] {
			return true
		}
	}
	if sf := c.prog.ssaFuncOfCall(c.pkg, call); sf != nil {
		if ordReviewedIdempotent[FuncName(sf)] != "" {
			return true
		}
		if pkgPathOf(sf) == modPath+"/internal/logger" && !strings.HasPrefix(sf.Name(), "Add") {
			return true // message-building helpers (trackers, MsgData, ranges): no shared state besides their own lazily built line tables
		}
		return c.pur.isPure(sf)
	}
	return false
}

// callLogsOnly: the statement calls a function of the module, with pure arguments, whose body — classified
// by the same discipline as a loop body, its parameters and locals being per-call values — has no
// order-relevant effect other than adding messages to the logger (which orders them, C08/R6). This
// is the loop body's own `log.AddError(…)` moved into a helper.
func (c *ordCtx) callLogsOnly(call *ast.CallExpr) bool {
	if c.inCallee >= 2 {
		return false
	}
	sf := c.prog.ssaFuncOfCall(c.pkg, call)
	if sf == nil {
		return false
	}
	decl, ok := sf.Syntax().(*ast.FuncDecl)
	if !ok || decl.Body == nil {
		return false
	}
	pkg := c.prog.ByPath[pkgPathOf(sf)]
	if pkg == nil {
		return false
	}
	for _, a := range call.Args {
		if !c.exprPure(a) {
			return false
		}
	}
	if sel, ok := call.Fun.(*ast.SelectorExpr); ok {
		if _, isMethod := c.pkg.TypesInfo.Selections[sel]; isMethod && !c.exprPure(sel.X) {
			return false
		}
	}
	sub := &ordCtx{keyObjs: map[types.Object]bool{}, prog: c.prog, pur: c.pur, pkg: pkg, loop: c.loop, localObjs: map[types.Object]bool{}, appended: map[types.Object]token.Pos{}, inCallee: c.inCallee + 1}
	declare := func(fl *ast.FieldList) {
		if fl == nil {
			return
		}
		for _, f := range fl.List {
			// only value parameters are per-call; a pointer, map or slice parameter aliases the caller's state
			for _, n := range f.Names {
				if o := pkg.TypesInfo.Defs[n]; o != nil {
					switch o.Type().Underlying().(type) {
					case *types.Pointer, *types.Map, *types.Slice, *types.Chan:
					default:
						sub.localObjs[o] = true
					}
				}
			}
		}
	}
	declare(decl.Type.Params)
	declare(decl.Type.Results)
	sub.stmt(decl.Body)
	if len(sub.problems) > 0 || len(sub.appended) > 0 || sub.sawEffect {
		return false
	}
	c.loggerOK += sub.loggerOK
	return sub.loggerOK > 0
}

// functions with a benign, idempotent side effect (lazy caches): calling them in any order leaves the same state
var ordReviewedIdempotent = map[string]string{
	"linker.(*linkerContext).maybeForbidArbitraryModuleNamespaceIdentifier": "only logs a located error (the logger orders messages)",
	"graph.(*LinkerFile).LineColumnTracker":                                 "lazily builds and caches the file's line/column tracker; same result in any order",
	"graph.(*JSRepr).TopLevelSymbolToParts":                                 "read-only lookup in overlay/parser maps",
}

func (c *ordCtx) mentionsLoopLocal(e ast.Expr) bool {
	found := false
	ast.Inspect(e, func(n ast.Node) bool {
		if id, ok := n.(*ast.Ident); ok {
			if o := c.pkg.TypesInfo.Uses[id]; o != nil && c.localObjs[o] {
				found = true
			}
		}
		return !found
	})
	return found
}

// isKeyEquality: cond is `key == <loop-invariant>` (possibly && more): at most one iteration passes.
func (c *ordCtx) isKeyEquality(cond ast.Expr) bool {
	switch x := cond.(type) {
	case *ast.ParenExpr:
		return c.isKeyEquality(x.X)
	case *ast.BinaryExpr:
		if x.Op == token.LAND {
			return c.isKeyEquality(x.X) || c.isKeyEquality(x.Y)
		}
		if x.Op == token.EQL {
			if o := c.objOf(x.X); o != nil && c.keyObjs[o] && !c.mentionsLoopLocal(x.Y) {
				return true
			}
			if o := c.objOf(x.Y); o != nil && c.keyObjs[o] && !c.mentionsLoopLocal(x.X) {
				return true
			}
		}
	}
	return false
}

// isMinMaxUpdate: `if a < best { best = a }` on values of one ordered basic type (a commutative fold).
func (c *ordCtx) isMinMaxUpdate(x *ast.IfStmt) bool {
	be, ok := x.Cond.(*ast.BinaryExpr)
	if !ok || x.Else != nil || x.Init != nil || len(x.Body.List) != 1 {
		return false
	}
	switch be.Op {
	case token.LSS, token.GTR, token.LEQ, token.GEQ:
	default:
		return false
	}
	as, ok := x.Body.List[0].(*ast.AssignStmt)
	if !ok || as.Tok != token.ASSIGN || len(as.Lhs) != 1 || len(as.Rhs) != 1 {
		return false
	}
	l, r := types.ExprString(as.Lhs[0]), types.ExprString(as.Rhs[0])
	a, b := types.ExprString(be.X), types.ExprString(be.Y)
	if !((l == a && r == b) || (l == b && r == a)) {
		return false
	}
	t := c.pkg.TypesInfo.TypeOf(as.Lhs[0])
	bt, ok := t.Underlying().(*types.Basic)
	return ok && bt.Info()&(types.IsOrdered) != 0 && c.exprPure(as.Rhs[0])
}

func (c *ordCtx) isFreshInit(e ast.Expr) bool {
	switch x := e.(type) {
	case *ast.CallExpr:
		if id, ok := x.Fun.(*ast.Ident); ok && (id.Name == "make" || id.Name == "new") {
			_, isB := c.pkg.TypesInfo.Uses[id].(*types.Builtin)
			return isB
		}
	case *ast.CompositeLit:
		return len(x.Elts) == 0
	case *ast.UnaryExpr:
		if x.Op == token.AND {
			return c.isFreshInit(x.X)
		}
	}
	return false
}

func (c *ordCtx) isLoggerAdd(call *ast.CallExpr) (located bool, ok bool) {
	sel, isSel := call.Fun.(*ast.SelectorExpr)
	if !isSel {
		return false, false
	}
	n := sel.Sel.Name
	if !strings.HasPrefix(n, "Add") {
		return false, false
	}
	// receiver type logger.Log (field of func type) or method
	t := c.pkg.TypesInfo.TypeOf(sel.X)
	if t == nil || namedTypeName(t) != "logger.Log" {
		return false, false
	}
	// first argument is the tracker (*LineColumnTracker) for AddError/AddID/...; nil => not located
	if len(call.Args) == 0 {
		return false, true
	}
	if n == "AddMsg" || n == "AddMsgID" {
		return false, true // location inside the Msg; treat as unknown
	}
	if isConstExpr(c.pkg, call.Args[0]) { // nil tracker
		return false, true
	}
	return true, true
}

func (c *ordCtx) stmts(list []ast.Stmt) {
	for _, s := range list {
		c.stmt(s)
	}
}

func (c *ordCtx) declare(e ast.Expr) {
	if id, ok := e.(*ast.Ident); ok {
		if o := c.pkg.TypesInfo.Defs[id]; o != nil {
			c.localObjs[o] = true
		}
	}
}

func (c *ordCtx) assign(lhs ast.Expr, rhs ast.Expr, tok token.Token, s ast.Stmt) {
	if id, ok := lhs.(*ast.Ident); ok && id.Name == "_" {
		if rhs != nil && !c.exprPure(rhs) {
			c.problem(s, "impure expression assigned to _")
		}
		return
	}
	if rhs != nil && !c.exprPure(rhs) {
		// append is handled by caller
		c.problem(s, "right-hand side has a call that is not known to be pure: %s", types.ExprString(rhs))
		return
	}
	if c.isLocal(lhs) {
		return
	}
	// map insert keyed by the loop key, or set insert of a constant
	if ix, ok := lhs.(*ast.IndexExpr); ok {
		if _, isMap := c.pkg.TypesInfo.TypeOf(ix.X).Underlying().(*types.Map); isMap {
			ko := c.objOf(ix.Index)
			if ko != nil && c.keyObjs[ko] {
				c.sawEffect = true
				return
			}
			if rhs != nil && tok == token.ASSIGN && (isConstExpr(c.pkg, rhs) || !c.mentionsLoopLocal(rhs)) {
				c.sawEffect = true
				return
			}
			if tok == token.ADD_ASSIGN || tok == token.OR_ASSIGN {
				if isIntegral(c.pkg.TypesInfo.TypeOf(lhs)) {
					c.sawEffect = true
					return
				}
			}
			c.problem(s, "map store %s keyed by something other than the loop key with a non-constant value (last writer wins on key collision)", types.ExprString(lhs))
			return
		}
	}
	t := c.pkg.TypesInfo.TypeOf(lhs)
	switch tok {
	case token.ADD_ASSIGN, token.OR_ASSIGN, token.AND_ASSIGN, token.XOR_ASSIGN, token.SUB_ASSIGN:
		if isIntegral(t) {
			c.sawEffect = true
			return
		}
		c.problem(s, "non-integer accumulation %s (order-dependent for floats/strings)", types.ExprString(lhs))
		return
	case token.ASSIGN, token.DEFINE:
		if rhs != nil && isConstExpr(c.pkg, rhs) {
			c.sawEffect = true
			return // flag = true
		}
		if rhs != nil && c.isFreshInit(rhs) {
			return // lazy initialisation of an outer container
		}
		if rhs != nil && !c.mentionsLoopLocal(rhs) {
			c.sawEffect = true
			return // loop-invariant value: every iteration writes the same thing
		}
		// b = b || e
		if be, ok := rhs.(*ast.BinaryExpr); ok && (be.Op == token.LOR || be.Op == token.LAND) && types.ExprString(be.X) == types.ExprString(lhs) {
			c.sawEffect = true
			return
		}
		c.problem(s, "assignment to outer variable %s with a loop-dependent value (last writer wins)", types.ExprString(lhs))
		return
	}
	c.problem(s, "unrecognised assignment %s", types.ExprString(lhs))
}

func stripConv(e ast.Expr) ast.Expr {
	if c, ok := e.(*ast.CallExpr); ok && len(c.Args) == 1 {
		return c.Args[0]
	}
	return e
}

func isIntegral(t types.Type) bool {
	if t == nil {
		return false
	}
	b, ok := t.Underlying().(*types.Basic)
	return ok && b.Info()&(types.IsInteger|types.IsBoolean) != 0
}

func (c *ordCtx) stmt(s ast.Stmt) {
	switch x := s.(type) {
	case nil:
	case *ast.BlockStmt:
		c.stmts(x.List)
	case *ast.EmptyStmt:
	case *ast.DeclStmt:
		if gd, ok := x.Decl.(*ast.GenDecl); ok {
			for _, sp := range gd.Specs {
				if vs, ok := sp.(*ast.ValueSpec); ok {
					for _, n := range vs.Names {
						c.declare(n)
					}
					for _, v := range vs.Values {
						if !c.exprPure(v) {
							c.problem(s, "impure initialiser %s", types.ExprString(v))
						}
					}
				}
			}
		}
	case *ast.AssignStmt:
		if x.Tok == token.DEFINE {
			for _, l := range x.Lhs {
				c.declare(l)
			}
			// k2 := k  (per-iteration copy of the loop key)
			if len(x.Lhs) == 1 && len(x.Rhs) == 1 {
				if ro := c.objOf(x.Rhs[0]); ro != nil && c.keyObjs[ro] {
					if lo := c.objOf(x.Lhs[0]); lo != nil {
						c.keyObjs[lo] = true
					}
				}
			}
		}
		// s = append(s, ...)
		if len(x.Lhs) == 1 && len(x.Rhs) == 1 {
			if call, ok := x.Rhs[0].(*ast.CallExpr); ok {
				if id, ok := call.Fun.(*ast.Ident); ok && id.Name == "append" {
					if _, isB := c.pkg.TypesInfo.Uses[id].(*types.Builtin); isB {
						for _, a := range call.Args[1:] {
							if !c.exprPure(a) {
								c.problem(s, "impure append argument %s", types.ExprString(a))
							}
						}
						if c.isLocal(x.Lhs[0]) {
							return
						}
						lhs0 := x.Lhs[0]
						if st, ok := lhs0.(*ast.StarExpr); ok {
							lhs0 = st.X
						}
						if o := c.objOf(lhs0); o != nil && types.ExprString(call.Args[0]) == types.ExprString(x.Lhs[0]) {
							c.appended[o] = x.Pos()
							return
						}
						// appending into a field or element: treat key-indexed map element as insert
						if ix, ok := x.Lhs[0].(*ast.IndexExpr); ok {
							if ko := c.objOf(ix.Index); ko != nil && c.keyObjs[ko] {
								return
							}
						}
						c.problem(s, "append into %s (not a plain local slice variable that can be checked for a later sort)", types.ExprString(x.Lhs[0]))
						return
					}
				}
			}
		}
		if len(x.Lhs) == len(x.Rhs) {
			for i := range x.Lhs {
				c.assign(x.Lhs[i], x.Rhs[i], x.Tok, s)
			}
		} else {
			// v, ok := m[k] / x.(T) / f()
			for _, r := range x.Rhs {
				if !c.exprPure(r) {
					c.problem(s, "impure multi-value expression %s", types.ExprString(r))
				}
			}
			for _, l := range x.Lhs {
				if id, ok := l.(*ast.Ident); ok && id.Name == "_" {
					continue
				}
				if !c.isLocal(l) {
					c.problem(s, "multi-value assignment to outer variable %s", types.ExprString(l))
				}
			}
		}
	case *ast.IncDecStmt:
		if c.isLocal(x.X) {
			return
		}
		if isIntegral(c.pkg.TypesInfo.TypeOf(x.X)) {
			c.sawEffect = true
			return
		}
		c.problem(s, "inc/dec of non-integer")
	case *ast.ExprStmt:
		call, ok := x.X.(*ast.CallExpr)
		if !ok {
			return
		}
		if id, ok := call.Fun.(*ast.Ident); ok && id.Name == "delete" {
			c.sawEffect = true
			return
		}
		if id, ok := call.Fun.(*ast.Ident); ok && id.Name == "panic" {
			return // a panic is an internal error regardless of order
		}
		if _, isLog := c.isLoggerAdd(call); isLog {
			// the logger totally orders messages (location, kind, text) before returning them
			// (C08/R6 checks that), so the order of Add* calls does not reach the API result
			c.loggerOK++
			for _, a := range call.Args {
				if !c.exprPure(a) {
					c.problem(s, "impure logger argument %s", types.ExprString(a))
				}
			}
			return
		}
		if c.callPure(call) {
			return
		}
		if sel, ok := call.Fun.(*ast.SelectorExpr); ok {
			if fn, ok := c.pkg.TypesInfo.Uses[sel.Sel].(*types.Func); ok && fn.Pkg() != nil && fn.Pkg().Path() == "sort" && len(call.Args) > 0 && c.isLocal(stripConv(call.Args[0])) {
				return // sorting a per-iteration value in place
			}
		}
		if c.callLogsOnly(call) {
			return
		}
		c.problem(s, "call with unknown effects: %s", types.ExprString(call.Fun))
	case *ast.IfStmt:
		c.stmt(x.Init)
		if !c.exprPure(x.Cond) {
			c.problem(s, "impure condition %s", types.ExprString(x.Cond))
		}
		if c.isKeyEquality(x.Cond) {
			c.single++
			c.stmt(x.Body)
			c.single--
			c.stmt(x.Else)
			return
		}
		if c.isMinMaxUpdate(x) {
			c.sawEffect = true
			return
		}
		c.stmt(x.Body)
		c.stmt(x.Else)
	case *ast.ForStmt:
		c.stmt(x.Init)
		if x.Cond != nil && !c.exprPure(x.Cond) {
			c.problem(s, "impure loop condition")
		}
		c.stmt(x.Post)
		c.stmt(x.Body)
	case *ast.RangeStmt:
		if x.Tok == token.DEFINE {
			if x.Key != nil {
				c.declare(x.Key)
			}
			if x.Value != nil {
				c.declare(x.Value)
			}
		}
		if !c.exprPure(x.X) {
			c.problem(s, "impure range expression")
		}
		c.stmt(x.Body)
	case *ast.SwitchStmt:
		c.stmt(x.Init)
		if x.Tag != nil && !c.exprPure(x.Tag) {
			c.problem(s, "impure switch tag")
		}
		if to := c.objOf(x.Tag); x.Tag != nil && to != nil && c.keyObjs[to] {
			// switch on the loop key: a case with loop-invariant labels is taken by at most
			// len(labels) distinct keys, each label by exactly one iteration
			for _, cl := range x.Body.List {
				cc := cl.(*ast.CaseClause)
				inv := len(cc.List) == 1 && !c.mentionsLoopLocal(cc.List[0])
				if inv {
					c.single++
				}
				c.stmts(cc.Body)
				if inv {
					c.single--
				}
			}
			return
		}
		c.stmt(x.Body)
	case *ast.TypeSwitchStmt:
		c.stmt(x.Init)
		if as, ok := x.Assign.(*ast.AssignStmt); ok {
			for _, l := range as.Lhs {
				c.declare(l)
			}
		}
		// implicit objects per clause
		for _, cl := range x.Body.List {
			if o := c.pkg.TypesInfo.Implicits[cl]; o != nil {
				c.localObjs[o] = true
			}
		}
		c.stmt(x.Body)
	case *ast.CaseClause:
		for _, e := range x.List {
			if !c.exprPure(e) {
				c.problem(s, "impure case expression")
			}
		}
		c.stmts(x.Body)
	case *ast.BranchStmt:
		switch x.Tok {
		case token.CONTINUE:
		case token.BREAK:
			// which iteration breaks depends on order; fine only if nothing order-relevant is
			// accumulated (existence test setting a constant flag)
			c.problem(s, "break out of a map iteration (which element stops the loop depends on order)")
		default:
			c.problem(s, "goto/fallthrough in map iteration")
		}
	case *ast.ReturnStmt:
		if c.inCallee > 0 {
			// the helper's result is discarded at the call statement; leaving it early reorders nothing
			for _, r := range x.Results {
				if !c.exprPure(r) {
					c.problem(s, "impure result expression %s", types.ExprString(r))
				}
			}
			return
		}
		for _, r := range x.Results {
			if !isConstExpr(c.pkg, r) {
				c.problem(s, "return of a loop-dependent value %s (first match depends on order)", types.ExprString(r))
			}
		}
	case *ast.GoStmt:
		c.problem(s, "goroutine started per map element")
	case *ast.DeferStmt:
		c.problem(s, "defer inside map iteration")
	case *ast.LabeledStmt:
		c.stmt(x.Stmt)
	case *ast.SendStmt:
		c.problem(s, "channel send inside map iteration")
	default:
		c.problem(s, "unhandled statement %T", s)
	}
}

// sortedAfter reports whether, after the loop, the function sorts the slice object.
func sortedAfter(pkg *packages.Package, fnBody *ast.BlockStmt, loop *ast.RangeStmt, obj types.Object) (string, bool) {
	found := ""
	ast.Inspect(fnBody, func(n ast.Node) bool {
		call, ok := n.(*ast.CallExpr)
		if !ok || call.Pos() < loop.End() || found != "" {
			return true
		}
		name := ""
		switch f := call.Fun.(type) {
		case *ast.SelectorExpr:
			name = types.ExprString(f)
		case *ast.Ident:
			name = f.Name
		}
		if !strings.Contains(strings.ToLower(name), "sort") {
			return true
		}
		// the slice must occur in the arguments (or as receiver)
		uses := false
		check := func(e ast.Expr) {
			ast.Inspect(e, func(m ast.Node) bool {
				if id, ok := m.(*ast.Ident); ok && pkg.TypesInfo.Uses[id] == obj {
					uses = true
				}
				return true
			})
		}
		for _, a := range call.Args {
			check(a)
		}
		if sel, ok := call.Fun.(*ast.SelectorExpr); ok {
			check(sel.X)
		}
		if uses {
			found = name
		}
		return true
	})
	return found, found != ""
}

func collectMapLoops(p *Prog) []*mapLoop {
	var out []*mapLoop
	pur := newPurity(p)
	frzProg = p
	for _, pk := range p.Pkgs {
		if !strings.HasPrefix(pk.PkgPath, modPath) || strings.HasSuffix(pk.PkgPath, "/internal/test") {
			continue
		}
		for _, file := range pk.Syntax {
			for _, d := range file.Decls {
				fd, ok := d.(*ast.FuncDecl)
				if !ok || fd.Body == nil {
					continue
				}
				name := declName(p, pk.PkgPath, fd)
				ordinal := map[string]int{}
				ast.Inspect(fd.Body, func(n ast.Node) bool {
					rs, ok := n.(*ast.RangeStmt)
					if !ok {
						return true
					}
					t := pk.TypesInfo.TypeOf(rs.X)
					if t == nil {
						return true
					}
					mt, isMap := t.Underlying().(*types.Map)
					if !isMap {
						return true
					}
					src := "local"
					switch e := rs.X.(type) {
					case *ast.SelectorExpr:
						src = e.Sel.Name
					case *ast.Ident:
						if o := pk.TypesInfo.Uses[e]; o != nil {
							if v, ok := o.(*types.Var); ok && (v.IsField() || v.Parent() == pk.Types.Scope()) {
								src = e.Name
							} else if v, ok := o.(*types.Var); ok && isParam(fd, pk, v) {
								src = "param " + e.Name
							}
						}
					case *ast.CallExpr:
						src = "call " + types.ExprString(e.Fun)
					}
					key := fmt.Sprintf("%s range %s:%s", name, src, shortType(mt))
					ordinal[key]++
					if ordinal[key] > 1 {
						key = fmt.Sprintf("%s #%d", key, ordinal[key])
					}
					ml := &mapLoop{pkg: pk, fnName: name, fnDecl: fd, body: fd.Body, rng: rs, key: key}
					classifyLoop(p, pur, ml)
					out = append(out, ml)
					return true
				})
			}
		}
	}
	return out
}

func isParam(fd *ast.FuncDecl, pk *packages.Package, v *types.Var) bool {
	if fd.Type.Params == nil {
		return false
	}
	for _, f := range fd.Type.Params.List {
		for _, n := range f.Names {
			if pk.TypesInfo.Defs[n] == v {
				return true
			}
		}
	}
	return false
}

func shortType(t types.Type) string {
	return types.TypeString(t, func(p *types.Package) string { return shortPkg(p.Path()) })
}

func classifyLoop(p *Prog, pur *purity, ml *mapLoop) {
	c := &ordCtx{keyObjs: map[types.Object]bool{}, prog: p, pur: pur, pkg: ml.pkg, loop: ml.rng, localObjs: map[types.Object]bool{}, appended: map[types.Object]token.Pos{}}
	if id, ok := ml.rng.Key.(*ast.Ident); ok && ml.rng.Tok == token.DEFINE {
		c.keyObj = ml.pkg.TypesInfo.Defs[id]
		if c.keyObj != nil {
			c.localObjs[c.keyObj] = true
			c.keyObjs[c.keyObj] = true
		}
	}
	if id, ok := ml.rng.Value.(*ast.Ident); ok && ml.rng.Tok == token.DEFINE {
		c.valObj = ml.pkg.TypesInfo.Defs[id]
		if c.valObj != nil {
			c.localObjs[c.valObj] = true
		}
	}
	c.stmt(ml.rng.Body)
	for obj, pos := range c.appended {
		if name, ok := sortedAfter(ml.pkg, ml.body, ml.rng, obj); ok {
			ml.sorted = append(ml.sorted, obj.Name()+" sorted by "+name)
		} else {
			p := ml.pkg.Fset.Position(pos)
			c.problems = append(c.problems, fmt.Sprintf("line %d: slice %s collects map elements but is not sorted afterwards in this function", p.Line, obj.Name()))
		}
	}
	ml.problems = c.problems
	switch {
	case len(c.problems) > 0:
		ml.kind = "unresolved"
	case len(ml.sorted) > 0:
		ml.kind = "collect-then-sort"
	case c.loggerOK > 0:
		ml.kind = "located-diagnostics-only"
	default:
		ml.kind = "commutative"
	}
}
