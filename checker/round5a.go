package main

import (
	"fmt"
	"go/token"
	"sort"
	"strings"

	"golang.org/x/tools/go/ssa"
)

// ---------------------------------------------------------------------------------------------
// C11/R8 main-field-not-recursive.
//
// Node's LOAD_AS_DIRECTORY(X) reads X/package.json once: M = X + main; LOAD_AS_FILE(M);
// LOAD_INDEX(M); LOAD_INDEX(X). LOAD_INDEX never looks at a package.json, so "main" is applied at
// most once per directory. The resolver's loadAsMainField is the M part; it must therefore not
// reach loadAsDirectory (which would apply the nested directory's own main fields) or itself.
func c11MainFieldNotRecursive(p *Prog) *RuleResult {
	r := NewRule("C11/R8 main-field-not-recursive", "resolving a package's main field never applies the main fields of the directory it points to: loadAsMainField reaches neither loadAsDirectory nor itself")
	mf := p.FindFunc("resolver.(resolverQuery).loadAsMainField")
	ld := p.FindFunc("resolver.(resolverQuery).loadAsDirectory")
	if !r.Anchor("resolver.(resolverQuery).loadAsMainField", mf != nil) || !r.Anchor("resolver.(resolverQuery).loadAsDirectory", ld != nil) {
		return r
	}
	cg := p.CallGraph()
	var roots []*ssa.Function
	seenRoot := map[*ssa.Function]bool{}
	selfCall := false
	for _, f := range withClosures(mf) {
		if n := cg.Nodes[f]; n != nil {
			for _, e := range n.Out {
				c := e.Callee.Func
				if c == mf {
					selfCall = true
				}
				if p.InModule(c) && !seenRoot[c] && TopFunc(c) != mf {
					seenRoot[c] = true
					roots = append(roots, c)
				}
			}
		}
	}
	if !r.Anchor("module callees of loadAsMainField", len(roots) >= 2) {
		return r
	}
	// building a directory's info may resolve the `extends` of a tsconfig.json, which is an independent
	// resolution with its own query; the traversal does not enter the directory-info cache
	reach := p.reachableFrom(roots, func(f *ssa.Function) bool {
		return !p.InModule(f) || strings.HasSuffix(FuncName(f), ").dirInfoCached") || strings.HasSuffix(FuncName(f), ").dirInfoUncached")
	})
	for _, tgt := range []*ssa.Function{ld, mf} {
		r.Instances++
		key := "loadAsMainField does not reach " + FuncName(tgt)
		if tgt == mf && selfCall {
			r.Fail(key, p.Pos(mf.Pos()), "loadAsMainField (or a closure inside it) calls loadAsMainField again: the main fields of the directory a main field points to are applied (Node applies main once and then only probes index files)")
			continue
		}
		if _, ok := reach[tgt]; ok {
			r.Fail(key, p.Pos(mf.Pos()), "call chain "+FuncName(mf)+" → "+chainTo(reach, tgt)+": the directory a main field points to is resolved as a package root again, so its own package.json main fields are applied (Node applies main once and then only probes index files)")
		} else {
			r.OK(key, true, fmt.Sprintf("not among the %d functions reachable from its module callees", len(reach)))
		}
	}
	r.Floor(2)
	return r
}

// ---------------------------------------------------------------------------------------------
// C12/R7 tracker-reset-is-total.
//
// The shorthand trackers of the CSS minifier (margin/padding/inset, border-radius) remember, per
// side, the last longhand declaration seen, and replace the four of them by one shorthand placed
// where the *last remembered side* was declared. A declaration that cannot take part (var(),
// inherit, !important mismatch, …) stays in the output where it is; everything remembered before it
// must be forgotten, because a shorthand assembled across it would be emitted on one side of it and
// override, or be overridden by, a declaration it used to follow/precede. Forgetting is therefore a
// store of the zero value to the *whole* state array; an element of the array is only ever stored
// a freshly built non-zero entry.
func c12TrackerResetTotal(p *Prog) *RuleResult {
	r := NewRule("C12/R7 tracker-reset-is-total", "a CSS shorthand tracker forgets all four sides at once: no store of a zero value into a single element of a tracker's state array")
	pkg := p.ByPath[modPath+"/internal/css_parser"]
	if !r.Anchor("package css_parser", pkg != nil) {
		return r
	}
	whole, elems := 0, 0
	wholeOf, elemOf := map[string]bool{}, map[string]bool{} // tracker types with a whole-array reset / an element store
	for _, fn := range p.ModuleFuncs() {
		if pkgPathOf(fn) != modPath+"/internal/css_parser" {
			continue
		}
		eachInstr(fn, func(b *ssa.BasicBlock, in ssa.Instruction) {
			st, ok := in.(*ssa.Store)
			if !ok {
				return
			}
			isTrackerArray := func(fa *ssa.FieldAddr) bool {
				owner := namedTypeName(fa.X.Type())
				if !strings.HasSuffix(owner, "Tracker") || !strings.HasPrefix(owner, "css_parser.") {
					return false
				}
				return strings.HasPrefix(typeOfFieldAddr(fa), "[4]")
			}
			isZero := func(v ssa.Value) bool {
				switch x := v.(type) {
				case *ssa.Const:
					return x.Value == nil
				case *ssa.UnOp:
					if al, ok := x.X.(*ssa.Alloc); ok && x.Op == token.MUL {
						// load of a local that is never written: zero value
						if al.Referrers() != nil {
							for _, rf := range *al.Referrers() {
								switch rf.(type) {
								case *ssa.UnOp, *ssa.DebugRef:
								default:
									return false
								}
							}
						}
						return true
					}
				}
				return false
			}
			switch a := st.Addr.(type) {
			case *ssa.FieldAddr:
				if isTrackerArray(a) && isZero(st.Val) {
					whole++
					wholeOf[namedTypeName(a.X.Type())] = true
				}
			case *ssa.IndexAddr:
				fa, ok := a.X.(*ssa.FieldAddr)
				if !ok || !isTrackerArray(fa) {
					return
				}
				elems++
				elemOf[namedTypeName(fa.X.Type())] = true
				r.Instances++
				key := FuncName(fn) + " stores into one element of " + namedTypeName(fa.X.Type()) + "." + fieldAddrName(fa)
				if isZero(st.Val) {
					r.Fail(key, p.Pos(st.Pos()), "one side of the tracker is cleared while the others stay remembered: a later longhand completes the quad again and the shorthand is emitted on the other side of the declaration that could not be merged, changing which declaration wins")
				} else {
					r.OK(key, true, "stores a freshly built entry")
				}
			}
		})
	}
	r.Instances += whole
	for i := 0; i < whole; i++ {
		r.OK(fmt.Sprintf("whole-array reset #%d", i+1), true, "zero value stored to the whole state array")
	}
	// every tracker type whose elements are stored has a way to forget all of them (the resets may be
	// written at each site or once in a method of the tracker)
	allHaveReset := len(elemOf) >= 2
	for t := range elemOf {
		if !wholeOf[t] {
			allHaveReset = false
		}
	}
	if !r.Anchor("tracker state stores (whole-array resets and element stores)", allHaveReset && elems >= 2) {
		return r
	}
	r.Floor(4)
	return r
}

func typeOfFieldAddr(fa *ssa.FieldAddr) string {
	t := fa.Type().String() // pointer to field type
	return strings.TrimPrefix(t, "*")
}

// ---------------------------------------------------------------------------------------------
// C18/R9 hash-test-on-substituted-template.
//
// Whether a content hash is computed for a name is decided by `HasPlaceholder(T, HashPlaceholder)`;
// the name is then produced by `SubstituteTemplate(T', {Hash: …})`. If T and T' are not the same
// template, a template with `[hash]` can be substituted with an empty hash, and two different
// contents get one name.
func sameValueOrCell(a, b ssa.Value) bool {
	if a == b {
		return true
	}
	ua, ok1 := a.(*ssa.UnOp)
	ub, ok2 := b.(*ssa.UnOp)
	if !ok1 || !ok2 || ua.Op != token.MUL || ub.Op != token.MUL {
		return false
	}
	ca, cb := addrChain(ua.X), addrChain(ub.X)
	if len(ca) == 0 || len(ca) != len(cb) {
		return false
	}
	for i := range ca {
		if ca[i].Kind != cb[i].Kind || ca[i].Name != cb[i].Name || ca[i].Owner != cb[i].Owner {
			return false
		}
	}
	ra, rb := rootOfChain(ca), rootOfChain(cb)
	if ra == rb {
		return true
	}
	// two loads of the same local/captured cell
	la, ok1 := ra.(*ssa.UnOp)
	lb, ok2 := rb.(*ssa.UnOp)
	return ok1 && ok2 && la.X == lb.X
}

func c18HashTestSameTemplate(p *Prog) *RuleResult {
	r := NewRule("C18/R9 hash-test-on-substituted-template", "the template tested for a [hash] placeholder (to decide whether a content hash is computed) is the very template that is then substituted")
	n := 0
	for _, fn := range p.ModuleFuncs() {
		var tests, substs []*ssa.Call
		eachInstr(fn, func(b *ssa.BasicBlock, in ssa.Instruction) {
			c, ok := in.(*ssa.Call)
			if !ok {
				return
			}
			switch calleeFullName(c) {
			case modPath + "/internal/config.HasPlaceholder":
				tests = append(tests, c)
			case modPath + "/internal/config.SubstituteTemplate":
				substs = append(substs, c)
			}
		})
		if strings.HasPrefix(pkgPathOf(fn), modPath+"/internal/config") {
			continue
		}
		for i, t := range tests {
			n++
			r.Instances++
			key := fmt.Sprintf("%s HasPlaceholder test #%d", FuncName(fn), i+1)
			okk := false
			for _, s := range substs {
				if sameValueOrCell(t.Call.Args[0], s.Call.Args[0]) {
					okk = true
				}
			}
			if okk {
				r.OK(key, true, "the tested template is the argument of a SubstituteTemplate call in the same function")
			} else {
				r.Fail(key, p.Pos(t.Pos()), "the template tested for the [hash] placeholder is not the template that is substituted afterwards: when the two differ (entry-names vs asset-names) a template containing [hash] is filled with an empty hash and two different contents are emitted under one name")
			}
		}
	}
	if !r.Anchor("HasPlaceholder tests outside package config", n >= 2) {
		return r
	}
	r.Floor(2)
	return r
}

// ---------------------------------------------------------------------------------------------
// C02/R6 await-follows-callee-async.
//
// `init_x()` of a lazily-initialised ES module returns a promise exactly when *x* (the module being
// initialised) is async or has an async dependency. Whether the generated call is wrapped in `await`
// must therefore be decided by the flag of the module whose wrapper is called — an await on a
// synchronous module suspends the importer for a microtask turn that native evaluation does not have
// (and an omitted await runs the importer before its dependency has finished).
func c02AwaitFollowsCallee(p *Prog) *RuleResult {
	r := NewRule("C02/R6 await-follows-callee-async", "a generated `await init_x()` is conditional on the async flag of x, the module whose wrapper is called")
	n := 0
	for _, fn := range p.ModuleFuncs() {
		if pkgPathOf(fn) != modPath+"/internal/linker" {
			continue
		}
		eachInstr(fn, func(b *ssa.BasicBlock, in ssa.Instruction) {
			al, ok := in.(*ssa.Alloc)
			if !ok || !al.Heap || namedTypeName(al.Type()) != "js_ast.EAwait" {
				return
			}
			// the value stored into EAwait.Value
			var owners []ssa.Value
			if al.Referrers() == nil {
				return
			}
			deepSlice(al, func(v ssa.Value) bool {
				if f, ok := v.(*ssa.FieldAddr); ok && fieldAddrName(f) == "WrapperRef" {
					if ast, ok := f.X.(*ssa.FieldAddr); ok && fieldAddrName(ast) == "AST" {
						owners = append(owners, ast.X)
					}
				}
				return true
			})
			if len(owners) == 0 {
				return
			}
			n++
			r.Instances++
			key := fmt.Sprintf("%s await of a module wrapper call #%d", FuncName(fn), n)
			var flagOwners []ssa.Value
			for _, ifi := range controlDepIfs(b) {
				sliceCond(ifi.Cond, func(v ssa.Value) bool {
					if f, ok := v.(*ssa.FieldAddr); ok && fieldAddrName(f) == "IsAsyncOrHasAsyncDependency" {
						if meta, ok := f.X.(*ssa.FieldAddr); ok && fieldAddrName(meta) == "Meta" {
							flagOwners = append(flagOwners, meta.X)
						}
					}
					return true
				})
			}
			match := false
			for _, o := range owners {
				for _, f := range flagOwners {
					if o == f || sameValueOrCell(o, f) {
						match = true
					}
				}
			}
			switch {
			case match:
				r.OK(key, true, "conditional on IsAsyncOrHasAsyncDependency of the module whose WrapperRef is called")
			case len(flagOwners) == 0:
				r.Fail(key, p.Pos(al.Pos()), "the await around the wrapper call is not conditional on any module's IsAsyncOrHasAsyncDependency flag")
			default:
				r.Fail(key, p.Pos(al.Pos()), "the await around the wrapper call is decided by the async flag of a different module than the one whose wrapper is called: a synchronous dependency of an async importer is awaited (an extra microtask turn that native evaluation does not have), and an async dependency of a module with a different flag would not be awaited")
			}
		})
	}
	if !r.Anchor("generated awaits of module wrapper calls in the linker", n >= 2) {
		return r
	}
	r.Floor(2)
	return r
}

// deepSlice is backSlice that follows, for local and freshly allocated cells, the values stored
// through arbitrarily nested field/element addresses of the cell (composite literals that are built
// field by field).
func deepSlice(v ssa.Value, visit func(ssa.Value) bool) {
	seen := map[ssa.Value]bool{}
	var walk func(v ssa.Value, depth int)
	var stores func(addr ssa.Value, depth int)
	stores = func(addr ssa.Value, depth int) {
		refs := addr.Referrers()
		if refs == nil || depth > 80 {
			return
		}
		for _, rf := range *refs {
			switch x := rf.(type) {
			case *ssa.Store:
				if x.Addr == addr {
					walk(x.Val, depth+1)
				}
			case *ssa.FieldAddr:
				if x.X == addr && !seen[x] {
					seen[x] = true
					stores(x, depth+1)
				}
			case *ssa.IndexAddr:
				if x.X == addr && !seen[x] {
					seen[x] = true
					stores(x, depth+1)
				}
			}
		}
	}
	walk = func(v ssa.Value, depth int) {
		if v == nil || seen[v] || depth > 80 {
			return
		}
		seen[v] = true
		if !visit(v) {
			return
		}
		if al, ok := v.(*ssa.Alloc); ok {
			stores(al, depth+1)
		}
		in, ok := v.(ssa.Instruction)
		if !ok {
			return
		}
		var ops []*ssa.Value
		for _, op := range in.Operands(ops) {
			if op != nil && *op != nil {
				walk(*op, depth+1)
			}
		}
	}
	walk(v, 0)
}

var _ = sort.Strings

// deepSliceThroughBuilders is deepSlice that also looks inside module functions whose result flows
// into the value (a literal built by a small constructor helper instead of in place): the results of
// every return of such a callee are sliced too, two levels deep.
func deepSliceThroughBuilders(v ssa.Value, visit func(ssa.Value) bool) {
	var run func(v ssa.Value, depth int)
	seenFn := map[*ssa.Function]bool{}
	run = func(v ssa.Value, depth int) {
		deepSlice(v, func(x ssa.Value) bool {
			if !visit(x) {
				return false
			}
			if c, ok := x.(*ssa.Call); ok && depth < 2 {
				if callee := c.Call.StaticCallee(); callee != nil && strings.HasPrefix(pkgPathOf(callee), modPath) && !seenFn[callee] {
					seenFn[callee] = true
					for _, b := range callee.Blocks {
						for _, in := range b.Instrs {
							if ret, ok := in.(*ssa.Return); ok {
								for _, res := range ret.Results {
									run(res, depth+1)
								}
							}
						}
					}
				}
			}
			return true
		})
	}
	run(v, 0)
}

// ---------------------------------------------------------------------------------------------
// C12/R8 logical-aliases-reset-trackers.
//
// `margin-block-start`, `inset-inline`, `border-start-start-radius`, … set the same sides as the
// physical longhands the shorthand trackers remember (which side depends on the writing mode). A
// physical shorthand assembled across such a declaration is emitted on one side of it and flips
// which of the two wins. The declaration loop must therefore forget a family's tracker whenever it
// meets another property of the same family: for each tracker there is a whole-array reset that is
// control dependent on a prefix test of the property name with the family's prefix.
// isWholeTrackerReset: the instruction stores the zero value to the whole [4] state array of the
// tracker tr — directly, or by calling a method of the tracker that does so on every path to its
// return (the reset written once as `func (t *tracker) reset()`).
func isWholeTrackerReset(in ssa.Instruction, tr ssa.Value) bool {
	zeroStoreTo := func(in ssa.Instruction, base ssa.Value) bool {
		st, ok := in.(*ssa.Store)
		if !ok {
			return false
		}
		fa, ok := st.Addr.(*ssa.FieldAddr)
		if !ok || fa.X != base || !strings.HasPrefix(typeOfFieldAddr(fa), "[4]") {
			return false
		}
		c, ok := st.Val.(*ssa.Const)
		return ok && c.Value == nil
	}
	if zeroStoreTo(in, tr) {
		return true
	}
	c, ok := in.(*ssa.Call)
	if !ok || len(c.Call.Args) == 0 || c.Call.Args[0] != tr {
		return false
	}
	callee := c.Call.StaticCallee()
	if callee == nil || len(callee.Blocks) == 0 || len(callee.Params) == 0 || callee.Signature.Recv() == nil {
		return false
	}
	for _, b := range callee.Blocks {
		for _, ci := range b.Instrs {
			if !zeroStoreTo(ci, callee.Params[0]) {
				continue
			}
			all := true
			for _, rb := range callee.Blocks {
				if len(rb.Instrs) > 0 {
					if _, isRet := rb.Instrs[len(rb.Instrs)-1].(*ssa.Return); isRet && !(b == rb || b.Dominates(rb)) {
						all = false
					}
				}
			}
			if all {
				return true
			}
		}
	}
	return false
}

func c12LogicalAliasesReset(p *Prog) *RuleResult {
	r := NewRule("C12/R8 logical-aliases-reset-trackers", "every shorthand tracker of the CSS minifier is reset when a declaration of another property of its family (a logical alias such as margin-block-start) is met")
	ap := p.ByPath[modPath+"/internal/css_ast"]
	if !r.Anchor("package css_ast", ap != nil) {
		return r
	}
	consts := constsOfType(ap.Types, "D")
	families := []struct{ shorthand, prefix string }{
		{"DMargin", "margin-"}, {"DPadding", "padding-"}, {"DInset", "inset-"}, {"DBorderRadius", "border-"},
	}
	var host *ssa.Function
	trackers := map[string]ssa.Value{}
	for _, fn := range p.ModuleFuncs() {
		if pkgPathOf(fn) != modPath+"/internal/css_parser" {
			continue
		}
		found := map[string]ssa.Value{}
		eachInstr(fn, func(b *ssa.BasicBlock, in ssa.Instruction) {
			c, ok := in.(*ssa.Call)
			if !ok || c.Call.StaticCallee() == nil || len(c.Call.Args) == 0 {
				return
			}
			name := c.Call.StaticCallee().Name()
			if name != "mangleSides" && name != "mangleCorners" {
				return
			}
			for _, f := range factsAt(b) {
				bo, ok := f.Cond.(*ssa.BinOp)
				if !ok || bo.Op != token.EQL || !f.True {
					continue
				}
				k, ok := constInt(bo.Y)
				if !ok {
					continue
				}
				for _, fam := range families {
					if v, ok := consts[fam.shorthand]; ok && v == k {
						found[fam.shorthand] = c.Call.Args[0]
					}
				}
			}
		})
		if len(found) > len(trackers) {
			host, trackers = fn, found
		}
	}
	if !r.Anchor("the declaration loop that feeds the four shorthand trackers", host != nil && len(trackers) == 4) {
		return r
	}
	for _, fam := range families {
		r.Instances++
		key := "tracker of " + strings.TrimPrefix(fam.shorthand, "D") + " is reset on other properties named " + fam.prefix + "*"
		tr := trackers[fam.shorthand]
		ok := false
		eachInstr(host, func(b *ssa.BasicBlock, in ssa.Instruction) {
			if !isWholeTrackerReset(in, tr) {
				return
			}
			for _, ifi := range controlDepIfsTransitive(b) {
				sliceCond(ifi.Cond, func(v ssa.Value) bool {
					if call, isCall := v.(*ssa.Call); isCall && calleeFullName(call) == "strings.HasPrefix" && len(call.Call.Args) == 2 {
						if s, isS := constString(call.Call.Args[1]); isS && s == fam.prefix {
							ok = true
						}
					}
					return true
				})
			}
		})
		if ok {
			r.OK(key, true, "whole-array reset control dependent on strings.HasPrefix(name, \""+fam.prefix+"\")")
		} else {
			r.Fail(key, p.Pos(host.Pos()), "no reset of this tracker depends on the property name starting with \""+fam.prefix+"\": a logical alias of a remembered side (e.g. "+fam.prefix+"block-start) does not stop merging, the physical shorthand is emitted after it and overrides it (or before it and is overridden), flipping the cascade winner")
		}
	}
	// `all: …` resets every property, the tracked longhands included
	dAll, okAll := consts["DAll"]
	if r.Anchor("css_ast.DAll", okAll) {
		for _, fam := range families {
			r.Instances++
			key := "tracker of " + strings.TrimPrefix(fam.shorthand, "D") + " is reset by the `all` property"
			tr := trackers[fam.shorthand]
			ok := false
			eachInstr(host, func(b *ssa.BasicBlock, in ssa.Instruction) {
				if !isWholeTrackerReset(in, tr) {
					return
				}
				for _, f := range factsAt(b) {
					if bo, isB := f.Cond.(*ssa.BinOp); isB && bo.Op == token.EQL && f.True {
						if k, isK := constInt(bo.Y); isK && k == dAll {
							ok = true
						}
					}
				}
			})
			if ok {
				r.OK(key, true, "whole-array reset in the case of css_ast.DAll")
			} else {
				r.Fail(key, p.Pos(host.Pos()), "the `all` property resets every longhand, but this tracker keeps what it remembered: `margin-top:1px;all:initial;margin-right:2px;…` is merged into one shorthand placed after `all`, which restores the margin-top that `all` had reset")
			}
		}
	}
	r.Floor(8)
	return r
}

// ---------------------------------------------------------------------------------------------
// C02/R7 esm-wrapper-call-awaitable.
//
// The converse of R6. Wherever the linker generates a call of the wrapper of a lazily-initialised
// ES module x (the site is conditional on x.Meta.Wrap == WrapESM) as a statement of another
// module, the same function must also be able to generate the awaited form, decided by x's async
// flag: `init_x()` of an async module returns a promise, and a bare call lets the importer's body
// run before x (and everything x awaits) has finished.
func c02WrapperCallAwaitable(p *Prog) *RuleResult {
	r := NewRule("C02/R7 esm-wrapper-call-awaitable", "every generated statement that calls the wrapper of a lazily-initialised ES module has an awaited variant selected by that module's async flag")
	gp := p.ByPath[modPath+"/internal/graph"]
	if !r.Anchor("package graph", gp != nil) {
		return r
	}
	wrapESM, ok := constsOfType(gp.Types, "WrapKind")["WrapESM"]
	if !r.Anchor("graph.WrapESM", ok) {
		return r
	}
	n := 0
	for _, fn := range p.ModuleFuncs() {
		if pkgPathOf(fn) != modPath+"/internal/linker" {
			continue
		}
		// owners x for which this function can generate `await wrapper_x()`
		awaited := []ssa.Value{}
		eachInstr(fn, func(b *ssa.BasicBlock, in ssa.Instruction) {
			al, ok := in.(*ssa.Alloc)
			if !ok || namedTypeName(al.Type()) != "js_ast.EAwait" {
				return
			}
			deepSlice(al, func(v ssa.Value) bool {
				if f, ok := v.(*ssa.FieldAddr); ok && fieldAddrName(f) == "WrapperRef" {
					if ast, ok := f.X.(*ssa.FieldAddr); ok && fieldAddrName(ast) == "AST" {
						awaited = append(awaited, ast.X)
					}
				}
				return true
			})
		})
		k := 0
		eachInstr(fn, func(b *ssa.BasicBlock, in ssa.Instruction) {
			al, ok := in.(*ssa.Alloc)
			if !ok || namedTypeName(al.Type()) != "js_ast.ECall" {
				return
			}
			// the call's target is an identifier for x.AST.WrapperRef
			var owner ssa.Value
			if al.Referrers() == nil {
				return
			}
			for _, rf := range *al.Referrers() {
				fa, ok := rf.(*ssa.FieldAddr)
				if !ok || fieldAddrName(fa) != "Target" {
					continue
				}
				deepSlice(fa, func(v ssa.Value) bool { return true })
			}
			deepSliceField(al, "Target", func(v ssa.Value) bool {
				if f, ok := v.(*ssa.FieldAddr); ok && fieldAddrName(f) == "WrapperRef" {
					if ast, ok := f.X.(*ssa.FieldAddr); ok && fieldAddrName(ast) == "AST" {
						owner = ast.X
					}
				}
				return true
			})
			if owner == nil {
				return
			}
			// conditional on owner.Meta.Wrap == WrapESM ?
			isESM := false
			for _, f := range factsAt(b) {
				bo, ok := f.Cond.(*ssa.BinOp)
				if !ok || bo.Op != token.EQL || !f.True {
					continue
				}
				if kv, ok := constInt(bo.Y); !ok || kv != wrapESM {
					continue
				}
				sliceCond(bo.X, func(v ssa.Value) bool {
					if wf, ok := v.(*ssa.FieldAddr); ok && fieldAddrName(wf) == "Wrap" {
						if meta, ok := wf.X.(*ssa.FieldAddr); ok && fieldAddrName(meta) == "Meta" && (meta.X == owner || sameValueOrCell(meta.X, owner)) {
							isESM = true
						}
					}
					return true
				})
			}
			if !isESM {
				return
			}
			n++
			k++
			r.Instances++
			key := fmt.Sprintf("%s generates a call of an ES module wrapper #%d", FuncName(fn), k)
			has := false
			for _, a := range awaited {
				if a == owner || sameValueOrCell(a, owner) {
					has = true
				}
			}
			if has {
				r.OK(key, true, "the function also generates the awaited form for the same module (R6 decides what selects it)")
			} else {
				r.Fail(key, p.Pos(al.Pos()), "a call of a lazily-initialised ES module's wrapper is generated as a bare statement and the function has no awaited variant for it: when that module is async (top-level await, directly or through a dependency) the importer's body runs before the module has finished evaluating")
			}
		})
	}
	if !r.Anchor("generated calls of ES module wrappers in the linker", n >= 2) {
		return r
	}
	r.Floor(2)
	return r
}

// deepSliceField slices only what is stored through one field of a freshly allocated node.
func deepSliceField(al *ssa.Alloc, field string, visit func(ssa.Value) bool) {
	if al.Referrers() == nil {
		return
	}
	for _, rf := range *al.Referrers() {
		fa, ok := rf.(*ssa.FieldAddr)
		if !ok || fieldAddrName(fa) != field {
			continue
		}
		// stores directly to the field and to nested addresses of it
		var rec func(addr ssa.Value, depth int)
		rec = func(addr ssa.Value, depth int) {
			if addr.Referrers() == nil || depth > 20 {
				return
			}
			for _, rr := range *addr.Referrers() {
				switch x := rr.(type) {
				case *ssa.Store:
					if x.Addr == addr {
						deepSlice(x.Val, visit)
					}
				case *ssa.FieldAddr:
					if x.X == addr {
						rec(x, depth+1)
					}
				case *ssa.IndexAddr:
					if x.X == addr {
						rec(x, depth+1)
					}
				}
			}
		}
		rec(fa, 0)
	}
}

// ---------------------------------------------------------------------------------------------
// C02/R8 require-of-tla-diagnosed-for-every-requirer.
//
// `require()` cannot wait for a module that uses top-level await (directly or through static
// imports); bundling it anyway hands the requirer a namespace whose module has not finished
// evaluating. reportInvalidTLA is where that is diagnosed. Whether a `require` record is reported
// may depend on the *required* file being on a top-level-await chain, never on the *requiring* file
// being on one: a plain CommonJS file that requires such a module is the common case.
func c02RequireOfTLADiagnosed(p *Prog) *RuleResult {
	r := NewRule("C02/R8 require-of-tla-diagnosed-for-every-requirer", "the diagnostic for require() of a module on a top-level-await chain does not depend on the requiring file itself being on such a chain")
	fn := p.FindFunc("bundler.(*scanner).reportInvalidTLA")
	if !r.Anchor("bundler.(*scanner).reportInvalidTLA", fn != nil) {
		return r
	}
	n := 0
	eachInstr(fn, func(b *ssa.BasicBlock, in ssa.Instruction) {
		c, ok := in.(*ssa.Call)
		if !ok || !strings.HasSuffix(calleeFullName(c), "logger.Log).AddErrorWithNotes") {
			return
		}
		n++
		r.Instances++
		key := fmt.Sprintf("reportInvalidTLA error #%d is independent of the requirer's own chain", n)
		bad := ""
		for _, ifi := range controlDepIfsTransitive(b) {
			sliceCond(ifi.Cond, func(v ssa.Value) bool {
				fa, ok := v.(*ssa.FieldAddr)
				if !ok || fieldAddrName(fa) != "parent" {
					return true
				}
				// fa.X = &<elem>.tlaCheck ; <elem> = &s.results[i]
				tc, ok := fa.X.(*ssa.FieldAddr)
				if !ok || fieldAddrName(tc) != "tlaCheck" {
					return true
				}
				if ia, ok := tc.X.(*ssa.IndexAddr); ok {
					if ph, ok := ia.Index.(*ssa.Phi); ok && ph.Comment == "rangeindex" {
						bad = p.Pos(fa.Pos())
					}
					if bo, ok := ia.Index.(*ssa.BinOp); ok {
						if ph, ok := bo.X.(*ssa.Phi); ok && ph.Comment == "rangeindex" {
							bad = p.Pos(fa.Pos())
						}
					}
				}
				return true
			})
		}
		if bad == "" {
			r.OK(key, true, "no controlling condition reads tlaCheck.parent of the file whose records are being examined")
		} else {
			r.Fail(key, p.Pos(c.Pos()), "the require() diagnostic is only reached when the requiring file itself has a top-level-await parent (condition at "+bad+"): a file that merely requires a module with top-level await is bundled without an error and receives the module's namespace before the module has finished evaluating")
		}
	})
	if !r.Anchor("the require() diagnostic in reportInvalidTLA", n >= 1) {
		return r
	}
	r.Floor(1)
	return r
}
