package main

import (
	"fmt"
	"go/token"
	"sort"
	"strings"

	"golang.org/x/tools/go/ssa"
)

// C03/R8 coercion tables.
//
// Three small classifiers of js_ast license compile-time evaluation of conditions:
//   ToBooleanWithSideEffects(e)          -> (truthiness of e, may e have side effects, known?)
//   ToNullOrUndefinedWithSideEffects(e)  -> (is e null/undefined, side effects, known?)
//   TypeofWithoutSideEffects(e)          -> (typeof e, known?)
// Their answers drive `if (x) …` / `x ? a : b` / `x ?? y` / `x && y` / `typeof x === "…"` folding,
// dead-branch removal, and (through the side-effect bit) whether the tested operand is dropped.
// Like KnownPrimitiveType they look at their argument only through type tests, operator
// comparisons, a few flags and their own recursive answers, so their behaviour is a finite table
// that E-ENUM extracts from the SSA form (lenient mode: a literal's value, a flag or a recursive
// answer is an uninterpreted, named quantity on which the walk forks). Every row that claims to know
// the answer (last result true) is compared with ECMAScript (ToBoolean §7.1.2, typeof §13.5.3, the
// value ranges of the operators §13.5–§13.15):
//   - a constant answer must be the answer for every value of that kind / operator, given the
//     decisions taken on the path (e.g. "right operand known truthy");
//   - an answer computed from the literal's value is allowed only for the four literal kinds
//     whose truthiness depends on the value; an answer forwarded from an operand only where the
//     operator returns that operand (comma, annotation, inlined enum; negated under `!`);
//   - "no side effects" may be claimed only for leaf kinds (literals, functions, regexps),
//     `typeof identifier`, an annotation flagged removable, or forwarded from the operand of
//     `!`/annotation/inlined enum.
// A row that declines (known = false) is always sound. Nothing is executed.

type c03Row struct {
	kind, op string
	labels   []string
	o        enumOutcome
}

func (row c03Row) has(l string) bool {
	for _, x := range row.labels {
		if x == l {
			return true
		}
	}
	return false
}

func c03Describe(self string) func(e *enumEvaluator, s *enumState, v ssa.Value) (string, bool) {
	var d func(e *enumEvaluator, s *enumState, v ssa.Value) (string, bool)
	d = func(e *enumEvaluator, s *enumState, v ssa.Value) (string, bool) {
		if a, ok := s.alias[v]; ok && a != v {
			v = a
		}
		switch x := v.(type) {
		case *ssa.Extract:
			if c, ok := x.Tuple.(*ssa.Call); ok && FuncNameOf(c) == self && len(c.Call.Args) > 0 {
				return fmt.Sprintf("rec(%s)#%d", e.roleOf(s, c.Call.Args[0]), x.Index), true
			}
		case *ssa.UnOp:
			if x.Op == token.NOT {
				if dd, ok := d(e, s, x.X); ok {
					return "!" + dd, true
				}
			}
			if x.Op == token.MUL {
				root, path := purePath(x)
				if s.kindVal != nil && root == s.kindVal && len(path) > 0 {
					return "field:" + strings.Join(path, "."), true
				}
			}
		case *ssa.Call:
			name := FuncNameOf(x)
			if strings.HasSuffix(name, ".Has") && len(x.Call.Args) == 2 {
				root, path := purePath(x.Call.Args[0])
				if s.kindVal != nil && root == s.kindVal {
					if cv, ok := constInt(x.Call.Args[1]); ok {
						return fmt.Sprintf("%s.Has(%d)", strings.Join(path, "."), cv), true
					}
				}
			}
		}
		return "", false
	}
	return d
}

var c03LeafNoEffects = map[string]bool{"ENull": true, "EUndefined": true, "EBoolean": true, "ENumber": true, "EBigInt": true, "EString": true, "EFunction": true, "EArrow": true, "ERegExp": true}

// value ranges: kinds/operators whose value is never null or undefined
var c03NeverNullishKinds = map[string]bool{"EBoolean": true, "ENumber": true, "EBigInt": true, "EString": true, "ERegExp": true, "EFunction": true, "EArrow": true, "EObject": true, "EArray": true, "EClass": true, "ENew": true, "ETemplate": false}
var c03NeverNullishUnary = map[string]bool{"UnOpPos": true, "UnOpNeg": true, "UnOpCpl": true, "UnOpPreDec": true, "UnOpPreInc": true, "UnOpPostDec": true, "UnOpPostInc": true, "UnOpNot": true, "UnOpDelete": true, "UnOpTypeof": true}

func c03NeverNullishBinary(op string) bool {
	base := strings.TrimSuffix(op, "Assign")
	if op == "BinOpAssign" {
		return false
	}
	return c03CompareOps[op] || c03ArithOps[base] || base == "BinOpAdd" || base == "BinOpUShr"
}

// always truthy (objects and functions; typeof yields a non-empty string)
var c03AlwaysTruthyKinds = map[string]bool{"EFunction": true, "EArrow": true, "ERegExp": true, "EObject": true, "EArray": true, "EClass": true, "ENew": true}

var c03TypeofOf = map[string]string{"ENull": "object", "EUndefined": "undefined", "EBoolean": "boolean", "ENumber": "number", "EBigInt": "bigint", "EString": "string", "EFunction": "function", "EArrow": "function", "EClass": "function", "EObject": "object", "EArray": "object", "ERegExp": "object"}

func c03Coercion(p *Prog) *RuleResult {
	r := NewRule("C03/R8 coercion-tables", "every row of the finite behaviour tables of ToBooleanWithSideEffects, ToNullOrUndefinedWithSideEffects and TypeofWithoutSideEffects that claims a known answer gives ECMAScript's answer for every value of that node kind / operator, and claims 'no side effects' only for leaf kinds, `typeof identifier` and removable annotations")
	pk := p.ByPath[modPath+"/internal/js_ast"]
	if !r.Anchor("package js_ast", pk != nil) {
		return r
	}
	opc := constsOfType(pk.Types, "OpCode")
	opNames := map[int64]string{}
	for n, v := range opc {
		if strings.HasPrefix(n, "UnOp") || strings.HasPrefix(n, "BinOp") {
			opNames[v] = n
		}
	}
	se := constsOfType(pk.Types, "SideEffects")
	noSE, ok1 := se["NoSideEffects"]
	couldSE, ok2 := se["CouldHaveSideEffects"]
	if !r.Anchor("js_ast.NoSideEffects / CouldHaveSideEffects", ok1 && ok2 && len(se) == 2) {
		return r
	}
	_ = couldSE
	af := constsOfType(pk.Types, "AnnotationFlags")
	removable, ok3 := af["CanBeRemovedIfUnusedFlag"]
	if !r.Anchor("js_ast.CanBeRemovedIfUnusedFlag", ok3) {
		return r
	}
	removableT := fmt.Sprintf("Flags.Has(%d)=T", removable)

	table := func(name string) ([]c03Row, bool) {
		fn := p.FindFunc(name)
		if !r.Anchor(name, fn != nil) {
			return nil, false
		}
		cfg := &enumCfg{recursive: map[string]bool{}, inlined: map[string]func() []enumOutcome{}, lenient: true, opConsts: opNames, opField: "Op", describe: c03Describe(name)}
		outs, problems := enumEvaluate(p, fn, cfg)
		for _, pr := range problems {
			r.Instances++
			r.Fail(name+" undecidable: "+pr, "", "the classifier is no longer a finite table over type tests, operator comparisons, flags and recursive answers at "+pr)
		}
		var rows []c03Row
		for _, o := range outs {
			rows = append(rows, c03Row{o.kind, o.op, o.labels, o})
		}
		return rows, len(problems) == 0
	}
	rowName := func(fn string, row c03Row) string {
		n := fn + " " + row.kind
		if row.kind == "" {
			n = fn + " (any other kind)"
		}
		if row.op != "" {
			n += " " + row.op
		} else if row.kind == "EUnary" || row.kind == "EBinary" {
			n += " (any other operator)"
		}
		if len(row.labels) > 0 {
			n += " [" + strings.Join(row.labels, ",") + "]"
		}
		return n
	}
	// side-effect answer: results[idx] with description descs[idx]
	checkSE := func(row c03Row, idx int) string {
		res, desc := row.o.results[idx], row.o.descs[idx]
		if res.known && res.val != noSE {
			return "" // "could have side effects" is always sound
		}
		if !res.known {
			// forwarded from the operand: sound where the node evaluates exactly that operand and nothing else
			// (`!x`, `void x`, `typeof x` run no code besides evaluating x)
			fwd := fmt.Sprintf("rec(Value)#%d", idx)
			if desc == fwd && (row.kind == "EAnnotation" || row.kind == "EInlinedEnum" || (row.kind == "EUnary" && (row.op == "UnOpNot" || row.op == "UnOpVoid" || row.op == "UnOpTypeof"))) {
				return ""
			}
			return "the side-effect answer is computed (" + desc + ") in a way this rule has no reference for"
		}
		switch {
		case c03LeafNoEffects[row.kind]:
			return ""
		case row.kind == "EUnary" && row.op == "UnOpTypeof" && row.has("field:WasOriginallyTypeofIdentifier=T"):
			return ""
		case row.kind == "EAnnotation" && row.has(removableT):
			return ""
		}
		return "claims the expression has no side effects, but evaluating this kind of node can run arbitrary code (its operands are not inspected)"
	}
	finishRows := func(fnName string, rows []c03Row, judge func(row c03Row) (bad string, claims bool)) {
		type agg struct {
			bad    string
			claims int
			paths  int
			pos    token.Pos
		}
		byName := map[string]*agg{}
		var names []string
		for _, row := range rows {
			n := rowName(fnName, row)
			a := byName[n]
			if a == nil {
				a = &agg{}
				byName[n] = a
				names = append(names, n)
			}
			a.paths++
			bad, claims := judge(row)
			if claims {
				a.claims++
			}
			if bad != "" && a.bad == "" {
				a.bad, a.pos = bad, row.o.pos
			}
		}
		sort.Strings(names)
		for _, n := range names {
			a := byName[n]
			if a.claims == 0 && a.bad == "" {
				continue // the row declines: nothing to decide
			}
			r.Instances++
			if a.bad != "" {
				r.Fail(n, p.Pos(a.pos), a.bad)
			} else {
				r.OK(n, true, fmt.Sprintf("%d path(s), %d claim an answer, all as ECMAScript prescribes", a.paths, a.claims))
			}
		}
	}
	boolStr := func(v int64) string {
		if v != 0 {
			return "true"
		}
		return "false"
	}

	// Three-valued reference semantics. tv: 0 = false, 1 = true, 2 = not determined by what is known.
	tvNot := func(a int) int {
		if a == 2 {
			return 2
		}
		return 1 - a
	}
	tvOr := func(a, b int) int {
		if a == 1 || b == 1 {
			return 1
		}
		if a == 0 && b == 0 {
			return 0
		}
		return 2
	}
	tvAnd := func(a, b int) int {
		if a == 0 || b == 0 {
			return 0
		}
		if a == 1 && b == 1 {
			return 1
		}
		return 2
	}
	same := func(a, b int) int {
		if a == b {
			return a
		}
		return 2
	}
	get := func(in map[string]int, role string) int {
		if v, ok := in[role]; ok {
			return v
		}
		return 2
	}
	// truthiness of a node given the truthiness of its operands (ECMA-262 ToBoolean and the
	// value each operator returns). "V" kinds are handled by the caller.
	truthy := func(row c03Row, in map[string]int) int {
		switch row.kind {
		case "ENull", "EUndefined":
			return 0
		case "EAnnotation", "EInlinedEnum":
			return get(in, "Value")
		case "EIf":
			return same(get(in, "Yes"), get(in, "No"))
		case "EUnary":
			switch row.op {
			case "UnOpVoid":
				return 0
			case "UnOpTypeof":
				return 1
			case "UnOpNot":
				return tvNot(get(in, "Value"))
			}
		case "EBinary":
			l, rr := get(in, "Left"), get(in, "Right")
			switch row.op {
			case "BinOpLogicalOr":
				return tvOr(l, rr)
			case "BinOpLogicalAnd":
				return tvAnd(l, rr)
			case "BinOpComma", "BinOpAssign":
				return rr
			}
		default:
			if c03AlwaysTruthyKinds[row.kind] {
				return 1
			}
		}
		return 2
	}
	// is the node's value null or undefined, given the same for its operands
	nullish := func(row c03Row, in map[string]int) int {
		switch row.kind {
		case "ENull", "EUndefined":
			return 1
		case "EAnnotation", "EInlinedEnum":
			return get(in, "Value")
		case "EIf":
			return same(get(in, "Yes"), get(in, "No"))
		case "EUnary":
			if row.op == "UnOpVoid" {
				return 1
			}
			if c03NeverNullishUnary[row.op] {
				return 0
			}
		case "EBinary":
			l, rr := get(in, "Left"), get(in, "Right")
			switch {
			case row.op == "BinOpComma" || row.op == "BinOpAssign":
				return rr
			case row.op == "BinOpNullishCoalescing":
				return tvAnd(l, rr)
			case row.op == "BinOpLogicalOr":
				// a nullish left operand is falsy, so the right one is returned; a non-nullish left may be returned
				if rr == 0 {
					return 0 // the left operand is only returned when it is truthy
				}
				if l == 1 {
					return rr
				}
				return 2
			case row.op == "BinOpLogicalAnd":
				if l == 1 {
					return 1
				}
				return same(l, rr)
			case row.op != "" && c03NeverNullishBinary(row.op):
				return 0
			}
		default:
			if c03NeverNullishKinds[row.kind] {
				return 0
			}
		}
		return 2
	}
	// judge3 compares one row of a (value, sideEffects, known) classifier with a reference.
	judge3 := func(row c03Row, what string, valueDependent map[string]bool, ref func(c03Row, map[string]int) int) (string, bool) {
		o := row.o
		if len(o.results) != 3 {
			return "unexpected result arity", true
		}
		okR := o.results[2]
		if okR.known && okR.val == 0 {
			return "", false
		}
		// operands whose answer is known on this path
		consulted := map[string][]int{}
		for _, l := range row.labels {
			if strings.HasPrefix(l, "rec(") && strings.HasSuffix(l, ")#2=T") {
				consulted[strings.TrimSuffix(strings.TrimPrefix(l, "rec("), ")#2=T")] = []int{0, 1}
			}
		}
		if !okR.known {
			d := o.descs[2]
			if strings.HasPrefix(d, "rec(") && strings.HasSuffix(d, ")#2") {
				// known exactly when the operand's answer is known: decide the case in which it is
				consulted[strings.TrimSuffix(strings.TrimPrefix(d, "rec("), ")#2")] = []int{0, 1}
			} else if !valueDependent[row.kind] {
				return "the 'known' answer is computed (" + d + ") in a way this rule has no reference for", true
			}
		}
		for role := range consulted {
			if row.has("rec(" + role + ")#0=T") {
				consulted[role] = []int{1}
			} else if row.has("rec(" + role + ")#0=F") {
				consulted[role] = []int{0}
			}
		}
		if bad := checkSE(row, 1); bad != "" {
			return bad, true
		}
		val, desc := o.results[0], o.descs[0]
		if valueDependent[row.kind] {
			if val.known && len(row.labels) == 0 {
				// (a constant on a path that branched on the literal's value is a computed answer)
				return "claims the constant answer " + boolStr(val.val) + " for a literal whose " + what + " depends on its value (0, NaN, 0n, \"\" and false are falsy)", true
			}
			return "", true
		}
		var roles []string
		for role := range consulted {
			roles = append(roles, role)
		}
		sort.Strings(roles)
		bad := ""
		var rec func(i int, in map[string]int)
		rec = func(i int, in map[string]int) {
			if bad != "" {
				return
			}
			if i < len(roles) {
				for _, v := range consulted[roles[i]] {
					in[roles[i]] = v
					rec(i+1, in)
				}
				delete(in, roles[i])
				return
			}
			want := ref(row, in)
			given := ""
			for _, role := range roles {
				given += fmt.Sprintf(" %s=%s", role, boolStr(int64(in[role])))
			}
			if given != "" {
				given = " (operand answers:" + given + ")"
			}
			if want == 2 {
				bad = "claims to know the " + what + " of this kind of expression" + given + "; ECMAScript gives no answer that holds for every such expression"
				return
			}
			claimed := -1
			switch {
			case val.known:
				claimed = int(val.val)
			case strings.HasPrefix(desc, "rec(") && strings.HasSuffix(desc, ")#0"):
				if v, ok := in[strings.TrimSuffix(strings.TrimPrefix(desc, "rec("), ")#0")]; ok {
					claimed = v
				}
			case strings.HasPrefix(desc, "!rec(") && strings.HasSuffix(desc, ")#0"):
				if v, ok := in[strings.TrimSuffix(strings.TrimPrefix(desc, "!rec("), ")#0")]; ok {
					claimed = 1 - v
				}
			}
			if claimed < 0 {
				bad = "returns a computed " + what + " (" + desc + ") that this rule cannot relate to the operands" + given
				return
			}
			if claimed != want {
				bad = fmt.Sprintf("claims %s = %s%s; ECMAScript gives %s for every such expression", what, boolStr(int64(claimed)), given, boolStr(int64(want)))
			}
		}
		rec(0, map[string]int{})
		return bad, true
	}

	// --- ToBooleanWithSideEffects -------------------------------------------------------------
	if rows, ok := table("js_ast.ToBooleanWithSideEffects"); ok {
		vd := map[string]bool{"EBoolean": true, "ENumber": true, "EBigInt": true, "EString": true}
		finishRows("ToBoolean", rows, func(row c03Row) (string, bool) { return judge3(row, "truthiness", vd, truthy) })
	}

	// --- ToNullOrUndefinedWithSideEffects -----------------------------------------------------
	if rows, ok := table("js_ast.ToNullOrUndefinedWithSideEffects"); ok {
		finishRows("ToNullOrUndefined", rows, func(row c03Row) (string, bool) {
			return judge3(row, "is-null-or-undefined", map[string]bool{}, nullish)
		})
	}

	// --- TypeofWithoutSideEffects -------------------------------------------------------------
	if rows, ok := table("js_ast.TypeofWithoutSideEffects"); ok {
		finishRows("Typeof", rows, func(row c03Row) (string, bool) {
			o := row.o
			if len(o.results) != 2 {
				return "unexpected result arity", true
			}
			okR := o.results[1]
			if okR.known && okR.val == 0 {
				return "", false
			}
			desc := o.descs[0]
			if !okR.known {
				if o.descs[1] == "rec(Value)#1" && desc == "rec(Value)#0" && (row.kind == "EInlinedEnum" || (row.kind == "EAnnotation" && row.has(removableT))) {
					return "", true
				}
				return "forwards an answer (" + desc + ", " + o.descs[1] + ") that is not the answer for this node's only evaluated operand, or drops the side effects of an annotation that is not flagged removable", true
			}
			want, has := c03TypeofOf[row.kind]
			if !has {
				return "claims to know `typeof` of this kind of expression without evaluating it", true
			}
			if row.kind == "EClass" || row.kind == "EObject" || row.kind == "EArray" {
				return "claims `typeof` of an expression that may have side effects is known \"without side effects\"", true
			}
			if desc != "str:"+want {
				return fmt.Sprintf("answers %s; `typeof` of every such expression is %q", strings.TrimPrefix(desc, "str:"), want), true
			}
			return "", true
		})
	}
	// --- ToStringWithoutSideEffects -----------------------------------------------------------
	// String(x) / `${x}` / "" + x folding. Reference (ECMA-262 ToString, RegExp.prototype.toString):
	// null, undefined and booleans have fixed strings; numbers and bigints are computed from the
	// value; a regular expression stringifies to its source text only if its flags are written in
	// the canonical order "dgimsuvy" (`/a/ig` is "/a/gi"), so its row must sit behind a test of the
	// literal; every other kind has no compile-time string.
	if rows, ok := table("js_ast.ToStringWithoutSideEffects"); ok {
		fixed := map[string][]string{"ENull": {"str:null"}, "EUndefined": {"str:undefined"}, "EBoolean": {"str:true", "str:false"}}
		finishRows("ToString", rows, func(row c03Row) (string, bool) {
			o := row.o
			if len(o.results) != 2 {
				return "unexpected result arity", true
			}
			okR := o.results[1]
			if okR.known && okR.val == 0 {
				return "", false
			}
			desc := o.descs[0]
			if want, has := fixed[row.kind]; has {
				if row.kind == "EBoolean" {
					// the string follows the literal's value
					if row.has("field:Value=T") {
						want = []string{"str:true"}
					} else if row.has("field:Value=F") {
						want = []string{"str:false"}
					} else {
						want = nil
					}
				}
				for _, w := range want {
					if desc == w {
						return "", true
					}
				}
				return fmt.Sprintf("answers %s; ToString of every such expression is %s", strings.TrimPrefix(desc, "str:"), strings.Join(want, " or ")), true
			}
			switch row.kind {
			case "ENumber", "EBigInt":
				if strings.HasPrefix(desc, "str:") {
					return "answers the constant " + desc + " for a numeric literal", true
				}
				return "", true
			case "ERegExp":
				if len(row.labels) == 0 {
					return "answers the regular expression's source text unconditionally; RegExp.prototype.toString prints the flags in canonical order, so `\"x\" + /a/ig` is \"x/a/gi\", not \"x/a/ig\": the row needs a test of the literal's flags", true
				}
				return "", true
			case "EDot":
				// `"".constructor` / `/x/.constructor` tricks of obfuscators: fixed native-function strings behind tests of the name and target
				if len(row.labels) > 0 {
					return "", true
				}
			}
			return "claims a compile-time string for this kind of expression", true
		})
	}
	r.Floor(40)
	return r
}

// C03/R9 integer-test elimination is sign agnostic.
//
// In a boolean context esbuild drops a comparison with zero when the other operand is known to be
// an integer: `if ((a >>> b) !== 0)` becomes `if (a >>> b)`. The licence is isInt32OrUint32(x) — x is
// an integer, of either signedness. For such x only (in)equality with zero coincides with
// truthiness (x !== 0 ⇔ x is truthy, x === 0 ⇔ !x); an ordering test does not (x > 0 is false for
// a negative int32 such as `flags & 0x80000000`, which is truthy). So the rewrite guarded by
// isInt32OrUint32 may be applied only under the operators ==, ===, !=, !==. The rule extracts the
// behaviour of SimplifyBooleanExpr (E-ENUM, lenient) and requires every path on which
// isInt32OrUint32 answered true to have selected one of those four operators.
func c03IntegerTestOps(p *Prog) *RuleResult {
	r := NewRule("C03/R9 integer-test-operators", "the boolean-context rewrite licensed by isInt32OrUint32 (an integer of either signedness) is applied only under ==, ===, != and !== — the comparisons with zero that coincide with truthiness for negative integers too")
	pk := p.ByPath[modPath+"/internal/js_ast"]
	fn := p.FindFunc("js_ast.(HelperContext).SimplifyBooleanExpr")
	isInt := p.FindFunc("js_ast.isInt32OrUint32")
	if !r.Anchor("package js_ast", pk != nil) || !r.Anchor("js_ast.(HelperContext).SimplifyBooleanExpr", fn != nil) || !r.Anchor("js_ast.isInt32OrUint32", isInt != nil) {
		return r
	}
	opNames := map[int64]string{}
	for n, v := range constsOfType(pk.Types, "OpCode") {
		if strings.HasPrefix(n, "UnOp") || strings.HasPrefix(n, "BinOp") {
			opNames[v] = n
		}
	}
	base := c03Describe("js_ast.(HelperContext).SimplifyBooleanExpr")
	cfg := &enumCfg{recursive: map[string]bool{}, inlined: map[string]func() []enumOutcome{}, lenient: true, opConsts: opNames, opField: "Op", maxPaths: 400000,
		describe: func(e *enumEvaluator, s *enumState, v ssa.Value) (string, bool) {
			if c, ok := v.(*ssa.Call); ok && c.Call.StaticCallee() == isInt {
				return "isInt32OrUint32", true
			}
			return base(e, s, v)
		}}
	outs, problems := enumEvaluate(p, fn, cfg)
	for _, pr := range problems {
		r.Instances++
		r.Fail("undecidable: "+pr, "", "SimplifyBooleanExpr could not be walked at "+pr)
	}
	allowed := map[string]bool{"BinOpStrictEq": true, "BinOpStrictNe": true, "BinOpLooseEq": true, "BinOpLooseNe": true}
	ops := map[string]token.Pos{}
	for _, o := range outs {
		licensed := false
		for _, l := range o.labels {
			if l == "isInt32OrUint32=T" {
				licensed = true
			}
		}
		if licensed {
			op := o.op
			if op == "" {
				op = "(no operator selected)"
			}
			if _, ok := ops[op]; !ok {
				ops[op] = o.pos
			}
		}
	}
	var names []string
	for op := range ops {
		names = append(names, op)
	}
	sort.Strings(names)
	for _, op := range names {
		r.Instances++
		key := "rewrite licensed by isInt32OrUint32 under " + op
		if allowed[op] {
			r.OK(key, true, "an (in)equality with zero: coincides with truthiness for every integer")
		} else {
			r.Fail(key, p.Pos(ops[op]), "the comparison with zero is dropped under "+op+" although the operand is only known to be an integer of either signedness: for a negative int32 (e.g. `x & 0x80000000`) the comparison and the truthiness of the operand differ")
		}
	}
	r.Anchor("paths of SimplifyBooleanExpr licensed by isInt32OrUint32", len(names) >= 2)
	return r
}

// C03/R10 known-function marking consults parameter defaults.
//
// With --minify-syntax the parser marks a function declaration as "known empty" (calls to it are
// dropped, keeping only the arguments' side effects) or "known identity" (calls are replaced by the
// argument). Both are only true of a function whose parameters are plain identifiers *without
// default values*: a default `a = g()` runs g() when the argument is omitted, so `f()` is not a
// no-op. The two markings are siblings: each store of IsEmptyFunction / IsIdentityFunction into
// Symbol.Flags must be control dependent on a nil test of Arg.DefaultOrNil.
func c03KnownFunctionDefaults(p *Prog) *RuleResult {
	r := NewRule("C03/R10 known-function-defaults", "a function is marked known-empty / known-identity only after every parameter was seen to have no default value (a default value expression runs when the argument is omitted)")
	apk := p.ByPath[modPath+"/internal/ast"]
	if !r.Anchor("package ast", apk != nil) {
		return r
	}
	flags := constsOfType(apk.Types, "SymbolFlags")
	want := map[int64]string{}
	for _, n := range []string{"IsEmptyFunction", "IsIdentityFunction"} {
		if v, ok := flags[n]; ok {
			want[v] = n
		}
	}
	if !r.Anchor("ast.IsEmptyFunction / ast.IsIdentityFunction", len(want) == 2) {
		return r
	}
	n := 0
	for _, fn := range p.ModuleFuncs() {
		if pkgPathOf(fn) != modPath+"/internal/js_parser" {
			continue
		}
		eachInstr(fn, func(b *ssa.BasicBlock, in ssa.Instruction) {
			st, ok := in.(*ssa.Store)
			if !ok {
				return
			}
			fa, ok := st.Addr.(*ssa.FieldAddr)
			if !ok || fieldAddrName(fa) != "Flags" || namedTypeName(fa.X.Type()) != "ast.Symbol" {
				return
			}
			bo, ok := st.Val.(*ssa.BinOp)
			if !ok || bo.Op != token.OR {
				return
			}
			cv, ok := constInt(bo.Y)
			if !ok {
				return
			}
			name, ok := want[cv]
			if !ok {
				return
			}
			n++
			r.Instances++
			key := FuncName(fn) + " marks " + name
			// conditions the store is control dependent on: dominating facts, and for a phi among
			// them the conditions that select its incoming edges
			consults := false
			seenV := map[ssa.Value]bool{}
			var look func(v ssa.Value, depth int)
			look = func(v ssa.Value, depth int) {
				if v == nil || seenV[v] || depth > 12 || consults {
					return
				}
				seenV[v] = true
				switch x := v.(type) {
				case *ssa.BinOp:
					for _, side := range []ssa.Value{x.X, x.Y} {
						_, path := purePath(side)
						for _, s := range path {
							if s == "DefaultOrNil" {
								consults = true
							}
						}
					}
					look(x.X, depth+1)
					look(x.Y, depth+1)
				case *ssa.UnOp:
					look(x.X, depth+1)
				case *ssa.Phi:
					for _, e := range x.Edges {
						look(e, depth+1)
					}
					// every branch between the phi's immediate dominator and the phi selects an edge
					join := x.Block()
					stop := join.Idom()
					seenB := map[*ssa.BasicBlock]bool{join: true}
					work := append([]*ssa.BasicBlock{}, join.Preds...)
					for len(work) > 0 {
						bb := work[len(work)-1]
						work = work[:len(work)-1]
						if seenB[bb] {
							continue
						}
						seenB[bb] = true
						if len(bb.Instrs) > 0 {
							if ifi, ok := bb.Instrs[len(bb.Instrs)-1].(*ssa.If); ok {
								look(ifi.Cond, depth+1)
							}
						}
						if bb != stop {
							work = append(work, bb.Preds...)
						}
					}
				}
			}
			for _, f := range factsAt(b) {
				look(f.Cond, 0)
			}
			if consults {
				r.OK(key, true, "control dependent on a test of Arg.DefaultOrNil")
			} else {
				r.Fail(key, p.Pos(st.Pos()), "the function is marked "+name+" without looking at the default values of its parameters: `function f(a = g()) {} f()` is then treated as a no-op and the call of g() is lost")
			}
		})
	}
	r.Anchor("stores of IsEmptyFunction / IsIdentityFunction", n >= 2)
	return r
}
