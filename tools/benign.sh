#!/bin/bash
# usage: tools/benign.sh <patch.diff>
# Applies a behaviour-preserving patch to a scratch copy of /repo and runs ALL checks (quick) on
# it in one process. Any VIOLATION is a false alarm of the machinery. Prints SILENT or the alarms.
set -u
patch="$(readlink -f "$1")"
cd "$(dirname "$0")/.."
export GOFLAGS=-mod=mod GOPROXY=off GOSUMDB=off GOTOOLCHAIN=local
scratch=$(mktemp -d /tmp/benign.XXXXXX)
trap 'rm -rf "$scratch"' EXIT
rsync -a --exclude .git --exclude node_modules /repo/ "$scratch/"
(cd "$scratch" && patch -p1 -s < "$patch") || { echo "PATCH FAILED"; exit 3; }
(cd "$scratch" && go build ./... ) || { echo "DOES NOT COMPILE"; exit 4; }
out=$(VERIF_REPO="$scratch" VERIF_DIR="$scratch/.verifout" bash -c 'mkdir -p "$VERIF_DIR/evidence"; cp known_findings.json properties.jsonl "$VERIF_DIR/"; ${ESVERIF_BIN:-bin/esverif} check all --tier quick' 2>&1)
if echo "$out" | grep -q "^VIOLATION"; then
  echo "FALSE ALARMS:"
  echo "$out" | grep -B1 '^VIOLATION' | grep -v '^VIOLATION' | grep -v '^--' | cut -c1-400
  exit 1
fi
echo "SILENT ($(echo "$out" | grep -c '^C[0-9][0-9] tier') checks)"
