package main

import (
	"fmt"
	"go/token"
	"sort"

	"golang.org/x/tools/go/ssa"
)

// C16/R5 checked-index-stored.
//
// An input source map is untrusted. ParseSourceMap decodes running indices into its `sources` and
// `names` arrays, range-checks each one and stores it in a sourcemap.Mapping; every later consumer
// indexes those arrays with the stored value without checking again (a bad value is an
// index-out-of-range panic far away from the parser). Rule: the value stored into
// Mapping.SourceIndex / Mapping.OriginalName is, up to type conversions and ast.MakeIndex32,
// exactly an SSA value V for which both range tests (`V < lo` and `V >= hi`) are known to be false
// at the point where V is converted/stored. Any arithmetic applied after the checks produces a new,
// unchecked value and is reported.

var c16IndexFields = map[string]bool{"SourceIndex": true, "OriginalName": true}

func c16CheckedIndex(p *Prog) *RuleResult {
	r := NewRule("C16/R5 checked-index-stored", "the source and name indices ParseSourceMap stores into a Mapping are exactly the values it range-checked against the section's arrays")
	fn := p.FindFunc("js_parser.ParseSourceMap")
	if !r.Anchor("js_parser.ParseSourceMap", fn != nil) {
		return r
	}
	type leaf struct {
		v   ssa.Value
		use *ssa.BasicBlock
	}
	var stores []*ssa.Store
	eachInstr(fn, func(b *ssa.BasicBlock, in ssa.Instruction) {
		st, ok := in.(*ssa.Store)
		if !ok {
			return
		}
		if fa, ok := st.Addr.(*ssa.FieldAddr); ok && namedTypeName(fa.X.Type()) == "sourcemap.Mapping" && c16IndexFields[fieldAddrName(fa)] {
			stores = append(stores, st)
		}
	})
	sort.Slice(stores, func(i, j int) bool { return stores[i].Pos() < stores[j].Pos() })
	for _, st := range stores {
		field := fieldAddrName(st.Addr.(*ssa.FieldAddr))
		r.Instances++
		key := "Mapping." + field
		var leaves []leaf
		seen := map[ssa.Value]bool{}
		var walk func(v ssa.Value, use *ssa.BasicBlock)
		walk = func(v ssa.Value, use *ssa.BasicBlock) {
			if seen[v] {
				return
			}
			seen[v] = true
			switch x := v.(type) {
			case *ssa.Phi:
				for i, e := range x.Edges {
					walk(e, x.Block().Preds[i])
				}
			case *ssa.Convert:
				walk(x.X, x.Block())
			case *ssa.ChangeType:
				walk(x.X, x.Block())
			case *ssa.Call:
				if FuncNameOf(x) == "ast.MakeIndex32" && len(x.Call.Args) == 1 {
					walk(x.Call.Args[0], x.Block())
					return
				}
				leaves = append(leaves, leaf{v, use})
			case *ssa.Const:
				// the zero value (no name)
			case *ssa.UnOp:
				if al, ok := x.X.(*ssa.Alloc); ok && x.Op == token.MUL {
					// local variable: everything stored into it
					if al.Referrers() != nil {
						for _, rf := range *al.Referrers() {
							if s2, ok := rf.(*ssa.Store); ok && s2.Addr == ssa.Value(al) {
								walk(s2.Val, s2.Block())
							}
						}
					}
					return
				}
				leaves = append(leaves, leaf{v, use})
			default:
				leaves = append(leaves, leaf{v, use})
			}
		}
		walk(st.Val, st.Block())
		bad := ""
		checked := 0
		for _, lf := range leaves {
			lower, upper := false, false
			for _, f := range factsAt(lf.use) {
				bo, ok := f.Cond.(*ssa.BinOp)
				if !ok || bo.X != lf.v {
					continue
				}
				switch {
				case bo.Op == token.LSS && !f.True:
					lower = true // !(V < lo)
				case bo.Op == token.GEQ && !f.True:
					upper = true // !(V >= hi)
				case bo.Op == token.GEQ && f.True:
					lower = true
				case bo.Op == token.LSS && f.True:
					upper = true
				}
			}
			if lower && upper {
				checked++
				continue
			}
			what := "is not range-checked"
			if bo, ok := lf.v.(*ssa.BinOp); ok {
				what = fmt.Sprintf("is the result of a further %s computed after the range checks", bo.Op)
			}
			bad = fmt.Sprintf("the value stored (%s, %s) %s: lower bound known=%v, upper bound known=%v", lf.v.Name(), p.Pos(lf.v.Pos()), what, lower, upper)
		}
		switch {
		case bad != "":
			r.Fail(key, p.Pos(st.Pos()), "an index taken from an untrusted input source map is stored without being exactly the range-checked value: "+bad+"; consumers index sources/names with it unchecked (index out of range panic)")
		case checked == 0:
			r.Fail(key, p.Pos(st.Pos()), "no range-checked value found behind the stored index; the rule cannot be decided")
		default:
			r.OK(key, true, fmt.Sprintf("%d stored value(s), each dominated by both range tests on that very value", checked))
		}
	}
	r.Floor(2)
	return r
}

// C16/R6: graph traversals mark before they descend (engine: cyclecut.go E-CUT2)
func c16MarkBeforeRecurse(p *Prog) *RuleResult {
	r := NewRule("C16/R6 mark-before-recurse", "every recursive traversal that is guarded by a visited set stores the current node into the set before any call that can lead back into the traversal")
	n := checkMarkBeforeRecurse(p, r, map[string]bool{"linker": true, "bundler": true, "graph": true, "js_parser": true, "css_parser": true, "resolver": true, "js_ast": true, "renamer": true, "pkg/api": true, "cache": true, "fs": true})
	r.Anchor("recursive traversals guarded by a visited map", n >= 3)
	r.Floor(5)
	return r
}

// C16/R7 prefix/suffix overlap.
//
// A wildcard pattern "pre*suf" matches a string only if the string starts with pre, ends with suf
// AND is at least len(pre)+len(suf) long: "aba" starts with "ab" and ends with "ba" but does not
// match "ab*ba", and cutting s[len(pre):len(s)-len(suf)] out of it is a slice-bounds panic. Every
// place that tests strings.HasPrefix(s, p) and strings.HasSuffix(s, q) on the very same string in
// one conjunction must therefore also compare len(s) with something (the siblings that are right
// do: the external-pattern matcher, the exports/imports pattern matcher), or apply HasSuffix to
// the remainder after the prefix (a different value, not an instance of this rule).
func c16PrefixSuffixOverlap(p *Prog) *RuleResult {
	r := NewRule("C16/R7 prefix-suffix-overlap", "wherever one string is tested with both strings.HasPrefix and strings.HasSuffix in one conjunction (a `pre*suf` wildcard match), its length is also compared, so prefix and suffix cannot overlap")
	total := 0
	for _, fn := range p.ModuleFuncs() {
		var pre, suf []*ssa.Call
		eachInstr(fn, func(b *ssa.BasicBlock, in ssa.Instruction) {
			if c, ok := in.(*ssa.Call); ok && len(c.Call.Args) == 2 {
				switch calleeFullName(c) {
				case "strings.HasPrefix":
					pre = append(pre, c)
				case "strings.HasSuffix":
					suf = append(suf, c)
				}
			}
		})
		k := 0
		for _, hp := range pre {
			for _, hs := range suf {
				if hp.Call.Args[0] != hs.Call.Args[0] {
					continue
				}
				// two constant affixes are not a wildcard pattern (e.g. "is this text quoted?")
				if _, c1 := constString(hp.Call.Args[1]); c1 {
					if _, c2 := constString(hs.Call.Args[1]); c2 {
						continue
					}
				}
				s := hp.Call.Args[0]
				// the block where both are known to be true
				var both *ssa.BasicBlock
				for _, b := range fn.Blocks {
					ht, st := false, false
					for _, f := range factsAt(b) {
						if f.Cond == ssa.Value(hp) && f.True {
							ht = true
						}
						if f.Cond == ssa.Value(hs) && f.True {
							st = true
						}
					}
					if ht && st && (both == nil || both.Dominates(b) == false && b.Dominates(both)) {
						both = b
					}
				}
				if both == nil {
					continue // not a conjunction
				}
				k++
				total++
				r.Instances++
				key := fmt.Sprintf("%s wildcard match #%d", FuncName(fn), k)
				lenChecked := false
				isLenOfS := func(v ssa.Value) bool {
					c, ok := v.(*ssa.Call)
					if !ok {
						return false
					}
					bi, ok := c.Call.Value.(*ssa.Builtin)
					return ok && bi.Name() == "len" && len(c.Call.Args) == 1 && c.Call.Args[0] == s
				}
				// a comparison of len(s) that belongs to the same conjunction: evaluated before both
				// tests, or after at least one of them succeeded
				eachInstr(fn, func(cb *ssa.BasicBlock, in ssa.Instruction) {
					bo, ok := in.(*ssa.BinOp)
					if !ok || !(isLenOfS(bo.X) || isLenOfS(bo.Y)) {
						return
					}
					if cb.Dominates(both) {
						lenChecked = true
					}
					for _, f := range factsAt(cb) {
						if (f.Cond == ssa.Value(hp) || f.Cond == ssa.Value(hs)) && f.True {
							lenChecked = true
						}
					}
				})
				if lenChecked {
					r.OK(key, true, "the length of the string is compared as well")
				} else {
					r.Fail(key, p.Pos(hs.Pos()), "a string is matched against `prefix*suffix` with HasPrefix and HasSuffix only: when prefix and suffix overlap in the string (\"aba\" against \"ab*ba\") the match is accepted and the text between them, s[len(prefix):len(s)-len(suffix)], is a slice-bounds panic")
				}
			}
		}
	}
	r.Note(fmt.Sprintf("%d conjunctions of HasPrefix and HasSuffix on one string", total))
	r.Floor(2)
	return r
}

// C16/R8 unrepresentable-identifier check before a symbol is created from source text.
//
// With charset=ascii on a target without \u{...} escapes an identifier containing a code point
// above U+FFFF cannot be printed; the printer panics ("Cannot encode identifier"). The parser
// turns that into an ordinary error with checkForUnrepresentableIdentifier, which must therefore
// see every name that is taken from the source and ends up being printed as an identifier.
// Decided here for the two shapes that can be judged locally:
//
//	(a) (*parser).newSymbol called with the lexer's current identifier text (p.lexer.Identifier)
//	    is dominated by a check of the same text (declareSymbol contains one), unless an equality
//	    test has pinned the text to a constant;
//	(b) a label symbol (ast.SymbolLabel) — labels are printed verbatim and are created from a name
//	    that no other pass checks — is dominated by a check of its name.
func c16UnrepresentableNames(p *Prog) *RuleResult {
	r := NewRule("C16/R8 unrepresentable-name-check", "a symbol created directly from the lexer's identifier text, and every label symbol, is first passed to checkForUnrepresentableIdentifier (otherwise a non-BMP name reaches the printer and panics on targets without \\u{...} escapes under charset=ascii)")
	ap := p.ByPath[modPath+"/internal/ast"]
	labelKind := int64(-1)
	if ap != nil {
		if v, ok := constsOfType(ap.Types, "SymbolKind")["SymbolLabel"]; ok {
			labelKind = v
		}
	}
	if !r.Anchor("ast.SymbolLabel", labelKind >= 0) {
		return r
	}
	for _, fn := range p.ModuleFuncs() {
		if pkgPathOf(fn) != modPath+"/internal/js_parser" {
			continue
		}
		var checks []*ssa.Call
		eachInstr(fn, func(b *ssa.BasicBlock, in ssa.Instruction) {
			if c, ok := in.(*ssa.Call); ok && FuncNameOf(c) == "js_parser.(*parser).checkForUnrepresentableIdentifier" {
				checks = append(checks, c)
			}
		})
		k := 0
		eachInstr(fn, func(b *ssa.BasicBlock, in ssa.Instruction) {
			c, ok := in.(*ssa.Call)
			if !ok || FuncNameOf(c) != "js_parser.(*parser).newSymbol" || len(c.Call.Args) != 3 {
				return
			}
			name := c.Call.Args[2]
			why := ""
			if kv, ok := constInt(c.Call.Args[1]); ok && kv == labelKind {
				why = "a label"
			} else {
				// the lexer's identifier text, read directly (loads and field selections only)
				root, path := purePath(name)
				_ = root
				if len(path) >= 2 && path[len(path)-1] == "String" && path[len(path)-2] == "Identifier" {
					why = "the lexer's current identifier"
				}
			}
			if why == "" {
				return
			}
			k++
			r.Instances++
			key := fmt.Sprintf("%s newSymbol #%d (%s)", FuncName(fn), k, why)
			for _, ch := range checks {
				if (ch.Call.Args[2] == name || sameDatum(ch.Call.Args[2], name)) && (ch.Block() == b || ch.Block().Dominates(b)) {
					r.OK(key, true, "checkForUnrepresentableIdentifier is called on the same name first")
					return
				}
			}
			// pinned to a constant by an equality test?
			for _, f := range factsAt(b) {
				if bo, ok := f.Cond.(*ssa.BinOp); ok && ((bo.Op == token.EQL && f.True) || (bo.Op == token.NEQ && !f.True)) {
					if _, isC := constString(bo.Y); isC && (bo.X == name || sameDatum(bo.X, name)) {
						r.OK(key, true, "the text is known to equal a constant here")
						return
					}
				}
			}
			r.Fail(key, p.Pos(c.Pos()), "a symbol is created from "+why+" without checkForUnrepresentableIdentifier: with charset=ascii on a target without \\u{...} escapes a non-BMP character in this name reaches the printer, which panics with 'Cannot encode identifier'")
		})
	}
	r.Floor(2)
	return r
}

// C16/R9 a separator that was consumed is followed by an emptiness check.
//
// parseGradient walks a token slice: `tokens = tokens[1:]` after each recognised token. After a
// comma, something has to follow (a colour stop after a stop, a colour stop after a midpoint); the
// later stages index the stop list assuming so. Rule (sibling agreement inside one loop): after
// every slice advance that consumes a token tested to be a comma, every path to the next loop
// iteration passes a test of len() of the advanced slice against zero.
func c16SeparatorFollowed(p *Prog) *RuleResult {
	r := NewRule("C16/R9 separator-followed", "in parseGradient every comma that is consumed is followed by a check that tokens remain, before the next colour stop is parsed or the loop ends")
	fn := p.FindFunc("css_parser.parseGradient")
	lp := p.ByPath[modPath+"/internal/css_lexer"]
	if !r.Anchor("css_parser.parseGradient", fn != nil) || !r.Anchor("package css_lexer", lp != nil) {
		return r
	}
	comma, ok := constsOfType(lp.Types, "T")["TComma"]
	if !r.Anchor("css_lexer.TComma", ok) {
		return r
	}
	loops := naturalLoops(fn)
	n := 0
	for _, b := range fn.Blocks {
		if len(b.Instrs) == 0 {
			continue
		}
		ifi, ok := b.Instrs[len(b.Instrs)-1].(*ssa.If)
		if !ok {
			continue
		}
		bo, ok := ifi.Cond.(*ssa.BinOp)
		if !ok || (bo.Op != token.EQL && bo.Op != token.NEQ) {
			continue
		}
		if cv, ok := constInt(bo.Y); !ok || cv != comma {
			continue
		}
		if _, name, ok := loadedField(bo.X); !ok || name != "Kind" {
			continue
		}
		isComma := b.Succs[0]
		if bo.Op == token.NEQ {
			isComma = b.Succs[1]
		}
		// innermost loop
		var header *ssa.BasicBlock
		for h, body := range loops {
			if body[b] && (header == nil || len(body) < len(loops[header])) {
				header = h
			}
		}
		if header == nil {
			continue
		}
		// the advance: first Slice with low bound 1 on the comma path
		var adv *ssa.Slice
		var advBlock *ssa.BasicBlock
		for _, in := range isComma.Instrs {
			if sl, ok := in.(*ssa.Slice); ok && adv == nil {
				if lv, ok := constInt(sl.Low); ok && lv == 1 {
					adv, advBlock = sl, isComma
				}
			}
		}
		if adv == nil {
			continue
		}
		n++
		r.Instances++
		key := fmt.Sprintf("parseGradient comma #%d", n)
		if dumpAll {
			fmt.Printf("  comma check at %s, advance at %s (block %d)\n", p.Pos(bo.Pos()), p.Pos(adv.Pos()), advBlock.Index)
		}
		// values that carry the advanced slice
		carries := map[ssa.Value]bool{adv: true}
		for changed := true; changed; {
			changed = false
			eachInstr(fn, func(_ *ssa.BasicBlock, in ssa.Instruction) {
				if ph, ok := in.(*ssa.Phi); ok && !carries[ph] {
					for _, e := range ph.Edges {
						if carries[e] {
							carries[ph] = true
							changed = true
						}
					}
				}
			})
		}
		lenTest := func(x *ssa.BasicBlock) bool {
			if len(x.Instrs) == 0 {
				return false
			}
			i2, ok := x.Instrs[len(x.Instrs)-1].(*ssa.If)
			if !ok {
				return false
			}
			b2, ok := i2.Cond.(*ssa.BinOp)
			if !ok {
				return false
			}
			isLen := false
			for _, side := range []ssa.Value{b2.X, b2.Y} {
				if c, ok := side.(*ssa.Call); ok {
					if bi, ok := c.Call.Value.(*ssa.Builtin); ok && bi.Name() == "len" && len(c.Call.Args) == 1 && carries[c.Call.Args[0]] {
						isLen = true
					}
				}
			}
			if !isLen {
				return false
			}
			// one of the two edges must give up: a return whose success result is the constant false
			for _, s := range x.Succs {
				if len(s.Instrs) > 0 {
					if ret, ok := s.Instrs[len(s.Instrs)-1].(*ssa.Return); ok && len(s.Instrs) <= 2 {
						for _, rv := range ret.Results {
							if isConstBool(rv, false) {
								return true
							}
						}
					}
				}
			}
			return false
		}
		if lenTest(advBlock) {
			r.OK(key, true, "the advanced slice is tested for emptiness in the same block")
			continue
		}
		path, escapes := reachesExitAvoidingEdges(advBlock, func(x *ssa.BasicBlock) bool { return x == header }, func(x *ssa.BasicBlock) bool { return x != advBlock && lenTest(x) }, func(*ssa.BasicBlock, int) bool { return false })
		if escapes {
			r.Fail(key, p.Pos(adv.Pos()), fmt.Sprintf("a comma is consumed and the loop can continue (blocks %v) without checking that tokens remain: a gradient that ends right after this comma is accepted, and the stages that follow index past the end of the colour-stop list", blockIdx(path)))
		} else {
			r.OK(key, true, "every path to the next iteration tests the advanced slice for emptiness")
		}
	}
	r.Anchor("comma checks in the colour-stop loop", n >= 2)
	return r
}
