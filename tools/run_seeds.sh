#!/bin/bash
# Runs every kept seeded change (seeded/*/patch.diff) against the check of the property it was filed
# under and writes seeded/RESULTS.md. A seed whose hunks were later touched by a `fix:` commit carries a
# rebased.diff (same change, current context); patch.diff stays as the seeder wrote it.
#  Static only (scratch copy, type-check, analyse, remove).
cd "$(dirname "$0")/.."
out=seeded/RESULTS.md
echo "| seeded change | property | result | reporting rule |" > $out
echo "|---|---|---|---|" >> $out
for d in seeded/*/; do
  n=$(basename $d)
  prop=$(echo $n | sed -E 's/^(C[0-9]+)-.*/\1/')
  patch=$d/patch.diff; [ -f $d/rebased.diff ] && patch=$d/rebased.diff
  res=$(tools/mutant.sh $patch $prop 2>&1 | grep -v KNOWN)
  if echo "$res" | grep -q "^CAUGHT"; then
    rule=$(echo "$res" | grep -o '\[C[0-9]*/R[0-9a-z]* [a-z0-9-]*\]' | head -1)
    echo "| $n | $prop | caught | $rule |" >> $out
  elif echo "$res" | grep -q "DOES NOT COMPILE\|PATCH FAILED"; then
    echo "| $n | $prop | does not apply to the current tree | |" >> $out
  else
    echo "| $n | $prop | MISSED | |" >> $out
  fi
done
grep -c "| caught |" $out
