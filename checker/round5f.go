package main

import (
	"fmt"
	"go/token"
	"go/types"
	"sort"

	"golang.org/x/tools/go/ssa"
)

// ---------------------------------------------------------------------------------------------
// C16/R11 keyed-callback-lists-refiltered.
//
// The watcher polls files by calling `w.data.Paths[path]()` for paths it remembers in slice fields
// (recentItems, itemsToScan). The lookup result is called without a nil test, which is safe only
// while every remembered path is a key of the *current* w.data.Paths. The watcher goroutine is not
// covered by any recover: a nil call there kills the process. Rule: (1) find the calls of unchecked
// map-lookup results and the slice fields their keys come from; (2) every function that replaces
// the map's container (stores w.data) re-establishes the invariant *after* the store: for each such
// slice field it either resets it or filters it against the new value.
func c16KeyedCallbackLists(p *Prog) *RuleResult {
	r := NewRule("C16/R11 keyed-callback-lists-refiltered", "paths remembered for unchecked `w.data.Paths[path]()` calls are reset or filtered against the new watch data after every replacement of w.data (a stale path is a nil function call on the unrecovered watcher goroutine)")
	const pkgp = modPath + "/pkg/api"
	type dep struct {
		owner, container, mapField string
		lists                      map[string]bool
	}
	deps := map[string]*dep{}
	ncalls := 0
	for _, fn := range p.ModuleFuncs() {
		if pkgPathOf(fn) != pkgp {
			continue
		}
		eachInstr(fn, func(b *ssa.BasicBlock, in ssa.Instruction) {
			c, ok := in.(*ssa.Call)
			if !ok {
				return
			}
			lk, ok := c.Call.Value.(*ssa.Lookup)
			if !ok || lk.CommaOk {
				return
			}
			// nil test of the lookup result dominating the call?
			for _, f := range factsAt(b) {
				if bo, ok := f.Cond.(*ssa.BinOp); ok && (bo.X == ssa.Value(lk) || bo.Y == ssa.Value(lk)) {
					return
				}
			}
			ld, ok := lk.X.(*ssa.UnOp)
			if !ok || ld.Op != token.MUL {
				return
			}
			mfa, ok := ld.X.(*ssa.FieldAddr)
			if !ok {
				return
			}
			cfa, ok := mfa.X.(*ssa.FieldAddr)
			if !ok {
				return
			}
			owner := namedTypeName(cfa.X.Type())
			d := deps[owner+"."+fieldAddrName(cfa)]
			if d == nil {
				d = &dep{owner, fieldAddrName(cfa), fieldAddrName(mfa), map[string]bool{}}
				deps[owner+"."+fieldAddrName(cfa)] = d
			}
			ncalls++
			backSlice(lk.Index, func(v ssa.Value) bool {
				if fa, ok := v.(*ssa.FieldAddr); ok && namedTypeName(fa.X.Type()) == owner {
					if _, isSlice := fa.Type().(*types.Pointer).Elem().Underlying().(*types.Slice); isSlice {
						d.lists[fieldAddrName(fa)] = true
					}
				}
				return true
			})
		})
	}
	if !r.Anchor("calls of unchecked map-lookup results in pkg/api", ncalls >= 2) {
		return r
	}
	var dkeys []string
	for k := range deps {
		dkeys = append(dkeys, k)
	}
	sort.Strings(dkeys)
	nstores := 0
	for _, dk := range dkeys {
		d := deps[dk]
		var lists []string
		for l := range d.lists {
			lists = append(lists, l)
		}
		sort.Strings(lists)
		for _, fn := range p.ModuleFuncs() {
			if pkgPathOf(fn) != pkgp {
				continue
			}
			eachInstr(fn, func(b *ssa.BasicBlock, in ssa.Instruction) {
				st, ok := in.(*ssa.Store)
				if !ok {
					return
				}
				cfa, ok := st.Addr.(*ssa.FieldAddr)
				if !ok || fieldAddrName(cfa) != d.container || namedTypeName(cfa.X.Type()) != d.owner {
					return
				}
				nstores++
				after := instrsAfter(st)
				for _, l := range lists {
					r.Instances++
					key := fmt.Sprintf("%s replaces %s.%s: %s is reset or re-filtered afterwards", FuncName(fn), d.owner, d.container, l)
					// a reset is order-independent inside the function (an empty list has no stale entry)
					var whole []ssa.Instruction
					for _, bb := range fn.Blocks {
						whole = append(whole, bb.Instrs...)
					}
					if why := refilteredAfter(p, whole, st, d.owner, d.container, d.mapField, l, 2); why == "the list is reset after the store" {
						r.OK(key, true, "the list is reset in the function that replaces the container")
					} else if why := refilteredAfter(p, after, st, d.owner, d.container, d.mapField, l, 0); why != "" {
						r.OK(key, true, why)
					} else {
						r.Fail(key, p.Pos(st.Pos()), fmt.Sprintf("after %s.%s is replaced, %s.%s is neither reset nor filtered against the new value: a path that is no longer a key of %s.%s stays remembered, and the next poll calls the nil function the lookup returns (the watcher goroutine has no recover: the process dies)", d.owner, d.container, d.owner, l, d.container, d.mapField))
					}
				}
			})
		}
	}
	if !r.Anchor("stores that replace the container of the looked-up map", nstores >= 1) {
		return r
	}
	r.Floor(2)
	return r
}

// instrsAfter: the instructions that can execute after in (same block, later; then all blocks reachable).
func instrsAfter(in ssa.Instruction) []ssa.Instruction {
	var out []ssa.Instruction
	b := in.Block()
	started := false
	for _, x := range b.Instrs {
		if started {
			out = append(out, x)
		}
		if x == in {
			started = true
		}
	}
	seen := map[*ssa.BasicBlock]bool{}
	work := append([]*ssa.BasicBlock{}, b.Succs...)
	for len(work) > 0 {
		c := work[len(work)-1]
		work = work[:len(work)-1]
		if seen[c] {
			continue
		}
		seen[c] = true
		out = append(out, c.Instrs...)
		work = append(work, c.Succs...)
	}
	return out
}

func refilteredAfter(p *Prog, after []ssa.Instruction, st *ssa.Store, owner, container, mapField, list string, depth int) string {
	inAfter := map[ssa.Instruction]bool{}
	for _, x := range after {
		inAfter[x] = true
	}
	storesList := false
	reset := false
	lookupNew := false
	for _, x := range after {
		switch y := x.(type) {
		case *ssa.Store:
			fa, ok := y.Addr.(*ssa.FieldAddr)
			if !ok || fieldAddrName(fa) != list || namedTypeName(fa.X.Type()) != owner {
				continue
			}
			storesList = true
			switch v := y.Val.(type) {
			case *ssa.Slice:
				if v.High != nil {
					if k, ok := constInt(v.High); ok && k == 0 {
						reset = true
					}
				}
			case *ssa.Const:
				if v.Value == nil {
					reset = true
				}
			}
		case *ssa.Lookup:
			// map operand: <new value>.mapField
			switch m := y.X.(type) {
			case *ssa.Field:
				if fieldValName(m) == mapField && st != nil && m.X == st.Val {
					lookupNew = true
				}
			case *ssa.UnOp:
				if mfa, ok := m.X.(*ssa.FieldAddr); ok && fieldAddrName(mfa) == mapField {
					if cfa, ok := mfa.X.(*ssa.FieldAddr); ok && fieldAddrName(cfa) == container && namedTypeName(cfa.X.Type()) == owner {
						// a load of the container made after the store
						lookupNew = true
					}
					if al, ok := mfa.X.(*ssa.Alloc); ok && st != nil {
						if ld, ok := st.Val.(*ssa.UnOp); ok && ld.X == ssa.Value(al) {
							lookupNew = true
						}
					}
				}
			}
		case *ssa.Call:
			if depth == 0 {
				if callee := y.Call.StaticCallee(); callee != nil && p.InModule(callee) && len(callee.Blocks) > 0 {
					var all []ssa.Instruction
					for _, cb := range callee.Blocks {
						all = append(all, cb.Instrs...)
					}
					if why := refilteredAfter(p, all, nil, owner, container, mapField, list, 1); why != "" {
						// the helper's result must be stored back, or the helper stores the list itself
						return "through " + FuncName(callee) + " (called after the store): " + why
					}
				}
			}
		}
	}
	switch {
	case reset:
		return "the list is reset after the store"
	case lookupNew && (storesList || depth == 1):
		return "filtered against the new value after the store"
	}
	return ""
}
