package main

import (
	"fmt"
	"sort"
	"strings"

	"golang.org/x/tools/go/ssa"
)

// C20/R7 lock order.
//
// "Any interleaving of Rebuild, Cancel, Dispose, Watch and Serve … terminates without deadlock."
// Two goroutines that take two mutexes in opposite orders can deadlock; Go's mutexes are not
// re-entrant, so taking a mutex that is already held deadlocks a single goroutine. Both are visible
// in the code: the rule builds the lock-order graph of the whole module and requires it to be
// acyclic.
//
//   nodes   mutexes by type-level identity: "<owner type>.<field>" for a mutex that is a struct
//           field (pkg/api.internalContext.mutex), the variable for a local / captured mutex;
//   edges   A → B when Lock(B) is executed while A is in the must-hold lock set of the function
//           (intraprocedural dataflow with defer handling, lockset.go), or when a call is made
//           while A is held to a function whose transitive static callees (closures invoked
//           directly included, goroutine spawns excluded) may acquire B;
//   verdict no cycle among distinct nodes, and no Lock of an instance that is already in the
//           must-hold set (self-deadlock).
//
// Must-hold sets under-approximate what is held, so every reported edge is real on some path; the
// rule can miss an order violation that only arises through dynamic calls (plugin callbacks run by
// the bundler are covered by C20/R2's "nothing blocks under a lock").

func lockTypeKey(fn *ssa.Function, v ssa.Value) string {
	steps := addrChain(v)
	for _, s := range steps {
		if s.Kind == "field" && s.Owner != "" {
			return s.Owner + "." + s.Name
		}
	}
	return "var " + FuncName(TopFunc(fn)) + ":" + objKey(v)
}

func c20LockOrder(p *Prog) *RuleResult {
	r := NewRule("C20/R7 lock-order", "the module's lock-order graph (mutex B acquired, directly or through static callees, while mutex A is held) has no cycle, and no mutex is locked while it is already held")
	// 1. direct acquisitions per function and instance→type naming
	type acqSite struct {
		key string
		pos string
	}
	direct := map[*ssa.Function][]acqSite{}
	for _, fn := range p.ModuleFuncs() {
		eachInstr(fn, func(b *ssa.BasicBlock, in ssa.Instruction) {
			c, ok := in.(ssa.CallInstruction)
			if !ok {
				return
			}
			if _, isGo := in.(*ssa.Go); isGo {
				return
			}
			if op, _, ok := mutexCall(c); ok && op == "lock" {
				direct[fn] = append(direct[fn], acqSite{lockTypeKey(fn, c.Common().Args[0]), p.Pos(in.Pos())})
			}
		})
	}
	// 2. transitive "may acquire" summaries over static callees
	callees := map[*ssa.Function][]*ssa.Function{}
	for _, fn := range p.ModuleFuncs() {
		seen := map[*ssa.Function]bool{}
		eachInstr(fn, func(b *ssa.BasicBlock, in ssa.Instruction) {
			c, ok := in.(ssa.CallInstruction)
			if !ok {
				return
			}
			if _, isGo := in.(*ssa.Go); isGo {
				return
			}
			var callee *ssa.Function
			if sc := c.Common().StaticCallee(); sc != nil {
				callee = sc
			} else if mc, ok := c.Common().Value.(*ssa.MakeClosure); ok {
				callee, _ = mc.Fn.(*ssa.Function)
			}
			if callee != nil && !seen[callee] && callee.Blocks != nil {
				seen[callee] = true
				callees[fn] = append(callees[fn], callee)
			}
		})
	}
	acq := map[*ssa.Function]map[string]bool{}
	for _, fn := range p.ModuleFuncs() {
		m := map[string]bool{}
		for _, a := range direct[fn] {
			m[a.key] = true
		}
		acq[fn] = m
	}
	for changed := true; changed; {
		changed = false
		for fn, cs := range callees {
			for _, c := range cs {
				for k := range acq[c] {
					if acq[fn] == nil {
						acq[fn] = map[string]bool{}
					}
					if !acq[fn][k] {
						acq[fn][k] = true
						changed = true
					}
				}
			}
		}
	}
	// 3. edges
	type edge struct{ from, to string }
	edges := map[edge]string{}
	nLockFns := 0
	for _, fn := range p.ModuleFuncs() {
		if len(direct[fn]) == 0 {
			continue
		}
		nLockFns++
		instType := map[string]string{}
		li := analyseLocks(fn, lockState{}, func(in ssa.Instruction) bool {
			_, ok := in.(ssa.CallInstruction)
			return ok
		})
		eachInstr(fn, func(b *ssa.BasicBlock, in ssa.Instruction) {
			c, ok := in.(ssa.CallInstruction)
			if !ok {
				return
			}
			if op, k, ok := mutexCall(c); ok && op == "lock" {
				instType[k] = lockTypeKey(fn, c.Common().Args[0])
			}
		})
		eachInstr(fn, func(b *ssa.BasicBlock, in ssa.Instruction) {
			c, ok := in.(ssa.CallInstruction)
			if !ok {
				return
			}
			if _, isGo := in.(*ssa.Go); isGo {
				return
			}
			if _, isDefer := in.(*ssa.Defer); isDefer {
				return
			}
			held := li.at[in]
			if len(held) == 0 {
				return
			}
			if op, k, ok := mutexCall(c); ok {
				if op != "lock" {
					return
				}
				r.Instances++
				if held[k] {
					r.Fail(FuncName(fn)+" locks "+instType[k]+" twice", p.Pos(in.Pos()), "the mutex is locked while it is already in the must-hold set of this function: sync.Mutex is not re-entrant, the goroutine deadlocks with itself")
					return
				}
				to := lockTypeKey(fn, c.Common().Args[0])
				for h := range held {
					from := instType[h]
					if from == "" || from == to {
						continue
					}
					if _, ok := edges[edge{from, to}]; !ok {
						edges[edge{from, to}] = p.Pos(in.Pos()) + " (" + FuncName(fn) + ")"
					}
				}
				return
			}
			var callee *ssa.Function
			if sc := c.Common().StaticCallee(); sc != nil {
				callee = sc
			} else if mc, ok := c.Common().Value.(*ssa.MakeClosure); ok {
				callee, _ = mc.Fn.(*ssa.Function)
			}
			if callee == nil {
				return
			}
			// the callee locks a mutex of its receiver / parameter that the caller already holds
			for ai, prm := range callee.Params {
				if ai >= len(c.Common().Args) {
					break
				}
				argKey := objKey(c.Common().Args[ai])
				if !strings.HasSuffix(argKey, "|") {
					continue // only whole objects passed on (ctx, not ctx.field)
				}
				eachInstr(callee, func(_ *ssa.BasicBlock, cin ssa.Instruction) {
					cc, ok := cin.(ssa.CallInstruction)
					if !ok {
						return
					}
					if _, isGo := cin.(*ssa.Go); isGo {
						return
					}
					if op, ck, ok := mutexCall(cc); ok && op == "lock" && strings.HasPrefix(ck, "param:"+prm.Name()+"|") {
						inCaller := argKey + strings.TrimPrefix(ck, "param:"+prm.Name()+"|")
						if held[inCaller] {
							r.Instances++
							r.Fail(FuncName(fn)+" calls "+FuncName(callee)+" holding "+instType[inCaller], p.Pos(in.Pos()), "the callee locks "+instType[inCaller]+" of the same object, which the caller already holds at this call: sync.Mutex is not re-entrant, the goroutine deadlocks with itself")
						}
					}
				})
			}
			for to := range acq[callee] {
				for h := range held {
					from := instType[h]
					if from == "" || from == to {
						continue
					}
					if _, ok := edges[edge{from, to}]; !ok {
						edges[edge{from, to}] = p.Pos(in.Pos()) + " (" + FuncName(fn) + " calls " + FuncName(callee) + ")"
					}
				}
			}
		})
	}
	if !r.Anchor("functions that take a mutex", nLockFns >= 20) {
		return r
	}
	// 4. cycles
	adj := map[string][]string{}
	for e := range edges {
		adj[e.from] = append(adj[e.from], e.to)
	}
	for k := range adj {
		sort.Strings(adj[k])
	}
	var nodes []string
	for k := range adj {
		nodes = append(nodes, k)
	}
	sort.Strings(nodes)
	color := map[string]int{}
	var stack []string
	reported := map[string]bool{}
	var dfs func(n string)
	dfs = func(n string) {
		color[n] = 1
		stack = append(stack, n)
		for _, m := range adj[n] {
			if color[m] == 1 {
				// cycle: from m ... n → m
				i := 0
				for j, s := range stack {
					if s == m {
						i = j
					}
				}
				cyc := append(append([]string{}, stack[i:]...), m)
				canon := append([]string{}, stack[i:]...)
				sort.Strings(canon)
				ck := strings.Join(canon, " ⟷ ")
				if !reported[ck] {
					reported[ck] = true
					var sites []string
					for j := 0; j+1 < len(cyc); j++ {
						sites = append(sites, cyc[j]+" → "+cyc[j+1]+" at "+edges[edge{cyc[j], cyc[j+1]}])
					}
					r.Instances++
					r.Fail("lock-order cycle "+ck, "", "two goroutines that enter this cycle from different mutexes wait for each other forever: "+strings.Join(sites, "; "))
				}
			} else if color[m] == 0 {
				dfs(m)
			}
		}
		stack = stack[:len(stack)-1]
		color[n] = 2
	}
	for _, n := range nodes {
		if color[n] == 0 {
			dfs(n)
		}
	}
	var es []string
	for e, site := range edges {
		es = append(es, e.from+" → "+e.to+" @ "+site)
	}
	sort.Strings(es)
	for _, e := range es {
		r.Instances++
		r.OK("order "+e[:strings.Index(e, " @ ")], true, "acquired in this order at "+e[strings.Index(e, " @ ")+3:]+"; not part of a cycle")
	}
	if len(reported) == 0 {
		r.OK("lock-order graph is acyclic", true, fmt.Sprintf("%d mutex(es) ordered by %d edge(s), %d functions take a mutex", len(nodes), len(edges), nLockFns))
		r.Instances++
	}
	return r
}
