package main

import (
	"fmt"
	"go/token"
	"sort"

	"golang.org/x/tools/go/ssa"
)

// C11/R3 undefined-class.
//
// Node's PACKAGE_TARGET_RESOLVE returns "undefined" both for a target that simply is not there
// and for a condition object none of whose keys apply; esbuild splits the second case off as
// pjStatusUndefinedNoConditionsMatch only to word its final error message better. For the
// algorithm the two are the same value: "if resolved is undefined, continue with the next
// fallback / the next condition". So a branch that is taken for pjStatusUndefined must also be
// taken for pjStatusUndefinedNoConditionsMatch (pjStatus.isUndefined() does that). A comparison
// with pjStatusUndefined alone is a deviation from Node's algorithm unless it is one of the
// reviewed top-level sites where the split status is deliberately passed on as the final error.

var c11UndefinedOnly = ExcTable{
	"resolver.(resolverQuery).esmPackageImportsResolve #1": "top level of PACKAGE_IMPORTS_RESOLVE: anything but null/undefined is returned as is; NoConditionsMatch is returned as the final error (Node throws 'not defined' here too), it only selects a friendlier message",
	"resolver.(resolverQuery).esmPackageExportsResolve #1": "top level of PACKAGE_EXPORTS_RESOLVE (main export): NoConditionsMatch is returned as the final error (Node throws 'not exported' here too), it only selects a friendlier message",
	"resolver.(resolverQuery).esmPackageExportsResolve #2": "top level of PACKAGE_EXPORTS_RESOLVE (subpath): as above",
}

func c11UndefinedClass(p *Prog) *RuleResult {
	r := NewRule("C11/R3 undefined-class", "wherever the ported exports/imports algorithm branches on the status 'undefined', the branch is taken for both pjStatusUndefined and pjStatusUndefinedNoConditionsMatch (Node has one 'undefined'), except at the reviewed top-level sites")
	helperSeen, ok := checkEnumClass(p, r, "/internal/resolver", "pjStatus", "pjStatusUndefined", "pjStatusUndefinedNoConditionsMatch", c11UndefinedOnly,
		"the status is compared with pjStatusUndefined alone: a condition object with no applicable key (pjStatusUndefinedNoConditionsMatch) is 'undefined' in Node's algorithm too and must take the same branch (use isUndefined()); otherwise a later fallback or condition that Node would use is never tried", "isUndefined")
	if !ok {
		return r
	}
	r.Anchor("pjStatus.isUndefined covers both statuses", helperSeen)
	r.StaleCheck(c11UndefinedOnly)
	r.Floor(4)
	return r
}

// checkEnumClass: two constants A and B of an enum form one class for the purpose of some decision;
// every equality branch on A must be shared with B (the edge taken for == A and the edge taken for
// == B lead to the same block, with the B test directly adjacent), unless the site is in exc.
// Returns whether a function named helper was seen to cover both.
func checkEnumClass(p *Prog, r *RuleResult, pkgSuffix, typeName, aName, bName string, exc ExcTable, failMsg, helper string) (bool, bool) {
	pk := p.ByPath[modPath+pkgSuffix]
	if !r.Anchor("package "+pkgSuffix, pk != nil) {
		return false, false
	}
	consts := constsOfType(pk.Types, typeName)
	a, okA := consts[aName]
	bb, okB := consts[bName]
	if !r.Anchor(aName+" / "+bName, okA && okB) {
		return false, false
	}
	statusType := shortPkg(modPath+pkgSuffix) + "." + typeName
	isStatus := func(v ssa.Value) bool { return namedTypeName(v.Type()) == statusType }
	// target of the edge taken when v == c at an If whose condition is EQL/NEQ(v, c)
	eqTarget := func(ifi *ssa.If, bo *ssa.BinOp) *ssa.BasicBlock {
		if bo.Op == token.EQL {
			return ifi.Block().Succs[0]
		}
		return ifi.Block().Succs[1]
	}
	neTarget := func(ifi *ssa.If, bo *ssa.BinOp) *ssa.BasicBlock {
		if bo.Op == token.EQL {
			return ifi.Block().Succs[1]
		}
		return ifi.Block().Succs[0]
	}
	var fns []*ssa.Function
	for _, fn := range p.ModuleFuncs() {
		if pkgPathOf(fn) == modPath+pkgSuffix {
			fns = append(fns, fn)
		}
	}
	sort.Slice(fns, func(i, j int) bool { return FuncName(fns[i]) < FuncName(fns[j]) })
	helperSeen := false
	for _, fn := range fns {
		n := 0
		type cmp struct {
			bo  *ssa.BinOp
			ifi *ssa.If
		}
		var cmps []cmp
		for _, b := range fn.Blocks {
			for _, in := range b.Instrs {
				bo, ok := in.(*ssa.BinOp)
				if !ok || (bo.Op != token.EQL && bo.Op != token.NEQ) || !isStatus(bo.X) {
					continue
				}
				cv, ok := constInt(bo.Y)
				if !ok || cv != a {
					continue
				}
				var ifi *ssa.If
				if bo.Referrers() != nil {
					for _, rf := range *bo.Referrers() {
						if x, ok := rf.(*ssa.If); ok {
							ifi = x
						}
					}
				}
				cmps = append(cmps, cmp{bo, ifi})
			}
		}
		for _, c := range cmps {
			n++
			r.Instances++
			key := fmt.Sprintf("%s #%d", FuncName(fn), n)
			// value context (e.g. the body of isUndefined): x == A || x == B
			alike := false
			if c.ifi != nil {
				t := eqTarget(c.ifi, c.bo)
				next := neTarget(c.ifi, c.bo)
				// on the v != A edge, the very next test compares the same value with B and goes to the same place
				if len(next.Instrs) > 0 {
					if nif, ok := next.Instrs[len(next.Instrs)-1].(*ssa.If); ok {
						if nbo, ok := nif.Cond.(*ssa.BinOp); ok && (nbo.Op == token.EQL || nbo.Op == token.NEQ) && nbo.X == c.bo.X {
							if cv, ok := constInt(nbo.Y); ok && cv == bb && eqTarget(nif, nbo) == t {
								alike = true
							}
						}
					}
				}
				// value context (x == A || x == B): the B comparison is the value carried into the join
				if len(next.Succs) == 1 && next.Succs[0] == t {
					for _, in := range next.Instrs {
						if nbo, ok := in.(*ssa.BinOp); ok && nbo.Op == c.bo.Op && nbo.X == c.bo.X {
							if cv, ok := constInt(nbo.Y); ok && cv == bb {
								alike = true
							}
						}
					}
				}
				// or the B test came first and this is the second half
				for _, pred := range c.ifi.Block().Preds {
					if len(pred.Instrs) == 0 {
						continue
					}
					if pif, ok := pred.Instrs[len(pred.Instrs)-1].(*ssa.If); ok {
						if pbo, ok := pif.Cond.(*ssa.BinOp); ok && (pbo.Op == token.EQL || pbo.Op == token.NEQ) && pbo.X == c.bo.X {
							if cv, ok := constInt(pbo.Y); ok && cv == bb && eqTarget(pif, pbo) == t && neTarget(pif, pbo) == c.ifi.Block() {
								alike = true
							}
						}
					}
				}
			}
			if alike {
				if fn.Name() == helper {
					helperSeen = true
				}
				r.OK(key, true, "the same branch is taken for pjStatusUndefinedNoConditionsMatch")
				continue
			}
			if r.CheckExc(exc, key) {
				continue
			}
			r.Fail(key, p.Pos(c.bo.Pos()), failMsg)
		}
	}
	return helperSeen, true
}
