package main

import (
	"fmt"
	"go/token"
	"go/types"
	"sort"
	"strings"

	"golang.org/x/tools/go/ssa"
)

// E-CUT: cycle-cut memo scope.
//
// A depth-first search over a possibly cyclic graph that returns an answer per node commonly cuts
// cycles with a visited set: `if visited[n] { return <constant> }; visited[n] = true`. The
// constant returned at the cut is provisional: it means "being computed further up the stack",
// not "the answer for n". It is only sound while the visited set belongs to one traversal. If the
// set survives into a second traversal from another root, nodes whose real answer was the
// opposite are reported with the provisional constant.
//
// Rule: for every function F in the module that
//   (a) calls itself (directly), passing its map-typed parameter M through,
//   (b) tests M[k] and on the hit edge returns a constant without consulting anything else,
//   (c) stores M[k] = true, and
//   (d) can return something other than that constant,
// every call of F from another function passes a map that is created for that call: a MakeMap
// in the caller such that no loop contains the call but not the MakeMap (and the map is not also
// stored into longer-lived state).

type cutFunc struct {
	fn       *ssa.Function
	param    int
	cutConst string
}

func findCutFuncs(p *Prog) []cutFunc {
	var out []cutFunc
	for _, fn := range p.ModuleFuncs() {
		if len(fn.Blocks) == 0 || fn.Signature.Results().Len() == 0 {
			continue
		}
		for pi, prm := range fn.Params {
			mt, ok := prm.Type().Underlying().(*types.Map)
			if !ok {
				continue
			}
			if b, ok := mt.Elem().Underlying().(*types.Basic); !ok || b.Info()&types.IsBoolean == 0 {
				continue
			}
			selfRec, update := false, false
			cut := ""
			otherReturn := false
			eachInstr(fn, func(b *ssa.BasicBlock, in ssa.Instruction) {
				switch x := in.(type) {
				case *ssa.Call:
					if calleeOf(x) == fn && pi < len(x.Call.Args) && x.Call.Args[pi] == ssa.Value(prm) {
						selfRec = true
					}
				case *ssa.MapUpdate:
					if x.Map == ssa.Value(prm) && isConstBool(x.Value, true) {
						update = true
					}
				case *ssa.Lookup:
					if x.X != ssa.Value(prm) || x.CommaOk || x.Referrers() == nil {
						return
					}
					for _, rf := range *x.Referrers() {
						ifi, ok := rf.(*ssa.If)
						if !ok {
							continue
						}
						hit := ifi.Block().Succs[0]
						if len(hit.Instrs) == 1 {
							if ret, ok := hit.Instrs[0].(*ssa.Return); ok && len(ret.Results) >= 1 {
								if c, ok := ret.Results[0].(*ssa.Const); ok {
									cut = c.String()
								}
							}
						}
					}
				}
			})
			if !selfRec || !update || cut == "" {
				continue
			}
			eachInstr(fn, func(b *ssa.BasicBlock, in ssa.Instruction) {
				if ret, ok := in.(*ssa.Return); ok && len(ret.Results) >= 1 {
					if c, ok := ret.Results[0].(*ssa.Const); !ok || c.String() != cut {
						otherReturn = true
					}
				}
			})
			if otherReturn {
				out = append(out, cutFunc{fn, pi, cut})
			}
		}
	}
	sort.Slice(out, func(i, j int) bool { return FuncName(out[i].fn) < FuncName(out[j].fn) })
	return out
}

// checkCutScopes applies the rule to the given cut functions; keyPrefix distinguishes properties.
func checkCutScopes(p *Prog, r *RuleResult, cuts []cutFunc) {
	for _, cf := range cuts {
		name := FuncName(cf.fn)
		sites := 0
		for _, caller := range p.ModuleFuncs() {
			if caller == cf.fn {
				continue
			}
			var loops map[*ssa.BasicBlock]map[*ssa.BasicBlock]bool
			eachInstr(caller, func(b *ssa.BasicBlock, in ssa.Instruction) {
				call, ok := in.(ssa.CallInstruction)
				if !ok || calleeOf(call) != cf.fn {
					return
				}
				sites++
				r.Instances++
				key := fmt.Sprintf("%s called from %s #%d", name, FuncName(caller), sites)
				arg := call.Common().Args[cf.param]
				// look through a local variable cell
				if u, ok := arg.(*ssa.UnOp); ok && u.Op == token.MUL {
					if al, ok := u.X.(*ssa.Alloc); ok {
						if v := uniqueStoreTo(al); v != nil {
							arg = v
						}
					}
				}
				mm, ok := arg.(*ssa.MakeMap)
				if !ok {
					r.Fail(key, p.Pos(in.Pos()), fmt.Sprintf("%s cuts cycles with the provisional answer %s for nodes in its visited set, so the set must be created for each traversal; here it is %s, not a map made for this call", name, cf.cutConst, describeVal(arg)))
					return
				}
				if mm.Parent() != caller {
					r.Fail(key, p.Pos(in.Pos()), "the visited set is created in a different function than the traversal it belongs to")
					return
				}
				if loops == nil {
					loops = naturalLoops(caller)
				}
				for h, body := range loops {
					if body[b] && !body[mm.Block()] {
						r.Fail(key, p.Pos(in.Pos()), fmt.Sprintf("%s cuts cycles with the provisional answer %s for nodes already in its visited set; the set passed here is created outside the loop headed at block %d (%s) and so survives from one traversal root to the next: a node cut in an earlier traversal keeps the provisional answer", name, cf.cutConst, h.Index, p.Pos(mm.Pos())))
						return
					}
				}
				// the map must not be used by anything but traversals started here
				if refs := mm.Referrers(); refs != nil {
					for _, rf := range *refs {
						if st, ok := rf.(*ssa.Store); ok && st.Val == ssa.Value(mm) {
							if _, isLocal := st.Addr.(*ssa.Alloc); !isLocal {
								r.Fail(key, p.Pos(in.Pos()), "the visited set is also stored into longer-lived state")
								return
							}
						}
					}
				}
				r.OK(key, true, "visited set made at "+p.Pos(mm.Pos())+" in the same loop nest as the call")
			})
		}
		if sites == 0 {
			r.Note(name + ": no external call site")
		}
	}
}

func describeVal(v ssa.Value) string {
	switch x := v.(type) {
	case *ssa.Parameter:
		return "the caller's parameter " + x.Name()
	case *ssa.FreeVar:
		return "the captured variable " + x.Name()
	case *ssa.UnOp:
		if fa, ok := x.X.(*ssa.FieldAddr); ok {
			return "the field " + fieldAddrName(fa)
		}
	}
	return v.String()
}

// E-CUT2: mark-before-recurse.
//
// A traversal of a possibly cyclic graph terminates only if a node is put into the visited set
// BEFORE the traversal descends from it: `if !visited[n] { visited[n] = true; descend(n) }`.
// With the mark after the descent a cycle that does not pass through an already marked node
// recurses without bound (stack overflow, which Go cannot recover from).
//
// Recognition: a function F that looks up M[k] in a bool-valued map, branches on the result and
// also stores M[·] = true. Obligation: every call site in F that can lead back into F (a static
// call or a call of a closure variable whose possible targets, per the VTA call graph restricted
// to the module, reach F) is dominated by a block that performs the store (or follows it in the
// same block).

func mapIdentityLoose(v ssa.Value) string {
	if id := mapIdentity(v); id != "" {
		return id
	}
	if u, ok := v.(*ssa.UnOp); ok && u.Op == token.MUL {
		switch x := u.X.(type) {
		case *ssa.FreeVar:
			return "captured " + x.Name()
		case *ssa.Alloc:
			return "local " + x.Comment
		}
	}
	if mm, ok := v.(*ssa.MakeMap); ok {
		return "local map@" + mm.Name()
	}
	return ""
}

func checkMarkBeforeRecurse(p *Prog, r *RuleResult, pkgs map[string]bool) int {
	cg := p.CallGraph()
	var fns []*ssa.Function
	for _, fn := range p.ModuleFuncs() {
		if pkgs[shortPkg(pkgPathOf(fn))] && len(fn.Blocks) > 0 {
			fns = append(fns, fn)
		}
	}
	sort.Slice(fns, func(i, j int) bool { return FuncName(fns[i]) < FuncName(fns[j]) })
	found := 0
	for _, fn := range fns {
		// visited-guard maps: looked up with a branch on the result, and stored true
		lookups := map[string]bool{}
		marks := map[string][]*ssa.MapUpdate{}
		eachInstr(fn, func(b *ssa.BasicBlock, in ssa.Instruction) {
			switch x := in.(type) {
			case *ssa.Lookup:
				mt, ok := x.X.Type().Underlying().(*types.Map)
				if !ok {
					return
				}
				if bt, ok := mt.Elem().Underlying().(*types.Basic); !ok || bt.Info()&types.IsBoolean == 0 {
					return
				}
				if id := mapIdentityLoose(x.X); id != "" {
					lookups[id] = true
				}
			case *ssa.MapUpdate:
				if isConstBool(x.Value, true) {
					if id := mapIdentityLoose(x.Map); id != "" {
						marks[id] = append(marks[id], x)
					}
				}
			}
		})
		var ids []string
		for id := range lookups {
			if len(marks[id]) > 0 {
				ids = append(ids, id)
			}
		}
		if len(ids) == 0 {
			continue
		}
		sort.Strings(ids)
		// call sites of fn that can lead back into fn
		node := cg.Nodes[fn]
		if node == nil {
			continue
		}
		reach := map[*ssa.Function]int{} // 0 unknown, 1 yes, 2 no
		var reaches func(g *ssa.Function, depth int) bool
		reaches = func(g *ssa.Function, depth int) bool {
			if g == fn {
				return true
			}
			if depth > 12 || !p.InModule(g) {
				return false
			}
			switch reach[g] {
			case 1:
				return true
			case 2:
				return false
			}
			reach[g] = 2
			if n := cg.Nodes[g]; n != nil {
				for _, e := range n.Out {
					// only static calls and calls of function values (closures); interface
					// dispatch is too coarse in the call graph to say anything
					if e.Site != nil && e.Site.Common().IsInvoke() {
						continue
					}
					if reaches(e.Callee.Func, depth+1) {
						reach[g] = 1
						return true
					}
				}
			}
			return false
		}
		type site struct {
			in ssa.CallInstruction
		}
		var sites []ssa.CallInstruction
		seenSite := map[ssa.CallInstruction]bool{}
		for _, e := range node.Out {
			if e.Site == nil || e.Site.Common().IsInvoke() || seenSite[e.Site] {
				continue
			}
			if _, isGo := e.Site.(*ssa.Go); isGo {
				continue
			}
			if reaches(e.Callee.Func, 0) {
				seenSite[e.Site] = true
				sites = append(sites, e.Site)
			}
		}
		if len(sites) == 0 {
			continue
		}
		sort.Slice(sites, func(i, j int) bool { return sites[i].Pos() < sites[j].Pos() })
		found++
		for i, cs := range sites {
			r.Instances++
			key := fmt.Sprintf("%s re-entering call #%d", FuncName(fn), i+1)
			// path-based: no path from the entry to the call avoids every marking block — except
			// through the edge on which the visited set itself is nil (no set, no traversal)
			cb := cs.Block()
			markBlocks := map[*ssa.BasicBlock]bool{}
			sameBlockBefore := false
			for _, id := range ids {
				for _, mu := range marks[id] {
					if mu.Block() == cb {
						for _, bi := range cb.Instrs {
							if bi == ssa.Instruction(mu) {
								sameBlockBefore = true
								break
							}
							if bi == cs.(ssa.Instruction) {
								break
							}
						}
						continue
					}
					markBlocks[mu.Block()] = true
				}
			}
			nilEdge := func(b *ssa.BasicBlock, si int) bool {
				if len(b.Instrs) == 0 {
					return false
				}
				ifi, isIf := b.Instrs[len(b.Instrs)-1].(*ssa.If)
				if !isIf {
					return false
				}
				bo, isBo := ifi.Cond.(*ssa.BinOp)
				if !isBo || (bo.Op != token.EQL && bo.Op != token.NEQ) {
					return false
				}
				var other ssa.Value
				if c, isC := bo.Y.(*ssa.Const); isC && c.Value == nil {
					other = bo.X
				} else if c, isC := bo.X.(*ssa.Const); isC && c.Value == nil {
					other = bo.Y
				}
				if other == nil {
					return false
				}
				isSet := false
				for _, id := range ids {
					if mapIdentityLoose(other) == id {
						isSet = true
					}
				}
				if !isSet {
					return false
				}
				// the edge taken when the set is nil
				if bo.Op == token.EQL {
					return si == 0
				}
				return si == 1
			}
			ok := sameBlockBefore
			if !ok {
				_, escapes := reachesExitAvoidingEdges(fn.Blocks[0], func(b *ssa.BasicBlock) bool { return b == cb }, func(b *ssa.BasicBlock) bool { return markBlocks[b] }, nilEdge)
				ok = !escapes && len(markBlocks) > 0
			}
			if ok {
				r.OK(key, true, "the node is marked visited ("+strings.Join(ids, ", ")+") before the traversal descends")
			} else {
				r.Fail(key, p.Pos(cs.Pos()), fmt.Sprintf("%s guards its traversal with the visited set %s but can descend (call leading back into itself) before the current node is marked: a cycle that does not pass through an already marked node recurses without bound — a stack overflow that cannot be recovered", FuncName(fn), strings.Join(ids, ", ")))
			}
		}
	}
	return found
}
