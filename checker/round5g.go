package main

import (
	"fmt"
	"go/constant"
	"go/token"
	"sort"
	"strings"

	"golang.org/x/tools/go/ssa"
)

// ---------------------------------------------------------------------------------------------
// C14/R9 static-block-assign-gate.
//
// With TypeScript assign semantics a public static field that is not lowered is rewritten into an
// inline `static { this.x = … }` block (analyzeProperty sets staticFieldToBlockAssign, lowerField
// emits the block). That construction is not gated by a feature test of its own: what keeps static
// blocks out of targets without them is that computeClassLoweringInfo forces lowerAllStaticFields
// (hence mustLowerField, hence no block) whenever static blocks are unsupported. The two decisions
// are made per property, in different functions. The forcing decision may therefore depend on an
// attribute of the property only if the emitting decision depends on it too; any further condition
// on the forcing side opens a class of properties for which a static block is emitted unguarded.
// sliceCond slices a branch condition; a condition that go/ssa materialised as a phi of a
// short-circuit expression is expanded into the conditions of the branches that feed the phi.
func sliceCond(cond ssa.Value, visit func(ssa.Value) bool) {
	var vals []ssa.Value
	condsOfBoolValue(cond, &vals, 0)
	for _, v := range vals {
		backSlice(v, visit)
	}
}

func propertyFieldsOf(v0 ssa.Value, into map[string]bool) {
	var vals []ssa.Value
	condsOfBoolValue(v0, &vals, 0)
	for _, v := range vals {
		propertyFieldsOf1(v, into)
	}
}

func propertyFieldsOf1(v ssa.Value, into map[string]bool) {
	deepSlice(v, func(x ssa.Value) bool {
		switch y := x.(type) {
		case *ssa.FieldAddr:
			if namedTypeName(y.X.Type()) == "js_ast.Property" {
				into[fieldAddrName(y)] = true
			}
		case *ssa.Field:
			if namedTypeName(y.X.Type()) == "js_ast.Property" {
				into[fieldValName(y)] = true
			}
		}
		return true
	})
}

func condsOfBoolValue(v ssa.Value, out *[]ssa.Value, depth int) {
	if depth > 8 {
		return
	}
	*out = append(*out, v)
	if ph, ok := v.(*ssa.Phi); ok {
		for i, e := range ph.Edges {
			pr := ph.Block().Preds[i]
			if len(pr.Instrs) > 0 {
				if ifi, ok := pr.Instrs[len(pr.Instrs)-1].(*ssa.If); ok {
					*out = append(*out, ifi.Cond)
				}
			}
			if _, isC := e.(*ssa.Const); !isC {
				condsOfBoolValue(e, out, depth+1)
			}
		}
	}
}

func c14StaticBlockAssignGate(p *Prog) *RuleResult {
	r := NewRule("C14/R9 static-block-assign-gate", "forcing static fields to be lowered when class static blocks are unsupported depends on no attribute of the property that the decision to emit an inline static block ignores")
	an := p.FindFunc("js_parser.(*lowerClassContext).analyzeProperty")
	ci := p.FindFunc("js_parser.(*parser).computeClassLoweringInfo")
	cp := p.ByPath[modPath+"/internal/compat"]
	if !r.Anchor("js_parser.(*lowerClassContext).analyzeProperty", an != nil) || !r.Anchor("js_parser.(*parser).computeClassLoweringInfo", ci != nil) || !r.Anchor("package compat", cp != nil) {
		return r
	}
	var feature int64 = -1
	if obj := cp.Types.Scope().Lookup("ClassStaticBlocks"); obj != nil {
		if c, ok := obj.(interface{ Val() constant.Value }); ok {
			if v, ok := constant.Uint64Val(c.Val()); ok {
				feature = int64(v)
			}
		}
	}
	if !r.Anchor("compat.ClassStaticBlocks", feature >= 0) {
		return r
	}
	// A: the emitting decision
	emit := map[string]bool{}
	foundA := false
	eachInstr(an, func(b *ssa.BasicBlock, in ssa.Instruction) {
		st, ok := in.(*ssa.Store)
		if !ok {
			return
		}
		fa, ok := st.Addr.(*ssa.FieldAddr)
		if !ok || fieldAddrName(fa) != "staticFieldToBlockAssign" {
			return
		}
		foundA = true
		var conds []ssa.Value
		condsOfBoolValue(st.Val, &conds, 0)
		for _, c := range conds {
			propertyFieldsOf(c, emit)
		}
		for _, ifi := range controlDepIfsTransitive(b) {
			propertyFieldsOf(ifi.Cond, emit)
		}
	})
	if !r.Anchor("store of analysis.staticFieldToBlockAssign in analyzeProperty", foundA && len(emit) >= 1) {
		return r
	}
	// whether a property is private is derived from Key by both sides
	emit["Key"] = true
	// B: the forcing decision(s) under Has(ClassStaticBlocks)
	n := 0
	eachInstr(ci, func(b *ssa.BasicBlock, in ssa.Instruction) {
		st, ok := in.(*ssa.Store)
		if !ok {
			return
		}
		fa, ok := st.Addr.(*ssa.FieldAddr)
		if !ok || fieldAddrName(fa) != "lowerAllStaticFields" {
			return
		}
		ifs := controlDepIfsTransitive(b)
		gated, assign := false, false
		for _, ifi := range ifs {
			sliceCond(ifi.Cond, func(v ssa.Value) bool {
				if c, ok := v.(*ssa.Call); ok && strings.HasSuffix(calleeFullName(c), "compat.JSFeature).Has") && len(c.Call.Args) == 2 {
					if k, ok := constInt(c.Call.Args[1]); ok && k == feature {
						gated = true
					}
				}
				if fa, ok := v.(*ssa.FieldAddr); ok && fieldAddrName(fa) == "UseDefineForClassFields" {
					assign = true
				}
				return true
			})
		}
		if !gated || !assign {
			return
		}
		n++
		r.Instances++
		key := fmt.Sprintf("computeClassLoweringInfo forces lowerAllStaticFields when static blocks are unsupported #%d", n)
		force := map[string]bool{}
		for _, ifi := range ifs {
			propertyFieldsOf(ifi.Cond, force)
		}
		var extra []string
		for f := range force {
			if !emit[f] {
				extra = append(extra, f)
			}
		}
		sort.Strings(extra)
		if len(extra) == 0 {
			var fs []string
			for f := range force {
				fs = append(fs, f)
			}
			sort.Strings(fs)
			r.OK(key, true, "depends on Property."+strings.Join(fs, ", Property.")+" only, all of which the emitting decision reads as well")
		} else {
			r.Fail(key, p.Pos(st.Pos()), "the decision to force lowering (which is what keeps `static { this.x = … }` out of targets without class static blocks) additionally depends on Property."+strings.Join(extra, ", Property.")+", which the decision to emit the static block (analyzeProperty: staticFieldToBlockAssign) does not look at: for properties on the other side of that condition a static block is emitted for a target that does not support it")
		}
	})
	if !r.Anchor("a store of lowerAllStaticFields gated by Has(ClassStaticBlocks)", n >= 1) {
		return r
	}
	r.Floor(1)
	return r
}

// ---------------------------------------------------------------------------------------------
// C04/R6 glob-wildcard-pretest.
//
// globstarToEscapedRegexp turns a package.json "sideEffects" entry into a regular expression and
// reports whether the entry contained a wildcard at all (entries without one are matched by map
// lookup). A `false` answer for an entry that does contain a wildcard makes every file the entry
// was meant to match "free of side effects", and tree shaking then drops bare imports of them.
// Rule: the set of characters for which the scanning loop sets hadWildcard is W; a return that
// answers the constant false must be control dependent on tests that exclude every character of W.
func c04GlobWildcardPretest(p *Prog) *RuleResult {
	r := NewRule("C04/R6 glob-wildcard-pretest", "globstarToEscapedRegexp answers 'no wildcard' only through its scanning loop's flag, or after excluding every character the loop treats as a wildcard")
	fn := p.FindFunc("resolver.globstarToEscapedRegexp")
	if !r.Anchor("resolver.globstarToEscapedRegexp", fn != nil) {
		return r
	}
	// W: constants c such that a store/phi of hadWildcard=true is entered from `x == c`
	wild := map[int64]bool{}
	for _, b := range fn.Blocks {
		for _, in := range b.Instrs {
			ph, ok := in.(*ssa.Phi)
			if !ok || ph.Comment != "hadWildcard" {
				continue
			}
			for i, e := range ph.Edges {
				c, ok := e.(*ssa.Const)
				if !ok || c.Value == nil || c.Value.Kind() != constant.Bool || !constant.BoolVal(c.Value) {
					continue
				}
				// the `c == K` tests whose true edge dominates the end of the case body
				for _, f := range factsAt(ph.Block().Preds[i]) {
					if bo, ok := f.Cond.(*ssa.BinOp); ok && bo.Op.String() == "==" && f.True {
						if k, ok := constInt(bo.Y); ok && k > 0 && k < 128 {
							if _, isIdx := bo.X.(*ssa.UnOp); isIdx || true {
								wild[k] = true
							}
						}
					}
				}
			}
		}
	}
	if !r.Anchor("wildcard characters recognised by the scanning loop", len(wild) >= 2) {
		return r
	}
	var ws []string
	for k := range wild {
		ws = append(ws, fmt.Sprintf("%q", rune(k)))
	}
	sort.Strings(ws)
	n := 0
	for _, b := range fn.Blocks {
		if !isReturnBlock(b) {
			continue
		}
		ret := b.Instrs[len(b.Instrs)-1].(*ssa.Return)
		if len(ret.Results) != 2 {
			continue
		}
		n++
		r.Instances++
		key := fmt.Sprintf("globstarToEscapedRegexp return #%d", n)
		c, isConst := ret.Results[1].(*ssa.Const)
		if !isConst {
			r.OK(key, true, "answers the scanning loop's flag")
			continue
		}
		if c.Value != nil && constant.BoolVal(c.Value) {
			r.OK(key, true, "answers true")
			continue
		}
		excluded := map[int64]bool{}
		for _, ifi := range controlDepIfs(b) {
			sliceCond(ifi.Cond, func(v ssa.Value) bool {
				if call, ok := v.(*ssa.Call); ok && strings.HasPrefix(calleeFullName(call), "strings.") {
					for _, a := range call.Call.Args[1:] {
						if s, ok := constString(a); ok {
							for _, ch := range s {
								excluded[int64(ch)] = true
							}
						} else if k, ok := constInt(a); ok {
							excluded[k] = true
						}
					}
				}
				return true
			})
		}
		var missing []string
		for k := range wild {
			if !excluded[k] {
				missing = append(missing, fmt.Sprintf("%q", rune(k)))
			}
		}
		sort.Strings(missing)
		if len(missing) == 0 {
			r.OK(key, true, "constant false after excluding "+strings.Join(ws, ", "))
		} else {
			r.Fail(key, p.Pos(ret.Pos()), "answers 'no wildcard' without having excluded "+strings.Join(missing, ", ")+", which the scanning loop treats as a wildcard: a sideEffects entry using it is stored as a literal path that matches no file, every file it should match is marked side-effect free and bare imports of it are dropped")
		}
	}
	if !r.Anchor("returns of globstarToEscapedRegexp", n >= 1) {
		return r
	}
	r.Floor(1)
	return r
}

// ---------------------------------------------------------------------------------------------
// C14/R10 implied-features-follow-effective-set.
//
// Some features cannot exist without another (top-level await, for-await and async generators
// without async functions; private fields without fields; …). fixInvalidUnsupportedJSFeatureOverrides
// closes the unsupported set under these implications. It has to do so for the *effective* set — the
// implying feature may be unsupported because of the target while an implied one was switched back on
// with `supported:{…:true}`; the lowering of the implying feature then produces constructs (a bare
// `yield` at module level) that are valid nowhere. Rule: the condition under which the implied
// features are added reads the effective set options.UnsupportedJSFeatures, not only the overrides.
func c14ImpliedFollowEffective(p *Prog) *RuleResult {
	r := NewRule("C14/R10 implied-features-follow-effective-set", "implied feature bits are added whenever the implying feature is unsupported in the effective set (target or override), not only when an override disables it")
	fn := p.FindFunc("bundler.fixInvalidUnsupportedJSFeatureOverrides")
	if !r.Anchor("bundler.fixInvalidUnsupportedJSFeatureOverrides", fn != nil) {
		return r
	}
	n := 0
	eachInstr(fn, func(b *ssa.BasicBlock, in ssa.Instruction) {
		st, ok := in.(*ssa.Store)
		if !ok {
			return
		}
		fa, ok := st.Addr.(*ssa.FieldAddr)
		if !ok || fieldAddrName(fa) != "UnsupportedJSFeatures" {
			return
		}
		n++
		r.Instances++
		key := "fixInvalidUnsupportedJSFeatureOverrides: the implication is applied to the effective set"
		readsEffective := false
		for _, ifi := range controlDepIfsTransitive(b) {
			sliceCond(ifi.Cond, func(v ssa.Value) bool {
				if f, ok := v.(*ssa.FieldAddr); ok && fieldAddrName(f) == "UnsupportedJSFeatures" {
					readsEffective = true
				}
				return true
			})
		}
		if readsEffective {
			r.OK(key, true, "the controlling condition reads options.UnsupportedJSFeatures")
		} else {
			r.Fail(key, p.Pos(st.Pos()), "the implied features are only added when an *override* disables the implying feature: with a target that lacks it (es2016: no async functions) and `supported:{top-level-await:true}`, top-level await is lowered to a bare `yield` at module level without a diagnostic")
		}
	})
	if !r.Anchor("the store that adds the implied features", n >= 1) {
		return r
	}
	r.Floor(1)
	return r
}

// ---------------------------------------------------------------------------------------------
// C06/R9 ts-modifier-same-line.
//
// `declare`, `abstract`, `public`, `private`, `protected`, `readonly`, `override` are ordinary
// identifiers in JavaScript: `class A { public \n x = 1 }` declares the two fields `public` and `x`.
// TypeScript treats such a word as a modifier only when the member name follows on the same line
// (nextTokenIsOnSameLineAndCanFollowModifier). A modifier case of parseProperty that is taken for
// TypeScript input without looking at Lexer.HasNewlineBefore swallows a field of a valid JavaScript
// class, so the ts and js loaders disagree on a valid JavaScript program.
func c06TSModifierSameLine(p *Prog) *RuleResult {
	r := NewRule("C06/R9 ts-modifier-same-line", "every TypeScript-only modifier case of parseProperty (a re-parse of the member that is conditional on the TypeScript option and on the spelling of the preceding identifier) is also conditional on the member name following on the same line")
	fn := p.FindFunc("js_parser.(*parser).parseProperty")
	if !r.Anchor("js_parser.(*parser).parseProperty", fn != nil) {
		return r
	}
	n := 0
	seen := map[string]int{}
	eachInstr(fn, func(b *ssa.BasicBlock, in ssa.Instruction) {
		c, ok := in.(*ssa.Call)
		if !ok || c.Call.StaticCallee() != fn {
			return
		}
		onTS, sameLine := false, false
		var words []string
		for _, ifi := range controlDepIfsTransitive(b) {
			var vals []ssa.Value
			condsOfBoolValue(ifi.Cond, &vals, 0)
			for _, v := range vals {
				if bo, ok := v.(*ssa.BinOp); ok && bo.Op == token.EQL {
					if s, ok := constString(bo.Y); ok && reachesWithoutStringTest(ifi.Block().Succs[0], b) {
						words = append(words, s)
					}
				}
				backSlice(v, func(x ssa.Value) bool {
					if fa, ok := x.(*ssa.FieldAddr); ok {
						switch fieldAddrName(fa) {
						case "Parse":
							if namedTypeName(fa.X.Type()) == "js_parser.tsOptions" || strings.HasSuffix(namedTypeName(fa.X.Type()), "TSOptions") || strings.Contains(strings.ToLower(namedTypeName(fa.X.Type())), "ts") {
								onTS = true
							}
						case "HasNewlineBefore":
							sameLine = true
						}
					}
					return true
				})
			}
		}
		if !onTS || len(words) == 0 {
			return
		}
		sort.Strings(words)
		word := strings.Join(words, "/")
		n++
		seen[word]++
		r.Instances++
		key := "parseProperty modifier case " + word
		if seen[word] > 1 {
			key += fmt.Sprintf(" #%d", seen[word])
		}
		if sameLine {
			r.OK(key, true, "conditional on !Lexer.HasNewlineBefore")
		} else {
			r.Fail(key, p.Pos(c.Pos()), "the identifier is treated as a TypeScript modifier even when the member name is on the next line: `class A { "+words[0]+" \\n x = 1 }` is valid JavaScript with two fields (and TypeScript parses it that way), but the ts loader drops the first field")
		}
	})
	if !r.Anchor("TypeScript-only modifier cases in parseProperty", n >= 2) {
		return r
	}
	r.Floor(2)
	return r
}

// edgeDominatesEither: does the true (or false) edge of the If dominate block b?
func edgeDominatesEither(ifi *ssa.If, b *ssa.BasicBlock, trueEdge bool) bool {
	idx := 1
	if trueEdge {
		idx = 0
	}
	return edgeDominates(ifi.Block(), idx, b)
}

// reachesWithoutStringTest: is `to` reachable from `from` without passing a block that branches on a
// comparison with a string constant (i.e. without entering another case of the same switch)?
func reachesWithoutStringTest(from, to *ssa.BasicBlock) bool {
	seen := map[*ssa.BasicBlock]bool{}
	work := []*ssa.BasicBlock{from}
	for len(work) > 0 {
		x := work[len(work)-1]
		work = work[:len(work)-1]
		if x == to {
			return true
		}
		if seen[x] {
			continue
		}
		seen[x] = true
		if len(x.Instrs) > 0 {
			if ifi, ok := x.Instrs[len(x.Instrs)-1].(*ssa.If); ok {
				if bo, ok := ifi.Cond.(*ssa.BinOp); ok && bo.Op == token.EQL {
					if _, isStr := constString(bo.Y); isStr {
						continue
					}
				}
			}
		}
		work = append(work, x.Succs...)
	}
	return false
}
