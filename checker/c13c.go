package main

import (
	"fmt"
	"go/ast"
	"go/token"
	"go/types"
	"golang.org/x/tools/go/ssa"
	"sort"
	"strings"
)

// C13/R5 visit-order = parse-order.
//
// esbuild parses in one pass and records every scope it opens in p.scopesInOrder; the second
// (visit) pass must request the scopes in exactly that order: pushScopeForVisitPass panics
// ("Expected scope …, found scope …") when the next recorded scope is not the one requested, and
// the panic is reported as an error on a perfectly valid input. Scopes are opened by statement
// bodies, functions, arrows, classes, catch clauses, … anywhere inside a child, so for every node
// kind the visit pass has to walk the children in the order the parse pass consumed them, which is
// their source order.
//
// Rule (sibling agreement between the two passes, type-checked syntax trees):
//   parse order of a statement kind K: in the parse functions, at each composite literal
//     js_ast.K{F1: v1, F2: v2, …} the fields whose value comes from a parse call are ordered by the
//     position of that call (for an identifier: of the assignment that last defined it from a
//     parse call before the literal);
//   visit order of K: in visitAndAppendStmt's `case *js_ast.K:` clause, the fields in the order of
//     their first visit (a p.visit* call that takes s.F or assigns s.F).
// Any two fields of K that appear in both orders must appear in the same relative order.

func c13VisitOrder(p *Prog) *RuleResult {
	r := NewRule("C13/R5 visit-order", "the visit pass walks the children of every statement kind in the order in which the parse pass parsed them (scopes are recorded in parse order and requested in visit order; a mismatch rejects valid input with an internal error)")
	pk := p.ByPath[modPath+"/internal/js_parser"]
	if !r.Anchor("package js_parser", pk != nil) {
		return r
	}
	info := pk.TypesInfo
	isParserMethod := func(call *ast.CallExpr, prefix string) (string, bool) {
		sel, ok := call.Fun.(*ast.SelectorExpr)
		if !ok {
			return "", false
		}
		if !strings.HasPrefix(sel.Sel.Name, prefix) {
			return "", false
		}
		if id, ok := sel.X.(*ast.Ident); ok {
			if tv, ok := info.Types[id]; ok && strings.HasSuffix(tv.Type.String(), "js_parser.parser") {
				return sel.Sel.Name, true
			}
		}
		return "", false
	}
	containsCall := func(e ast.Node, prefix string) (token.Pos, bool) {
		var pos token.Pos
		ast.Inspect(e, func(n ast.Node) bool {
			if pos != token.NoPos {
				return false
			}
			if _, isFn := n.(*ast.FuncLit); isFn {
				return false
			}
			if c, ok := n.(*ast.CallExpr); ok {
				if _, ok := isParserMethod(c, prefix); ok {
					pos = c.Pos()
					return false
				}
			}
			return true
		})
		return pos, pos != token.NoPos
	}
	stmtKind := func(t types.Type) string {
		if pt, ok := t.(*types.Pointer); ok {
			t = pt.Elem()
		}
		if nt, ok := t.(*types.Named); ok && nt.Obj().Pkg() != nil && nt.Obj().Pkg().Name() == "js_ast" && (strings.HasPrefix(nt.Obj().Name(), "S") || strings.HasPrefix(nt.Obj().Name(), "E")) && len(nt.Obj().Name()) > 1 && nt.Obj().Name()[1] >= 'A' && nt.Obj().Name()[1] <= 'Z' {
			return nt.Obj().Name()
		}
		return ""
	}

	// ---- parse orders -------------------------------------------------------------------------
	type fieldPos struct {
		name string
		pos  token.Pos
	}
	parseOrders := map[string][][]fieldPos{} // kind -> one order per literal
	parseWhere := map[string][]token.Pos{}
	for _, f := range pk.Syntax {
		for _, d := range f.Decls {
			fd, ok := d.(*ast.FuncDecl)
			if !ok || fd.Body == nil || fd.Recv == nil || !strings.HasPrefix(fd.Name.Name, "parse") {
				continue
			}
			// assignments of identifiers from parse calls, in source order
			type def struct {
				obj types.Object
				pos token.Pos // position of the parse call
				at  token.Pos // position of the assignment
			}
			var defs []def
			ast.Inspect(fd.Body, func(n ast.Node) bool {
				as, ok := n.(*ast.AssignStmt)
				if !ok {
					return true
				}
				for i, lhs := range as.Lhs {
					id, ok := lhs.(*ast.Ident)
					if !ok {
						continue
					}
					var rhs ast.Expr
					if len(as.Rhs) == len(as.Lhs) {
						rhs = as.Rhs[i]
					} else if len(as.Rhs) == 1 {
						rhs = as.Rhs[0]
					}
					if rhs == nil {
						continue
					}
					if cp, ok := containsCall(rhs, "parse"); ok {
						obj := info.Defs[id]
						if obj == nil {
							obj = info.Uses[id]
						}
						if obj != nil {
							defs = append(defs, def{obj, cp, as.Pos()})
						}
					}
				}
				return true
			})
			ast.Inspect(fd.Body, func(n ast.Node) bool {
				cl, ok := n.(*ast.CompositeLit)
				if !ok {
					return true
				}
				tv, ok := info.Types[cl]
				if !ok {
					return true
				}
				kind := stmtKind(tv.Type)
				if kind == "" {
					return true
				}
				var order []fieldPos
				for _, el := range cl.Elts {
					kv, ok := el.(*ast.KeyValueExpr)
					if !ok {
						continue
					}
					key, ok := kv.Key.(*ast.Ident)
					if !ok {
						continue
					}
					if cp, ok := containsCall(kv.Value, "parse"); ok {
						order = append(order, fieldPos{key.Name, cp})
						continue
					}
					// identifier (possibly wrapped: &x, x.Data …): last definition from a parse call before the literal
					var id *ast.Ident
					ast.Inspect(kv.Value, func(m ast.Node) bool {
						if id != nil {
							return false
						}
						if i, ok := m.(*ast.Ident); ok {
							if _, isVar := info.Uses[i].(*types.Var); isVar {
								id = i
								return false
							}
						}
						return true
					})
					if id == nil {
						continue
					}
					obj := info.Uses[id]
					best := token.NoPos
					// an operand handed in by the caller (parseSuffix's `left`) was parsed before anything here
					if fd.Type.Params != nil {
						for _, fl := range fd.Type.Params.List {
							for _, nm := range fl.Names {
								if info.Defs[nm] == obj {
									if tvp, ok := info.Types[fl.Type]; ok && strings.HasSuffix(tvp.Type.String(), "js_ast.Expr") {
										best = fd.Pos()
									}
								}
							}
						}
					}
					for _, df := range defs {
						if df.obj == obj && df.at < cl.Pos() {
							best = df.pos
						}
					}
					if best != token.NoPos {
						order = append(order, fieldPos{key.Name, best})
					}
				}
				if len(order) >= 2 {
					sort.SliceStable(order, func(i, j int) bool { return order[i].pos < order[j].pos })
					parseOrders[kind] = append(parseOrders[kind], order)
					parseWhere[kind] = append(parseWhere[kind], cl.Pos())
				}
				return true
			})
		}
	}

	// ---- visit orders -------------------------------------------------------------------------
	visitOrders := map[string][]fieldPos{}
	visitWhere := map[string]token.Pos{}
	for _, vname := range []string{"visitAndAppendStmt", "visitExprInOut"} {
		vd := findFuncDecl(pk, "parser", vname)
		if !r.Anchor("js_parser.(*parser)."+vname, vd != nil) {
			return r
		}
		var outer *ast.TypeSwitchStmt
		ast.Inspect(vd.Body, func(n ast.Node) bool {
			if outer != nil {
				return false
			}
			if ts, ok := n.(*ast.TypeSwitchStmt); ok {
				outer = ts
				return false
			}
			return true
		})
		if !r.Anchor(vname+": type switch over the node", outer != nil) {
			return r
		}
		var switchVar string
		if as, ok := outer.Assign.(*ast.AssignStmt); ok && len(as.Lhs) == 1 {
			if id, ok := as.Lhs[0].(*ast.Ident); ok {
				switchVar = id.Name
			}
		}
		for _, c := range outer.Body.List {
			cc := c.(*ast.CaseClause)
			if len(cc.List) != 1 {
				continue
			}
			tv, ok := info.Types[cc.List[0]]
			if !ok {
				continue
			}
			kind := stmtKind(tv.Type)
			if kind == "" {
				continue
			}
			seen := map[string]bool{}
			var order []fieldPos
			note := func(field string, pos token.Pos) {
				if !seen[field] {
					seen[field] = true
					order = append(order, fieldPos{field, pos})
				}
			}
			fieldOf := func(e ast.Expr) string {
				// s.F, s.F.X, &s.F, s.F[i] … -> F
				for {
					switch x := e.(type) {
					case *ast.UnaryExpr:
						e = x.X
						continue
					case *ast.IndexExpr:
						e = x.X
						continue
					case *ast.ParenExpr:
						e = x.X
						continue
					case *ast.SelectorExpr:
						if id, ok := x.X.(*ast.Ident); ok && id.Name == switchVar {
							return x.Sel.Name
						}
						e = x.X
						continue
					}
					return ""
				}
			}
			for _, st := range cc.Body {
				ast.Inspect(st, func(n ast.Node) bool {
					if _, isFn := n.(*ast.FuncLit); isFn {
						return false
					}
					call, ok := n.(*ast.CallExpr)
					if !ok {
						return true
					}
					if _, ok := isParserMethod(call, "visit"); !ok {
						return true
					}
					for _, a := range call.Args {
						if f := fieldOf(a); f != "" {
							note(f, call.Pos())
						}
					}
					return true
				})
			}
			if len(order) >= 2 {
				visitOrders[kind] = order
				visitWhere[kind] = cc.Pos()
			}
		}
	}

	// ---- compare ------------------------------------------------------------------------------
	var kinds []string
	for k := range visitOrders {
		if len(parseOrders[k]) > 0 {
			kinds = append(kinds, k)
		}
	}
	sort.Strings(kinds)
	names := func(o []fieldPos) string {
		var s []string
		for _, f := range o {
			s = append(s, f.name)
		}
		return strings.Join(s, " → ")
	}
	for _, k := range kinds {
		vo := visitOrders[k]
		vidx := map[string]int{}
		for i, f := range vo {
			vidx[f.name] = i
		}
		for li, po := range parseOrders[k] {
			r.Instances++
			key := fmt.Sprintf("%s children order (parse site %d)", k, li+1)
			bad := ""
			common := 0
			for i := 0; i < len(po); i++ {
				for j := i + 1; j < len(po); j++ {
					a, okA := vidx[po[i].name]
					b, okB := vidx[po[j].name]
					if !okA || !okB {
						continue
					}
					common++
					if a > b && bad == "" {
						bad = fmt.Sprintf("the parser parses %s before %s (%s), but the visit pass visits %s first (%s): a scope opened inside %s is requested while the next recorded scope belongs to %s", po[i].name, po[j].name, p.Pos(parseWhere[k][li]), po[j].name, names(vo), po[j].name, po[i].name)
					}
				}
			}
			if bad != "" {
				r.Fail(key, p.Pos(visitWhere[k]), bad)
			} else if common > 0 {
				r.OK(key, true, "parse order "+names(po)+"; visit order "+names(vo))
			} else {
				r.Instances--
			}
		}
	}
	r.Floor(8)
	return r
}

// C13/R7 shape tests of the printer see through inlined enum values.
//
// An inlined TypeScript enum member (EInlinedEnum) is printed as its value followed by a comment.
// Where the printer decides on parentheses from the *shape* of an operand — `**` may not have a
// unary expression on its left, and a negative number, `void 0` and `!0` are printed as unary
// expressions — the decision must be taken on the wrapped value, or `A.B ** 2` with `B = -1` is
// printed as `-1 ** 2`, a syntax error.
// Rule: in binaryExprVisitor.checkAndPrepare every type test of an operand for ENumber, EUnary,
// EUndefined, EAwait or EBoolean is applied to a value that was unwrapped (its backward slice
// contains the EInlinedEnum.Value load).
func c13ShapeTestsUnwrap(p *Prog) *RuleResult {
	r := NewRule("C13/R7 shape-tests-unwrap-inlined-enum", "operand shape tests that decide parentheses around `**` are applied to the value inside an inlined enum (a negative enum value is printed as a unary expression)")
	fn := p.FindFunc("js_printer.(*binaryExprVisitor).checkAndPrepare")
	if !r.Anchor("js_printer.(*binaryExprVisitor).checkAndPrepare", fn != nil) {
		return r
	}
	shapes := map[string]bool{"ENumber": true, "EUnary": true, "EUndefined": true, "EAwait": true, "EBoolean": true}
	n := 0
	eachInstr(fn, func(b *ssa.BasicBlock, in ssa.Instruction) {
		ta, ok := in.(*ssa.TypeAssert)
		if !ok || !ta.CommaOk || !shapes[shortTypeName(ta.AssertedType)] {
			return
		}
		// only the tests under the `**` case: dominated by e.Op == BinOpPow
		isPow := false
		for _, f := range factsAt(b) {
			if bo, ok := f.Cond.(*ssa.BinOp); ok && f.True && bo.Op == token.EQL {
				if cv, ok := constInt(bo.Y); ok && cv == c13OpConst(p, "BinOpPow") {
					isPow = true
				}
			}
		}
		if !isPow {
			return
		}
		n++
		r.Instances++
		key := "checkAndPrepare ** left operand test for " + shortTypeName(ta.AssertedType)
		unwrapped := false
		backSlice(ta.X, func(v ssa.Value) bool {
			if fa, ok := v.(*ssa.FieldAddr); ok && namedTypeName(fa.X.Type()) == "js_ast.EInlinedEnum" {
				unwrapped = true
			}
			return !unwrapped
		})
		if unwrapped {
			r.OK(key, true, "applied to the operand after unwrapping EInlinedEnum")
		} else {
			r.Fail(key, p.Pos(ta.Pos()), "the operand's shape is tested without looking inside an inlined enum value: `A.B ** 2` with a negative (or undefined / boolean) enum value is printed as `-1 ** 2`, which does not parse")
		}
	})
	r.Anchor("shape tests under the ** case", n >= 3)
	return r
}

func c13OpConst(p *Prog, name string) int64 {
	pk := p.ByPath[modPath+"/internal/js_ast"]
	if pk == nil {
		return -1
	}
	if v, ok := constsOfType(pk.Types, "OpCode")[name]; ok {
		return v
	}
	return -1
}
