package main

import (
	"fmt"
	"go/token"
	"sort"

	"golang.org/x/tools/go/ssa"
)

// C15/R7 generated-name-tested-last.
//
// AssignNamesByFrequency generates candidate names with NumberToMinifiedName and must never store a
// name that collides with a reserved name (default namespace: keywords, unbound globals, pinned
// names) or a keyword (labels). C15/R2 only decides that the tests exist. This rule decides the
// order: on every path that is feasible for the namespace, the *last* candidate generated before the
// store into symbolSlot.name is looked up in the reserved set after it was generated. A second
// regeneration loop placed behind the reserved-name loop (the capital-letter loop for JSX component
// names did exactly that) hands out names nobody tested.
//
// Mechanics: instruction-level forward search from every NumberToMinifiedName call. A lookup in the
// namespace's table ends the path (tested; the true edge regenerates, which is another call with
// its own obligation), another generator call ends it (delegated), the store of symbolSlot.name
// ends it with a violation. Edges that contradict the namespace under consideration (`ns == K`
// tests on the range key of the slots array) are not followed.
func c15GeneratedNameTestedLast(p *Prog) *RuleResult {
	r := NewRule("C15/R7 generated-name-tested-last", "in AssignNamesByFrequency the last candidate name generated before the store into the slot was tested against the reserved names (default namespace) / the keyword table (labels) after it was generated")
	ap := p.ByPath[modPath+"/internal/ast"]
	fn := p.FindFunc("renamer.(*MinifyRenamer).AssignNamesByFrequency")
	if !r.Anchor("package ast", ap != nil) || !r.Anchor("renamer.(*MinifyRenamer).AssignNamesByFrequency", fn != nil) {
		return r
	}
	slotConsts := constsOfType(ap.Types, "SlotNamespace")
	nsDefault, ok1 := slotConsts["SlotDefault"]
	nsLabel, ok2 := slotConsts["SlotLabel"]
	if !r.Anchor("ast.SlotDefault / ast.SlotLabel", ok1 && ok2) {
		return r
	}
	isGen := func(in ssa.Instruction) bool {
		c, ok := in.(*ssa.Call)
		return ok && calleeFullName(c) == "("+modPath+"/internal/ast.NameMinifier).NumberToMinifiedName"
	}
	isSlotStore := func(in ssa.Instruction) bool {
		st, ok := in.(*ssa.Store)
		if !ok {
			return false
		}
		fa, ok := st.Addr.(*ssa.FieldAddr)
		return ok && fieldAddrName(fa) == "name" && namedTypeName(fa.X.Type()) == "renamer.symbolSlot"
	}
	// the selection of the name may stand in AssignNamesByFrequency itself or in a helper of the package
	// whose result AssignNamesByFrequency stores into the slot; in the helper, handing the name back
	// (return) is what the store is in the original form
	viaReturn := false
	{
		has := false
		eachInstr(fn, func(_ *ssa.BasicBlock, in ssa.Instruction) {
			if isGen(in) {
				has = true
			}
		})
		if !has {
			eachInstr(fn, func(_ *ssa.BasicBlock, in ssa.Instruction) {
				st, ok := in.(*ssa.Store)
				if !ok || !isSlotStore(in) || viaReturn {
					return
				}
				c, ok := st.Val.(*ssa.Call)
				if !ok || c.Call.StaticCallee() == nil || pkgPathOf(c.Call.StaticCallee()) != pkgPathOf(fn) {
					return
				}
				callee := c.Call.StaticCallee()
				gen := false
				eachInstr(callee, func(_ *ssa.BasicBlock, in2 ssa.Instruction) {
					if isGen(in2) {
						gen = true
					}
				})
				if gen {
					fn, viaReturn = callee, true
				}
			})
		}
	}
	isStore := func(in ssa.Instruction) bool {
		if viaReturn {
			_, isRet := in.(*ssa.Return)
			return isRet
		}
		return isSlotStore(in)
	}
	isReservedLookup := func(in ssa.Instruction) bool {
		l, ok := in.(*ssa.Lookup)
		if !ok {
			return false
		}
		_, n, ok := loadedField(l.X)
		return ok && n == "reservedNames"
	}
	isKeywordLookup := func(in ssa.Instruction) bool {
		l, ok := in.(*ssa.Lookup)
		if !ok {
			return false
		}
		if u, ok := l.X.(*ssa.UnOp); ok && u.Op == token.MUL {
			if g, ok := u.X.(*ssa.Global); ok && g.Name() == "Keywords" && g.Pkg.Pkg.Path() == modPath+"/internal/js_lexer" {
				return true
			}
		}
		return false
	}
	// namespace tests: If on `convert(root) == K`
	strip := func(v ssa.Value) ssa.Value {
		for {
			switch x := v.(type) {
			case *ssa.Convert:
				v = x.X
			case *ssa.ChangeType:
				v = x.X
			default:
				return v
			}
		}
	}
	type nsTest struct {
		k int64
	}
	tests := map[*ssa.BasicBlock]nsTest{}
	var root ssa.Value
	consistent := true
	for _, b := range fn.Blocks {
		if len(b.Instrs) == 0 {
			continue
		}
		ifi, ok := b.Instrs[len(b.Instrs)-1].(*ssa.If)
		if !ok {
			continue
		}
		bo, ok := ifi.Cond.(*ssa.BinOp)
		if !ok || bo.Op != token.EQL {
			continue
		}
		k, isK := constInt(bo.Y)
		if !isK || namedTypeName(bo.X.Type()) != "ast.SlotNamespace" {
			continue
		}
		rt := strip(bo.X)
		if root == nil {
			root = rt
		} else if root != rt {
			consistent = false
		}
		tests[b] = nsTest{k}
	}
	if !r.Anchor("namespace tests on one range key in AssignNamesByFrequency", len(tests) > 0 && consistent) {
		return r
	}
	var gens []ssa.Instruction
	nstores := 0
	eachInstr(fn, func(b *ssa.BasicBlock, in ssa.Instruction) {
		if isGen(in) {
			gens = append(gens, in)
		}
		if isStore(in) {
			nstores++
		}
	})
	if !r.Anchor("NumberToMinifiedName calls and the symbolSlot.name store in AssignNamesByFrequency", len(gens) > 0 && nstores > 0) {
		return r
	}
	sort.Slice(gens, func(i, j int) bool { return gens[i].Pos() < gens[j].Pos() })

	// search: does a path from just after `from` reach the store without a lookup, feasible for ns?
	search := func(from ssa.Instruction, ns int64, isLookup func(ssa.Instruction) bool) (token.Pos, bool) {
		type state int
		const (
			cont state = iota
			safe
			bad
		)
		scan := func(instrs []ssa.Instruction) (state, token.Pos) {
			for _, in := range instrs {
				switch {
				case isLookup(in), isGen(in):
					return safe, token.NoPos
				case isStore(in):
					return bad, in.Pos()
				}
			}
			return cont, token.NoPos
		}
		feasibleSuccs := func(b *ssa.BasicBlock) []*ssa.BasicBlock {
			if t, ok := tests[b]; ok && len(b.Succs) == 2 {
				if t.k == ns {
					return b.Succs[:1]
				}
				return b.Succs[1:]
			}
			return b.Succs
		}
		b := from.Block()
		idx := 0
		for i, in := range b.Instrs {
			if in == from {
				idx = i + 1
			}
		}
		st, pos := scan(b.Instrs[idx:])
		if st == bad {
			return pos, true
		}
		if st == safe {
			return token.NoPos, false
		}
		seen := map[*ssa.BasicBlock]bool{}
		work := append([]*ssa.BasicBlock{}, feasibleSuccs(b)...)
		for len(work) > 0 {
			c := work[len(work)-1]
			work = work[:len(work)-1]
			if seen[c] {
				continue
			}
			seen[c] = true
			st, pos := scan(c.Instrs)
			if st == bad {
				return pos, true
			}
			if st == safe {
				continue
			}
			work = append(work, feasibleSuccs(c)...)
		}
		return token.NoPos, false
	}
	for _, spec := range []struct {
		ns     int64
		name   string
		table  string
		lookup func(ssa.Instruction) bool
	}{
		{nsDefault, "default namespace", "r.reservedNames", isReservedLookup},
		{nsLabel, "label namespace", "js_lexer.Keywords", isKeywordLookup},
	} {
		r.Instances++
		key := "AssignNamesByFrequency " + spec.name + ": last generated candidate is looked up in " + spec.table
		var bad []string
		considered := 0
		for _, g := range gens {
			feasible := true
			for _, f := range factsAt(g.Block()) {
				bo, ok := f.Cond.(*ssa.BinOp)
				if !ok || bo.Op != token.EQL || namedTypeName(bo.X.Type()) != "ast.SlotNamespace" {
					continue
				}
				if k, isK := constInt(bo.Y); isK && ((k == spec.ns) != f.True) {
					feasible = false
				}
			}
			if !feasible {
				continue
			}
			considered++
			if pos, violated := search(g, spec.ns, spec.lookup); violated {
				bad = append(bad, fmt.Sprintf("the candidate generated at %s reaches the store at %s without a lookup in %s", p.Pos(g.Pos()), p.Pos(pos), spec.table))
			}
		}
		if len(bad) == 0 {
			r.OK(key, true, fmt.Sprintf("%d generator calls feasible for the namespace; every feasible path from each to the store of symbolSlot.name passes a lookup in %s or another generator call", considered, spec.table))
		} else {
			r.Fail(key, p.Pos(gens[0].Pos()), bad[0]+": a name nobody tested can be handed out (it may be a keyword, an unbound global the file refers to, or a pinned name — the reference then binds to the renamed symbol)")
		}
	}
	r.Floor(2)
	return r
}
