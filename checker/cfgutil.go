package main

import (
	"go/token"
	"go/types"

	"golang.org/x/tools/go/ssa"
)

// reachesExitAvoiding reports whether, starting right after instruction index `idx` of block `from`
// (or at the start of the block when idx < 0), some path reaches a block for which isExit is true
// without entering a block for which avoid is true. The start block itself is only "avoided" if
// the avoiding instruction comes after idx (callers encode that in avoid by instruction position
// when needed; here blocks are atomic except for the start block, see avoidFrom).
func reachesExitAvoiding(from *ssa.BasicBlock, isExit func(*ssa.BasicBlock) bool, avoid func(*ssa.BasicBlock) bool, startIsSafe bool) ([]*ssa.BasicBlock, bool) {
	type item struct {
		b    *ssa.BasicBlock
		prev int
	}
	seen := map[*ssa.BasicBlock]bool{}
	var order []item
	push := func(b *ssa.BasicBlock, prev int) {
		if seen[b] {
			return
		}
		seen[b] = true
		order = append(order, item{b, prev})
	}
	if !startIsSafe && avoid(from) {
		return nil, false
	}
	if isExit(from) {
		return []*ssa.BasicBlock{from}, true
	}
	seen[from] = true
	order = append(order, item{from, -1})
	for i := 0; i < len(order); i++ {
		b := order[i].b
		for _, s := range b.Succs {
			if seen[s] {
				continue
			}
			if avoid(s) {
				continue
			}
			push(s, i)
			if isExit(s) {
				// reconstruct
				var path []*ssa.BasicBlock
				for j := len(order) - 1; j >= 0; j = order[j].prev {
					path = append([]*ssa.BasicBlock{order[j].b}, path...)
					if order[j].prev < 0 {
						break
					}
				}
				return path, true
			}
		}
	}
	return nil, false
}

func isReturnBlock(b *ssa.BasicBlock) bool {
	if len(b.Instrs) == 0 {
		return false
	}
	_, ok := b.Instrs[len(b.Instrs)-1].(*ssa.Return)
	return ok
}

func isPanicBlock(b *ssa.BasicBlock) bool {
	if len(b.Instrs) == 0 {
		return false
	}
	_, ok := b.Instrs[len(b.Instrs)-1].(*ssa.Panic)
	return ok
}

// blockHas reports whether the block contains an instruction satisfying pred.
func blockHas(b *ssa.BasicBlock, pred func(ssa.Instruction) bool) bool {
	for _, in := range b.Instrs {
		if pred(in) {
			return true
		}
	}
	return false
}

// loadedField: if v is a load (UnOp *) of a FieldAddr, or a Field of a struct value, return the
// field name and owner type.
func loadedField(v ssa.Value) (owner, name string, ok bool) {
	switch x := v.(type) {
	case *ssa.UnOp:
		if x.Op == token.MUL {
			if fa, ok := x.X.(*ssa.FieldAddr); ok {
				return namedTypeName(fa.X.Type()), fieldAddrName(fa), true
			}
		}
	case *ssa.Field:
		return namedTypeName(x.X.Type()), fieldValName(x), true
	}
	return "", "", false
}

// nilCheckOfField: does cond test `<field> != nil` (true polarity = non-nil)? returns polarity
func nilCheckOfField(cond ssa.Value, field string) (nonNilOnTrue bool, ok bool) {
	b, isBin := cond.(*ssa.BinOp)
	if !isBin || (b.Op != token.NEQ && b.Op != token.EQL) {
		return false, false
	}
	var other ssa.Value
	if c, isC := b.Y.(*ssa.Const); isC && c.Value == nil {
		other = b.X
	} else if c, isC := b.X.(*ssa.Const); isC && c.Value == nil {
		other = b.Y
	} else {
		return false, false
	}
	_, name, okf := loadedField(other)
	if !okf || name != field {
		return false, false
	}
	return b.Op == token.NEQ, true
}

func constsOfType(pkg *types.Package, typeName string) map[string]int64 {
	out := map[string]int64{}
	for _, n := range pkg.Scope().Names() {
		c, ok := pkg.Scope().Lookup(n).(*types.Const)
		if !ok {
			continue
		}
		if nt, ok := c.Type().(*types.Named); ok && nt.Obj().Name() == typeName && nt.Obj().Pkg() == pkg {
			if v, ok := constInt64(c); ok {
				out[n] = v
			}
		}
	}
	return out
}

// reachesExitAvoidingEdges is like reachesExitAvoiding but lets the caller block individual CFG
// edges (from block, successor index) in addition to blocks.
func reachesExitAvoidingEdges(from *ssa.BasicBlock, isExit func(*ssa.BasicBlock) bool, avoidBlock func(*ssa.BasicBlock) bool, avoidEdge func(b *ssa.BasicBlock, succ int) bool) ([]*ssa.BasicBlock, bool) {
	type item struct {
		b    *ssa.BasicBlock
		prev int
	}
	if avoidBlock(from) {
		return nil, false
	}
	seen := map[*ssa.BasicBlock]bool{from: true}
	order := []item{{from, -1}}
	if isExit(from) {
		return []*ssa.BasicBlock{from}, true
	}
	for i := 0; i < len(order); i++ {
		b := order[i].b
		for si, s := range b.Succs {
			if seen[s] || avoidBlock(s) || avoidEdge(b, si) {
				continue
			}
			seen[s] = true
			order = append(order, item{s, i})
			if isExit(s) {
				var path []*ssa.BasicBlock
				for j := len(order) - 1; j >= 0; j = order[j].prev {
					path = append([]*ssa.BasicBlock{order[j].b}, path...)
					if order[j].prev < 0 {
						break
					}
				}
				return path, true
			}
		}
	}
	return nil, false
}
