package main

import (
	"fmt"
	"go/token"
	"sort"

	"golang.org/x/tools/go/ssa"
)

// C10/R3 export-owner-table.
//
// A resolved export (graph.ExportData) names a symbol by (SourceIndex, Ref): Ref is a symbol of the
// file SourceIndex, which is not necessarily the file that lists the export (export * / re-exports).
// When the linker follows "this export is itself an import" it must look Ref up in the
// ImportsToBind table of the file that owns Ref, c.graph.Files[export.SourceIndex]. Looking it up
// in another file's table silently finds nothing (or another binding), so cross-chunk imports and
// exports are computed for the wrong symbol. Rule: for every lookup m[k] where m is loaded from a
// field ImportsToBind and k is computed from the Ref field of an ExportData value E, m is reached
// through Files[i] with i computed from E.SourceIndex (the same E).

func c10ExportOwnerTable(p *Prog) *RuleResult {
	r := NewRule("C10/R3 export-owner-table", "an ImportsToBind lookup keyed by an export's Ref uses the table of the file named by the same export's SourceIndex")
	isExportData := func(v ssa.Value) bool { return namedTypeName(v.Type()) == "graph.ExportData" }
	// exportRoots: ExportData values E such that v is computed from E.<field>
	var rootsOf func(v ssa.Value, field string) map[ssa.Value]bool
	rootsOf = func(v ssa.Value, field string) map[ssa.Value]bool {
		out := map[ssa.Value]bool{}
		seen := map[ssa.Value]bool{}
		var walk func(v ssa.Value, depth int)
		walk = func(v ssa.Value, depth int) {
			if v == nil || seen[v] || depth > 40 {
				return
			}
			seen[v] = true
			switch x := v.(type) {
			case *ssa.UnOp:
				if x.Op == token.MUL {
					walk(x.X, depth+1)
				}
			case *ssa.FieldAddr:
				if fieldAddrName(x) == field && isExportData(x.X) {
					out[canonCell(x.X)] = true
					return
				}
				walk(x.X, depth+1)
			case *ssa.Field:
				if fieldValName(x) == field && isExportData(x.X) {
					out[canonCell(x.X)] = true
					return
				}
				walk(x.X, depth+1)
			case *ssa.Phi:
				for _, e := range x.Edges {
					walk(e, depth+1)
				}
			case *ssa.Alloc:
				if x.Referrers() != nil {
					for _, rf := range *x.Referrers() {
						if st, ok := rf.(*ssa.Store); ok && st.Addr == ssa.Value(x) {
							walk(st.Val, depth+1)
						}
					}
				}
			case *ssa.IndexAddr:
				walk(x.X, depth+1)
				walk(x.Index, depth+1)
			case *ssa.Index:
				walk(x.X, depth+1)
				walk(x.Index, depth+1)
			case *ssa.Call:
				// accessor methods such as ast.Index32.GetIndex / conversions
				for _, a := range x.Call.Args {
					walk(a, depth+1)
				}
			case *ssa.Convert:
				walk(x.X, depth+1)
			case *ssa.ChangeType:
				walk(x.X, depth+1)
			case *ssa.TypeAssert:
				walk(x.X, depth+1)
			case *ssa.Extract:
				walk(x.Tuple, depth+1)
			}
		}
		walk(v, 0)
		return out
	}
	type site struct {
		fn  *ssa.Function
		lk  *ssa.Lookup
		key string
	}
	var sites []site
	for _, fn := range p.ModuleFuncs() {
		if pkgPathOf(fn) != modPath+"/internal/linker" {
			continue
		}
		n := 0
		eachInstr(fn, func(b *ssa.BasicBlock, in ssa.Instruction) {
			lk, ok := in.(*ssa.Lookup)
			if !ok {
				return
			}
			if _, name, ok := loadedField(lk.X); !ok || name != "ImportsToBind" {
				return
			}
			keyRoots := rootsOf(lk.Index, "Ref")
			if len(keyRoots) == 0 {
				return
			}
			n++
			sites = append(sites, site{fn, lk, fmt.Sprintf("%s lookup #%d", FuncName(fn), n)})
		})
	}
	sort.Slice(sites, func(i, j int) bool { return sites[i].key < sites[j].key })
	for _, s := range sites {
		r.Instances++
		keyRoots := rootsOf(s.lk.Index, "Ref")
		// the Files[...] indices on the way to the table
		ownerRoots := map[ssa.Value]bool{}
		sawFiles := false
		backSlice(s.lk.X, func(v ssa.Value) bool {
			if ia, ok := v.(*ssa.IndexAddr); ok {
				if _, name, ok := loadedField(ia.X); ok && name == "Files" {
					sawFiles = true
					for e := range rootsOf(ia.Index, "SourceIndex") {
						ownerRoots[e] = true
					}
				}
			}
			return true
		})
		match := false
		for e := range keyRoots {
			if ownerRoots[e] {
				match = true
			}
		}
		switch {
		case match:
			r.OK(s.key, true, "table of Files[E.SourceIndex] indexed by E.Ref for the same export E")
		case !sawFiles:
			r.Fail(s.key, p.Pos(s.lk.Pos()), "the ImportsToBind table indexed by an export's Ref is not reached through c.graph.Files[...]: cannot tell whose table it is")
		default:
			r.Fail(s.key, p.Pos(s.lk.Pos()), "an export's Ref is looked up in the ImportsToBind table of a file that is not the one named by the same export's SourceIndex; for re-exported or export-star'd bindings the Ref belongs to another file, so the import is not followed and cross-chunk imports/exports are computed for the wrong symbol")
		}
	}
	r.Floor(5)
	return r
}

// canonCell: a struct value copied into a local variable and the variable denote the same export
func canonCell(v ssa.Value) ssa.Value {
	if u, ok := v.(*ssa.UnOp); ok && u.Op == token.MUL {
		if al, ok := u.X.(*ssa.Alloc); ok {
			return al
		}
	}
	return v
}
