package main

import (
	"fmt"
	"go/token"
	"go/types"
	"sort"
	"strings"

	"golang.org/x/tools/go/ssa"
)

// E-GLOB: memory reachable from package-level variables is shared by every build of the process.
//
// esbuild keeps a few process-wide tables and caches in package-level variables (the processed
// table of known side-effect-free globals, the runtime AST cache, keyword and feature tables).
// Every build, transform and context of the process reads them, concurrently. A write through a
// value obtained from such a variable — even into a "copy" that still shares a backing array
// with it — changes what all later builds see (and races with concurrent readers): the same
// inputs and options then give different outputs depending on which builds ran before.
//
// Rule (value-flow on SSA, per function):
//   shared values  a load of a package-level variable of the module, and everything obtained from
//                  a shared value without allocating: dereference, field, element, map lookup, range
//                  value, re-slice, phi, conversion; a local map or slice *holds* shared values
//                  once one has been stored into it, and what is read back from it is shared
//                  again (a shallow copy keeps the inner slices and maps of the original);
//   clean again    make / new / composite literals, append onto a fresh slice;
//   violation      a store through a shared pointer or into an element of a shared slice, or an
//                  insert/delete on a shared map — unless a mutex is in the must-hold lock set at
//                  that point (the owner's own guarded update), or the function is a package
//                  initialiser. Assigning the package-level variable itself is not a store
//                  *through* it.

type globShared struct {
	cacheResults bool
	p            *Prog
	retCache     map[*ssa.Function]bool
	busy         map[*ssa.Function]bool
}

func (g *globShared) isModuleGlobal(v ssa.Value) (*ssa.Global, bool) {
	gl, ok := v.(*ssa.Global)
	if !ok || gl.Pkg == nil || gl.Pkg.Pkg == nil || !strings.HasPrefix(gl.Pkg.Pkg.Path(), modPath) {
		return nil, false
	}
	return gl, true
}

func refLike(t types.Type) bool {
	switch u := t.Underlying().(type) {
	case *types.Pointer, *types.Map, *types.Slice, *types.Interface, *types.Chan:
		return true
	case *types.Struct:
		for i := 0; i < u.NumFields(); i++ {
			if refLike(u.Field(i).Type()) {
				return true
			}
		}
	case *types.Array:
		return refLike(u.Elem())
	}
	return false
}

// analyse computes the shared values of fn. origin[v] names the package-level variable.
func (g *globShared) analyse(fn *ssa.Function) (shared map[ssa.Value]string) {
	shared = map[ssa.Value]string{}
	holds := map[ssa.Value]string{} // local containers (map / slice values) whose elements are shared
	direct := map[string]string{}   // local cells (variable or field of a local struct) that contain a shared value
	elems := map[string]string{}    // local cells that contain a container whose elements are shared
	mark := func(v ssa.Value, origin string) bool {
		if v == nil || origin == "" {
			return false
		}
		if _, ok := shared[v]; ok {
			return false
		}
		if !refLike(v.Type()) {
			return false
		}
		shared[v] = origin
		return true
	}
	for changed := true; changed; {
		changed = false
		eachInstr(fn, func(b *ssa.BasicBlock, in ssa.Instruction) {
			switch x := in.(type) {
			case *ssa.UnOp:
				if x.Op != token.MUL {
					return
				}
				if gl, ok := g.isModuleGlobal(x.X); ok {
					if mark(x, "package-level variable "+shortPkg(gl.Pkg.Pkg.Path())+"."+gl.Name()) {
						changed = true
					}
					return
				}
				if o, ok := shared[x.X]; ok {
					if mark(x, o) {
						changed = true
					}
					return
				}
				// load from a local cell / field of a local struct that holds shared values
				root := x.X
				for {
					if fa, ok := root.(*ssa.FieldAddr); ok {
						root = fa.X
						continue
					}
					if ia, ok := root.(*ssa.IndexAddr); ok {
						root = ia.X
						continue
					}
					break
				}
				// the cell itself, or an enclosing struct that was copied whole from shared memory
				for k := cellKey(x.X); k != ""; {
					if o, ok := direct[k]; ok {
						if mark(x, o) {
							changed = true
						}
						break
					}
					i := strings.LastIndex(k, ".")
					if i < 0 {
						break
					}
					k = k[:i]
				}
				if o, ok := elems[cellKey(x.X)]; ok {
					// the loaded value is a local container whose elements are shared
					if _, had := holds[x]; !had {
						holds[x] = o
						changed = true
					}
				}
				_ = root
			case *ssa.FieldAddr:
				if gl, ok := g.isModuleGlobal(x.X); ok {
					if mark(x, "package-level variable "+shortPkg(gl.Pkg.Pkg.Path())+"."+gl.Name()) {
						changed = true
					}
				} else if o, ok := shared[x.X]; ok {
					if mark(x, o) {
						changed = true
					}
				}
			case *ssa.IndexAddr:
				if gl, ok := g.isModuleGlobal(x.X); ok {
					if mark(x, "package-level variable "+shortPkg(gl.Pkg.Pkg.Path())+"."+gl.Name()) {
						changed = true
					}
				} else if o, ok := shared[x.X]; ok {
					if mark(x, o) {
						changed = true
					}
				}
			case *ssa.Field:
				if o, ok := shared[x.X]; ok && mark(x, o) {
					changed = true
				}
			case *ssa.Index:
				if o, ok := shared[x.X]; ok && mark(x, o) {
					changed = true
				}
			case *ssa.Lookup:
				if o, ok := shared[x.X]; ok && mark(x, o) {
					changed = true
				} else if o, ok := holds[x.X]; ok && mark(x, o) {
					changed = true
				}
			case *ssa.Slice:
				if o, ok := shared[x.X]; ok && mark(x, o) {
					changed = true
				}
			case *ssa.ChangeType:
				if o, ok := shared[x.X]; ok && mark(x, o) {
					changed = true
				}
			case *ssa.MakeInterface:
				if o, ok := shared[x.X]; ok && mark(x, o) {
					changed = true
				}
			case *ssa.TypeAssert:
				if o, ok := shared[x.X]; ok && mark(x, o) {
					changed = true
				}
			case *ssa.Phi:
				for _, e := range x.Edges {
					if o, ok := shared[e]; ok && mark(x, o) {
						changed = true
					}
				}
			case *ssa.Range:
				if _, had := shared[x]; !had {
					if o, ok := shared[x.X]; ok {
						shared[x] = o
						changed = true
					} else if o, ok := holds[x.X]; ok {
						shared[x] = o
						changed = true
					}
				}
			case *ssa.Next:
				if o, ok := shared[x.Iter]; ok {
					if _, had := shared[x]; !had {
						shared[x] = o
						changed = true
					}
				}
			case *ssa.Extract:
				if o, ok := shared[x.Tuple]; ok && mark(x, o) {
					changed = true
				}
			case *ssa.Call:
				// results of the incremental caches (internal/cache): "cached values are immutable and
				// shared between builds" is the contract stated in cache.go
				if g.cacheResults {
					if callee := x.Call.StaticCallee(); callee != nil && pkgPathOf(callee) == modPath+"/internal/cache" && callee.Signature.Recv() != nil && pkgPathOf(fn) != modPath+"/internal/cache" {
						if _, had := shared[x]; !had {
							shared[x] = "the result of " + FuncName(callee)
							changed = true
						}
					}
				}
			// (results of other calls are not followed: most functions that can return a shared value —
			// an expression visitor that may return the ENullShared singleton — return fresh ones on
			// other paths, and a may-summary would make every caller's result shared)
			case *ssa.MapUpdate:
				if o, ok := shared[x.Value]; ok {
					if _, isShared := shared[x.Map]; !isShared {
						if _, had := holds[x.Map]; !had {
							holds[x.Map] = o
							changed = true
						}
						// a map kept in a local variable or in a field of a local struct: every later
						// load of that cell yields a container that holds shared elements
						if u, ok := x.Map.(*ssa.UnOp); ok && u.Op == token.MUL {
							if k := cellKey(u.X); k != "" {
								if _, had := elems[k]; !had {
									elems[k] = o
									changed = true
								}
							}
						}
					}
				}
			case *ssa.Store:
				if _, isGlobal := g.isModuleGlobal(x.Addr); isGlobal {
					return
				}
				if o, ok := shared[x.Val]; ok {
					if k := cellKey(x.Addr); k != "" {
						if _, had := direct[k]; !had {
							direct[k] = o
							changed = true
						}
					}
					// an element of a local slice
					if ia, ok := x.Addr.(*ssa.IndexAddr); ok {
						if _, isShared := shared[ia.X]; !isShared {
							if _, had := holds[ia.X]; !had {
								holds[ia.X] = o
								changed = true
							}
						}
					}
				}
				// a container that holds shared elements stored into a local cell
				if o, ok := holds[x.Val]; ok {
					if k := cellKey(x.Addr); k != "" {
						if _, had := elems[k]; !had {
							elems[k] = o
							changed = true
						}
					}
				}
			}
		})
	}
	return shared
}

func (g *globShared) returnsShared(fn *ssa.Function) bool {
	if r, ok := g.retCache[fn]; ok {
		return r
	}
	if g.busy[fn] {
		return false
	}
	g.busy[fn] = true
	defer delete(g.busy, fn)
	res := false
	sh := g.analyse(fn)
	for _, b := range fn.Blocks {
		if !isReturnBlock(b) {
			continue
		}
		ret := b.Instrs[len(b.Instrs)-1].(*ssa.Return)
		for _, rv := range ret.Results {
			if _, ok := sh[rv]; ok {
				res = true
			}
		}
	}
	g.retCache[fn] = res
	return res
}

var globShareExceptions = ExcTable{}

func globalSharedImmutability(p *Prog, name string) *RuleResult {
	return sharedImmutability(p, name, false)
}

// cacheResultImmutability: the same value-flow with the results of the incremental caches as sources.
func cacheResultImmutability(p *Prog, name string) *RuleResult {
	return sharedImmutability(p, name, true)
}

func sharedImmutability(p *Prog, name string, cacheResults bool) *RuleResult {
	r := NewRule(name, "memory reachable from a package-level variable (process-wide tables and caches) is never written through a value obtained from it — shallow copies included — except by the owner's mutex-guarded update and by package initialisers")
	g := &globShared{p: p, retCache: map[*ssa.Function]bool{}, busy: map[*ssa.Function]bool{}, cacheResults: cacheResults}
	nFns, nShared := 0, 0
	for _, fn := range p.ModuleFuncs() {
		if fn.Blocks == nil {
			continue
		}
		top := TopFunc(fn)
		if top.Name() == "init" || strings.HasPrefix(top.Name(), "init#") || top.Synthetic != "" {
			continue
		}
		sh := g.analyse(fn)
		if len(sh) == 0 {
			continue
		}
		nFns++
		nShared += len(sh)
		type sinkT struct {
			in   ssa.Instruction
			what string
			org  string
		}
		var sinks []sinkT
		eachInstr(fn, func(b *ssa.BasicBlock, in ssa.Instruction) {
			switch x := in.(type) {
			case *ssa.Store:
				if _, isGlobal := g.isModuleGlobal(x.Addr); isGlobal {
					return
				}
				switch a := x.Addr.(type) {
				case *ssa.IndexAddr:
					if o, ok := sh[a.X]; ok {
						sinks = append(sinks, sinkT{in, "stores into an element of a slice", o})
					}
				case *ssa.FieldAddr:
					if o, ok := sh[a.X]; ok {
						if _, isGlobal := g.isModuleGlobal(a.X); !isGlobal {
							sinks = append(sinks, sinkT{in, "stores into field " + fieldAddrName(a) + " of an object", o})
						}
					}
				default:
					if o, ok := sh[x.Addr]; ok {
						if _, isAlloc := x.Addr.(*ssa.Alloc); !isAlloc {
							sinks = append(sinks, sinkT{in, "stores through a pointer", o})
						}
					}
				}
			case *ssa.MapUpdate:
				if o, ok := sh[x.Map]; ok {
					sinks = append(sinks, sinkT{in, "inserts into a map", o})
				}
			case *ssa.Call:
				if bi, ok := x.Call.Value.(*ssa.Builtin); ok && bi.Name() == "delete" && len(x.Call.Args) > 0 {
					if o, ok := sh[x.Call.Args[0]]; ok {
						sinks = append(sinks, sinkT{in, "deletes from a map", o})
					}
				}
			}
		})
		if len(sinks) == 0 {
			continue
		}
		li := analyseLocks(fn, lockState{}, func(in ssa.Instruction) bool {
			for _, s := range sinks {
				if s.in == in {
					return true
				}
			}
			return false
		})
		seen := map[string]bool{}
		for _, s := range sinks {
			key := FuncName(fn) + " " + s.what + " obtained from " + s.org
			if seen[key] {
				continue
			}
			seen[key] = true
			r.Instances++
			if held := li.at[s.in]; len(held) > 0 {
				var ks []string
				for k := range held {
					ks = append(ks, k)
				}
				sort.Strings(ks)
				r.OK(key, true, "the owner's update, made with "+strings.Join(ks, ", ")+" held")
				continue
			}
			if !r.CheckExc(globShareExceptions, key) {
				r.Fail(key, p.Pos(s.in.Pos()), "this write lands in memory shared by every build of the process: "+s.org+" (reached without an allocation in between: a shallow copy shares the inner slices and maps); every later build sees the change, and concurrent builds race on it")
			}
		}
	}
	r.Note("functions that handle values obtained from package-level variables: %d (%d shared values)", nFns, nShared)
	r.Anchor("functions that read package-level tables", nFns >= 10)
	if r.Instances == 0 {
		r.Instances++
		r.OK("no write through package-level memory outside initialisers", true, fmt.Sprintf("%d functions read package-level tables; none stores through a value obtained from them", nFns))
	}
	r.StaleCheck(globShareExceptions)
	return r
}

func isLocalContainer(v ssa.Value) bool {
	switch v.(type) {
	case *ssa.Alloc, *ssa.MakeMap, *ssa.MakeSlice:
		return true
	}
	return false
}

// isLoadOfLocal: v is a map/slice loaded from (a field of) a local variable
func isLoadOfLocal(v ssa.Value) bool {
	u, ok := v.(*ssa.UnOp)
	if !ok || u.Op != token.MUL {
		return false
	}
	root := u.X
	for {
		if fa, ok := root.(*ssa.FieldAddr); ok {
			root = fa.X
			continue
		}
		break
	}
	_, isAlloc := root.(*ssa.Alloc)
	return isAlloc
}

// cellKey identifies a local memory cell: a local variable (Alloc) or a field path of one.
func cellKey(addr ssa.Value) string {
	var path []string
	for {
		switch x := addr.(type) {
		case *ssa.FieldAddr:
			path = append(path, fieldAddrName(x))
			addr = x.X
			continue
		case *ssa.Alloc:
			k := x.Name()
			for i := len(path) - 1; i >= 0; i-- {
				k += "." + path[i]
			}
			return k
		}
		return ""
	}
}
