package main

import (
	"fmt"
	"os"
	"sort"
	"strings"
)

// reviewed map loops: key -> reason
var c08MapLoopExceptions = ExcTable{
	"fs.(*realFS).WatchData range wasPresent:map[string]bool":                 "watch mode only: returns the first directory entry whose presence changed; which of several changed entries is named affects only the 'file changed' trigger text, the rebuild itself re-reads everything",
	"fs.(*realFS).WatchData range watchData:map[string]fs.privateWatchData":   "per-path effects only (paths[path] keyed by a copy of the loop key); modKey(path) reads the file system and touches no shared state",
	"fs.(*zipFS).ReadDirectory range entries:map[string]fs.EntryKind":          "insert keyed by the lower-cased name: collides only if one zip directory has two names differing only by case; file lookup itself is by lower-cased path in archive order; no observable difference could be produced (tried)",
	"fs.MockFS range param input:map[string]string":                            "test/mock file system: directory entries inserted per path; values for one key are equal in every order unless a path is both a file and a directory; the `break` ends the walk up to the root, not the map loop",
	"js_parser.(*parser).generateImportStmt range param symbols:map[string]ast.LocRef": "minimum by Loc.Start; logger.Loc has Start as its only field, so the stored value is determined by the compared key (commutative min)",
	"linker.(*linkerContext).addExportsForExportStar range NamedExports:map[string]js_ast.NamedExport": "ImportsToBind[name.Ref] is keyed by the value's own Ref and stores {Ref: name.Ref, SourceIndex: otherSourceIndex}: fully determined by the key and a loop-invariant",
	"linker.(*linkerContext).computeCrossChunkDependencies range imports:map[ast.Ref]bool": "appends into importsFromOtherChunks[chunk], which sortedCrossChunkImports sorts (by export alias, then chunks by index) before any use; exports[ref]=true is a set insert",
	"linker.(*linkerContext).mangleProps range MangledProps:map[string]ast.Ref": "each property name occurs once per file; merges for different names touch disjoint symbols; the merge target is fixed by the outer loop over ReachableFiles (ordered)",
	"linker.(*linkerContext).scanImportsAndExports range ImportsToBind:map[ast.Ref]graph.ImportData": "Part.Dependencies is consumed as a set by the tree-shaking closure; MergeSymbols links each import symbol to its export (distinct keys); the only order-sensitive part of MergeContentsWith (name transfer between two pinned symbols) needs two must-not-rename import aliases of one export, which only arises under direct eval where the file is wrapped as CommonJS and imports are not bound (checked by experiment)",
	"linker.(*linkerContext).scanImportsAndExports range ResolvedExports:map[string]graph.ExportData": "collects aliases then sort.Strings(aliases); maybeForbidArbitraryModuleNamespaceIdentifier only logs a located error",
	"linker.(*linkerContext).scanImportsAndExports range SymbolUses:map[ast.Ref]js_ast.SymbolUse": "appends to Part.Dependencies, which is consumed as a set by the tree-shaking closure (markPartLiveForTreeShaking visits every dependency; liveness is a closure and does not depend on visiting order)",
	"pkg/api.(*apiHandler).broadcastBuildResult range local:map[string]string":        "serve mode live-reload event: collected into added/removed/updated which are sorted (sort.Strings) before being sent",
	"pkg/api.(*apiHandler).broadcastBuildResult range param newHashes:map[string]string": "serve mode live-reload event: collected into added/removed/updated which are sorted (sort.Strings) before being sent",
	"pkg/api.(*watcher).tryToFindDirtyPath range Paths:map[string]func() string":       "watch mode deliberately scans paths in a shuffled order (Fisher-Yates right below); it decides when a rebuild starts, not what it produces",
	"pkg/api.rebuildImpl range param oldHashes:map[string]string":                      "collects stale outputs to delete; each is removed by its own goroutine, order irrelevant (a set of os.Remove calls)",
	"pkg/api.validateDefines range local:map[string]config.DefineData":                 "ProcessDefines turns the array into keyed lookups (identifier map, dot-defines bucketed by last part and matched by full part list); rawDefines keys are unique so bucket order cannot change which define matches",
	"pkg/cli.parseTargets range validEngines:map[string]pkg/api.EngineName":            "engine names are mutually prefix-free, so at most one entry satisfies strings.HasPrefix(value, engine); the error list below is sorted (sort.Strings(engines))",
	"renamer.(*MinifyRenamer).AccumulateSymbolUseCounts range param symbolUses:map[ast.Ref]js_ast.SymbolUse": "adds counts into per-slot counters (atomic integer adds) and appends top-level symbols to an array that is sorted by (count, stable source index, inner index) before names are assigned",
	"renamer.(*NumberRenamer).AssignNamesByScope range param nestedScopes:map[uint32][]*js_ast.Scope": "one goroutine per file, joined by a WaitGroup; each writes only r.names[its own sourceIndex] and reads the frozen root scope",
	"resolver.(*Resolver).Resolve range PackageAliases:map[string]string":              "longest matching key with a strict > comparison: two matching keys of equal length are both prefixes of importPath of the same length, hence equal; argmax is unique",
	"resolver.(resolverQuery).finalizeImportsExportsResult range rewrittenFileExtensions:map[string][]string": "the keys .js/.jsx/.mjs/.cjs are mutually suffix-free, so at most one iteration passes strings.HasSuffix(base, old) and the loop breaks right after it",
	"resolver.(resolverQuery).loadAsFile range rewrittenFileExtensions:map[string][]string": "the keys .js/.jsx/.mjs/.cjs are mutually suffix-free, so at most one iteration passes strings.HasSuffix(base, old) and the loop breaks right after it",
	"resolver.(resolverQuery).matchTSConfigPaths range Map:map[string][]resolver.TSConfigPath #2": "lexicographic maximum of (prefix length, suffix length) with strict comparisons; two matching patterns with equal lengths have equal prefix and suffix strings, i.e. are the same key (the code comment states this is done for determinism)",
	"resolver.(resolverQuery).parseTSConfigFromSource range Map:map[string][]resolver.TSConfigPath": "filters each key's own slice in place and stores it back under the loop key; the helper only logs located warnings and lazily creates one shared tracker (idempotent)",
}

func init() {
	register(&Property{
		ID: "C08",
		Explanation: "Decides the absence of the enumerable nondeterminism sources on paths that produce output or diagnostics (necessary conditions of byte-identical builds, not the behaviour): R1 every `range` over a map in non-test code is order-insensitive (commutative body, collect-then-sort, located-diagnostics-only) or a reviewed entry; R2 goroutines deliver results by pre-assigned index or into sorted collections, never by completion order; R3 sort comparators and hash inputs never use unstable source indices; R4 clock/random/environment reads occur only at the reviewed owner sites; R5 no multi-way select on build paths; R6 no location-less diagnostic is logged from concurrently running goroutines. NOT covered: totality of sort comparators, absolute-path independence (paths are run-time values), determinism of plugin code.",
		Run: func(p *Prog, tier string) []*RuleResult {
			return []*RuleResult{c08MapOrder(p)}
		},
	})
}

func c08MapOrder(p *Prog) *RuleResult {
	r := NewRule("C08/R1 map-order", "every range over a Go map is order-insensitive, sorts what it collects, only logs located diagnostics, or is a reviewed entry")
	loops := collectMapLoops(p)
	sort.SliceStable(loops, func(i, j int) bool { return loops[i].key < loops[j].key })
	dump := os.Getenv("VERIF_DUMP") != ""
	kinds := map[string]int{}
	for _, ml := range loops {
		r.Instances++
		kinds[ml.kind]++
		pos := p.Pos(ml.rng.Pos())
		switch ml.kind {
		case "commutative":
			r.OK(ml.key, true, "body has only commutative effects (keyed inserts, deletes, integer/boolean accumulation, constant returns)")
		case "collect-then-sort":
			r.OK(ml.key, true, "collect-then-sort: "+strings.Join(ml.sorted, "; "))
		case "located-diagnostics-only":
			r.OK(ml.key, true, "only order-sensitive effect is logging located diagnostics, which the logger sorts")
		default:
			if dump {
				fmt.Printf("UNRESOLVED %s @ %s\n", ml.key, pos)
				for _, pr := range ml.problems {
					fmt.Printf("    %s\n", pr)
				}
			}
			if r.CheckExc(c08MapLoopExceptions, ml.key) {
				continue
			}
			r.Fail(ml.key, pos, "map iteration whose effects depend on iteration order: "+strings.Join(ml.problems, "; "))
		}
	}
	r.Note("loop kinds: %v", kinds)
	r.Floor(80)
	r.StaleCheck(c08MapLoopExceptions)
	return r
}
