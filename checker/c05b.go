package main

import (
	"fmt"
	"go/token"
	"strings"

	"golang.org/x/tools/go/ssa"
)

// C05/R2 object-rest-exclusion.
//
// Lowering `let {a: {...x}, b, ...rest} = src` has to split the pattern at the first property whose
// value contains a nested rest, and the final `...rest` must exclude every property that came
// before it: rest = __objRest(src, ["a", "b"]). In js_parser lowerObjectRestHelper the visitor
// walks the properties, captures each key (captureKeyForObjectRest, appended to capturedKeys)
// when the pattern ends in a rest element, and hands capturedKeys to splitObjectPattern /
// lowerObjectRestPattern. Structural necessary condition: inside one iteration of the property
// loop, every path from the start of the iteration to a call that passes the property on as part
// of "the properties up to the split" (splitObjectPattern) goes through the key capture, or
// through the edge on which the pattern was found not to end in a rest element. A property that
// reaches the split without its key captured stays enumerable in `rest`.

func c05ObjectRestExclusion(p *Prog) *RuleResult {
	r := NewRule("C05/R2 object-rest-exclusion", "in the object-pattern visitor of lowerObjectRestHelper every property handed to splitObjectPattern had its key captured for the trailing rest element's exclusion list (or the pattern has no trailing rest)")
	parent := p.FindFunc("js_parser.(*parser).lowerObjectRestHelper")
	if !r.Anchor("js_parser.(*parser).lowerObjectRestHelper", parent != nil) {
		return r
	}
	var visit *ssa.Function
	var captures []*ssa.Call
	for _, fn := range withClosures(parent) {
		if fn == parent {
			continue
		}
		var cs []*ssa.Call
		eachInstr(fn, func(b *ssa.BasicBlock, in ssa.Instruction) {
			if c, ok := in.(*ssa.Call); ok && FuncNameOf(c) == "js_parser.(*parser).captureKeyForObjectRest" {
				cs = append(cs, c)
			}
		})
		if len(cs) > 0 {
			if visit != nil {
				r.Fail("visitor", p.Pos(fn.Pos()), "more than one closure of lowerObjectRestHelper captures keys; the rule's anchor is ambiguous")
				return r
			}
			visit, captures = fn, cs
		}
	}
	if !r.Anchor("closure of lowerObjectRestHelper that calls captureKeyForObjectRest", visit != nil) {
		return r
	}
	// calls of the captured closure variable splitObjectPattern
	var splits []*ssa.Call
	eachInstr(visit, func(b *ssa.BasicBlock, in ssa.Instruction) {
		c, ok := in.(*ssa.Call)
		if !ok || c.Call.IsInvoke() {
			return
		}
		if u, ok := c.Call.Value.(*ssa.UnOp); ok && u.Op == token.MUL {
			if fv, ok := u.X.(*ssa.FreeVar); ok && fv.Name() == "splitObjectPattern" {
				splits = append(splits, c)
			}
		}
	})
	if !r.Anchor("call of splitObjectPattern in the visitor", len(splits) > 0) {
		return r
	}
	loops := naturalLoops(visit)
	captureBlocks := map[*ssa.BasicBlock]bool{}
	// the edge on which the pattern does not end in a rest element: the false edge of the test
	// that guards the capture
	guardFalse := map[[2]int]bool{}
	for _, c := range captures {
		cb := c.Block()
		captureBlocks[cb] = true
		// the result must be appended to what is passed on: the second result flows into an append
		for d := cb.Idom(); d != nil; d = d.Idom() {
			if len(d.Instrs) == 0 {
				continue
			}
			ifi, ok := d.Instrs[len(d.Instrs)-1].(*ssa.If)
			if !ok {
				continue
			}
			if edgeDominates(d, 0, cb) && !edgeDominates(d, 1, cb) {
				// only a test of a plain boolean (the "ends with rest" flag), not of the property
				if _, isCall := ifi.Cond.(*ssa.Call); !isCall {
					guardFalse[[2]int{d.Index, 1}] = true
				}
				break
			}
		}
	}
	for i, sc := range splits {
		r.Instances++
		key := fmt.Sprintf("splitObjectPattern call #%d", i+1)
		sb := sc.Block()
		// the iteration the call belongs to: the innermost loop-body entry that dominates the call
		// (the call is followed by a return, so it is not itself part of the natural loop)
		var header, start *ssa.BasicBlock
		for h, body := range loops {
			for _, s := range h.Succs {
				if body[s] && s.Dominates(sb) && (start == nil || start.Dominates(s)) {
					header, start = h, s
				}
			}
		}
		if start == nil {
			r.Fail(key, p.Pos(sc.Pos()), "the call is not dominated by the body of the property loop; cannot relate it to one property")
			continue
		}
		path, found := reachesExitAvoidingEdges(start,
			func(b *ssa.BasicBlock) bool { return b == sb },
			func(b *ssa.BasicBlock) bool { return captureBlocks[b] || b == header },
			func(b *ssa.BasicBlock, si int) bool { return guardFalse[[2]int{b.Index, si}] })
		if found {
			var bs []string
			for _, b := range path {
				bs = append(bs, fmt.Sprint(b.Index))
			}
			r.Fail(key, p.Pos(sc.Pos()), "a property can reach splitObjectPattern (blocks "+strings.Join(bs, " ")+") without its key having been captured for the trailing ...rest: the lowered rest object would still contain that property")
		} else {
			r.OK(key, true, "every path from the start of the iteration passes captureKeyForObjectRest or the no-trailing-rest edge")
		}
	}
	r.Floor(1)
	return r
}
