package main

import (
	"go/token"
	"sort"
	"strings"

	"golang.org/x/tools/go/ssa"
)

// E-LOCK: intraprocedural must-hold lock-set analysis on the SSA control-flow graph.
//
// A lock is identified by the access path of its sync.Mutex/RWMutex value: the identity of the
// root (parameter / captured variable / local / receiver) plus the field path to the mutex, e.g.
// "fv:build|.mutex". An access to a guarded field x.f is protected when the held set at that
// instruction contains the lock "<root and path of x>|.<mutex field>".
// `defer m.Unlock()` keeps the lock held until the function returns.

type lockState map[string]bool

func (s lockState) clone() lockState {
	c := lockState{}
	for k := range s {
		c[k] = true
	}
	return c
}

func intersect(a, b lockState) lockState {
	c := lockState{}
	for k := range a {
		if b[k] {
			c[k] = true
		}
	}
	return c
}

func equalState(a, b lockState) bool {
	if len(a) != len(b) {
		return false
	}
	for k := range a {
		if !b[k] {
			return false
		}
	}
	return true
}

// objKey renders the identity of the object whose address (or pointer) is v: root identity + path.
func objKey(v ssa.Value) string {
	steps := addrChain(v)
	if len(steps) == 0 {
		return "?"
	}
	root := steps[len(steps)-1].Val
	var rk string
	switch r := root.(type) {
	case *ssa.Parameter:
		rk = "param:" + r.Name()
	case *ssa.FreeVar:
		rk = "fv:" + r.Name()
	case *ssa.Alloc:
		rk = "local:" + r.Comment
	case *ssa.Global:
		rk = "global:" + r.Name()
	case *ssa.UnOp:
		// load of captured/local variable cell
		if fv, ok := r.X.(*ssa.FreeVar); ok {
			rk = "fv:" + fv.Name()
		} else if al, ok := r.X.(*ssa.Alloc); ok {
			rk = "local:" + al.Comment
		} else if g, ok := r.X.(*ssa.Global); ok {
			rk = "global:" + g.Name()
		} else {
			rk = "val:" + r.Name()
		}
	default:
		rk = "val:" + root.Name()
	}
	var sb strings.Builder
	sb.WriteString(rk)
	sb.WriteString("|")
	for i := len(steps) - 2; i >= 0; i-- {
		s := steps[i]
		switch s.Kind {
		case "field":
			sb.WriteString("." + s.Name)
		case "index":
			sb.WriteString("[]")
		case "lookup":
			sb.WriteString("[k]")
		}
	}
	return sb.String()
}

func mutexCall(c ssa.CallInstruction) (op string, lockKey string, ok bool) {
	n := calleeFullName(c)
	switch n {
	case "(*sync.Mutex).Lock", "(*sync.RWMutex).Lock", "(*sync.RWMutex).RLock":
		op = "lock"
	case "(*sync.Mutex).Unlock", "(*sync.RWMutex).Unlock", "(*sync.RWMutex).RUnlock":
		op = "unlock"
	default:
		return "", "", false
	}
	args := c.Common().Args
	if len(args) == 0 {
		return "", "", false
	}
	return op, objKey(args[0]), true
}

type lockInfo struct {
	fn       *ssa.Function
	in       map[*ssa.BasicBlock]lockState // state at block entry
	at       map[ssa.Instruction]lockState // state before each instruction of interest
	exitBad  []string                      // locks held at some return (not released, not deferred)
	deferred map[string]bool
}

// analyseLocks computes must-hold lock sets. entry is the state at function entry.
func analyseLocks(fn *ssa.Function, entry lockState, interesting func(ssa.Instruction) bool) *lockInfo {
	li := &lockInfo{fn: fn, in: map[*ssa.BasicBlock]lockState{}, at: map[ssa.Instruction]lockState{}, deferred: map[string]bool{}}
	if len(fn.Blocks) == 0 {
		return li
	}
	out := map[*ssa.BasicBlock]lockState{}
	li.in[fn.Blocks[0]] = entry.clone()
	work := []*ssa.BasicBlock{fn.Blocks[0]}
	inWork := map[*ssa.BasicBlock]bool{fn.Blocks[0]: true}
	visited := map[*ssa.BasicBlock]bool{}
	transfer := func(b *ssa.BasicBlock, record bool) lockState {
		s := li.in[b].clone()
		for _, in := range b.Instrs {
			if record && interesting != nil && interesting(in) {
				li.at[in] = s.clone()
			}
			switch x := in.(type) {
			case *ssa.Call:
				if op, k, ok := mutexCall(x); ok {
					if op == "lock" {
						s[k] = true
					} else {
						delete(s, k)
					}
				}
			case *ssa.Defer:
				if op, k, ok := mutexCall(x); ok && op == "unlock" {
					li.deferred[k] = true
				}
			case *ssa.Return:
				if record {
					for k := range s {
						if !li.deferred[k] {
							li.exitBad = append(li.exitBad, k)
						}
					}
				}
			}
		}
		return s
	}
	for len(work) > 0 {
		b := work[0]
		work = work[1:]
		inWork[b] = false
		visited[b] = true
		o := transfer(b, false)
		if prev, ok := out[b]; ok && equalState(prev, o) {
			continue
		}
		out[b] = o
		for _, s := range b.Succs {
			var ns lockState
			first := true
			for _, p := range s.Preds {
				po, ok := out[p]
				if !ok {
					continue // not yet computed: optimistic
				}
				if first {
					ns = po.clone()
					first = false
				} else {
					ns = intersect(ns, po)
				}
			}
			if ns == nil {
				ns = lockState{}
			}
			if old, ok := li.in[s]; !ok || !equalState(old, ns) {
				li.in[s] = ns
				if !inWork[s] {
					work = append(work, s)
					inWork[s] = true
				}
			}
		}
	}
	for _, b := range fn.Blocks {
		if visited[b] {
			transfer(b, true)
		}
	}
	sort.Strings(li.exitBad)
	return li
}

// guarded-field table entry
type guardSpec struct {
	owner string // short type name, e.g. "pkg/api.internalContext"
	field string
	mutex string // name of the mutex field in the same struct
}

type fieldAccess struct {
	fn    *ssa.Function
	instr ssa.Instruction
	fa    *ssa.FieldAddr
	write bool
}

// guardedAccesses lists reads and writes of a field (through FieldAddr) in module functions.
func guardedAccesses(p *Prog, owner, field string) []fieldAccess {
	var out []fieldAccess
	for _, fn := range p.ModuleFuncs() {
		eachInstr(fn, func(b *ssa.BasicBlock, in ssa.Instruction) {
			fa, ok := in.(*ssa.FieldAddr)
			if !ok || fieldAddrName(fa) != field || namedTypeName(fa.X.Type()) != owner {
				return
			}
			if fa.Referrers() == nil {
				return
			}
			for _, rf := range *fa.Referrers() {
				switch x := rf.(type) {
				case *ssa.Store:
					if x.Addr == fa {
						out = append(out, fieldAccess{fn, x, fa, true})
					}
				case *ssa.UnOp:
					if x.Op == token.MUL {
						out = append(out, fieldAccess{fn, x, fa, false})
					}
				case *ssa.FieldAddr, *ssa.IndexAddr:
					// access to a sub-object of the guarded field (value-typed field)
					out = append(out, fieldAccess{fn, rf, fa, false})
				case *ssa.Call:
					// method call with the field's address as receiver (e.g. WaitGroup inside)
					out = append(out, fieldAccess{fn, rf, fa, false})
				case *ssa.MapUpdate:
					out = append(out, fieldAccess{fn, rf, fa, true})
				}
			}
		})
	}
	return out
}
