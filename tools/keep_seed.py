#!/usr/bin/env python3
"""usage: keep_seed.py <id> <seedname> <property> <caught|missed> <rule-or-reason> <needs>
Copies a confirmed seeded change from /tmp/seed/out/<id> into /verif/seeded/<seedname>/."""
import sys, os, shutil, json
sid, name, prop, verdict, rule, needs = sys.argv[1:7]
src = os.environ.get("SEED_BASE", "/tmp/seed") + f"/out/{sid}"
dst = f"/verif/seeded/{name}"
os.makedirs(dst, exist_ok=True)
shutil.copy(f"{src}/patch.diff", f"{dst}/patch.diff")
if os.path.isdir(f"{src}/demo"):
    if os.path.isdir(f"{dst}/demo"):
        shutil.rmtree(f"{dst}/demo")
    shutil.copytree(f"{src}/demo", f"{dst}/demo", ignore=shutil.ignore_patterns("go.sum"))
    demo = "demo/ (standalone program: set the replace directive in go.mod to the tree under test, copy its go.sum, `go run .`; exit 1 = property violated)"
else:
    shutil.copy(f"{src}/demo_test.go", f"{dst}/demo_test.go")
    demo = "demo_test.go (drop into pkg/api of the tree under test, `go test -run TestC ./pkg/api/`)"
if os.path.exists(f"{src}/NOTES.md"):
    shutil.copy(f"{src}/NOTES.md", f"{dst}/NOTES.md")
for f in ("my_demo_with.txt", "my_demo_without.txt"):
    if os.path.exists(f"{src}/{f}"):
        shutil.copy(f"{src}/{f}", f"{dst}/{f.replace('my_', '')}")
meta = {
    "id": name,
    "property": prop,
    "origin": "independent sub-agent given only the property text and its own worktree of /repo",
    "needs_to_manifest": needs,
    "demo": demo,
    "confirmed": {
        "compiles": "go build ./... in a scratch worktree with the patch applied",
        "existing_tests": "go test -vet=off -count=1 ./... : every package ok with the patch applied",
        "demo_with_change": "fails (exit 1), see demo_with.txt",
        "demo_without_change": "passes (exit 0), see demo_without.txt",
    },
    "static_check": {"command": f"tools/mutant.sh seeded/{name}/patch.diff {prop}", "verdict": verdict, "rule_or_reason": rule},
}
json.dump(meta, open(f"{dst}/meta.json", "w"), indent=1)
print("kept", dst)
