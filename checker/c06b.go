package main

import (
	"fmt"
	"sort"
	"strings"

	"golang.org/x/tools/go/ssa"
)

// C06/R3 type-argument-followers.
//
// `f<T>(x)` and tag<T>`…${x}…` must compile exactly like `f(x)` and tag`…${x}…`. Whether `<T>`
// after an expression is a type-argument list is decided by what follows the closing `>`
// (TypeScript's canFollowTypeArgumentsInExpression): an opening parenthesis, a template without
// substitutions or a template head always accept the type-argument reading, whatever the line
// breaks; `<`, `>` (and the longer tokens esbuild's lexer makes out of `>`), `+` and `-` always
// reject it. tsCanFollowTypeArgumentsInExpression looks at the token only through equality
// comparisons, so its answer per token is a finite table, extracted from the SSA form with E-ENUM
// (lenient mode: everything else about the parser state forks). The rule requires the constant
// answers for those tokens; all other tokens are left to the general rule.

var c06MustFollow = map[string]bool{
	"TOpenParen": true, "TNoSubstitutionTemplateLiteral": true, "TTemplateHead": true,
}
var c06MustNotFollow = map[string]bool{
	"TLessThan": true, "TGreaterThan": true, "TPlus": true, "TMinus": true,
	"TGreaterThanEquals": true, "TGreaterThanGreaterThan": true, "TGreaterThanGreaterThanEquals": true,
	"TGreaterThanGreaterThanGreaterThan": true, "TGreaterThanGreaterThanGreaterThanEquals": true,
}

func c06TypeArgFollowers(p *Prog) *RuleResult {
	r := NewRule("C06/R3 type-argument-followers", "after a candidate type-argument list, `(`, a no-substitution template and a template head always select the type-argument reading, and `<`, `>`-tokens, `+`, `-` never do, independent of line breaks and other parser state")
	lp := p.ByPath[modPath+"/internal/js_lexer"]
	if !r.Anchor("package js_lexer", lp != nil) {
		return r
	}
	toks := constsOfType(lp.Types, "T")
	names := map[int64]string{}
	for n, v := range toks {
		names[v] = n
	}
	for n := range c06MustFollow {
		if _, ok := toks[n]; !r.Anchor("token js_lexer."+n, ok) {
			return r
		}
	}
	for n := range c06MustNotFollow {
		if _, ok := toks[n]; !r.Anchor("token js_lexer."+n, ok) {
			return r
		}
	}
	fn := p.FindFunc("js_parser.(*parser).tsCanFollowTypeArgumentsInExpression")
	if !r.Anchor("js_parser.(*parser).tsCanFollowTypeArgumentsInExpression", fn != nil) {
		return r
	}
	cfg := &enumCfg{opConsts: names, opParamPath: []string{"lexer", "Token"}, lenient: true, recursive: map[string]bool{}, inlined: map[string]func() []enumOutcome{}}
	outs, problems := enumEvaluate(p, fn, cfg)
	for _, pr := range problems {
		r.Instances++
		r.Fail("undecidable: "+pr, "", "cannot extract the token table: "+pr)
	}
	byTok := map[string][]enumOutcome{}
	for _, o := range outs {
		byTok[o.op] = append(byTok[o.op], o)
	}
	check := func(tok string, want int64) {
		r.Instances++
		key := "token " + tok
		os := byTok[tok]
		if len(os) == 0 {
			r.Fail(key, p.Pos(fn.Pos()), fmt.Sprintf("%s is not singled out by the function, so it falls under the general rule whose answer depends on line breaks and on whether the token starts an expression", tok))
			return
		}
		for _, o := range os {
			if o.unknownResult || o.result != want {
				what := "depends on parser state (line break / operator tables)"
				if !o.unknownResult {
					what = fmt.Sprintf("is the constant %v", o.result != 0)
				}
				meaning := "the type-argument list is dropped back into `<`/`>` comparisons and the call or tagged template is compiled as two relational operators"
				if want == 0 {
					meaning = "a relational/additive expression is parsed as a type-argument list and disappears from the output"
				}
				r.Fail(key, p.Pos(o.pos), fmt.Sprintf("the answer for %s must be the constant %v but %s: %s", tok, want != 0, what, meaning))
				return
			}
		}
		r.OK(key, true, fmt.Sprintf("constant %v on all %d paths", want != 0, len(os)))
	}
	var order []string
	for n := range c06MustFollow {
		order = append(order, n)
	}
	for n := range c06MustNotFollow {
		order = append(order, n)
	}
	sort.Strings(order)
	for _, n := range order {
		if c06MustFollow[n] {
			check(n, 1)
		} else {
			check(n, 0)
		}
	}
	var others []string
	for t := range byTok {
		if t != "" && !c06MustFollow[t] && !c06MustNotFollow[t] {
			others = append(others, t)
		}
	}
	sort.Strings(others)
	if len(others) > 0 {
		r.Note("tokens singled out by the function beyond the reference table (not judged): " + strings.Join(others, ", "))
	}
	r.Floor(12)
	return r
}

// C06/R4 enum-value discriminant.
//
// A constant TypeScript enum member travels between modules as js_ast.TSEnumValue{String, Number}
// where `String == nil` means "numeric member" — the empty string is a legitimate string value
// (`None = ”`) and is represented by a non-nil, empty slice. Every decision between the two
// alternatives must therefore be a nil comparison of the String field; deciding by its length
// turns `”` into the number 0 wherever the value is inlined. Rule: no branch condition in the
// module is computed from len() of a TSEnumValue's String field, and the discriminating nil tests
// that exist today are still there.
func c06EnumDiscriminant(p *Prog) *RuleResult {
	r := NewRule("C06/R4 enum-value-discriminant", "the string/number alternative of an inlined TypeScript enum value is always decided by `String != nil`, never by the string's length (the empty string is a valid enum value)")
	nilTests := 0
	isEnumString := func(v ssa.Value) bool {
		o, n, ok := loadedField(v)
		return ok && n == "String" && o == "js_ast.TSEnumValue"
	}
	for _, fn := range p.ModuleFuncs() {
		k := 0
		eachInstr(fn, func(b *ssa.BasicBlock, in ssa.Instruction) {
			switch x := in.(type) {
			case *ssa.BinOp:
				for _, side := range []ssa.Value{x.X, x.Y} {
					if isEnumString(side) {
						other := x.Y
						if side == x.Y {
							other = x.X
						}
						if c, ok := other.(*ssa.Const); ok && c.Value == nil {
							nilTests++
							r.Instances++
							r.OK(fmt.Sprintf("%s nil test #%d", FuncName(fn), nilTests), true, "String compared with nil")
						}
					}
					// len(value.String) compared with something
					if call, ok := side.(*ssa.Call); ok {
						if bi, ok := call.Call.Value.(*ssa.Builtin); ok && bi.Name() == "len" && len(call.Call.Args) == 1 && isEnumString(call.Call.Args[0]) {
							// only a problem when the comparison decides a branch or a value (not a bounds check of an index)
							if _, isIdx := x.X.(*ssa.Phi); isIdx {
								continue
							}
							k++
							r.Instances++
							r.Fail(fmt.Sprintf("%s length test #%d", FuncName(fn), k), p.Pos(x.Pos()), "the string/number alternative of a TSEnumValue is decided by the length of its String field: an enum member whose value is the empty string is then treated as the number 0 when it is inlined across modules")
						}
					}
				}
			}
		})
	}
	r.Anchor("nil tests of js_ast.TSEnumValue.String", nilTests >= 1)
	r.Floor(1)
	return r
}

// C06/R5 directory info follows the path.
//
// resolver.finalizeResolve attaches to a resolved file the settings of the directory it lives in:
// the enclosing tsconfig.json (useDefineForClassFields, experimentalDecorators, target, jsx, …
// — the options a TypeScript file is erased with), the enclosing package.json (sideEffects, module
// type). It looks the directory up from the path, then rewrites the path to its real path when a
// symlink is involved. From that store on, the directory info in hand describes the *old* path:
// every use of it must be preceded by a fresh lookup (dirInfoCached) for the new path, otherwise a
// file reached through a symlink is compiled with the tsconfig of the link's location.
// Rule: from every store to path.Text in finalizeResolve, no instruction that uses a value
// returned by dirInfoCached (or a phi of such values) is reachable without first passing another
// dirInfoCached call.
func c06DirInfoFollowsPath(p *Prog) *RuleResult {
	r := NewRule("C06/R5 dirinfo-follows-path", "after finalizeResolve rewrites a path to its real path, the directory info (tsconfig, package.json) is looked up again before it is used")
	fn := p.FindFunc("resolver.(resolverQuery).finalizeResolve")
	if !r.Anchor("resolver.(resolverQuery).finalizeResolve", fn != nil) {
		return r
	}
	isLookup := func(in ssa.Instruction) bool {
		c, ok := in.(*ssa.Call)
		return ok && strings.HasSuffix(FuncNameOf(c), "resolverQuery).dirInfoCached")
	}
	dvals := map[ssa.Value]bool{}
	eachInstr(fn, func(b *ssa.BasicBlock, in ssa.Instruction) {
		if isLookup(in) {
			dvals[in.(*ssa.Call)] = true
		}
	})
	for changed := true; changed; {
		changed = false
		eachInstr(fn, func(_ *ssa.BasicBlock, in ssa.Instruction) {
			if ph, ok := in.(*ssa.Phi); ok && !dvals[ph] {
				for _, e := range ph.Edges {
					if dvals[e] {
						dvals[ph] = true
						changed = true
					}
				}
			}
		})
	}
	if !r.Anchor("finalizeResolve: dirInfoCached lookups", len(dvals) >= 2) {
		return r
	}
	usesD := func(in ssa.Instruction) bool {
		if _, isPhi := in.(*ssa.Phi); isPhi {
			return false
		}
		var ops []*ssa.Value
		for _, op := range in.Operands(ops) {
			if op != nil && *op != nil && dvals[*op] {
				return true
			}
		}
		return false
	}
	n := 0
	eachInstr(fn, func(b *ssa.BasicBlock, in ssa.Instruction) {
		st, ok := in.(*ssa.Store)
		if !ok {
			return
		}
		fa, ok := st.Addr.(*ssa.FieldAddr)
		if !ok || fieldAddrName(fa) != "Text" || namedTypeName(fa.X.Type()) != "logger.Path" {
			return
		}
		n++
		r.Instances++
		key := fmt.Sprintf("finalizeResolve path rewrite #%d", n)
		bad := ""
		// rest of the block after the store
		fresh := false
		after := false
		for _, x := range b.Instrs {
			if x == in {
				after = true
				continue
			}
			if !after {
				continue
			}
			if isLookup(x) {
				fresh = true
				break
			}
			if usesD(x) {
				bad = p.Pos(x.Pos())
				break
			}
		}
		if bad == "" && !fresh {
			seen := map[*ssa.BasicBlock]bool{b: true}
			work := append([]*ssa.BasicBlock{}, b.Succs...)
			for len(work) > 0 && bad == "" {
				x := work[len(work)-1]
				work = work[:len(work)-1]
				if seen[x] {
					continue
				}
				seen[x] = true
				stop := false
				for _, xi := range x.Instrs {
					if isLookup(xi) {
						stop = true
						break
					}
					if usesD(xi) {
						bad = p.Pos(xi.Pos())
						break
					}
				}
				if !stop && bad == "" {
					work = append(work, x.Succs...)
				}
			}
		}
		if bad != "" {
			r.Fail(key, p.Pos(st.Pos()), "after the path is rewritten to its real path the old directory info is still used at "+bad+" before (or instead of) a fresh dirInfoCached lookup: a file reached through a symlinked directory gets the tsconfig.json / package.json of the link's location")
		} else {
			r.OK(key, true, "every path from the rewrite passes a fresh dirInfoCached lookup before the directory info is used")
		}
	})
	r.Anchor("finalizeResolve: a rewrite of path.Text", n >= 1)
	return r
}
