package main

import (
	"fmt"
	"go/constant"
	"go/token"
	"sort"
	"strings"

	"golang.org/x/tools/go/ssa"
)

// ---------------------------------------------------------------------------------------------
// C01/R10 (= C04/R7) date-argument-purity-table.
//
// `new Date(x)` with one argument converts x with ToPrimitive and then ToNumber (or parses a
// string). For null, undefined, booleans, numbers and strings that cannot run user code and cannot
// throw. For a BigInt ToNumber throws a TypeError; "some primitive" (PrimitiveMixed) includes that
// case. Rule: evaluating the guards between the KnownPrimitiveType call and the store that marks
// the construction removable, for every value of the PrimitiveType enum, reaches the store only
// for the five harmless kinds.
func dateArgumentPurity(p *Prog, rule string) *RuleResult {
	r := NewRule(rule, "`new Date(arg)` is marked removable-if-unused only when the argument is known to be null, undefined, a boolean, a number or a string (a BigInt makes ToNumber throw)")
	fn := p.FindFunc("js_parser.(*parser).maybeMarkKnownGlobalConstructorAsPure")
	ap := p.ByPath[modPath+"/internal/js_ast"]
	if !r.Anchor("js_parser.(*parser).maybeMarkKnownGlobalConstructorAsPure", fn != nil) || !r.Anchor("package js_ast", ap != nil) {
		return r
	}
	kinds := constsOfType(ap.Types, "PrimitiveType")
	if !r.Anchor("js_ast.PrimitiveType constants", len(kinds) >= 8) {
		return r
	}
	allowed := map[string]bool{"PrimitiveNull": true, "PrimitiveUndefined": true, "PrimitiveBoolean": true, "PrimitiveNumber": true, "PrimitiveString": true}
	n := 0
	eachInstr(fn, func(b *ssa.BasicBlock, in ssa.Instruction) {
		c, ok := in.(*ssa.Call)
		if !ok || !strings.HasSuffix(calleeFullName(c), "js_ast.KnownPrimitiveType") {
			return
		}
		// only the call made in the "Date" case
		inDate := false
		for _, f := range factsAt(b) {
			if bo, ok := f.Cond.(*ssa.BinOp); ok && bo.Op == token.EQL && f.True {
				if s, ok := constString(bo.Y); ok && s == "Date" {
					inDate = true
				}
			}
		}
		if !inDate {
			return
		}
		n++
		// the marking stores
		isMark := func(x ssa.Instruction) bool {
			st, ok := x.(*ssa.Store)
			if !ok {
				return false
			}
			fa, ok := st.Addr.(*ssa.FieldAddr)
			return ok && fieldAddrName(fa) == "CanBeUnwrappedIfUnused"
		}
		var names []string
		for name := range kinds {
			names = append(names, name)
		}
		sort.Strings(names)
		var reached []string
		for _, name := range names {
			v := kinds[name]
			// walk forward from the call, deciding comparisons of the call's result with constants
			seen := map[*ssa.BasicBlock]bool{}
			work := []*ssa.BasicBlock{}
			hit := false
			scan := func(instrs []ssa.Instruction) {
				for _, x := range instrs {
					if isMark(x) {
						hit = true
					}
				}
			}
			started := false
			for _, x := range b.Instrs {
				if started && isMark(x) {
					hit = true
				}
				if x == ssa.Instruction(c) {
					started = true
				}
			}
			next := func(blk *ssa.BasicBlock) []*ssa.BasicBlock {
				if len(blk.Instrs) > 0 && len(blk.Succs) == 2 {
					if ifi, ok := blk.Instrs[len(blk.Instrs)-1].(*ssa.If); ok {
						if bo, ok := ifi.Cond.(*ssa.BinOp); ok && (bo.Op == token.EQL || bo.Op == token.NEQ) && (bo.X == ssa.Value(c) || bo.Y == ssa.Value(c)) {
							other := bo.Y
							if bo.Y == ssa.Value(c) {
								other = bo.X
							}
							if k, ok := constInt(other); ok {
								truth := (k == v) == (bo.Op == token.EQL)
								if truth {
									return blk.Succs[:1]
								}
								return blk.Succs[1:]
							}
						}
					}
				}
				return blk.Succs
			}
			work = append(work, next(b)...)
			for len(work) > 0 && !hit {
				x := work[len(work)-1]
				work = work[:len(work)-1]
				if seen[x] {
					continue
				}
				seen[x] = true
				// stay inside the Date case: stop at blocks the call's block does not dominate
				if !b.Dominates(x) {
					continue
				}
				scan(x.Instrs)
				work = append(work, next(x)...)
			}
			if hit {
				reached = append(reached, name)
			}
		}
		r.Instances++
		key := "new Date(arg): argument kinds for which the construction is marked removable"
		var bad []string
		for _, name := range reached {
			if !allowed[name] {
				bad = append(bad, name)
			}
		}
		if len(reached) == 0 {
			r.Fail(key, p.Pos(c.Pos()), "no argument kind reaches the marking: the rule no longer recognises the guard")
		} else if len(bad) == 0 {
			r.OK(key, true, "marked for "+strings.Join(reached, ", "))
		} else {
			r.Fail(key, p.Pos(c.Pos()), "`new Date(arg)` is marked removable-if-unused for "+strings.Join(bad, ", ")+" as well: `new Date(1n)` throws a TypeError (ToNumber of a BigInt), so removing the unused construction removes the exception and the code after it runs")
		}
	})
	if !r.Anchor("the KnownPrimitiveType test of the Date case", n >= 1) {
		return r
	}
	r.Floor(1)
	return r
}

var _ = constant.MakeBool

// ---------------------------------------------------------------------------------------------
// C02/R9 init-before-reexport.
//
// `export * from './b'` of a lazily-initialised module b generates two statements in the
// re-exporter's wrapper: `init_b()` and, when b's export names are partly dynamic,
// `__reExport(a_exports, b_exports)`. __reExport copies the names b_exports has *at that moment*; the
// dynamic ones are installed by init_b. Rule: in the statement loop of convertStmtsForChunk no
// append of a wrapper call to insideWrapperPrefix is reachable, within the same iteration, after an
// append of a __reExport call.
func c02InitBeforeReExport(p *Prog) *RuleResult {
	r := NewRule("C02/R9 init-before-reexport", "for a re-exported lazily-initialised module the generated `init_x()` precedes the generated `__reExport(…)` (which copies the export names that exist when it runs)")
	fn := p.FindFunc("linker.(*linkerContext).convertStmtsForChunk")
	if !r.Anchor("linker.(*linkerContext).convertStmtsForChunk", fn != nil) {
		return r
	}
	type site struct {
		call *ssa.Call
		kind string
	}
	var sites []site
	eachInstr(fn, func(b *ssa.BasicBlock, in ssa.Instruction) {
		c, ok := in.(*ssa.Call)
		if !ok {
			return
		}
		bi, ok := c.Call.Value.(*ssa.Builtin)
		if !ok || bi.Name() != "append" || len(c.Call.Args) < 2 {
			return
		}
		if _, name, ok := loadedField(c.Call.Args[0]); !ok || name != "insideWrapperPrefix" {
			return
		}
		kind := ""
		deepSliceThroughBuilders(c.Call.Args[1], func(v ssa.Value) bool {
			switch x := v.(type) {
			case *ssa.FieldAddr:
				if fieldAddrName(x) == "WrapperRef" {
					kind = "init"
				}
			case *ssa.Lookup:
				if s, ok := constString(x.Index); ok && s == "__reExport" && kind == "" {
					kind = "reexport"
				}
			}
			return true
		})
		if kind != "" {
			sites = append(sites, site{c, kind})
		}
	})
	ninit, nre := 0, 0
	for _, s := range sites {
		if s.kind == "init" {
			ninit++
		} else {
			nre++
		}
	}
	if !r.Anchor("appends of wrapper calls and of __reExport calls to insideWrapperPrefix", ninit >= 1 && nre >= 1) {
		return r
	}
	loops := naturalLoops(fn)
	n := 0
	for _, re := range sites {
		if re.kind != "reexport" {
			continue
		}
		n++
		r.Instances++
		key := fmt.Sprintf("convertStmtsForChunk __reExport call #%d is not followed by a wrapper call of the same statement", n)
		// innermost loop containing the site
		var header *ssa.BasicBlock
		var body map[*ssa.BasicBlock]bool
		for h, bd := range loops {
			if bd[re.call.Block()] && (body == nil || len(bd) < len(body)) {
				header, body = h, bd
			}
		}
		bad := ""
		for _, in := range sites {
			if in.kind != "init" {
				continue
			}
			// same block, later
			if in.call.Block() == re.call.Block() {
				after := false
				for _, x := range re.call.Block().Instrs {
					if x == ssa.Instruction(re.call) {
						after = true
					} else if after && x == ssa.Instruction(in.call) {
						bad = p.Pos(in.call.Pos())
					}
				}
				continue
			}
			if _, ok := reachesExitAvoiding(re.call.Block(), func(x *ssa.BasicBlock) bool { return x == in.call.Block() }, func(x *ssa.BasicBlock) bool { return x == header || (body != nil && !body[x]) }, true); ok {
				bad = p.Pos(in.call.Pos())
			}
		}
		if bad == "" {
			r.OK(key, true, "no wrapper call is appended later in the same iteration")
		} else {
			r.Fail(key, p.Pos(re.call.Pos()), "the wrapper call appended at "+bad+" comes after this __reExport call: __reExport copies the names the re-exported module's exports object has when it runs, and the names that module only gets at run time (its own `export *` of a CommonJS module) are installed by its init function — they are silently missing from the re-exporter's namespace")
		}
	}
	r.Floor(1)
	return r
}

// ---------------------------------------------------------------------------------------------
// C04/R8 inlined-calls-match-counted-calls.
//
// Three sites cooperate on calls of known empty / identity functions: the parser counts every call
// of an identifier as a "call use" (optional calls included), the linker drops the declaration's
// uses when every use is such a call ("every call will be inlined"), and the printer inlines the
// call. The printer must therefore inline every call the parser counted: its look-up of the callee's
// symbol flags may depend on the shape of the target only, not on further attributes of the call
// (OptionalChain).
func c04InlinedCallsMatchCounted(p *Prog) *RuleResult {
	r := NewRule("C04/R8 inlined-calls-match-counted-calls", "the printer's test for calls of known empty / identity functions does not depend on attributes of the call that the parser's call-use accounting ignores (optional chaining)")
	ap := p.ByPath[modPath+"/internal/ast"]
	if !r.Anchor("package ast", ap != nil) {
		return r
	}
	flags := constsOfType(ap.Types, "SymbolFlags")
	empty, ok1 := flags["IsEmptyFunction"]
	ident, ok2 := flags["IsIdentityFunction"]
	if !r.Anchor("ast.IsEmptyFunction / ast.IsIdentityFunction", ok1 && ok2) {
		return r
	}
	n := 0
	for _, fn := range p.ModuleFuncs() {
		if pkgPathOf(fn) != modPath+"/internal/js_printer" {
			continue
		}
		k := 0
		eachInstr(fn, func(b *ssa.BasicBlock, in ssa.Instruction) {
			bo, ok := in.(*ssa.BinOp)
			if !ok || bo.Op != token.AND {
				return
			}
			mask, ok := constInt(bo.Y)
			if !ok || (mask&empty == 0 && mask&ident == 0) {
				return
			}
			n++
			k++
			r.Instances++
			key := fmt.Sprintf("%s tests the callee's empty/identity flags #%d", FuncName(fn), k)
			bad := ""
			checkFn := func(f *ssa.Function) {
				eachInstr(f, func(b2 *ssa.BasicBlock, in2 ssa.Instruction) {
					if fa, ok := in2.(*ssa.FieldAddr); ok && fieldAddrName(fa) == "OptionalChain" && namedTypeName(fa.X.Type()) == "js_ast.ECall" {
						bad = p.Pos(fa.Pos())
					}
				})
			}
			// the flags value: a load in this function, or the result of a helper
			operandSlice(bo.X, func(v ssa.Value) bool {
				if c, ok := v.(*ssa.Call); ok {
					if callee := c.Call.StaticCallee(); callee != nil && pkgPathOf(callee) == modPath+"/internal/js_printer" {
						checkFn(callee)
					}
				}
				if ph, ok := v.(*ssa.Phi); ok {
					for i := range ph.Edges {
						for _, ifi := range controlDepIfs(ph.Block().Preds[i]) {
							sliceCond(ifi.Cond, func(x ssa.Value) bool {
								if fa, ok := x.(*ssa.FieldAddr); ok && fieldAddrName(fa) == "OptionalChain" {
									bad = p.Pos(fa.Pos())
								}
								return true
							})
						}
					}
				}
				return true
			})
			if bad == "" {
				r.OK(key, true, "the flags are looked up from the shape of the call target alone")
			} else {
				r.Fail(key, p.Pos(bo.Pos()), "the callee's flags are only looked up for calls with a particular OptionalChain value (tested at "+bad+"): optional calls `f?.()` are then not inlined, but the parser counted them as call uses and the linker dropped the declaration of `f` because every use was a call that 'will be inlined' — the output calls a function that was removed")
			}
		})
	}
	if !r.Anchor("tests of the empty/identity function flags in the printer", n >= 2) {
		return r
	}
	r.Floor(2)
	return r
}

// ---------------------------------------------------------------------------------------------
// C05/R8 assign-target-rewrite-visits-every-property.
//
// lowerSuperPropertyOrPrivateInAssign rewrites lowered private names and super properties that are
// used as destructuring *targets*. It recurses through array and object patterns. Every property
// value of an object pattern is a target, the rest element included (`({...this.#rest} = o)`); a
// property kind that is skipped keeps its raw lowered reference (`this._rest`, a public property).
// Rule: the recursive call for a property's value is conditional only on the value being present.
func c05AssignTargetVisitsAll(p *Prog) *RuleResult {
	r := NewRule("C05/R8 assign-target-rewrite-visits-every-property", "lowerSuperPropertyOrPrivateInAssign recurses into the value of every property of an object pattern (conditional only on the value being present)")
	fn := p.FindFunc("js_parser.(*parser).lowerSuperPropertyOrPrivateInAssign")
	if !r.Anchor("js_parser.(*parser).lowerSuperPropertyOrPrivateInAssign", fn != nil) {
		return r
	}
	loops := naturalLoops(fn)
	n := 0
	eachInstr(fn, func(b *ssa.BasicBlock, in ssa.Instruction) {
		c, ok := in.(*ssa.Call)
		if !ok || c.Call.StaticCallee() != fn {
			return
		}
		var body map[*ssa.BasicBlock]bool
		for _, bd := range loops {
			if bd[b] && (body == nil || len(bd) < len(body)) {
				body = bd
			}
		}
		if body == nil {
			return
		}
		n++
		r.Instances++
		key := fmt.Sprintf("lowerSuperPropertyOrPrivateInAssign recursive call in a loop #%d", n)
		var extra []string
		for _, ifi := range controlDepIfsTransitive(b) {
			if !body[ifi.Block()] {
				continue
			}
			if _, isHeader := loops[ifi.Block()]; isHeader {
				continue
			}
			sliceCond(ifi.Cond, func(v ssa.Value) bool {
				if fa, ok := v.(*ssa.FieldAddr); ok && namedTypeName(fa.X.Type()) == "js_ast.Property" {
					if f := fieldAddrName(fa); f != "ValueOrNil" {
						extra = append(extra, "Property."+f)
					}
				}
				if fv, ok := v.(*ssa.Field); ok && namedTypeName(fv.X.Type()) == "js_ast.Property" {
					if f := fieldValName(fv); f != "ValueOrNil" {
						extra = append(extra, "Property."+f)
					}
				}
				return true
			})
		}
		sort.Strings(extra)
		if len(extra) == 0 {
			r.OK(key, true, "conditional only on the value being present")
		} else {
			r.Fail(key, p.Pos(c.Pos()), "whether a property's value is rewritten depends on "+strings.Join(extra, ", ")+": the skipped properties keep a raw reference to the lowered private name (`({...this.#rest} = o)` assigns to the public property `this._rest`)")
		}
	})
	if !r.Anchor("recursive calls inside loops", n >= 2) {
		return r
	}
	r.Floor(2)
	return r
}

// ---------------------------------------------------------------------------------------------
// C06/R10 tsconfig-setting-stored-under-its-own-key.
//
// tsconfig.json files form `extends` chains; ParseTSConfigJSON runs once per file and
// ApplyExtendedConfig merges field by field, keeping what a file says explicitly. Defaults that
// depend on *another* setting (useDefineForClassFields defaults to false when target < ES2022) must
// be resolved after the merge, from the final values. A file-level parser that stores a setting
// while handling a different key turns an implicit default of a base config into an explicit value
// that survives the merge. Rule: every store into a field of the TSConfig settings in
// ParseTSConfigJSON is control dependent on exactly one getProperty key, and no field is stored
// under two different keys.
func c06TSConfigOwnKey(p *Prog) *RuleResult {
	r := NewRule("C06/R10 tsconfig-setting-stored-under-its-own-key", "ParseTSConfigJSON stores each compiler setting only while handling that setting's own key (cross-setting defaults are resolved after `extends` chains are merged)")
	fn := p.FindFunc("resolver.ParseTSConfigJSON")
	if !r.Anchor("resolver.ParseTSConfigJSON", fn != nil) {
		return r
	}
	byField := map[string]map[string]string{} // field -> key -> pos
	for _, f := range withClosures(fn) {
		eachInstr(f, func(b *ssa.BasicBlock, in ssa.Instruction) {
			st, ok := in.(*ssa.Store)
			if !ok {
				return
			}
			fa, ok := st.Addr.(*ssa.FieldAddr)
			if !ok || namedTypeName(fa.X.Type()) != "config.TSConfig" {
				return
			}
			field := fieldAddrName(fa)
			keys := map[string]bool{}
			for _, ifi := range controlDepIfsTransitive(b) {
				sliceCond(ifi.Cond, func(v ssa.Value) bool {
					if c, ok := v.(*ssa.Call); ok && strings.HasSuffix(calleeFullName(c), "resolver.getProperty") && len(c.Call.Args) == 2 {
						if s, ok := constString(c.Call.Args[1]); ok && s != "compilerOptions" {
							keys[s] = true
						}
					}
					return true
				})
			}
			if byField[field] == nil {
				byField[field] = map[string]string{}
			}
			for k := range keys {
				byField[field][k] = p.Pos(st.Pos())
			}
		})
	}
	if !r.Anchor("stores into config.TSConfig in ParseTSConfigJSON", len(byField) >= 5) {
		return r
	}
	var fields []string
	for f := range byField {
		fields = append(fields, f)
	}
	sort.Strings(fields)
	for _, f := range fields {
		r.Instances++
		key := "TSConfig." + f + " is stored under one key"
		var ks []string
		for k := range byField[f] {
			ks = append(ks, k)
		}
		sort.Strings(ks)
		if len(ks) <= 1 {
			r.OK(key, true, "key "+strings.Join(ks, ""))
		} else {
			pos := ""
			for _, k := range ks {
				pos = byField[f][k]
			}
			r.Fail(key, pos, "TSConfig."+f+" is stored while handling the keys "+strings.Join(ks, ", ")+": a value derived from another setting becomes an explicit value of this file, and ApplyExtendedConfig lets it override what the final merged configuration would imply (a base config with a low target pins useDefineForClassFields=false although the extending file raises the target)")
		}
	}
	r.Floor(5)
	return r
}

// ---------------------------------------------------------------------------------------------
// C08/R14 (= C10/R9) visited-cut-respects-lowered-minimum.
//
// markFileReachableForCodeSplitting is a depth-first walk that does two things per file: it sets the
// entry point's bit (the visited mark) and it records the minimum distance from an entry point,
// which later orders the files inside a chunk. A file can be reached first over a long path and
// later over a shorter one; the walk over its descendants has to be repeated then, otherwise their
// distances depend on the order in which edges were followed — and part of that order comes from Go
// map iteration (part dependencies are appended while ranging over ImportsToBind). Rule: in a
// self-recursive walk that lowers a stored minimum, the early return on the visited mark is also
// conditional on the minimum not having been lowered in this call.
func visitedCutRespectsMinimum(p *Prog, rule string) *RuleResult {
	r := NewRule(rule, "a recursive graph walk that records a per-node minimum does not stop at an already visited node when it has just lowered that node's minimum (the descendants' minima would otherwise depend on the order of the walk)")
	n := 0
	for _, fn := range p.ModuleFuncs() {
		if pkgPathOf(fn) != modPath+"/internal/linker" {
			continue
		}
		rec := false
		eachInstr(fn, func(b *ssa.BasicBlock, in ssa.Instruction) {
			if c, ok := in.(*ssa.Call); ok && c.Call.StaticCallee() == fn {
				rec = true
			}
		})
		if !rec {
			continue
		}
		// a store of a parameter into field F under `param < load(F)`
		var lower *ssa.Store
		eachInstr(fn, func(b *ssa.BasicBlock, in ssa.Instruction) {
			st, ok := in.(*ssa.Store)
			if !ok {
				return
			}
			fa, ok := st.Addr.(*ssa.FieldAddr)
			if !ok {
				return
			}
			if _, isParam := st.Val.(*ssa.Parameter); !isParam {
				return
			}
			for _, f := range factsAt(b) {
				bo, ok := f.Cond.(*ssa.BinOp)
				if !ok || (bo.Op != token.LSS && bo.Op != token.GTR) {
					continue
				}
				for _, side := range []ssa.Value{bo.X, bo.Y} {
					if _, name, ok := loadedField(side); ok && name == fieldAddrName(fa) {
						lower = st
					}
				}
			}
		})
		if lower == nil {
			continue
		}
		// early returns controlled by a visited test (a bit-set membership call)
		for _, b := range fn.Blocks {
			if !isReturnBlock(b) {
				continue
			}
			visited := false
			var condVals []ssa.Value
			for _, ifi := range controlDepIfs(b) {
				var vals []ssa.Value
				condsOfBoolValue(ifi.Cond, &vals, 0)
				condVals = append(condVals, vals...)
				for _, v := range vals {
					operandSlice(v, func(x ssa.Value) bool {
						if c, ok := x.(*ssa.Call); ok && strings.HasSuffix(calleeFullName(c), ").HasBit") {
							visited = true
						}
						return true
					})
				}
			}
			if !visited {
				continue
			}
			n++
			r.Instances++
			key := FuncName(fn) + " early return on the visited mark"
			ok := false
			for _, v := range condVals {
				if u, isU := v.(*ssa.UnOp); isU && u.Op == token.NOT {
					v = u.X
				}
				ph, isPhi := v.(*ssa.Phi)
				if !isPhi {
					continue
				}
				for i, e := range ph.Edges {
					if _, isConst := e.(*ssa.Const); !isConst {
						continue
					}
					pred := ph.Block().Preds[i]
					if pred == lower.Block() || lower.Block().Dominates(pred) {
						ok = true
					}
				}
			}
			if ok {
				r.OK(key, true, "also conditional on a flag that is set where the minimum is lowered")
			} else {
				r.Fail(key, p.Pos(firstPos(b)), "the walk returns at an already visited file even when this call has just lowered the file's recorded minimum ("+fieldAddrName(lower.Addr.(*ssa.FieldAddr))+"): the shorter distance is not propagated to the descendants, whose distances then depend on the order in which edges were followed (part of it is Go map iteration order), and with them the order of files in a chunk, its bytes and its hash")
			}
		}
	}
	if !r.Anchor("recursive walks in the linker that lower a stored minimum and cut on a visited mark", n >= 1) {
		return r
	}
	r.Floor(1)
	return r
}

// ---------------------------------------------------------------------------------------------
// C03/R12 substitution-judges-table.
//
// substituteSingleUseSymbolInExpr moves the initialiser of a single-use local to its use. Every
// expression it moves the initialiser *past* must be free of side effects and must not read anything
// the initialiser could change; whether that holds is decided by a small set of judges. A new judge
// is a new claim about evaluation order (an assignment target `a.b` reads `a` before the right-hand
// side runs), so the set is closed: the boolean-valued helpers of js_ast / js_parser that the
// function consults are exactly the reviewed ones.
var c03SubstitutionJudges = map[string]string{
	"ExprCanBeRemovedIfUnused":             "no side effects and nothing evaluated: the moved initialiser cannot observe or affect it",
	"IsPrimitiveLiteral":                   "a literal evaluates to itself",
	"isSideEffectFreeUnboundIdentifierRef": "guarded typeof-style reference",
	"substituteSingleUseSymbolInExpr":      "the recursion itself",
	"Has":                                  "bit test on flags",
	"IsValid":                              "index validity",
}

func c03SubstitutionJudges_(p *Prog) *RuleResult {
	r := NewRule("C03/R12 substitution-judges-table", "the boolean helpers that substituteSingleUseSymbolInExpr consults to decide what a single-use initialiser may be moved past are the reviewed ones")
	fn := p.FindFunc("js_parser.(*parser).substituteSingleUseSymbolInExpr")
	if !r.Anchor("js_parser.(*parser).substituteSingleUseSymbolInExpr", fn != nil) {
		return r
	}
	seen := map[string]string{}
	eachInstr(fn, func(b *ssa.BasicBlock, in ssa.Instruction) {
		c, ok := in.(*ssa.Call)
		if !ok {
			return
		}
		callee := c.Call.StaticCallee()
		if callee == nil || !p.InModule(callee) {
			return
		}
		res := callee.Signature.Results()
		if res.Len() != 1 || res.At(0).Type().String() != "bool" {
			return
		}
		if _, ok := seen[callee.Name()]; !ok {
			seen[callee.Name()] = p.Pos(c.Pos())
		}
	})
	var names []string
	for n := range seen {
		names = append(names, n)
	}
	sort.Strings(names)
	if !r.Anchor("boolean helpers consulted by substituteSingleUseSymbolInExpr", len(names) >= 1) {
		return r
	}
	for _, name := range names {
		r.Instances++
		key := "substituteSingleUseSymbolInExpr consults " + name
		if why, ok := c03SubstitutionJudges[name]; ok {
			r.OK(key, true, why)
		} else {
			r.Fail(key, seen[name], "a judge that is not in the reviewed table decides what the initialiser of a single-use local may be moved past: every such judge is a claim about evaluation order (an assignment target `o.p` reads `o` before the right-hand side runs, so `let v = f(); o.p = v` is not `o.p = f()` when f rebinds o) and has to be reviewed before it is added to the table")
		}
	}
	r.Floor(1)
	return r
}

// ---------------------------------------------------------------------------------------------
// C03/R14 substitution-stops-at-object-spread.
//
// substituteSingleUseSymbolInExpr walks an object literal property by property, trying to place a
// single-use local's initialiser at its use. It may continue past a property only if evaluating
// that property cannot interfere with the initialiser. A spread property `...o` copies o's own
// enumerable properties, which invokes o's getters — arbitrary code. The walk has to stop after a
// spread, exactly as it stops after a computed key. Rule: in the loop over EObject.Properties the
// continuation to the next property is control dependent on a test of the property's Kind.
func c03SubstitutionStopsAtSpread(p *Prog) *RuleResult {
	r := NewRule("C03/R14 substitution-stops-at-object-spread", "the single-use substitution does not continue past a spread property of an object literal (spreading invokes getters)")
	fn := p.FindFunc("js_parser.(*parser).substituteSingleUseSymbolInExpr")
	if !r.Anchor("js_parser.(*parser).substituteSingleUseSymbolInExpr", fn != nil) {
		return r
	}
	loops := naturalLoops(fn)
	n := 0
	for header, body := range loops {
		// the loop over <EObject>.Properties: an IndexAddr on a load of that field inside the body
		isObjLoop := false
		for b := range body {
			for _, in := range b.Instrs {
				if ia, ok := in.(*ssa.IndexAddr); ok {
					if owner, name, ok := loadedField(ia.X); ok && owner == "js_ast.EObject" && name == "Properties" {
						isObjLoop = true
					}
				}
			}
		}
		if !isObjLoop {
			continue
		}
		n++
		r.Instances++
		key := "substituteSingleUseSymbolInExpr continues to the next property of an object literal"
		bad := ""
		for _, pred := range header.Preds {
			if !body[pred] {
				continue
			}
			tested := false
			for _, ifi := range controlDepIfsTransitive(pred) {
				if !body[ifi.Block()] {
					continue
				}
				sliceCond(ifi.Cond, func(v ssa.Value) bool {
					switch x := v.(type) {
					case *ssa.FieldAddr:
						if fieldAddrName(x) == "Kind" && namedTypeName(x.X.Type()) == "js_ast.Property" {
							tested = true
						}
					case *ssa.Field:
						if fieldValName(x) == "Kind" && namedTypeName(x.X.Type()) == "js_ast.Property" {
							tested = true
						}
					}
					return true
				})
			}
			if !tested {
				bad = p.Pos(firstPos(pred))
			}
		}
		if bad == "" {
			r.OK(key, true, "every continuation is conditional on the property's Kind")
		} else {
			r.Fail(key, bad, "the walk moves on to the next property without looking at the property's Kind: a spread property `...o` runs o's getters, and an initialiser moved past it is evaluated after code it used to precede (`let x = y; return {...o, b: x}` with a getter in o that assigns y)")
		}
	}
	if !r.Anchor("the loop over EObject.Properties in substituteSingleUseSymbolInExpr", n >= 1) {
		return r
	}
	r.Floor(1)
	return r
}

// ---------------------------------------------------------------------------------------------
// C03/R15 substitution-stops-at-template-tostring.
//
// An untagged template literal converts each substitution to a string as it goes: `${o}${x}` calls
// o.toString() before x is evaluated. The single-use substitution may therefore continue past a part
// only if converting it cannot run code, i.e. the part is known to be a primitive. Rule: in the loop
// over ETemplate.Parts the continuation to the next part is control dependent on a
// KnownPrimitiveType test of the part (or on the template being tagged).
func c03SubstitutionStopsAtTemplatePart(p *Prog) *RuleResult {
	r := NewRule("C03/R15 substitution-stops-at-template-tostring", "the single-use substitution does not continue past a template part whose conversion to a string could run code")
	fn := p.FindFunc("js_parser.(*parser).substituteSingleUseSymbolInExpr")
	if !r.Anchor("js_parser.(*parser).substituteSingleUseSymbolInExpr", fn != nil) {
		return r
	}
	loops := naturalLoops(fn)
	n := 0
	for header, body := range loops {
		isLoop := false
		for b := range body {
			for _, in := range b.Instrs {
				if ia, ok := in.(*ssa.IndexAddr); ok {
					if owner, name, ok := loadedField(ia.X); ok && owner == "js_ast.ETemplate" && name == "Parts" {
						isLoop = true
					}
				}
			}
		}
		if !isLoop {
			continue
		}
		n++
		r.Instances++
		key := "substituteSingleUseSymbolInExpr continues to the next part of a template literal"
		bad := ""
		for _, pred := range header.Preds {
			if !body[pred] {
				continue
			}
			tested := false
			for _, ifi := range controlDepIfsTransitive(pred) {
				if !body[ifi.Block()] {
					continue
				}
				sliceCond(ifi.Cond, func(v ssa.Value) bool {
					if c, ok := v.(*ssa.Call); ok && strings.HasSuffix(calleeFullName(c), "js_ast.KnownPrimitiveType") {
						tested = true
					}
					return true
				})
			}
			if !tested {
				bad = p.Pos(firstPos(pred))
			}
		}
		if bad == "" {
			r.OK(key, true, "every continuation is conditional on the part being a known primitive")
		} else {
			r.Fail(key, bad, "the walk moves on to the next part without asking whether converting this part to a string can run code: with `let x = a` followed by a template that interpolates o and then x, a toString in o that assigns a makes the moved read of a see the new value")
		}
	}
	if !r.Anchor("the loop over ETemplate.Parts in substituteSingleUseSymbolInExpr", n >= 1) {
		return r
	}
	r.Floor(1)
	return r
}

// ---------------------------------------------------------------------------------------------
// C03/R16 switch-search-stops-at-unknown-equality.
//
// minifySwitchStmt partially evaluates a switch on a primitive literal: it looks for the first case
// that compares equal and drops the empty cases before it. CheckEqualityIfNoSideEffects answers
// (equal, known); "not known" (two BigInt literals written in different radixes) is not "not equal".
// A search that skips a case whose equality is unknown can pick a later case — or the default — and
// then deletes the case that would really have been taken. Rule: in the search loop, the edge on
// which the equality is unknown does not lead back to the loop header.
func c03SwitchSearchUnknown(p *Prog) *RuleResult {
	r := NewRule("C03/R16 switch-search-stops-at-unknown-equality", "the search for the taken case of a constant switch does not skip a case whose equality with the discriminant is unknown")
	fn := p.FindFunc("js_parser.(*parser).minifySwitchStmt")
	if !r.Anchor("js_parser.(*parser).minifySwitchStmt", fn != nil) {
		return r
	}
	// the search loop may be written in minifySwitchStmt itself or in a helper of the parser it calls
	hosts := []*ssa.Function{fn}
	eachInstr(fn, func(_ *ssa.BasicBlock, in ssa.Instruction) {
		if c, ok := in.(*ssa.Call); ok {
			if callee := c.Call.StaticCallee(); callee != nil && pkgPathOf(callee) == pkgPathOf(fn) && callee != fn && len(callee.Blocks) > 0 {
				for _, h := range hosts {
					if h == callee {
						return
					}
				}
				hosts = append(hosts, callee)
			}
		}
	})
	n := 0
	for _, host := range hosts {
		loops := naturalLoops(host)
		eachInstr(host, func(b *ssa.BasicBlock, in ssa.Instruction) {
			c, ok := in.(*ssa.Call)
			if !ok || !strings.HasSuffix(calleeFullName(c), "js_ast.CheckEqualityIfNoSideEffects") {
				return
			}
			var header *ssa.BasicBlock
			var body map[*ssa.BasicBlock]bool
			for h, bd := range loops {
				if bd[b] && (body == nil || len(bd) < len(body)) {
					header, body = h, bd
				}
			}
			if header == nil {
				return
			}
			var okv ssa.Value
			if c.Referrers() != nil {
				for _, rf := range *c.Referrers() {
					if ex, ok := rf.(*ssa.Extract); ok && ex.Index == 1 {
						okv = ex
					}
				}
			}
			if okv == nil {
				return
			}
			n++
			r.Instances++
			key := fmt.Sprintf("minifySwitchStmt search loop #%d: unknown equality ends the search", n)
			// the If on ok
			bad := ""
			for blk := range body {
				if len(blk.Instrs) == 0 {
					continue
				}
				ifi, isIf := blk.Instrs[len(blk.Instrs)-1].(*ssa.If)
				if !isIf {
					continue
				}
				cond := ifi.Cond
				falseIdx := 1
				if u, isU := cond.(*ssa.UnOp); isU && u.Op == token.NOT {
					cond, falseIdx = u.X, 0
				}
				if cond != okv {
					continue
				}
				unknown := blk.Succs[falseIdx]
				// does the unknown edge come back to the header while staying in the loop?
				if unknown == header {
					bad = p.Pos(firstPos(blk))
					continue
				}
				if _, back := reachesExitAvoiding(unknown, func(x *ssa.BasicBlock) bool { return x == header }, func(x *ssa.BasicBlock) bool { return !body[x] }, false); back && body[unknown] {
					bad = p.Pos(firstPos(blk))
				}
			}
			if bad == "" {
				r.OK(key, true, "the unknown edge leaves the loop")
			} else {
				r.Fail(key, p.Pos(c.Pos()), "when the equality of a case with the discriminant is unknown the search simply moves on to the next case: `switch (1n) { case 0x1n: case 2n: a(); break; case 1n: b() }` takes `case 1n`, drops the empty `case 0x1n:` and calls b() where the program calls a()")
			}
		})
	}
	if !r.Anchor("equality tests inside a loop of minifySwitchStmt", n >= 1) {
		return r
	}
	r.Floor(1)
	return r
}
