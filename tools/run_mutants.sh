#!/bin/bash
# Runs every self-made mutant in mutants/*.diff against the check of the property named by its
# file-name prefix (cNN-...) and writes mutants/RESULTS.md. Static only: each mutant is applied to a
# scratch copy of /repo, type-checked, analysed and removed.
cd "$(dirname "$0")/.."
out=mutants/RESULTS.md
echo "| mutant | property | result | reporting rule |" > $out
echo "|---|---|---|---|" >> $out
for f in mutants/*.diff; do
  n=$(basename $f .diff)
  prop=$(echo $n | sed -E 's/^c([0-9]+)-.*/C\1/')
  res=$(tools/mutant.sh $f $prop 2>&1 | grep -v KNOWN)
  if echo "$res" | grep -q "^CAUGHT"; then
    rule=$(echo "$res" | grep -o '\[C[0-9]*/R[0-9a-z]* [a-z0-9-]*\]' | head -1)
    echo "| $n | $prop | caught | $rule |" >> $out
  elif echo "$res" | grep -q "DOES NOT COMPILE\|PATCH FAILED"; then
    echo "| $n | $prop | not applicable (no longer applies/compiles on the current tree) | |" >> $out
  else
    echo "| $n | $prop | MISSED | |" >> $out
  fi
done
cat $out | grep -c caught
