package main

import (
	"fmt"
	"os"
	"runtime"
	"runtime/debug"
	"sort"
	"strings"
	"time"
)

type Property struct {
	ID          string
	Explanation string
	Assumptions []string
	Run         func(p *Prog, tier string) []*RuleResult
}

var registry = map[string]*Property{}

func register(p *Property) { registry[p.ID] = p }

var commonAssumptions = []string{
	"go/types, go/ssa and the VTA call graph of golang.org/x/tools v0.29.0 represent the program faithfully",
	"reflection, unsafe and cgo are not used to reach the analysed constructs (checked: none in the analysed packages)",
	"the frozen exception tables were confirmed by reading the code of the pinned tree; each entry names one construct and its reason",
}

func configsFor(tier string) [][2]string {
	if tier == "thorough" {
		return [][2]string{{"linux", "amd64"}, {"darwin", "arm64"}, {"windows", "amd64"}, {"js", "wasm"}}
	}
	return [][2]string{{"", ""}}
}

func mergeRules(all [][]*RuleResult) []*RuleResult {
	byName := map[string]*RuleResult{}
	var order []string
	for _, rs := range all {
		for _, r := range rs {
			m, ok := byName[r.Name]
			if !ok {
				byName[r.Name] = r
				order = append(order, r.Name)
				continue
			}
			m.Instances += r.Instances
			m.Obligations += r.Obligations
			m.Discharged += r.Discharged
			m.Exceptions += r.Exceptions
			for k := range r.Nontrivial {
				m.Nontrivial[k] = true
			}
			for k := range r.usedExc {
				m.usedExc[k] = true
			}
			m.Violations = append(m.Violations, r.Violations...)
			// stale = intersection
			st := map[string]bool{}
			for _, s := range r.Stale {
				st[s] = true
			}
			var ns []string
			for _, s := range m.Stale {
				if st[s] {
					ns = append(ns, s)
				}
			}
			m.Stale = ns
		}
	}
	var out []*RuleResult
	for _, n := range order {
		out = append(out, byName[n])
	}
	return out
}

func runProperty(id, tier string) int {
	start := time.Now()
	prop, ok := registry[id]
	if !ok {
		fmt.Printf("unknown property %s\n", id)
		return 2
	}
	pr := &PropertyRun{ID: id, Tier: tier, Explanation: prop.Explanation, Assumptions: append(append([]string{}, commonAssumptions...), prop.Assumptions...)}
	var all [][]*RuleResult
	for _, c := range configsFor(tier) {
		p, err := loadCached(repoDir(), c[0], c[1], tier)
		if err != nil {
			r := NewRule("load", "the program must load and type-check")
			r.Fail("load "+c[0]+"/"+c[1], "-", err.Error())
			all = append(all, []*RuleResult{r})
			pr.Configs = append(pr.Configs, c[0]+"/"+c[1]+"(failed)")
			continue
		}
		pr.Configs = append(pr.Configs, p.Config)
		pr.Packages = 0
		for _, pk := range p.Pkgs {
			if strings.HasPrefix(pk.PkgPath, modPath) {
				pr.Packages++
			}
		}
		pr.Functions = len(p.ModuleFuncs())
		rs := safeRun(prop, p, tier)
		all = append(all, rs)
		p = nil
		if progCacheOn == "" {
			runtime.GC()
			debug.FreeOSMemory()
		}
	}
	pr.Rules = mergeRules(all)
	return pr.Finish(start)
}

// progCache keeps the loaded, type-checked and SSA-built program of one configuration alive between
// the properties of one `check all` run (one per build configuration of the tier), instead of loading the same
// unchanged source twenty times. The analyser only reads the program; per-program memo tables (call
// graph, function index) are filled on first use and are the same for every property.
var progCache = map[string]*Prog{}
var progCacheOn string

func loadCached(dir, goos, goarch, tier string) (*Prog, error) {
	if progCacheOn == "" {
		return Load(dir, goos, goarch)
	}
	key := dir + "|" + goos + "/" + goarch
	if p, ok := progCache[key]; ok {
		return p, nil
	}
	p, err := Load(dir, goos, goarch)
	if err == nil {
		progCache[key] = p
	}
	return p, err
}

func safeRun(prop *Property, p *Prog, tier string) (rs []*RuleResult) {
	defer func() {
		if e := recover(); e != nil {
			r := NewRule("analyser-panic", "the analyser must not panic")
			r.Fail("panic", "-", fmt.Sprintf("%v\n%s", e, debug.Stack()))
			rs = append(rs, r)
		}
	}()
	return prop.Run(p, tier)
}

func main() {
	args := os.Args[1:]
	if len(args) < 2 {
		fmt.Println("usage: esverif check <Cxx|all> [--tier quick|thorough] | esverif explain <violation.json> | esverif list")
		os.Exit(2)
	}
	tier := os.Getenv("VERIF_TIER")
	for i, a := range args {
		if a == "--tier" && i+1 < len(args) {
			tier = args[i+1]
		}
	}
	if tier != "thorough" {
		tier = "quick"
	}
	switch args[0] {
	case "check":
		if args[1] == "all" {
			var ids []string
			for id := range registry {
				ids = append(ids, id)
			}
			sort.Strings(ids)
			code := 0
			progCacheOn = "all"
			for _, id := range ids {
				if c := runProperty(id, tier); c > code {
					code = c
				}
			}
			os.Exit(code)
		}
		os.Exit(runProperty(args[1], tier))
	case "explain":
		b, err := os.ReadFile(args[1])
		if err != nil {
			fmt.Println(err)
			os.Exit(2)
		}
		fmt.Printf("%s\nRe-run `./run.sh check <property>` to re-decide the rule on the current tree; the record above names rule, construct key, position and reason.\n", b)
	default:
		fmt.Println("unknown command")
		os.Exit(2)
	}
}
