package main

import (
	"fmt"
	"go/token"
	"go/types"
	"sort"
	"strings"

	"golang.org/x/tools/go/ssa"
)

// C09/R1c cache-key comparisons are unconditional.
//
// The AST caches reuse a parsed file when `entry.options.Equal(&options)`. R1 (E-EQ) decides that
// every option field that influences parsing is read through both operands somewhere in Equal.
// That is not enough: a comparison that sits behind a condition on *another* option (e.g. "only
// compare the JSX factory when the classic runtime is configured") lets two option sets compare
// equal although they differ in that field — and a per-file pragma or a later pass may still use
// it. Rule: for every field path P that Equal compares through both operands, every control-flow
// path from the entry to a `return true` passes a block that compares P, or a test of a proper
// prefix of P (a nil / length / loop-bound test of the container that holds P).

type c09Cmp struct {
	path  string
	block *ssa.BasicBlock
}

// paramPath: (parameter index, field path) that v is read from, "" if none
func paramPath(fn *ssa.Function, v ssa.Value) (int, string, bool) {
	var rev []string
	for depth := 0; depth < 30; depth++ {
		switch x := v.(type) {
		case *ssa.UnOp:
			if x.Op == token.MUL {
				v = x.X
				continue
			}
			return 0, "", false
		case *ssa.FieldAddr:
			rev = append(rev, fieldAddrName(x))
			v = x.X
			continue
		case *ssa.Field:
			rev = append(rev, fieldValName(x))
			v = x.X
			continue
		case *ssa.IndexAddr:
			rev = append(rev, "[]")
			v = x.X
			continue
		case *ssa.Index:
			rev = append(rev, "[]")
			v = x.X
			continue
		case *ssa.Lookup:
			rev = append(rev, "[k]")
			v = x.X
			continue
		case *ssa.Alloc:
			if sv := c04SingleStore(x); sv != nil {
				v = sv
				continue
			}
			return 0, "", false
		case *ssa.Call:
			// len(x), method calls on a field value (x.Equal(y) is handled by the caller)
			if bi, ok := x.Call.Value.(*ssa.Builtin); ok && bi.Name() == "len" && len(x.Call.Args) == 1 {
				v = x.Call.Args[0]
				continue
			}
			return 0, "", false
		case *ssa.Parameter:
			for i, prm := range fn.Params {
				if prm == x {
					parts := make([]string, len(rev))
					for j := range rev {
						parts[j] = rev[len(rev)-1-j]
					}
					return i, strings.Join(parts, "."), true
				}
			}
			return 0, "", false
		default:
			return 0, "", false
		}
	}
	return 0, "", false
}

func c09UnconditionalKey(p *Prog) *RuleResult {
	r := NewRule("C09/R1c cache-key-unconditional", "every option field the AST cache key compares is compared on every path to 'equal' (never only under a condition on some other option)")
	for _, name := range []string{"js_parser.(*Options).Equal", "css_parser.(*Options).Equal"} {
		fn := p.FindFunc(name)
		if !r.Anchor(name, fn != nil) {
			continue
		}
		c := &c04Ctx{p: p, fn: fn}
		c.collectRetPhis()
		cmpBlocks := map[string]map[*ssa.BasicBlock]bool{}
		testBlocks := map[string]map[*ssa.BasicBlock]bool{} // path read by a branch condition (one side is enough)
		add := func(m map[string]map[*ssa.BasicBlock]bool, path string, b *ssa.BasicBlock) {
			if m[path] == nil {
				m[path] = map[*ssa.BasicBlock]bool{}
			}
			m[path][b] = true
		}
		nilBlocks := map[string]map[*ssa.BasicBlock]bool{}
		eachInstr(fn, func(b *ssa.BasicBlock, in ssa.Instruction) {
			var ops []ssa.Value
			switch x := in.(type) {
			case *ssa.BinOp:
				ops = []ssa.Value{x.X, x.Y}
				for i, o := range ops {
					if cst, ok := o.(*ssa.Const); ok && cst.Value == nil {
						if _, path, ok := paramPath(fn, ops[1-i]); ok && path != "" {
							add(nilBlocks, path, b)
						}
					}
				}
			case *ssa.Call:
				ops = append(ops, x.Call.Args...)
			default:
				return
			}
			seen := map[int]map[string]bool{}
			for _, o := range ops {
				if pi, path, ok := paramPath(fn, o); ok && path != "" {
					if seen[pi] == nil {
						seen[pi] = map[string]bool{}
					}
					seen[pi][path] = true
					add(testBlocks, path, b)
				}
			}
			if len(fn.Params) >= 2 {
				for path := range seen[0] {
					if seen[1][path] {
						add(cmpBlocks, path, b)
					}
				}
			}
		})
		var paths []string
		for path := range cmpBlocks {
			paths = append(paths, path)
		}
		sort.Strings(paths)
		short := name[strings.Index(name, ".")+1:]
		for _, path := range paths {
			r.Instances++
			key := fmt.Sprintf("%s %s compares %s", strings.SplitN(name, ".", 2)[0], short, path)
			discharge := map[*ssa.BasicBlock]bool{}
			for b := range cmpBlocks[path] {
				discharge[b] = true
			}
			for q, bs := range testBlocks {
				if q != path && strings.HasPrefix(path, q+".") {
					for b := range bs {
						discharge[b] = true
					}
				}
			}
			// nil tests of the very pointer whose pointee is compared
			for b := range nilBlocks[path] {
				discharge[b] = true
			}
			pth, escapes := reachesExitAvoidingEdges(fn.Blocks[0], isTrueishReturn, func(b *ssa.BasicBlock) bool { return discharge[b] }, c.edgeCarriesFalse)
			if escapes {
				r.Fail(key, p.Pos(fn.Pos()), fmt.Sprintf("the cache key can report two option sets as equal without comparing %s (path through blocks %v): the comparison only happens under a condition on another option, so a cached AST parsed with a different %s can be reused", path, blockIdx(pth), path))
			} else {
				r.OK(key, true, "compared (or its container tested) on every path to 'equal'")
			}
		}
	}
	r.Floor(15)
	return r
}

// C09/R7 modification-key components.
//
// A rebuild skips re-reading a file, and watch mode skips a rebuild, when the file's modification
// key is unchanged. The key is a summary of stat(2); it stands in for the contents only if it
// contains what changes whenever the file at that path becomes a different file version:
// identity of the file object (inode — a rename over the path keeps size and mtime of the moved
// file), size, modification time (seconds and, where the platform has them, nanoseconds) and mode.
// Rule: the ModKey value fs.modKey returns is built from all of these stat components of the
// platform's stat structure (unix.Stat_t: Ino, Size, Mtim/Mtimespec.Sec, .Nsec, Mode; elsewhere
// os.FileInfo: Size(), ModTime(), Mode()), and every ModKey comparison in the module is a whole-
// struct comparison (so every field takes part).
func c09ModKeyComponents(p *Prog) *RuleResult {
	r := NewRule("C09/R7 modkey-components", "the modification key that stands in for a file's contents on rebuilds is built from the file's identity (inode, where the platform has one), size, modification time and mode, and is compared as a whole")
	fn := p.FindFunc("fs.modKey")
	if !r.Anchor("fs.modKey", fn != nil) {
		return r
	}
	// stat components that flow into the returned ModKey
	got := map[string]bool{}
	unixStat := false
	for _, b := range fn.Blocks {
		if !isReturnBlock(b) {
			continue
		}
		ret := b.Instrs[len(b.Instrs)-1].(*ssa.Return)
		if len(ret.Results) < 1 {
			continue
		}
		backSlice(ret.Results[0], func(v ssa.Value) bool {
			switch x := v.(type) {
			case *ssa.FieldAddr:
				o := namedTypeName(x.X.Type())
				if strings.HasSuffix(o, "Stat_t") {
					unixStat = true
					got[fieldAddrName(x)] = true
				}
				if strings.HasSuffix(o, "Timespec") {
					got["time."+fieldAddrName(x)] = true
				}
			case *ssa.Field:
				o := namedTypeName(x.X.Type())
				if strings.HasSuffix(o, "Stat_t") {
					unixStat = true
					got[fieldValName(x)] = true
				}
				if strings.HasSuffix(o, "Timespec") {
					got["time."+fieldValName(x)] = true
				}
			case *ssa.Call:
				if x.Call.IsInvoke() {
					got["FileInfo."+x.Call.Method.Name()] = true
				} else if callee := x.Call.StaticCallee(); callee != nil {
					got["call."+callee.Name()] = true
				}
			}
			return true
		})
	}
	var need [][]string // alternatives per component
	if unixStat {
		need = [][]string{{"Ino"}, {"Size"}, {"Mtim", "Mtimespec"}, {"time.Sec"}, {"time.Nsec"}, {"Mode"}}
	} else {
		need = [][]string{{"FileInfo.Size"}, {"FileInfo.ModTime"}, {"FileInfo.Mode"}}
	}
	for _, alts := range need {
		r.Instances++
		key := "modKey uses stat component " + strings.Join(alts, "|")
		ok := false
		for _, a := range alts {
			if got[a] {
				ok = true
			}
		}
		if ok {
			r.OK(key, true, "flows into the returned ModKey")
		} else {
			why := "a different file version at the same path can have the same key, so rebuilds and watch mode keep serving the old contents"
			if alts[0] == "Ino" {
				why = "a file renamed over the path keeps its size and modification time; without the inode the key does not change and the rebuild serves the old contents (a fresh build reads the new ones)"
			}
			r.Fail(key, p.Pos(fn.Pos()), "the modification key is not built from "+strings.Join(alts, "/")+": "+why)
		}
	}
	// whole-struct comparisons only
	r.Instances++
	partial := ""
	cmp := 0
	for _, f := range p.ModuleFuncs() {
		eachInstr(f, func(b *ssa.BasicBlock, in ssa.Instruction) {
			bo, ok := in.(*ssa.BinOp)
			if !ok || (bo.Op != token.EQL && bo.Op != token.NEQ) {
				return
			}
			if namedTypeName(bo.X.Type()) == "fs.ModKey" {
				cmp++
				return
			}
			for _, side := range []ssa.Value{bo.X, bo.Y} {
				if o, n, ok := loadedField(side); ok && o == "fs.ModKey" && f.Name() != "modKey" {
					partial = p.Pos(bo.Pos()) + " compares only ModKey." + n
				}
			}
		})
	}
	if partial != "" {
		r.Fail("ModKey compared as a whole", partial, "a modification key is compared field by field ("+partial+"): a component that is not compared does not protect against stale contents")
	} else if cmp == 0 {
		r.Fail("ModKey compared as a whole", p.Pos(fn.Pos()), "no comparison of fs.ModKey values found")
	} else {
		r.OK("ModKey compared as a whole", true, fmt.Sprintf("%d whole-struct comparisons, no field-wise comparison", cmp))
	}
	return r
}

// C09/R9 (also registered as C14/R7) a cache hit replays the diagnostics of the cached parse.
//
// The incremental AST caches store, next to each parsed file, the messages its parse produced and
// replay them into the log on every cache hit. Errors that do not stop the parser — "top-level
// await is not available in the configured target", "transforming destructuring to the configured
// target is not supported yet" and every other markSyntaxFeature diagnostic — exist only as such a
// message: the returned AST still contains the construct and `ok` is true. A hit that does not
// replay them turns a build that must fail into a successful one that emits the unsupported
// syntax, on the second and every later build of a context.
// Rule: in every Parse method of internal/cache, each path from the entry to a return of cached
// entry fields passes a read of the entry's stored messages (the replay loop).
func c09CacheHitReplay(p *Prog, name string) *RuleResult {
	r := NewRule(name, "a hit of an incremental AST cache replays the stored diagnostics of the cached parse unconditionally (non-fatal errors such as unsupported-syntax diagnostics only exist as replayed messages)")
	n := 0
	for _, fn := range p.ModuleFuncs() {
		if pkgPathOf(fn) != modPath+"/internal/cache" || fn.Name() != "Parse" || fn.Signature.Recv() == nil || fn.Parent() != nil {
			continue
		}
		isEntry := func(t types.Type) bool { return strings.HasSuffix(namedTypeName(t), "CacheEntry") }
		msgBlocks := map[*ssa.BasicBlock]bool{}
		eachInstr(fn, func(b *ssa.BasicBlock, in ssa.Instruction) {
			if fa, ok := in.(*ssa.FieldAddr); ok && isEntry(fa.X.Type()) && fieldAddrName(fa) == "msgs" {
				// a read (not the construction of a new entry)
				if fa.Referrers() != nil {
					for _, rf := range *fa.Referrers() {
						if u, ok := rf.(*ssa.UnOp); ok && u.Op == token.MUL {
							msgBlocks[b] = true
							_ = u
						}
					}
				}
			}
		})
		var hitReturns []*ssa.BasicBlock
		for _, b := range fn.Blocks {
			if !isReturnBlock(b) {
				continue
			}
			ret := b.Instrs[len(b.Instrs)-1].(*ssa.Return)
			cached := false
			for i := range ret.Results {
				backSlice(returnedValue(ret, i), func(v ssa.Value) bool {
					if fa, ok := v.(*ssa.FieldAddr); ok && isEntry(fa.X.Type()) && fieldAddrName(fa) != "msgs" {
						// loaded from an entry that was itself loaded from the cache map (not the fresh one)
						cached = true
					}
					return true
				})
			}
			if cached {
				hitReturns = append(hitReturns, b)
			}
		}
		if len(hitReturns) == 0 {
			continue
		}
		n++
		for _, rb := range hitReturns {
			r.Instances++
			key := FuncName(fn) + " cache hit replays messages"
			if len(msgBlocks) == 0 {
				r.Fail(key, p.Pos(fn.Pos()), "the cached result is returned but the entry's stored messages are never read")
				continue
			}
			target := rb
			if path, reach := reachesExitAvoiding(fn.Blocks[0], func(x *ssa.BasicBlock) bool { return x == target }, func(x *ssa.BasicBlock) bool { return msgBlocks[x] }, false); reach {
				r.Fail(key, p.Pos(rb.Instrs[len(rb.Instrs)-1].Pos()), "the cached AST can be returned on a path ("+blockPath(path)+") that does not replay the stored diagnostics: an unsupported-syntax error reported by the first build is silently dropped on every rebuild, which then succeeds and emits the syntax")
			} else {
				r.OK(key, true, "every path to the return of the cached entry reads entry.msgs (the replay loop)")
			}
		}
	}
	r.Anchor("Parse methods of internal/cache that return cached entries", n >= 3)
	return r
}
