package main

import (
	"fmt"
	"go/ast"
	"go/constant"
	"go/token"
	"go/types"
	"golang.org/x/tools/go/packages"
	"sort"
	"strings"

	"golang.org/x/tools/go/ssa"
)

// ---------------------------------------------------------------------------------------------
// C01/R7 line-terminator-set-complete.
//
// ECMAScript has four LineTerminator code points: LF, CR, U+2028, U+2029. Automatic semicolon
// insertion and the `[no LineTerminator here]` productions (return, throw, break, continue, yield,
// async, postfix ++/--, arrow) are decided by Lexer.HasNewlineBefore. A scanner that recognises only
// CR and LF accepts `return /*<LS>*/ 42` as `return 42` where the language says `return; 42`.
// (a) every store of `true` to HasNewlineBefore is entered from tests for all four code points;
// (b) every case clause of the lexer that lists both CR and LF lists U+2028 and U+2029 as well.
func c01LineTerminators(p *Prog) *RuleResult {
	r := NewRule("C01/R7 line-terminator-set-complete", "the JavaScript lexer treats all four ECMAScript line terminators (LF, CR, U+2028, U+2029) alike wherever it recognises a line break")
	pkg := p.ByPath[modPath+"/internal/js_lexer"]
	if !r.Anchor("package js_lexer", pkg != nil) {
		return r
	}
	need := []int64{10, 13, 0x2028, 0x2029}
	nstores := 0
	for _, fn := range p.ModuleFuncs() {
		if pkgPathOf(fn) != modPath+"/internal/js_lexer" {
			continue
		}
		k := 0
		eachInstr(fn, func(b *ssa.BasicBlock, in ssa.Instruction) {
			st, ok := in.(*ssa.Store)
			if !ok {
				return
			}
			fa, ok := st.Addr.(*ssa.FieldAddr)
			if !ok || fieldAddrName(fa) != "HasNewlineBefore" {
				return
			}
			c, ok := st.Val.(*ssa.Const)
			if !ok || c.Value == nil || c.Value.Kind() != constant.Bool || !constant.BoolVal(c.Value) {
				return
			}
			nstores++
			k++
			r.Instances++
			key := fmt.Sprintf("%s sets HasNewlineBefore #%d", FuncName(fn), k)
			have := map[int64]bool{}
			judged := []*ssa.BasicBlock{b}
			// a helper that does nothing but record the line break: judge its call sites instead
			if len(controlDepIfs(b)) == 0 && b == fn.Blocks[0] {
				var sites []*ssa.BasicBlock
				for _, caller := range p.ModuleFuncs() {
					eachInstr(caller, func(cb *ssa.BasicBlock, cin ssa.Instruction) {
						if cc, ok := cin.(*ssa.Call); ok && cc.Call.StaticCallee() == fn {
							sites = append(sites, cb)
						}
					})
				}
				if len(sites) > 0 {
					judged = sites
				}
			}
			missingAt := ""
			for _, jb := range judged {
				have = map[int64]bool{}
				b := jb
				// walk up through single-predecessor blocks to the block that the tests jump to
				blk := b
				for len(blk.Preds) == 1 && len(blk.Preds[0].Succs) == 1 {
					blk = blk.Preds[0]
				}
				for _, pr := range blk.Preds {
					if len(pr.Instrs) == 0 {
						continue
					}
					ifi, ok := pr.Instrs[len(pr.Instrs)-1].(*ssa.If)
					if !ok || pr.Succs[0] != blk {
						continue
					}
					if bo, ok := ifi.Cond.(*ssa.BinOp); ok && bo.Op == token.EQL {
						if kv, ok := constInt(bo.Y); ok {
							have[kv] = true
						}
					}
				}
				// string-set tests among the controlling conditions
				for _, ifi := range controlDepIfs(b) {
					sliceCond(ifi.Cond, func(v ssa.Value) bool {
						if call, ok := v.(*ssa.Call); ok {
							n := calleeFullName(call)
							if n == "strings.ContainsAny" || n == "strings.IndexAny" || n == "strings.ContainsRune" || n == "strings.IndexRune" {
								for _, a := range call.Call.Args[1:] {
									if s, ok := constString(a); ok {
										for _, ch := range s {
											have[int64(ch)] = true
										}
									} else if kv, ok := constInt(a); ok {
										have[kv] = true
									}
								}
							}
						}
						return true
					})
				}
				var missing []string
				for _, kv := range need {
					if !have[kv] {
						missing = append(missing, fmt.Sprintf("U+%04X", kv))
					}
				}
				if len(missing) > 0 && missingAt == "" {
					missingAt = strings.Join(missing, ", ")
				}
			}
			var missing []string
			if missingAt != "" {
				missing = []string{missingAt}
			}
			if len(missing) == 0 {
				r.OK(key, true, "entered from tests for LF, CR, U+2028 and U+2029")
			} else {
				r.Fail(key, p.Pos(st.Pos()), "a line break is recorded without testing for "+strings.Join(missing, ", ")+": a comment or whitespace run whose only line terminator is that code point no longer counts as a line break for automatic semicolon insertion and the `[no LineTerminator here]` productions (`return /*\\u2028*/ 42` returns 42 instead of undefined)")
			}
		})
	}
	if !r.Anchor("stores of true to Lexer.HasNewlineBefore", nstores >= 3) {
		return r
	}
	// (b) case clauses
	nclauses := 0
	for _, f := range pkg.Syntax {
		ast.Inspect(f, func(n ast.Node) bool {
			cc, ok := n.(*ast.CaseClause)
			if !ok {
				return true
			}
			have := map[int64]bool{}
			for _, e := range cc.List {
				if tv, ok := pkg.TypesInfo.Types[e]; ok && tv.Value != nil && tv.Value.Kind() == constant.Int {
					if v, ok := constant.Int64Val(tv.Value); ok {
						have[v] = true
					}
				}
			}
			if !have[10] || !have[13] {
				return true
			}
			nclauses++
			r.Instances++
			key := fmt.Sprintf("case clause listing CR and LF #%d in %s", nclauses, enclosingFuncName(pkg, f, cc.Pos()))
			if have[0x2028] && have[0x2029] {
				r.OK(key, true, "lists U+2028 and U+2029 too")
			} else {
				r.Fail(key, p.Pos(cc.Pos()), "a case clause of the JavaScript lexer lists CR and LF but not U+2028 / U+2029, which ECMAScript treats as line terminators as well")
			}
			return true
		})
	}
	if !r.Anchor("case clauses listing CR and LF in js_lexer", nclauses >= 8) {
		return r
	}
	r.Floor(12)
	return r
}

func enclosingFuncName(pkg *packages.Package, f *ast.File, pos token.Pos) string {
	name := "?"
	for _, d := range f.Decls {
		if fd, ok := d.(*ast.FuncDecl); ok && fd.Pos() <= pos && pos <= fd.End() {
			name = fd.Name.Name
		}
	}
	return name
}

// ---------------------------------------------------------------------------------------------
// C07/R8 vlq-delta-accumulated.
//
// Every field of a source-map segment is a VLQ *delta* against the previous segment; the decoder
// keeps one running total per field. A decoded delta that is dropped on some path (because the
// segment it belongs to is skipped, say) shifts every later segment of the line (generated column)
// or of the whole map (source index, original line, original column). Rule: in every loop that
// decodes VLQ values, each decoded delta is added to a running total on every path from the decode
// that stays in the loop (paths that leave the loop are the error exits).
func c07VLQDeltaAccumulated(p *Prog) *RuleResult {
	r := NewRule("C07/R8 vlq-delta-accumulated", "in the source-map mappings decoder every decoded VLQ delta is added to its running total on every path that continues decoding")
	n := 0
	for _, fn := range p.ModuleFuncs() {
		if !strings.HasPrefix(pkgPathOf(fn), modPath+"/internal/") {
			continue
		}
		loops := naturalLoops(fn)
		k := 0
		eachInstr(fn, func(b *ssa.BasicBlock, in ssa.Instruction) {
			c, ok := in.(*ssa.Call)
			if !ok {
				return
			}
			name := calleeFullName(c)
			if !strings.HasSuffix(name, "/internal/sourcemap.DecodeVLQUTF16") && !strings.HasSuffix(name, "/internal/sourcemap.DecodeVLQ") {
				return
			}
			// innermost loop containing the call
			var header *ssa.BasicBlock
			var body map[*ssa.BasicBlock]bool
			for h, bd := range loops {
				if bd[b] && (body == nil || len(bd) < len(body)) {
					header, body = h, bd
				}
			}
			if header == nil {
				return
			}
			// the decoded value: Extract #0
			var val ssa.Value
			if c.Referrers() != nil {
				for _, rf := range *c.Referrers() {
					if ex, ok := rf.(*ssa.Extract); ok && ex.Index == 0 {
						val = ex
					}
				}
			}
			if val == nil || val.Referrers() == nil || len(*val.Referrers()) == 0 {
				return // the value is discarded: the call only skips over the field (bytes are copied verbatim)
			}
			var okv ssa.Value
			for _, rf := range *c.Referrers() {
				if ex, ok := rf.(*ssa.Extract); ok && ex.Type().String() == "bool" {
					okv = ex
				}
			}
			n++
			k++
			r.Instances++
			key := fmt.Sprintf("%s VLQ decode #%d is accumulated", FuncName(fn), k)
			// blocks that add the value to something
			adds := map[*ssa.BasicBlock]bool{}
			if val.Referrers() != nil {
				for _, rf := range *val.Referrers() {
					if bo, ok := rf.(*ssa.BinOp); ok && bo.Op == token.ADD {
						adds[bo.Block()] = true
					}
				}
			}
			if len(adds) == 0 {
				r.Fail(key, p.Pos(c.Pos()), "the decoded delta is never added to a running total")
				return
			}
			if adds[b] {
				r.OK(key, true, "added in the decoding block itself")
				return
			}
			// a path from the decode back to the loop header (or to another decode) that avoids the add
			// (edges on which the decoder reported failure carry no value and are not followed)
			path, found := reachesExitAvoidingEdges(b, func(x *ssa.BasicBlock) bool { return x == header }, func(x *ssa.BasicBlock) bool { return x != b && (adds[x] || !body[x]) }, func(x *ssa.BasicBlock, succ int) bool {
				if okv == nil || len(x.Instrs) == 0 {
					return false
				}
				ifi, isIf := x.Instrs[len(x.Instrs)-1].(*ssa.If)
				if !isIf {
					return false
				}
				if ifi.Cond == okv {
					return succ == 1
				}
				if u, isU := ifi.Cond.(*ssa.UnOp); isU && u.Op == token.NOT && u.X == okv {
					return succ == 0
				}
				return false
			})
			if found {
				where := ""
				if len(path) > 1 {
					where = " (via " + p.Pos(firstPos(path[1])) + ")"
				}
				r.Fail(key, p.Pos(c.Pos()), "a path continues with the next segment without adding this decoded delta to its running total"+where+": all later segments of the line (generated column) or of the map (source, original line/column) are shifted")
			} else {
				r.OK(key, true, "every path that stays in the loop passes the addition")
			}
		})
	}
	if !r.Anchor("VLQ decodes inside loops", n >= 4) {
		return r
	}
	r.Floor(4)
	return r
}

func firstPos(b *ssa.BasicBlock) token.Pos {
	for _, in := range b.Instrs {
		if in.Pos().IsValid() {
			return in.Pos()
		}
	}
	return token.NoPos
}

// ---------------------------------------------------------------------------------------------
// C06/R7 (= C13/R9) token-enum-vs-character.
//
// The lexers keep two kinds of "what am I looking at": the current code point (a rune) and the
// current token (an enum, js_lexer.T / css_lexer.T). Both are integers, so Go accepts a comparison
// of a token with a character literal — it compares the enum's ordinal with the character's code,
// which is never what was meant. The place that re-splits `>=`, `>==`, `>===` after a TypeScript type
// argument list did exactly that (`lexer.Token == '='`), so `a as Array<number>=== y` was rejected
// although it is `a === y` with a type assertion added. Rule: no comparison (==, !=, case) between a
// value of a lexer token type and a character literal, anywhere in the module.
func tokenVsCharacter(p *Prog, rule string) *RuleResult {
	r := NewRule(rule, "no value of a lexer token enum (js_lexer.T, css_lexer.T) is compared with a character literal")
	isTokenType := func(t types.Type) bool {
		n, ok := t.(*types.Named)
		if !ok || n.Obj().Pkg() == nil || n.Obj().Name() != "T" {
			return false
		}
		pp := n.Obj().Pkg().Path()
		return pp == modPath+"/internal/js_lexer" || pp == modPath+"/internal/css_lexer"
	}
	isChar := func(e ast.Expr) bool {
		for {
			if pe, ok := e.(*ast.ParenExpr); ok {
				e = pe.X
				continue
			}
			break
		}
		bl, ok := e.(*ast.BasicLit)
		return ok && bl.Kind == token.CHAR
	}
	comparisons, cases := 0, 0
	var paths []string
	for path := range p.ByPath {
		paths = append(paths, path)
	}
	sort.Strings(paths)
	for _, path := range paths {
		pkg := p.ByPath[path]
		if !strings.HasPrefix(path, modPath) || pkg.TypesInfo == nil {
			continue
		}
		for _, f := range pkg.Syntax {
			ast.Inspect(f, func(n ast.Node) bool {
				switch x := n.(type) {
				case *ast.BinaryExpr:
					if x.Op != token.EQL && x.Op != token.NEQ {
						return true
					}
					tx, ty := pkg.TypesInfo.TypeOf(x.X), pkg.TypesInfo.TypeOf(x.Y)
					if tx == nil || ty == nil || (!isTokenType(tx) && !isTokenType(ty)) {
						return true
					}
					comparisons++
					if isChar(x.X) || isChar(x.Y) {
						r.Instances++
						r.Fail(fmt.Sprintf("%s compares a token with a character literal", enclosingFuncName(pkg, f, x.Pos())), p.Pos(x.Pos()), "a lexer token (an enum ordinal) is compared with a character literal (a code point): the test never means what it says — the current character lives in lexer.codePoint")
					}
				case *ast.SwitchStmt:
					if x.Tag == nil {
						return true
					}
					if tt := pkg.TypesInfo.TypeOf(x.Tag); tt == nil || !isTokenType(tt) {
						return true
					}
					for _, cl := range x.Body.List {
						cc := cl.(*ast.CaseClause)
						for _, e := range cc.List {
							cases++
							if isChar(e) {
								r.Instances++
								r.Fail(fmt.Sprintf("%s switches on a token with a character case", enclosingFuncName(pkg, f, e.Pos())), p.Pos(e.Pos()), "a case of a switch over a lexer token is a character literal")
							}
						}
					}
				}
				return true
			})
		}
	}
	r.Instances++
	if comparisons+cases >= 500 {
		r.OK("comparisons and switch cases over lexer tokens", true, fmt.Sprintf("%d comparisons and %d switch cases over token values inspected", comparisons, cases))
	} else {
		r.Fail("comparisons and switch cases over lexer tokens", "-", fmt.Sprintf("only %d comparisons and %d cases over token values were found (expected hundreds): the rule no longer sees the lexers", comparisons, cases))
	}
	return r
}

// ---------------------------------------------------------------------------------------------
// C01/R8 (= C13/R10) escaped-identifier-end-is-guarded.
//
// printSpaceBeforeIdentifier separates a keyword or identifier from what was printed before it by
// looking at the last byte of the output: an identifier character needs a space. With the ASCII
// charset an identifier can end in an escape. `\uXXXX` ends in a hex digit, which is an identifier
// character; `\u{XXXXX}` ends in `}`, which is not — `丽 in y` was printed as `\u{2F800}in y`, one
// identifier. Rule: for every byte that the identifier printers can emit last (read off the
// constants and formats they append) and that is not an identifier character, the gluing test
// compares the last byte with it.
func escapedIdentifierEndGuarded(p *Prog, rule string) *RuleResult {
	r := NewRule(rule, "every non-identifier byte that an escaped identifier can end with is tested by printSpaceBeforeIdentifier")
	guard := p.FindFunc("js_printer.(*printer).printSpaceBeforeIdentifier")
	if !r.Anchor("js_printer.(*printer).printSpaceBeforeIdentifier", guard != nil) {
		return r
	}
	// bytes compared in the guard (and in the helpers it calls, one level)
	tested := map[int64]bool{}
	collect := func(fn *ssa.Function) {
		eachInstr(fn, func(b *ssa.BasicBlock, in ssa.Instruction) {
			if bo, ok := in.(*ssa.BinOp); ok && (bo.Op == token.EQL || bo.Op == token.NEQ) {
				if k, ok := constInt(bo.Y); ok {
					tested[k] = true
				}
				if k, ok := constInt(bo.X); ok {
					tested[k] = true
				}
			}
		})
	}
	collect(guard)
	eachInstr(guard, func(b *ssa.BasicBlock, in ssa.Instruction) {
		if c, ok := in.(*ssa.Call); ok {
			if callee := c.Call.StaticCallee(); callee != nil && pkgPathOf(callee) == modPath+"/internal/js_printer" {
				collect(callee)
			}
		}
	})
	// marker form: the guard compares a printer field with len(p.js); a printer method that stores that
	// field after comparing the last byte with a constant "tests" that byte on the guard's behalf, provided
	// every identifier printer calls it
	guardFields := map[string]bool{}
	eachInstr(guard, func(b *ssa.BasicBlock, in ssa.Instruction) {
		if fa, ok := in.(*ssa.FieldAddr); ok && namedTypeName(fa.X.Type()) == "js_printer.printer" {
			guardFields[fieldAddrName(fa)] = true
		}
	})
	for _, fn := range p.ModuleFuncs() {
		if pkgPathOf(fn) != modPath+"/internal/js_printer" || fn == guard {
			continue
		}
		storesMarker := false
		eachInstr(fn, func(b *ssa.BasicBlock, in ssa.Instruction) {
			if st, ok := in.(*ssa.Store); ok {
				if fa, ok := st.Addr.(*ssa.FieldAddr); ok && namedTypeName(fa.X.Type()) == "js_printer.printer" && guardFields[fieldAddrName(fa)] && fieldAddrName(fa) != "js" {
					storesMarker = true
				}
			}
		})
		if !storesMarker {
			continue
		}
		// the marker setter must be reached from every identifier printer method
		all := true
		for _, ip := range p.ModuleFuncs() {
			if pkgPathOf(ip) != modPath+"/internal/js_printer" || !strings.HasPrefix(ip.Name(), "printIdentifier") {
				continue
			}
			calls := false
			eachInstr(ip, func(b *ssa.BasicBlock, in ssa.Instruction) {
				if c, ok := in.(*ssa.Call); ok && c.Call.StaticCallee() == fn {
					calls = true
				}
			})
			if ip == fn {
				calls = true
			}
			if !calls {
				all = false
			}
		}
		if all {
			collect(fn)
		}
	}
	isIdentByte := func(c byte) bool {
		return c == '_' || c == '$' || (c >= '0' && c <= '9') || (c >= 'a' && c <= 'z') || (c >= 'A' && c <= 'Z')
	}
	lastOfFormat := func(s string) (byte, bool) {
		// strip a trailing formatting verb: it prints hex digits / identifier text
		for len(s) >= 2 && s[len(s)-2] == '%' {
			return 'x', true
		}
		if len(s) == 0 {
			return 0, false
		}
		return s[len(s)-1], true
	}
	n := 0
	tails := map[byte]string{}
	for _, fn := range p.ModuleFuncs() {
		if pkgPathOf(fn) != modPath+"/internal/js_printer" {
			continue
		}
		name := fn.Name()
		if name != "QuoteIdentifier" && !strings.HasPrefix(name, "printIdentifier") {
			continue
		}
		eachInstr(fn, func(b *ssa.BasicBlock, in ssa.Instruction) {
			c, ok := in.(*ssa.Call)
			if !ok {
				return
			}
			if calleeFullName(c) == "fmt.Sprintf" && len(c.Call.Args) > 0 {
				if s, ok := constString(c.Call.Args[0]); ok && strings.Contains(s, "\\u") {
					n++
					if last, ok := lastOfFormat(s); ok && !isIdentByte(last) {
						tails[last] = p.Pos(c.Pos())
					}
				}
			}
		})
	}
	if !r.Anchor("escape formats in the identifier printers", n >= 1) {
		return r
	}
	if len(tails) == 0 {
		r.Instances++
		r.OK("identifier escapes end in identifier characters", true, "no escape format of the identifier printers ends in a non-identifier byte")
		return r
	}
	for last, pos := range tails {
		r.Instances++
		key := fmt.Sprintf("an escaped identifier can end in %q: the gluing test looks for it", string(last))
		if tested[int64(last)] {
			r.OK(key, true, "printSpaceBeforeIdentifier compares the last byte with it, directly or through a marker that every identifier printer sets after comparing the last byte with it")
		} else {
			r.Fail(key, pos, fmt.Sprintf("with the ASCII charset an identifier can end in %q (escape format at %s), which printSpaceBeforeIdentifier does not recognise as the end of an identifier: a following keyword is glued on (`\\u{2F800}in y` is one identifier followed by `y`)", string(last), pos))
		}
	}
	r.Floor(1)
	return r
}

// ---------------------------------------------------------------------------------------------
// C13/R11 (= C01/R9) dot-after-expression-guarded.
//
// `1.toString` is a syntax error (the dot belongs to the number), so the printer remembers where a
// number that needs it ended (needSpaceBeforeDot) and the property-access printer inserts a space
// when the `.` would directly follow. A member access can be printed by several arms of printExpr
// (EDot; EIndex with a private name, a mangled property name, an inlined enum string). Rule: on
// every path from the recursive printExpr call that prints the target to a `p.print(".")`, the
// marker needSpaceBeforeDot is consulted.
func dotAfterExpressionGuarded(p *Prog, rule string) *RuleResult {
	r := NewRule(rule, "every `.` that the JS printer prints directly after a target expression is preceded by the needSpaceBeforeDot test (`1.x` is a syntax error; `1 .x` is a member access)")
	fn := p.FindFunc("js_printer.(*printer).printExpr")
	if !r.Anchor("js_printer.(*printer).printExpr", fn != nil) {
		return r
	}
	n := 0
	var allBlocks []*ssa.BasicBlock
	for _, f := range p.ModuleFuncs() {
		if pkgPathOf(f) == modPath+"/internal/js_printer" {
			allBlocks = append(allBlocks, f.Blocks...)
		}
	}
	sort.SliceStable(allBlocks, func(i, j int) bool { return firstPos(allBlocks[i]) < firstPos(allBlocks[j]) })
	for _, b := range allBlocks {
		for idx, in := range b.Instrs {
			c, ok := in.(*ssa.Call)
			if !ok || !strings.HasSuffix(calleeFullName(c), "js_printer.printer).print") || len(c.Call.Args) != 2 {
				continue
			}
			if s, ok := constString(c.Call.Args[1]); !ok || s != "." {
				continue
			}
			// backwards: a load of needSpaceBeforeDot ends a path well; a recursive printExpr call ends it badly
			type pt struct {
				b *ssa.BasicBlock
				i int
			}
			seen := map[*ssa.BasicBlock]bool{}
			work := []pt{{b, idx}}
			type knownFact struct {
				field string
				k     int64
				eq    bool
			}
			var known []knownFact
			for _, f := range factsAt(b) {
				if fld, k, eq, ok := fieldConstTest(f.Cond); ok {
					known = append(known, knownFact{fld, k, eq == f.True})
				}
			}
			bad := token.NoPos
			reachedTarget := false
			for len(work) > 0 && bad == token.NoPos {
				w := work[len(work)-1]
				work = work[:len(work)-1]
				stop := false
				for i := w.i - 1; i >= 0 && !stop; i-- {
					switch x := w.b.Instrs[i].(type) {
					case *ssa.FieldAddr:
						if fieldAddrName(x) == "needSpaceBeforeDot" {
							stop = true
						}
					case *ssa.Call:
						if x.Call.StaticCallee() == fn {
							bad = x.Pos()
							reachedTarget = true
							stop = true
						} else if strings.HasSuffix(calleeFullName(x), "js_printer.printer).print") {
							// something else was printed in between: the dot does not follow the target directly
							stop = true
						}
					}
				}
				if stop {
					continue
				}
				for _, pr := range w.b.Preds {
					if seen[pr] {
						continue
					}
					// prune edges that contradict what is known at the print (same field compared with the same constant)
					if len(pr.Instrs) > 0 && len(pr.Succs) == 2 {
						if ifi, ok := pr.Instrs[len(pr.Instrs)-1].(*ssa.If); ok {
							if f, k, eq, ok := fieldConstTest(ifi.Cond); ok {
								taken := pr.Succs[0] == w.b // true edge
								holdsEq := eq == taken      // on this edge: field == k ?
								contradiction := false
								for _, kf := range known {
									if kf.field == f && kf.k == k && kf.eq != holdsEq {
										contradiction = true
									}
								}
								if contradiction {
									continue
								}
							}
						}
					}
					seen[pr] = true
					work = append(work, pt{pr, len(pr.Instrs)})
				}
			}
			_ = reachedTarget
			n++
			r.Instances++
			key := fmt.Sprintf("printExpr prints `.` #%d (%s)", n, p.Pos(c.Pos()))
			key = fmt.Sprintf("%s prints `.` #%d", FuncName(b.Parent()), n)
			if bad == token.NoPos {
				r.OK(key, true, "every path from the target's printExpr call consults needSpaceBeforeDot (or prints something else first)")
			} else {
				r.Fail(key, p.Pos(c.Pos()), "a `.` is printed directly after the target expression (printed at "+p.Pos(bad)+") without consulting needSpaceBeforeDot: when the target is a number the output is `1.x` / `1.#x`, a syntax error, where `1 .x` was meant")
			}
		}
	}
	if !r.Anchor("prints of `.` in the JS printer", n >= 2) {
		return r
	}
	r.Floor(2)
	return r
}

// fieldConstTest: cond is `<load of field F> == K` (eq=true) or `!= K` (eq=false).
func fieldConstTest(cond ssa.Value) (field string, k int64, eq bool, ok bool) {
	bo, isB := cond.(*ssa.BinOp)
	if !isB || (bo.Op != token.EQL && bo.Op != token.NEQ) {
		return "", 0, false, false
	}
	kv, isK := constInt(bo.Y)
	if !isK {
		return "", 0, false, false
	}
	_, name, isF := loadedField(bo.X)
	if !isF {
		return "", 0, false, false
	}
	return name, kv, bo.Op == token.EQL, true
}
