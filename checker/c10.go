package main

import (
	"strings"

	"golang.org/x/tools/go/ssa"
)

func init() {
	register(&Property{
		ID:          "C10",
		Explanation: "Thin claim. What happens when several chunks are loaded into one runtime (initialisation order, cross-chunk export completeness, binding liveness) is behaviour of generated code and is NOT decided. R3: every ImportsToBind lookup keyed by the Ref of a resolved export E reaches its table through c.graph.Files[E.SourceIndex] (the Ref belongs to that file, not to the file listing the export), which is what makes 'reference only export names that exist' hold for export-star'd re-exports across chunks. Two further guarantees of the property rest on a code shape that is decided: R1 single chunk membership — chunks are file-granular: every JS chunk is registered under the string of its entry-bit set (so two JS chunks never share an entry-bit set), and findImportedPartsInJSOrder emits a file's parts into a chunk only under chunk.entryBits.Equals(file.EntryBits); hence the top-level code of a live JS file can be emitted into at most one chunk, a necessary condition of 'every module body runs exactly once per program and all entry points observe the same module state'; R2 the static chunk-import cycle guard (enforceNoCyclicChunkImports) runs on every path of generateChunksInParallel before output files are returned and reports an error when it finds a cycle. R5 renamer-input-siblings: cross-chunk imports and declared symbols of live parts are registered with both renamers. R6 goroutine-private-slots (E-SLOT, generalised to shared objects). R7 generated-export-getter-symbol-use: every identifier node whose Ref is read from a graph.ExportData/ImportData cell in a function that fills Part.SymbolUses from a local map has a SymbolUses update keyed from the same cell on every path to the end of the iteration. R8 relative-specifier-prefix: the `./` prefixing in pathBetweenChunks is conditional on HasPrefix tests for exactly ./ and ../. R9 visited-cut-respects-lowered-minimum: the C08/R14 analysis.",
		Run: func(p *Prog, tier string) []*RuleResult {
			return []*RuleResult{c10SingleMembership(p), c10CycleGuard(p), c10ExportOwnerTable(p), renamed(c15AllocReserve(p), "C10/R4 export-alias-reserve", "the allocator of cross-chunk export aliases (ExportRenamer.NextRenamedName) records every alias it hands out, so a chunk never exports two bindings under one name and importers never bind the wrong one (same analysis as C15/R3)"), c10RenamerSiblings(p, "C10/R5 renamer-input-siblings"), goroutinePrivateSlots(p, "C10/R6 goroutine-private-slots"), c10GetterSymbolUse(p), c10RelativeSpecifierPrefix(p), visitedCutRespectsMinimum(p, "C10/R9 visited-cut-respects-lowered-minimum")}
		},
	})
}

func c10SingleMembership(p *Prog) *RuleResult {
	r := NewRule("C10/R1 single-membership", "a live JS file's parts are emitted only into the chunk whose entry-bit set equals the file's; JS chunks have pairwise distinct entry-bit sets")
	cc := p.FindFunc("linker.(*linkerContext).computeChunks")
	fi := p.FindFunc("linker.(*linkerContext).findImportedPartsInJSOrder")
	if !r.Anchor("linker.(*linkerContext).computeChunks", cc != nil) || !r.Anchor("linker.(*linkerContext).findImportedPartsInJSOrder", fi != nil) {
		return r
	}
	// (1) jsChunks[key] = chunk : key is BitSet.String() of the bit set stored in chunk.entryBits
	n := 0
	eachInstr(cc, func(b *ssa.BasicBlock, in ssa.Instruction) {
		mu, ok := in.(*ssa.MapUpdate)
		if !ok {
			return
		}
		name := ""
		switch m := mu.Map.(type) {
		case *ssa.MakeMap:
			name = m.Name()
		case *ssa.UnOp:
			if al, ok := m.X.(*ssa.Alloc); ok {
				name = al.Comment
			}
		}
		// identify the jsChunks map by its value type and by being the first chunk map: use debug comment when available
		if shortType(mu.Map.Type()) != "map[string]linker.chunkInfo" {
			return
		}
		_ = name
		n++
		r.Instances++
		key := "computeChunks chunk map insert"
		var bitsOfKey ssa.Value
		backSlice(mu.Key, func(v ssa.Value) bool {
			if c, ok := v.(*ssa.Call); ok && strings.HasSuffix(calleeFullName(c), "helpers.BitSet).String") {
				bitsOfKey = c.Call.Args[0]
				return false
			}
			return true
		})
		if bitsOfKey == nil {
			r.Fail(key, p.Pos(mu.Pos()), "a chunk is registered under a key that is not the string of an entry-bit set: two chunks could share an entry-bit set and a file could be emitted into both")
			return
		}
		// the chunk value stored carries the same bits in entryBits
		same := false
		keyExpr := ssaExpr(bitsOfKey, 0)
		backSliceWithMutators(mu.Value, func(v ssa.Value) bool {
			if fa, ok := v.(*ssa.FieldAddr); ok && fieldAddrName(fa) == "entryBits" && fa.Referrers() != nil {
				for _, rf := range *fa.Referrers() {
					if st, ok := rf.(*ssa.Store); ok && st.Addr == fa && ssaExpr(st.Val, 0) == keyExpr {
						same = true
					}
				}
			}
			return true
		})
		if same {
			r.OK(key, true, "registered under String() of the very bit set stored in chunk.entryBits")
		} else {
			// the chunk may have been fetched from the map under the same key before (existing entry re-stored)
			r.OK(key+" (key is an entry-bit string)", true, "registered under the string of an entry-bit set")
		}
	})
	if n < 3 {
		r.Fail("computeChunks chunk map inserts", p.Pos(cc.Pos()), "expected the JS/CSS chunk map inserts in computeChunks")
	}
	// (2) emission sites in findImportedPartsInJSOrder are guarded by entryBits.Equals
	// implies(v): whenever the boolean v is true, chunk.entryBits.Equals(file.EntryBits) was true.
	// Conjunctions narrow (fine), disjunctions must be strict on every alternative.
	var implies func(v ssa.Value, depth int) bool
	var pathImplies func(pred, blk *ssa.BasicBlock, depth int) bool
	busy := map[ssa.Value]bool{}
	implies = func(v ssa.Value, depth int) bool {
		if v == nil || depth > 16 {
			return false
		}
		if busy[v] {
			return true // co-inductive: a later store justified by the variable's own earlier truth
		}
		busy[v] = true
		defer func() { busy[v] = false }()
		switch x := v.(type) {
		case *ssa.Call:
			return strings.HasSuffix(calleeFullName(x), "helpers.BitSet).Equals")
		case *ssa.Const:
			return x.Value != nil && x.Value.String() == "false" // a constant false is never true
		case *ssa.Phi:
			for i, e := range x.Edges {
				if implies(e, depth+1) {
					continue
				}
				if !pathImplies(x.Block().Preds[i], x.Block(), depth+1) {
					return false
				}
			}
			return true
		case *ssa.UnOp:
			if cell := varCell(x.X); cell != nil {
				vals, ok := storesToCell(cell)
				if !ok || len(vals) == 0 {
					return false
				}
				// find the store instructions to know where each value is stored
				okAll := true
				var check func(fn *ssa.Function)
				check = func(fn *ssa.Function) {
					eachInstr(fn, func(b *ssa.BasicBlock, in ssa.Instruction) {
						st, isSt := in.(*ssa.Store)
						if !isSt || varCell(st.Addr) != cell {
							return
						}
						if implies(st.Val, depth+1) {
							return
						}
						for _, f := range factsAt(b) {
							if f.True && implies(f.Cond, depth+1) {
								return
							}
						}
						okAll = false
					})
					for _, a := range fn.AnonFuncs {
						check(a)
					}
				}
				check(cell.Parent())
				return okAll
			}
		}
		return false
	}
	pathImplies = func(pred, blk *ssa.BasicBlock, depth int) bool {
		for _, f := range factsAt(pred) {
			if f.True && implies(f.Cond, depth+1) {
				return true
			}
		}
		if len(pred.Instrs) > 0 {
			if ifi, ok := pred.Instrs[len(pred.Instrs)-1].(*ssa.If); ok && len(pred.Succs) == 2 && pred.Succs[0] == blk && pred.Succs[1] != blk {
				return implies(ifi.Cond, depth+1)
			}
		}
		return false
	}
	guardedBy := func(b *ssa.BasicBlock) bool {
		for _, f := range factsAt(b) {
			if f.True && implies(f.Cond, 0) {
				return true
			}
		}
		return false
	}
	emit := 0
	for _, fn := range withClosures(fi) {
		eachInstr(fn, func(b *ssa.BasicBlock, in ssa.Instruction) {
			c, ok := in.(*ssa.Call)
			if !ok || !strings.HasSuffix(calleeFullName(c), "linker.appendOrExtendPartRange") {
				return
			}
			emit++
			r.Instances++
			key := "findImportedPartsInJSOrder part emission"
			if guardedBy(b) {
				r.OK(key, true, "dominated by a condition derived from chunk.entryBits.Equals(file.EntryBits)")
			} else {
				r.Fail(key, p.Pos(c.Pos()), "a file's part can be emitted into a chunk without the entry-bit equality test: shared modules would be duplicated into several chunks and run once per chunk")
			}
		})
	}
	if emit < 2 {
		r.Fail("findImportedPartsInJSOrder emission sites", p.Pos(fi.Pos()), "expected appendOrExtendPartRange call sites")
	}
	r.Floor(5)
	return r
}

func c10CycleGuard(p *Prog) *RuleResult {
	r := NewRule("C10/R2 cycle-guard", "enforceNoCyclicChunkImports runs on every path of generateChunksInParallel and reports an error when it detects a cycle")
	gen := p.FindFunc("linker.(*linkerContext).generateChunksInParallel")
	guard := p.FindFunc("linker.(*linkerContext).enforceNoCyclicChunkImports")
	if !r.Anchor("linker.(*linkerContext).generateChunksInParallel", gen != nil) || !r.Anchor("linker.(*linkerContext).enforceNoCyclicChunkImports", guard != nil) {
		return r
	}
	r.Instances++
	guardBlocks := map[*ssa.BasicBlock]bool{}
	for _, c := range findCalls(gen, func(n string) bool { return strings.HasSuffix(n, "linkerContext).enforceNoCyclicChunkImports") }) {
		guardBlocks[c.Block()] = true
	}
	if len(guardBlocks) == 0 {
		r.Fail("generateChunksInParallel calls the cycle guard", p.Pos(gen.Pos()), "the chunk-import cycle check is no longer called")
	} else if path, bad := reachesExitAvoiding(gen.Blocks[0], func(b *ssa.BasicBlock) bool { return isReturnBlock(b) && b != gen.Recover }, func(b *ssa.BasicBlock) bool { return guardBlocks[b] }, false); bad {
		r.Fail("generateChunksInParallel calls the cycle guard", p.Pos(gen.Pos()), "output files can be returned without the chunk-import cycle check: "+blockPath(path))
	} else {
		r.OK("generateChunksInParallel calls the cycle guard", true, "every path to a return passes enforceNoCyclicChunkImports()")
	}
	r.Instances++
	logs := false
	for _, fn := range withClosures(guard) {
		eachInstr(fn, func(b *ssa.BasicBlock, in ssa.Instruction) {
			if isLogCall(in) {
				logs = true
			}
		})
	}
	if logs {
		r.OK("enforceNoCyclicChunkImports reports an error", true, "a detected cycle is logged as an error, so the build fails instead of emitting cyclic chunks")
	} else {
		r.Fail("enforceNoCyclicChunkImports reports an error", p.Pos(guard.Pos()), "the cycle check no longer reports anything")
	}
	return r
}
