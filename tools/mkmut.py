#!/usr/bin/env python3
"""usage: mkmut.py <name> <relfile> <old> <new> [<relfile2> <old2> <new2> ...]
Writes /verif/mutants/<name>.diff: a unified diff against /repo replacing the first occurrence of old by new."""
import sys, difflib, os
name = sys.argv[1]
args = sys.argv[2:]
out = []
for i in range(0, len(args), 3):
    rel, old, new = args[i:i+3]
    src = open(os.path.join('/repo', rel)).read()
    if old not in src:
        sys.exit(f"pattern not found in {rel}: {old[:60]!r}")
    dst = src.replace(old, new, 1)
    out += difflib.unified_diff(src.splitlines(True), dst.splitlines(True), 'a/' + rel, 'b/' + rel)
open(f'/verif/mutants/{name}.diff', 'w').write(''.join(out))
print('wrote', f'/verif/mutants/{name}.diff')
